(* MODEL file (no proofs): net.SplitHostPort, net.JoinHostPort and net.ParseIP
   (= netip.ParseAddr followed by "no zone") of go1.23.5, mirrored line by
   line over byte lists.  Only the success/failure of ParseIP is modelled: the
   anchored code never looks at the parsed value. *)
From Coq Require Import String Ascii NArith ZArith Bool List.
From Onet Require Import Base.HexC20 Addr.GoStr.
Import ListNotations.
Local Open Scope list_scope.

(* ---- net.SplitHostPort --------------------------------------------------------
   j, k := 0, 0
   i := LastIndexByte(hostport, ':');  i < 0 -> missing port
   if hostport[0] == '[' {
       end := IndexByte(hostport, ']');  end < 0 -> missing ']'
       switch end+1 { case len(hostport): missing port
                      case i:             ok
                      default:            hostport[end+1] == ':' ? too many colons : missing port }
       host = hostport[1:end];  j, k = 1, end+1
   } else { host = hostport[:i];  ':' in host -> too many colons }
   '[' in hostport[j:] -> error;  ']' in hostport[k:] -> error
   port = hostport[i+1:]                                                          *)
Definition split_host_port (hp : bytes) : res (bytes * bytes) :=
  match last_index_byte c_colon hp with
  | None => Err
  | Some i =>
      match hp with
      | [] => Crash                                   (* hostport[0] *)
      | c0 :: _ =>
          if Ascii.eqb c0 c_lbr then
            match index_byte c_rbr hp with
            | None => Err
            | Some e =>
                if Nat.eqb (S e) (length hp) then Err
                else if Nat.eqb (S e) i then
                  if has_byte c_lbr (skipn 1 hp) then Err
                  else if has_byte c_rbr (skipn (S e) hp) then Err
                  else Ok (firstn (e - 1) (skipn 1 hp), skipn (S i) hp)
                else match nth_error hp (S e) with    (* hostport[end+1] *)
                     | None => Crash
                     | Some _ => Err
                     end
            end
          else
            let host := firstn i hp in
            if has_byte c_colon host then Err
            else if has_byte c_lbr hp then Err
            else if has_byte c_rbr hp then Err
            else Ok (host, skipn (S i) hp)
      end
  end.

(* ---- net.JoinHostPort --------------------------------------------------------- *)
Definition join_host_port (host port : bytes) : bytes :=
  if has_byte c_colon host then c_lbr :: host ++ c_rbr :: c_colon :: port
  else host ++ c_colon :: port.

(* ---- netip.parseIPv4Fields ------------------------------------------------------
   val, pos, digLen; a dot is refused at i == 0, at i == len(s)-1 and after a dot. *)
Fixpoint ipv4_loop (s : bytes) (val pos diglen : N) (at_start prev_dot : bool) : bool :=
  match s with
  | [] => (3 <=? pos)%N                                  (* pos < 3: too short *)
  | c :: r =>
      if is_digit c then
        if ((diglen =? 1) && (val =? 0))%N then false      (* leading zero *)
        else let v := (10 * val + (code c - 48))%N in
             if (255 <? v)%N then false
             else ipv4_loop r v pos (diglen + 1)%N false false
      else if Ascii.eqb c c_dot then
        if at_start || (match r with [] => true | _ => false end) || prev_dot then false
        else if (pos =? 3)%N then false                  (* too long *)
        else ipv4_loop r 0%N (pos + 1)%N 0%N false true
      else false
  end.

Definition ipv4_fields_ok (s : bytes) : bool := ipv4_loop s 0 0 0 true false.

(* ---- netip.parseIPv6 ------------------------------------------------------------ *)
Definition hexdigit (c : ascii) : option N :=
  if is_digit c then Some (code c - 48)%N
  else if in_range 97 102 c then Some (code c - 87)%N
  else if in_range 65 70 c then Some (code c - 55)%N
  else None.

(* inner loop: up to 4 hex digits.  None = "more than 4 digits" / overflow;
   Some (off, rest) = off digits read, rest starts at the first non-digit. *)
Fixpoint hex_run (s : bytes) (off : nat) (acc : N) : option (nat * bytes) :=
  match s with
  | [] => Some (off, [])
  | c :: r =>
      match hexdigit c with
      | Some d =>
          let acc' := (acc * 16 + d)%N in
          if Nat.ltb 3 off then None
          else if (65535 <? acc')%N then None
          else hex_run r (S off) acc'
      | None => Some (off, s)
      end
  end.

(* result of the group loop: final i, ellipsis position, unparsed rest *)
Inductive v6state :=
| V6Fail
| V6Stop (i : N) (ell : option N) (rest : bytes).

(* the loop "for i < 16": i takes the values 0,2,..,14, so the recursion is on
   k = (16 - i) / 2, the number of 16-bit slots still free. *)
Fixpoint v6_loop (k : nat) (ell : option N) (s : bytes) : v6state :=
  match k with
  | O => V6Stop 16 ell s
  | S k' =>
      let i := (16 - 2 * N.of_nat k)%N in
      match hex_run s 0 0 with
      | None => V6Fail
      | Some (O, _) => V6Fail                             (* no digits *)
      | Some (S _, rest) =>
          match rest with
          | c :: r1 =>
              if Ascii.eqb c c_dot then
                (* embedded IPv4 *)
                if (match ell with None => true | Some _ => false end) && negb (i =? 12)%N then V6Fail
                else if (16 <? i + 4)%N then V6Fail
                else if ipv4_fields_ok s then V6Stop (i + 4) ell [] else V6Fail
              else if negb (Ascii.eqb c c_colon) then V6Fail   (* want colon *)
              else
                match r1 with
                | [] => V6Fail                              (* colon must be followed by more *)
                | c2 :: r2 =>
                    if Ascii.eqb c2 c_colon then
                      match ell with
                      | Some _ => V6Fail                      (* multiple :: *)
                      | None =>
                          match r2 with
                          | [] => V6Stop (i + 2) (Some (i + 2)%N) []
                          | _ => v6_loop k' (Some (i + 2)%N) r2
                          end
                      end
                    else v6_loop k' ell r1
                end
          | [] => V6Stop (i + 2) ell []
          end
      end
  end.

Inductive addr_kind := AddrV4 | AddrV6 (zone : bytes).

Definition parse_ipv6 (inp : bytes) : option addr_kind :=
  let '(s, zone, zone_err) :=
    match index_byte c_pct inp with
    | Some i => let z := skipn (S i) inp in
                (firstn i inp, z, match z with [] => true | _ => false end)
    | None => (inp, [], false)
    end in
  if zone_err then None else
  let '(ell0, s1, only_ellipsis) :=
    match s with
    | c1 :: c2 :: r => if Ascii.eqb c1 c_colon && Ascii.eqb c2 c_colon
                       then (Some 0%N, r, match r with [] => true | _ => false end)
                       else (None, s, false)
    | _ => (None, s, false)
    end in
  if only_ellipsis then Some (AddrV6 zone) else
  match v6_loop 8 ell0 s1 with
  | V6Fail => None
  | V6Stop i ell rest =>
      match rest with
      | _ :: _ => None                                       (* trailing garbage *)
      | [] =>
          if (i <? 16)%N then (match ell with None => None | Some _ => Some (AddrV6 zone) end)
          else (match ell with Some _ => None | None => Some (AddrV6 zone) end)
      end
  end.

(* netip.ParseAddr: the first of '.', ':', '%' decides *)
Fixpoint first_sep (s : bytes) : option ascii :=
  match s with
  | [] => None
  | c :: r => if Ascii.eqb c c_dot || Ascii.eqb c c_colon || Ascii.eqb c c_pct then Some c else first_sep r
  end.

Definition parse_addr (s : bytes) : option addr_kind :=
  match first_sep s with
  | Some c => if Ascii.eqb c c_dot then (if ipv4_fields_ok s then Some AddrV4 else None)
              else if Ascii.eqb c c_colon then parse_ipv6 s
              else None
  | None => None
  end.

(* net.ParseIP(s) != nil *)
Definition parse_ip_ok (s : bytes) : bool :=
  match parse_addr s with
  | Some AddrV4 => true
  | Some (AddrV6 []) => true
  | _ => false
  end.
