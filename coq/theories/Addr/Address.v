(* MODEL file (no proofs): network/address.go (Valid, ConnType, NetworkAddress,
   Host, Port, IsHostname, Resolve, NetworkAddressResolved, Public,
   validHostname), network/struct.go GlobalBind, network/tcp.go
   getListenAddress and websocket_client.go getWSHostPort of the pinned tree,
   over Go strings = byte lists, on top of the library fragments of
   Addr/GoStr.v and Addr/GoNet.v.

   A [variant] selects, per known defect, the pinned behaviour (false) or the
   documented / repaired one (true):
     fix_f23         getWSHostPort refuses port 65535 instead of wrapping to 0
     strict_brackets Valid refuses "[host]" when host has no colon          (F24)
     len253          validHostname keeps the 253 limit for a trailing dot   (N1)
     ascii_fold      validHostname lower-cases ASCII only                   (N2)
     fix_n3          getListenAddress rule 2 returns an error when the host-only
                     listen address joined with the port is not a host:port  (N3)
   [pinned] is the code as it is; [documented] is the code as documented. *)
From Coq Require Import String Ascii NArith ZArith Bool List.
From Onet Require Import Base.HexC20 Addr.GoStr Addr.GoNet.
Import ListNotations.
Local Open Scope list_scope.

Record variant := {
  fix_f23 : bool;
  strict_brackets : bool;
  len253 : bool;
  ascii_fold : bool;
  fix_n3 : bool
}.
Definition pinned : variant := Build_variant false false false false false.
Definition documented : variant := Build_variant true true true true true.
Definition with_f23 (b : bool) : variant := Build_variant b false false false false.

Definition sep : bytes := B "://".
Definition t_tcp : bytes := B "tcp".
Definition t_tls : bytes := B "tls".
Definition t_local : bytes := B "local".
Definition t_wrong : bytes := B "wrong".

(* connType *)
Definition conn_type_of (t : bytes) : bytes :=
  if bytes_eqb t t_tcp || bytes_eqb t t_tls || bytes_eqb t t_local then t else t_wrong.

(* ---- validHostname ------------------------------------------------------------ *)
Definition is_alnum (c : ascii) : bool := is_lower c || is_digit c.
Definition is_ldh (c : ascii) : bool := is_alnum c || Ascii.eqb c c_minus.

Fixpoint last_byte (s : bytes) : option ascii :=
  match s with
  | [] => None
  | [c] => Some c
  | _ :: r => last_byte r
  end.

(* [a-z0-9] | [a-z0-9][a-z0-9\-]*[a-z0-9] *)
Definition label_ok (l : bytes) : bool :=
  match l with
  | [] => false
  | c :: r => is_alnum c && forallb is_ldh r &&
              match last_byte r with
              | Some z => negb (Ascii.eqb z c_minus)
              | None => true
              end
  end.

(* [a-z]+ *)
Definition tld_ok (l : bytes) : bool :=
  match l with [] => false | _ => forallb is_lower l end.

(* the regular expression ^((label)\.)*([a-z]+)$ on the dot-separated fields *)
Fixpoint re_fields (h : bytes) (t : list bytes) : bool :=
  match t with
  | [] => tld_ok h
  | h' :: t' => label_ok h && re_fields h' t'
  end.

Definition regex_hostname (s : bytes) : bool :=
  let (h, t) := split_byte c_dot s in re_fields h t.

Definition fold_case (v : variant) (s : bytes) : bytes :=
  if ascii_fold v then map lower_ascii s else go_to_lower s.

Definition valid_hostname (v : variant) (s0 : bytes) : res bool :=
  match s0 with
  | [] => Ok false
  | _ =>
      let s1 := fold_case v s0 in
      match last_byte s1 with
      | None => Crash                                     (* s[len(s)-1] *)
      | Some c =>
          let dot := Ascii.eqb c c_dot in
          let maxlen := if dot && negb (len253 v) then 254 else 253 in
          let s := if dot then removelast s1 else s1 in
          if Nat.ltb maxlen (length s) then Ok false else
          let (h, t) := split_byte c_dot s in
          if existsb (fun e => Nat.ltb (length e) 1 || Nat.ltb 63 (length e)) (h :: t) then Ok false else
          if re_fields h t then Ok true
          else if Nat.eqb (count_byte c_dot s) 0 then Ok true else Ok false
      end
  end.

(* ---- Address.Valid --------------------------------------------------------------- *)
Definition valid (v : variant) (a : bytes) : res bool :=
  let (v0, rest) := split_sep sep a 0 in
  match rest with
  | [v1] =>
      if bytes_eqb (conn_type_of v0) t_wrong then Ok false else
      match split_host_port v1 with
      | Crash => Crash
      | Err => Ok false
      | Ok (ip, port) =>
          match atoi port with
          | None => Ok false
          | Some p =>
              if (p <? 0)%Z || (65535 <? p)%Z then Ok false else
              if strict_brackets v && has_prefix [c_lbr] v1 && negb (has_byte c_colon ip)
              then Ok false else
              match ip with
              | [] => Ok true
              | _ => if parse_ip_ok ip then Ok true else valid_hostname v ip
              end
          end
      end
  | _ => Ok false
  end.

(* ConnType *)
Definition conn_type (v : variant) (a : bytes) : res bytes :=
  bind (valid v a) (fun ok =>
  if negb ok then Ok t_wrong else
  let (v0, _) := split_sep sep a 0 in Ok (conn_type_of v0)).

(* NetworkAddress *)
Definition network_address (v : variant) (a : bytes) : res bytes :=
  bind (valid v a) (fun ok =>
  if negb ok then Ok [] else
  let (_, rest) := split_sep sep a 0 in
  match rest with
  | v1 :: _ => Ok v1
  | [] => Crash                                           (* vals[1] *)
  end).

Definition is_nil {A} (l : list A) : bool := match l with [] => true | _ => false end.

(* Host *)
Definition host (v : variant) (a : bytes) : res bytes :=
  bind (network_address v a) (fun na =>
  if is_nil na then Ok [] else
  bind (network_address v a) (fun na2 =>
  match split_host_port na2 with
  | Ok (h, _) => Ok h
  | Err => Ok []
  | Crash => Crash
  end)).

(* Port *)
Definition port (v : variant) (a : bytes) : res bytes :=
  bind (network_address v a) (fun na =>
  if is_nil na then Ok [] else
  match split_host_port na with
  | Ok (_, p) => Ok p
  | Err => Ok []
  | Crash => Crash
  end).

(* IsHostname *)
Definition is_hostname (v : variant) (a : bytes) : res bool :=
  bind (host v a) (fun h =>
  bind (valid_hostname v h) (fun vh => Ok (vh && negb (parse_ip_ok h)))).

(* Resolve; [lookup] is the resolver (lookupHost): None = error *)
Definition resolve (v : variant) (lookup : bytes -> option (list bytes)) (a : bytes) : res bytes :=
  bind (valid v a) (fun ok =>
  if negb ok then Ok [] else
  bind (host v a) (fun h =>
  if bytes_eqb h (B "[::]") then Ok (B "::") else
  if parse_ip_ok h then Ok h else
  bind (is_hostname v a) (fun ih =>
  if negb ih then Ok [] else
  match lookup h with
  | None => Ok []
  | Some (ip :: _) => Ok ip
  | Some [] => Crash                                      (* ipAddress[0] *)
  end))).

(* NetworkAddressResolved *)
Definition network_address_resolved (v : variant) lookup (a : bytes) : res bytes :=
  bind (valid v a) (fun ok =>
  if negb ok then Ok [] else
  bind (resolve v lookup a) (fun ip =>
  bind (port v a) (fun p => Ok (join_host_port ip p)))).

(* the regular expression of Public, a disjunction of anchored prefixes;
   ".{0,2}" is up to two characters other than newline (the subject is ASCII
   whenever it is non-empty: an IP literal, a resolver answer, a decimal port) *)
Definition not_nl (c : ascii) : bool := negb (Ascii.eqb c "010"%char).
Definition private_re (r : bytes) : bool :=
  has_prefix (B "127.") r || has_prefix (B "10.") r ||
  match r with
  | "1"%char :: "7"%char :: "2"%char :: "."%char :: a :: b :: "."%char :: _ =>
      (Ascii.eqb a "1"%char && in_range 54 57 b) ||
      (Ascii.eqb a "2"%char && is_digit b) ||
      (Ascii.eqb a "3"%char && in_range 48 49 b)
  | _ => false
  end ||
  has_prefix (B "192.168.") r || has_prefix (B "169.254") r || has_prefix (B "[::1]") r ||
  match r with
  | "["%char :: "f"%char :: "d"%char :: t =>
      match t with
      | ":"%char :: _ => true
      | _ => false
      end ||
      match t with
      | x :: ":"%char :: _ => not_nl x
      | _ => false
      end ||
      match t with
      | x :: y :: ":"%char :: _ => not_nl x && not_nl y
      | _ => false
      end
  | _ => false
  end.

(* Public *)
Definition public (v : variant) lookup (a : bytes) : res bool :=
  bind (network_address_resolved v lookup a) (fun r =>
  bind (valid v a) (fun ok => Ok (negb (private_re r) && ok))).

(* ---- GlobalBind, getListenAddress ------------------------------------------------- *)
Definition global_bind (address : bytes) : res bytes :=
  match split_host_port address with
  | Ok (_, p) => Ok (c_colon :: p)
  | Err => Err
  | Crash => Crash
  end.

Definition get_listen_address (v : variant) (addr listen : bytes) : res bytes :=
  bind (network_address v addr) (fun na =>
  if is_nil listen then global_bind na else
  match split_host_port na with
  | Crash => Crash
  | Err => Err
  | Ok (_, p) =>
      let (s0, srest) := split_byte c_colon listen in
      if is_nil srest && negb (is_nil p) then
        (if fix_n3 v then
           match split_host_port (s0 ++ c_colon :: p) with
           | Crash => Crash
           | Err => Err
           | Ok _ => Ok (s0 ++ c_colon :: p)
           end
         else Ok (s0 ++ c_colon :: p))
      else
      match split_host_port listen with
      | Crash => Crash
      | Err => Err
      | Ok (hl, pl) => if negb (is_nil hl) && negb (is_nil pl) then Ok listen else Err
      end
  end).

(* ---- net/url, only for URLs of the shape scheme "://" authority path ------------------
   scheme    = [a-zA-Z][a-zA-Z0-9+.-]*
   authority = [a-zA-Z0-9.:\[\]-]*          (no user info, no escapes)
   path      = "" | "/" [a-zA-Z0-9/._~-]*   (no query, no fragment)
   Anything else is [UOut]: not modelled, compared by nobody. *)
Inductive url_res :=
| UOut
| UErr
| UOk (scheme host : bytes).

Definition is_alpha (c : ascii) : bool := is_lower c || is_upper c.
Definition scheme_char (c : ascii) : bool :=
  is_alpha c || is_digit c || Ascii.eqb c c_plus || Ascii.eqb c c_minus || Ascii.eqb c c_dot.
Definition auth_char (c : ascii) : bool :=
  is_alpha c || is_digit c || Ascii.eqb c c_dot || Ascii.eqb c c_minus ||
  Ascii.eqb c c_colon || Ascii.eqb c c_lbr || Ascii.eqb c c_rbr.
Definition path_char (c : ascii) : bool :=
  is_alpha c || is_digit c || Ascii.eqb c c_slash || Ascii.eqb c c_dot ||
  Ascii.eqb c "_"%char || Ascii.eqb c "~"%char || Ascii.eqb c c_minus.

(* validOptionalPort: "" or ":" digits* *)
Definition valid_optional_port (p : bytes) : bool :=
  match p with
  | [] => true
  | c :: r => Ascii.eqb c c_colon && forallb is_digit r
  end.

(* parseHost without escapes: true = accepted *)
Definition url_parse_host (h : bytes) : bool :=
  if has_prefix [c_lbr] h then
    match last_index_byte c_rbr h with
    | None => false
    | Some i => valid_optional_port (skipn (S i) h)
    end
  else
    match last_index_byte c_colon h with
    | None => true
    | Some i => valid_optional_port (skipn i h)
    end.

Definition url_parse (u : bytes) : url_res :=
  match index_byte c_colon u with
  | None => UOut
  | Some i =>
      let scheme := firstn i u in
      let rest := skipn (S i) u in
      match scheme with
      | [] => UOut
      | c :: _ =>
          if negb (is_alpha c && forallb scheme_char scheme) then UOut else
          match rest with
          | "/"%char :: "/"%char :: r2 =>
              let (authority, path) :=
                match index_byte c_slash r2 with
                | Some j => (firstn j r2, skipn j r2)
                | None => (r2, [])
                end in
              if negb (forallb auth_char authority && forallb path_char path) then UOut else
              if url_parse_host authority then UOk (map lower_ascii scheme) authority else UErr
          | _ => UOut
          end
      end
  end.

(* url.splitHostPort (Hostname / Port) *)
Definition url_split_host_port (hp : bytes) : bytes * bytes :=
  let (h, p) :=
    match last_index_byte c_colon hp with
    | Some i => if valid_optional_port (skipn i hp) then (firstn i hp, skipn (S i) hp) else (hp, [])
    | None => (hp, [])
    end in
  match h with
  | c :: r => if Ascii.eqb c c_lbr && (match last_byte h with Some z => Ascii.eqb z c_rbr | None => false end)
              then (removelast r, p) else (h, p)
  | [] => (h, p)
  end.

Definition scheme_to_port (s : bytes) : option N :=
  if bytes_eqb s (B "http") then Some 80%N
  else if bytes_eqb s (B "https") then Some 443%N
  else None.

(* ---- getWSHostPort ------------------------------------------------------------------- *)
Inductive ws_res :=
| WOk (hostport : bytes)
| WErr
| WCrash
| WUnmodelled.

Definition ws_finish (global : bool) (hostname : bytes) (p : N) : ws_res :=
  let hn := if global then B "0.0.0.0" else hostname in
  WOk (join_host_port hn (format_uint p)).

Definition get_ws_host_port (v : variant) (addr url : bytes) (global : bool) : ws_res :=
  match url with
  | _ :: _ =>
      match url_parse url with
      | UOut => WUnmodelled
      | UErr => WErr
      | UOk scheme h =>
          match scheme_to_port scheme with
          | None => WErr
          | Some pp =>
              let (hn, ps) := url_split_host_port h in
              match ps with
              | [] => ws_finish global hn pp
              | _ => match parse_uint16 ps with
                     | None => WErr
                     | Some p => ws_finish global hn p
                     end
              end
          end
      end
  | [] =>
      match port v addr with
      | Crash => WCrash
      | Err => WErr
      | Ok ps =>
          match parse_uint16 ps with
          | None => WErr
          | Some p =>
              if fix_f23 v && (p =? 65535)%N then WErr else
              match host v addr with
              | Crash => WCrash
              | Err => WErr
              | Ok hn => ws_finish global hn ((p + 1) mod 65536)%N   (* uint16(portRaw + 1) *)
              end
          end
      end
  end.
