(* PROOF file: facts about the library fragments of Addr/GoStr.v. *)
From Coq Require Import String Ascii NArith ZArith Bool List Lia.
From Onet Require Import Base.HexC20 Addr.GoStr Addr.Grammar.
Import ListNotations.
Local Open Scope list_scope.

Lemma aeqb_true x y : Ascii.eqb x y = true <-> x = y.
Proof. apply Ascii.eqb_eq. Qed.

Lemma aeqb_false x y : Ascii.eqb x y = false <-> x <> y.
Proof. apply Ascii.eqb_neq. Qed.

Lemma aeqb_refl x : Ascii.eqb x x = true.
Proof. apply Ascii.eqb_refl. Qed.

(* ---- index_byte / last_index_byte -------------------------------------------------- *)
Lemma index_byte_None c s : index_byte c s = None <-> ~ In c s.
Proof.
  induction s as [|x r IH]; simpl.
  - split; [intros _ []|reflexivity].
  - destruct (Ascii.eqb x c) eqn:E.
    + apply aeqb_true in E. subst. split; [discriminate|intros H; exfalso; apply H; auto].
    + apply aeqb_false in E. destruct (index_byte c r) eqn:F.
      * split; [discriminate|]. intros H. exfalso. destruct IH as [_ IH].
        assert (Some n = None) by (apply IH; intros G; apply H; auto). discriminate.
      * split; [|reflexivity]. intros _ [G|G]; [congruence|]. now apply IH.
Qed.

Lemma index_byte_Some c s i : index_byte c s = Some i ->
  exists u w, s = u ++ c :: w /\ length u = i /\ ~ In c u.
Proof.
  revert i; induction s as [|x r IH]; simpl; intros i H; [discriminate|].
  destruct (Ascii.eqb x c) eqn:E.
  - apply aeqb_true in E. subst. inversion H; subst. exists [], r. simpl. auto.
  - apply aeqb_false in E. destruct (index_byte c r) eqn:F; [|discriminate].
    inversion H; subst. destruct (IH n eq_refl) as (u & w & -> & L & NI).
    exists (x :: u), w. simpl. repeat split; auto. intros [G|G]; auto.
Qed.

Lemma index_byte_app c u w : ~ In c u -> index_byte c (u ++ c :: w) = Some (length u).
Proof.
  induction u as [|x u IH]; simpl; intros H.
  - now rewrite aeqb_refl.
  - destruct (Ascii.eqb x c) eqn:E.
    + apply aeqb_true in E. exfalso; apply H; auto.
    + rewrite IH; auto.
Qed.

Lemma last_index_byte_None c s : last_index_byte c s = None <-> ~ In c s.
Proof.
  induction s as [|x r IH]; simpl.
  - split; [intros _ []|reflexivity].
  - destruct (last_index_byte c r) eqn:F.
    + split; [discriminate|]. intros H. exfalso. destruct IH as [_ IH].
      assert (Some n = None) by (apply IH; intros G; apply H; auto). discriminate.
    + destruct (Ascii.eqb x c) eqn:E.
      * apply aeqb_true in E. subst. split; [discriminate|intros H; exfalso; apply H; auto].
      * apply aeqb_false in E. split; [|reflexivity]. intros _ [G|G]; [congruence|]. now apply IH.
Qed.

Lemma last_index_byte_Some c s i : last_index_byte c s = Some i ->
  exists u w, s = u ++ c :: w /\ length u = i /\ ~ In c w.
Proof.
  revert i; induction s as [|x r IH]; simpl; intros i H; [discriminate|].
  destruct (last_index_byte c r) eqn:F.
  - inversion H; subst. destruct (IH n eq_refl) as (u & w & -> & L & NI).
    exists (x :: u), w. simpl. auto.
  - destruct (Ascii.eqb x c) eqn:E; [|discriminate].
    apply aeqb_true in E. subst. inversion H; subst. exists [], r. simpl.
    repeat split; auto. now apply last_index_byte_None.
Qed.

Lemma last_index_byte_app c u w : ~ In c w -> last_index_byte c (u ++ c :: w) = Some (length u).
Proof.
  intros H. induction u as [|x u IH]; simpl.
  - apply last_index_byte_None in H. rewrite H. now rewrite aeqb_refl.
  - now rewrite IH.
Qed.

Lemma has_byte_In c s : has_byte c s = true <-> In c s.
Proof.
  unfold has_byte. destruct (index_byte c s) eqn:E.
  - split; auto. intros _. destruct (index_byte_Some _ _ _ E) as (u & w & -> & _ & _).
    apply in_or_app; right; left; auto.
  - apply index_byte_None in E. split; [discriminate|contradiction].
Qed.

Lemma has_byte_false c s : has_byte c s = false <-> ~ In c s.
Proof.
  rewrite <- has_byte_In. destruct (has_byte c s); split; congruence.
Qed.

Lemma firstn_app_len {A} (u w : list A) : firstn (length u) (u ++ w) = u.
Proof.
  replace (length u) with (length u + 0) by lia.
  rewrite firstn_app_2. simpl. apply app_nil_r.
Qed.

Lemma skipn_app_len {A} (u w : list A) : skipn (length u) (u ++ w) = w.
Proof.
  induction u; simpl; auto.
Qed.

Lemma skipn_S_app_len {A} (u : list A) x w : skipn (S (length u)) (u ++ x :: w) = w.
Proof.
  induction u; simpl; auto.
Qed.

(* ---- has_prefix -------------------------------------------------------------------- *)
Lemma has_prefix_spec p s : has_prefix p s = true <-> exists w, s = p ++ w.
Proof.
  revert s; induction p as [|x p IH]; intros s; simpl.
  - split; eauto.
  - destruct s as [|y s].
    + split; [discriminate|intros (w & H); discriminate].
    + rewrite andb_true_iff, aeqb_true, IH. split.
      * intros (-> & w & ->). eauto.
      * intros (w & H). inversion H; subst. eauto.
Qed.

(* ---- count_byte, split_byte ---------------------------------------------------------- *)
Lemma count_byte_0 c s : count_byte c s = 0 <-> ~ In c s.
Proof.
  induction s as [|x r IH]; simpl.
  - split; auto.
  - destruct (Ascii.eqb x c) eqn:E.
    + apply aeqb_true in E. subst. split; [discriminate|intros H; exfalso; apply H; auto].
    + apply aeqb_false in E. rewrite IH. split.
      * intros H [G|G]; auto.
      * intros H G; apply H; auto.
Qed.

Lemma split_byte_notin c s : ~ In c s -> split_byte c s = (s, []).
Proof.
  induction s as [|x r IH]; simpl; intros H; auto.
  rewrite IH by (intros G; apply H; auto).
  destruct (Ascii.eqb x c) eqn:E; auto.
  apply aeqb_true in E. exfalso; apply H; auto.
Qed.

Lemma split_byte_join c s (h : bytes) (t : list bytes) : split_byte c s = (h, t) ->
  s = sepjoin c (h :: t) /\ Forall (fun l : bytes => ~ In c l) (h :: t).
Proof.
  revert h t; induction s as [|x r IH]; simpl; intros h t H.
  - inversion H; subst. simpl. auto.
  - destruct (split_byte c r) as [h' t'] eqn:S. destruct (IH h' t' eq_refl) as [J F].
    destruct (Ascii.eqb x c) eqn:E; inversion H; clear H; subst h t.
    + apply aeqb_true in E. subst x. split.
      * rewrite J. reflexivity.
      * constructor; auto.
    + apply aeqb_false in E. inversion F; subst. split.
      * destruct t'; reflexivity.
      * constructor; auto. intros [G|G]; auto.
Qed.

Lemma split_byte_nil_iff c s h : split_byte c s = (h, []) <-> (h = s /\ ~ In c s).
Proof.
  split.
  - intros H. destruct (split_byte_join _ _ _ _ H) as [J F]. simpl in J. inversion F; subst. auto.
  - intros [-> NI]. now apply split_byte_notin.
Qed.

Lemma split_byte_sepjoin c (h : bytes) (t : list bytes) : Forall (fun l : bytes => ~ In c l) (h :: t) ->
  split_byte c (sepjoin c (h :: t)) = (h, t).
Proof.
  revert h; induction t as [|x t IH]; intros h F.
  - simpl. inversion F; subst. now apply split_byte_notin.
  - inversion F; subst. specialize (IH x H2).
    change (sepjoin c (h :: x :: t)) with (h ++ c :: sepjoin c (x :: t)).
    remember (sepjoin c (x :: t)) as R. clear F HeqR. revert H1.
    induction h as [|y h IHh]; intros H1; cbn [app split_byte].
    + rewrite IH. now rewrite aeqb_refl.
    + rewrite IHh by (intros G; apply H1; right; auto).
      destruct (Ascii.eqb y c) eqn:E; auto.
      apply aeqb_true in E. exfalso; apply H1; left; auto.
Qed.

(* ---- split_sep ------------------------------------------------------------------------ *)
Lemma NoSub_tail sub x s : NoSub sub (x :: s) -> NoSub sub s.
Proof.
  intros H (u & w & ->). apply H. exists (x :: u), w. reflexivity.
Qed.

Lemma NoSub_prefix_false sub s : sub <> [] -> NoSub sub s -> has_prefix sub s = false.
Proof.
  intros _ H. destruct (has_prefix sub s) eqn:E; auto.
  apply has_prefix_spec in E. destruct E as (w & ->). exfalso. apply H. exists [], w. reflexivity.
Qed.

Lemma split_sep_skip sub pre s : split_sep sub (pre ++ s) (length pre) = split_sep sub s 0.
Proof.
  induction pre as [|x pre IH]; simpl; auto.
Qed.

Lemma split_sep_nosub sub s : sub <> [] -> NoSub sub s -> split_sep sub s 0 = (s, []).
Proof.
  intros NE. induction s as [|x r IH]; intros H; [reflexivity|].
  cbn [split_sep]. rewrite (NoSub_prefix_false sub (x :: r) NE H).
  rewrite IH by (eapply NoSub_tail; eauto). reflexivity.
Qed.

(* the first field and the rest *)
Lemma split_sep_cons sub s h x t : sub <> [] -> split_sep sub s 0 = (h, x :: t) ->
  exists rest, s = h ++ sub ++ rest /\ split_sep sub rest 0 = (x, t) /\
               (forall k, k < length h -> has_prefix sub (skipn k s) = false).
Proof.
  intros NE. revert h; induction s as [|y r IH]; intros h H; [discriminate|].
  cbn [split_sep] in H. destruct (has_prefix sub (y :: r)) eqn:P.
  - apply has_prefix_spec in P. destruct P as (w & P).
    destruct sub as [|s0 sub']; [congruence|]. simpl in P. inversion P; subst y r.
    replace (length (s0 :: sub') - 1) with (length sub') in H by (simpl; lia).
    rewrite split_sep_skip in H. destruct (split_sep (s0 :: sub') w 0) as [h' t'] eqn:S.
    inversion H; subst. exists w. repeat split; auto. simpl. intros k Hk; lia.
  - destruct (split_sep sub r 0) as [h' t'] eqn:S. inversion H; subst.
    destruct (IH h' eq_refl) as (rest & -> & S2 & NP). exists rest. repeat split; auto.
    intros k Hk. destruct k; [exact P|]. simpl. apply NP. simpl in Hk. lia.
Qed.

Lemma split_sep_nil sub s h : sub <> [] -> split_sep sub s 0 = (h, []) -> h = s /\ NoSub sub s.
Proof.
  intros NE. revert h; induction s as [|y r IH]; intros h H.
  - inversion H. split; auto. intros (u & w & E). destruct u; destruct sub; try discriminate; congruence.
  - cbn [split_sep] in H. destruct (has_prefix sub (y :: r)) eqn:P.
    + destruct (split_sep sub r (length sub - 1)); discriminate.
    + destruct (split_sep sub r 0) as [h' t'] eqn:S. inversion H; subst.
      destruct (IH h' eq_refl) as [-> NS]. split; auto.
      intros (u & w & E). destruct u as [|u0 u].
      * simpl in E. assert (has_prefix sub (y :: r) = true) by (apply has_prefix_spec; eauto). congruence.
      * simpl in E. inversion E; subst. apply NS. eauto.
Qed.

(* ---- decimal numbers -------------------------------------------------------------------- *)
Lemma digits_val_spec s acc :
  digits_val s acc = (if forallb is_digit s
                      then Some (fold_left (fun a c => (10 * a + (code c - 48))%N) s acc) else None).
Proof.
  revert acc; induction s as [|c r IH]; intros acc; simpl; auto.
  destruct (is_digit c); simpl; auto.
Qed.

Lemma all_forallb p s : all p s <-> forallb p s = true.
Proof.
  unfold all. rewrite forallb_forall, Forall_forall. tauto.
Qed.

Lemma digits_val_Some s n : digits_val s 0 = Some n <-> (all is_digit s /\ dec_value s = n).
Proof.
  rewrite digits_val_spec, all_forallb. unfold dec_value.
  destruct (forallb is_digit s); split; try intros [? ?]; try congruence; try discriminate.
  - intros H; inversion H; auto.
Qed.

Lemma is_digit_not_sign c : is_digit c = true -> c <> c_minus /\ c <> c_plus.
Proof.
  intros H; split; intros ->; vm_compute in H; discriminate.
Qed.

(* strconv.Atoi accepts exactly the ports of the grammar, with their value *)
Lemma atoi_port p : (exists z, atoi p = Some z /\ (0 <= z <= 65535)%Z) <-> PortG p.
Proof.
  split.
  - intros (z & H & R). unfold atoi in H. destruct p as [|c r]; [discriminate|]. cbv zeta in H.
    destruct (Ascii.eqb c c_minus) eqn:Em; cbn [orb] in H.
    + apply aeqb_true in Em. subst c. destruct r as [|d r']; [discriminate|].
      destruct (digits_val (d :: r') 0) as [n|] eqn:D; [|discriminate].
      apply digits_val_Some in D. destruct D as [A V].
      destruct (n <=? 9223372036854775808)%N; [|discriminate]. inversion H; subst z.
      assert (n = 0%N) by lia. exists (B "-"), (d :: r'). repeat split; auto; try discriminate.
      * rewrite V. lia.
      * right; right. split; auto. congruence.
    + destruct (Ascii.eqb c c_plus) eqn:Ep; cbn [orb] in H.
      * apply aeqb_true in Ep. subst c. destruct r as [|d r']; [discriminate|].
        destruct (digits_val (d :: r') 0) as [n|] eqn:D; [|discriminate].
        apply digits_val_Some in D. destruct D as [A V].
        destruct (n <? 9223372036854775808)%N; [|discriminate]. inversion H; subst z.
        exists (B "+"), (d :: r'). repeat split; auto; try discriminate. rewrite V. lia.
      * destruct (digits_val (c :: r) 0) as [n|] eqn:D; [|discriminate].
        apply digits_val_Some in D. destruct D as [A V].
        destruct (n <? 9223372036854775808)%N; [|discriminate]. inversion H; subst z.
        exists [], (c :: r). repeat split; auto; try discriminate. rewrite V. lia.
  - intros (sign & ds & -> & [NE A] & V & S).
    assert (D : digits_val ds 0 = Some (dec_value ds)) by (apply digits_val_Some; auto).
    destruct ds as [|d ds']; [congruence|].
    destruct S as [-> | [-> | [-> Z0]]].
    + simpl app. unfold atoi.
      assert (Hd : is_digit d = true) by (inversion A; auto).
      destruct (is_digit_not_sign d Hd) as [N1 N2].
      apply aeqb_false in N1, N2. rewrite N1, N2. simpl orb. cbv iota. rewrite D.
      destruct (dec_value (d :: ds') <? 9223372036854775808)%N eqn:L; [|apply N.ltb_ge in L; lia].
      eexists; split; eauto. lia.
    + simpl app. unfold atoi. change (Ascii.eqb "+"%char c_minus) with false.
      change (Ascii.eqb "+"%char c_plus) with true. simpl orb. cbv iota. rewrite D.
      destruct (dec_value (d :: ds') <? 9223372036854775808)%N eqn:L; [|apply N.ltb_ge in L; lia].
      eexists; split; eauto. lia.
    + simpl app. unfold atoi. change (Ascii.eqb "-"%char c_minus) with true. simpl orb. cbv iota. rewrite D.
      rewrite Z0. simpl. eexists; split; eauto. lia.
Qed.

(* strconv.ParseUint(s,10,16) *)
Lemma parse_uint16_Some s n : parse_uint16 s = Some n <-> (Digits s /\ dec_value s = n /\ (n <= 65535)%N).
Proof.
  unfold parse_uint16, Digits. destruct s as [|c r].
  - split; [discriminate|]. intros [[H _] _]. congruence.
  - destruct (digits_val (c :: r) 0) as [m|] eqn:D.
    + apply digits_val_Some in D. destruct D as [A V]. destruct (m <=? 65535)%N eqn:L.
      * apply N.leb_le in L. split.
        -- intros H; inversion H; subst. repeat split; auto. discriminate.
        -- intros (_ & V' & _). congruence.
      * apply N.leb_gt in L. split; [discriminate|]. intros (_ & V' & L'). rewrite V in V'. subst. lia.
    + split; [discriminate|]. intros ([_ A] & V & _).
      assert (digits_val (c :: r) 0 = Some n) by (apply digits_val_Some; auto). congruence.
Qed.
