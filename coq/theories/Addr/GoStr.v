(* MODEL file (no proofs): the fragments of Go's standard library (go1.23.5)
   that network/address.go, network/tcp.go, network/struct.go and
   websocket_client.go call, over Go strings = byte lists.

     bytealg.IndexByteString / LastIndexByteString     index_byte / last_index_byte
     strings.Split (one-byte and general separator)    split_byte / split_sep
     strings.Count (one-byte), strings.HasPrefix       count_byte / has_prefix
     strings.ToLower (ASCII fast path + strings.Map over unicode.ToLower,
        UTF-8 decoding with RuneError for invalid bytes) go_to_lower
     strconv.Atoi, strconv.ParseUint(_,10,16), strconv.FormatUint(_,10)

   Every function mirrors the control flow of the Go source; they are tied to
   the real library only by the correspondence check (CStd cases). *)
From Coq Require Import String Ascii DecimalString NArith ZArith Bool List.
From Onet Require Import Base.HexC20 Addr.UnicodeCase.
Import ListNotations.
Local Open Scope list_scope.

(* result of a Go call: value, error (class only), or panic *)
Inductive res (A : Type) : Type :=
| Ok (a : A)
| Err
| Crash.
Arguments Ok {A} a.
Arguments Err {A}.
Arguments Crash {A}.

Definition bind {A B} (r : res A) (f : A -> res B) : res B :=
  match r with Ok a => f a | Err => Err | Crash => Crash end.

Definition code (c : ascii) : N := N_of_ascii c.
Definition chr (n : N) : ascii := ascii_of_N n.

Definition in_range (lo hi : N) (c : ascii) : bool := ((lo <=? code c) && (code c <=? hi))%N.
Definition is_digit (c : ascii) : bool := in_range 48 57 c.          (* '0'..'9' *)
Definition is_lower (c : ascii) : bool := in_range 97 122 c.         (* 'a'..'z' *)
Definition is_upper (c : ascii) : bool := in_range 65 90 c.          (* 'A'..'Z' *)
Definition is_ascii (c : ascii) : bool := (code c <? 128)%N.         (* c < utf8.RuneSelf *)

Definition c_colon : ascii := ":"%char.   (* ':' *)
Definition c_dot : ascii := "."%char.     (* '.' *)
Definition c_lbr : ascii := "["%char.     (* '[' *)
Definition c_rbr : ascii := "]"%char.     (* ']' *)
Definition c_pct : ascii := "%"%char.     (* '%' *)
Definition c_minus : ascii := "-"%char.   (* '-' *)
Definition c_plus : ascii := "+"%char.    (* '+' *)
Definition c_slash : ascii := "/"%char.   (* '/' *)

(* ---- bytealg --------------------------------------------------------------- *)

Fixpoint index_byte (c : ascii) (s : bytes) : option nat :=
  match s with
  | [] => None
  | x :: r => if Ascii.eqb x c then Some O
              else match index_byte c r with Some i => Some (S i) | None => None end
  end.

Fixpoint last_index_byte (c : ascii) (s : bytes) : option nat :=
  match s with
  | [] => None
  | x :: r => match last_index_byte c r with
              | Some i => Some (S i)
              | None => if Ascii.eqb x c then Some O else None
              end
  end.

Definition has_byte (c : ascii) (s : bytes) : bool :=
  match index_byte c s with Some _ => true | None => false end.

(* ---- strings ---------------------------------------------------------------- *)

Fixpoint has_prefix (p s : bytes) : bool :=
  match p, s with
  | [], _ => true
  | x :: p', y :: s' => Ascii.eqb x y && has_prefix p' s'
  | _ :: _, [] => false
  end.

Fixpoint count_byte (c : ascii) (s : bytes) : nat :=
  match s with
  | [] => O
  | x :: r => if Ascii.eqb x c then S (count_byte c r) else count_byte c r
  end.

(* strings.Split(s, string(c)): the result is never empty, so it is returned
   as (first field, remaining fields). *)
Fixpoint split_byte (c : ascii) (s : bytes) : bytes * list bytes :=
  match s with
  | [] => ([], [])
  | x :: r => let (h, t) := split_byte c r in
              if Ascii.eqb x c then ([], h :: t) else (x :: h, t)
  end.

(* strings.Split(s, sep) for a non-empty separator: leftmost, non-overlapping
   occurrences.  [skip] counts the bytes of the occurrence just matched that
   are still to be dropped.  Call with skip = 0. *)
Fixpoint split_sep (sep s : bytes) (skip : nat) : bytes * list bytes :=
  match s with
  | [] => ([], [])
  | x :: r =>
      match skip with
      | S k => split_sep sep r k
      | O => if has_prefix sep s
             then let (h, t) := split_sep sep r (length sep - 1) in ([], h :: t)
             else let (h, t) := split_sep sep r 0 in (x :: h, t)
      end
  end.

Definition lower_ascii (c : ascii) : ascii := if is_upper c then chr (code c + 32) else c.

(* ---- unicode / utf8 (for strings.ToLower on non-ASCII input) ------------------ *)

Definition rune_error : N := 65533.   (* U+FFFD *)

Definition cont (c : ascii) : bool := in_range 128 191 c.   (* 10xxxxxx *)
Definition low6 (c : ascii) : N := N.land (code c) 63.

(* utf8.DecodeRuneInString: (rune, width); invalid or short encodings give
   (RuneError, 1).  The accepted second-byte ranges are those of the
   library's acceptRanges table. *)
Definition decode_rune (s : bytes) : N * nat :=
  match s with
  | [] => (rune_error, O)
  | b0 :: r =>
      let n0 := code b0 in
      if (n0 <? 128)%N then (n0, 1%nat)
      else if in_range 194 223 b0 then
        match r with
        | b1 :: _ => if cont b1 then (N.land n0 31 * 64 + low6 b1, 2%nat)%N else (rune_error, 1%nat)
        | _ => (rune_error, 1%nat)
        end
      else if in_range 224 239 b0 then
        match r with
        | b1 :: b2 :: _ =>
            let lo := if (n0 =? 224)%N then 160%N else 128%N in
            let hi := if (n0 =? 237)%N then 159%N else 191%N in
            if in_range lo hi b1 && cont b2
            then ((N.land n0 15 * 64 + low6 b1) * 64 + low6 b2, 3%nat)%N else (rune_error, 1%nat)
        | _ => (rune_error, 1%nat)
        end
      else if in_range 240 244 b0 then
        match r with
        | b1 :: b2 :: b3 :: _ =>
            let lo := if (n0 =? 240)%N then 144%N else 128%N in
            let hi := if (n0 =? 244)%N then 143%N else 191%N in
            if in_range lo hi b1 && cont b2 && cont b3
            then (((N.land n0 7 * 64 + low6 b1) * 64 + low6 b2) * 64 + low6 b3, 4%nat)%N
            else (rune_error, 1%nat)
        | _ => (rune_error, 1%nat)
        end
      else (rune_error, 1%nat)
  end.

(* utf8.AppendRune *)
Definition encode_rune (r : N) : bytes :=
  (if r <=? 127 then [chr r]
   else if r <=? 2047 then [chr (192 + r / 64); chr (128 + N.land r 63)]
   else if (1114111 <? r) || ((55296 <=? r) && (r <=? 57343)) then [chr 239; chr 191; chr 189]
   else if r <=? 65535 then [chr (224 + r / 4096); chr (128 + N.land (r / 64) 63); chr (128 + N.land r 63)]
   else [chr (240 + r / 262144); chr (128 + N.land (r / 4096) 63);
         chr (128 + N.land (r / 64) 63); chr (128 + N.land r 63)])%N.

Fixpoint lookup_lower (tbl : list (N * N * option Z)) (r : N) : N :=
  match tbl with
  | [] => r
  | (lo, hi, d) :: rest =>
      if ((lo <=? r) && (r <=? hi))%N then
        match d with
        | Some z => Z.to_N (Z.of_N r + z)
        | None => (lo + (2 * ((r - lo) / 2) + 1))%N   (* lo + (((r-lo) &^ 1) | 1) *)
        end
      else lookup_lower rest r
  end.

(* unicode.ToLower *)
Definition unicode_lower (r : N) : N :=
  if (r <=? 127)%N then (if ((65 <=? r) && (r <=? 90))%N then r + 32 else r)%N
  else lookup_lower lower_ranges r.

(* strings.Map(unicode.ToLower, s): every decoded rune (an invalid byte decodes
   to RuneError, width 1) is replaced by the encoding of its lower case. *)
Fixpoint lower_bytes (s : bytes) (skip : nat) : bytes :=
  match s with
  | [] => []
  | _ :: r =>
      match skip with
      | S k => lower_bytes r k
      | O => let (rn, w) := decode_rune s in
             encode_rune (unicode_lower rn) ++ lower_bytes r (w - 1)
      end
  end.

(* strings.ToLower *)
Definition go_to_lower (s : bytes) : bytes :=
  if forallb is_ascii s then map lower_ascii s else lower_bytes s 0.

(* ---- strconv ---------------------------------------------------------------- *)

Fixpoint digits_val (s : bytes) (acc : N) : option N :=
  match s with
  | [] => Some acc
  | c :: r => if is_digit c then digits_val r (10 * acc + (code c - 48))%N else None
  end.

(* strconv.Atoi on a 64-bit platform: [None] is any error (syntax or range). *)
Definition atoi (s : bytes) : option Z :=
  match s with
  | [] => None
  | c :: r =>
      let neg := Ascii.eqb c c_minus in
      let ds := if neg || Ascii.eqb c c_plus then r else s in
      match ds with
      | [] => None
      | _ => match digits_val ds 0 with
             | None => None
             | Some n =>
                 if neg then (if (n <=? 9223372036854775808)%N then Some (- Z.of_N n)%Z else None)
                 else (if (n <? 9223372036854775808)%N then Some (Z.of_N n) else None)
             end
      end
  end.

(* strconv.ParseUint(s, 10, 16): no sign, no underscore, value <= 65535 *)
Definition parse_uint16 (s : bytes) : option N :=
  match s with
  | [] => None
  | _ => match digits_val s 0 with
         | Some n => if (n <=? 65535)%N then Some n else None
         | None => None
         end
  end.

(* strconv.FormatUint(n, 10) *)
Definition format_uint (n : N) : bytes :=
  list_ascii_of_string (NilZero.string_of_uint (N.to_uint n)).
