(* PROOF file: the boolean checker of Corr/C20.v (evaluated on the implementation's
   observations) says what the property says. *)
From Coq Require Import String Ascii NArith ZArith Bool List Lia.
From Onet Require Import Base.HexC20 Addr.GoStr Addr.GoNet Addr.Address Addr.Grammar
  Addr.GoStrProofs Addr.GoNetProofs Addr.ParseIPProofs Addr.AddressProofs Corr.C20.
Import ListNotations.
Local Open Scope list_scope.

Lemma clause_in n b k : In k (clause n b) <-> (b = false /\ k = n).
Proof.
  unfold clause. destruct b; simpl.
  - split; [tauto|]. intros [E _]. discriminate E.
  - split.
    + intros [E|[]]. auto.
    + intros [_ ->]. auto.
Qed.

(* clause 1 is raised exactly when the observed Valid() differs from membership in the
   documented grammar *)
Theorem check_clause1 a o : o_panic o = false ->
  (~ In 1 (check_addr a o) <-> (o_valid o = true <-> AddressG Documented a)).
Proof.
  intros NP. unfold check_addr. rewrite NP. cbn [negb clause app].
  destruct (valid_bool documented a) as (b & V). rewrite V.
  assert (G : b = true <-> AddressG Documented a).
  { rewrite <- (valid_iff_grammar documented a). rewrite V. split; [intros ->; reflexivity|intros H; inversion H; reflexivity]. }
  rewrite in_app_iff, clause_in.
  match goal with |- ~ (_ \/ In 1 ?rest) <-> _ => assert (Rest : ~ In 1 rest) end.
  { destruct (o_valid o).
    - rewrite !in_app_iff, !clause_in. intros [[_ E]|[[_ E]|[_ E]]]; discriminate.
    - rewrite clause_in. intros [_ E]; discriminate. }
  split.
  - intros H. rewrite <- G. destruct (o_valid o), b; simpl in *; split; auto; intros; try discriminate;
      exfalso; apply H; left; auto.
  - intros H [[E _]|R]; [|exact (Rest R)].
    rewrite <- G in H. destruct (o_valid o), b; simpl in E; try discriminate.
    + destruct H as [H _]. specialize (H eq_refl). discriminate.
    + destruct H as [_ H]. specialize (H eq_refl). discriminate.
Qed.
