(* PROOF file for C20: the model of network/address.go & co. (Addr/Address.v)
   against the declarative grammar (Addr/Grammar.v). *)
From Coq Require Import String Ascii NArith ZArith Bool List Lia.
From Onet Require Import Base.HexC20 Addr.GoStr Addr.GoNet Addr.Address Addr.Grammar
  Addr.GoStrProofs Addr.GoNetProofs Addr.ParseIPProofs.
Import ListNotations.
Local Open Scope list_scope.

(* the grammar mode a model variant implements *)
Definition mode_of (v : variant) : mode :=
  Build_mode (negb (strict_brackets v)) (fold_case v) (if len253 v then 253 else 254).

Lemma mode_of_documented_fold s : m_fold (mode_of documented) s = m_fold Documented s.
Proof. reflexivity. Qed.

Lemma mode_of_pinned_fold s : m_fold (mode_of pinned) s = m_fold Lenient s.
Proof. reflexivity. Qed.

(* ---- small list facts ------------------------------------------------------------------ *)
Lemma last_byte_Some s c : last_byte s = Some c <-> exists b, s = b ++ [c].
Proof.
  induction s as [|x r IH]; simpl.
  - split; [discriminate|]. intros (b & H). destruct b; discriminate.
  - destruct r as [|y r'].
    + split.
      * intros H; inversion H; subst. exists []; reflexivity.
      * intros (b & H). destruct b as [|b0 b]; simpl in H; inversion H; subst; auto.
        destruct b; discriminate.
    + rewrite IH. split.
      * intros (b & ->). exists (x :: b). reflexivity.
      * intros (b & H). destruct b as [|b0 b]; simpl in H; inversion H; subst.
        exists b; assumption.
Qed.

Lemma last_byte_cons x r : last_byte (x :: r) <> None.
Proof.
  revert x; induction r as [|y r IH]; intros x; [discriminate|]. exact (IH y).
Qed.

Lemma last_byte_None s : last_byte s = None <-> s = [].
Proof.
  destruct s as [|x r]; [simpl; tauto|]. split; [|discriminate].
  intros H. exfalso. exact (last_byte_cons x r H).
Qed.

Lemma app_last_inj {A} (b b' : list A) c c' : b ++ [c] = b' ++ [c'] -> b = b' /\ c = c'.
Proof. intros H. apply app_inj_tail in H. exact H. Qed.

(* ---- the regular expression of validHostname ---------------------------------------------- *)
Lemma is_ldh_split c : is_ldh c = true <-> is_alnum c = true \/ c = c_minus.
Proof. unfold is_ldh. rewrite orb_true_iff, aeqb_true. tauto. Qed.

Lemma alnum_not_minus c : is_alnum c = true -> c <> c_minus.
Proof. intros H ->. vm_compute in H. discriminate. Qed.

Lemma label_ok_iff l : label_ok l = true <-> LabelG l.
Proof.
  unfold label_ok, LabelG. destruct l as [|c r].
  - split; [discriminate|]. intros (_ & (c & r & H & _) & _). discriminate.
  - rewrite !andb_true_iff. split.
    + intros [[A F] L]. apply all_forallb in F. repeat split.
      * constructor; auto. apply is_ldh_split. auto.
      * exists c, r. auto.
      * destruct (last_byte r) as [z|] eqn:Z.
        -- apply last_byte_Some in Z. destruct Z as (b & ->). exists (c :: b), z. split; auto.
           apply Forall_app in F. destruct F as [_ Fz]. inversion Fz; subst.
           apply is_ldh_split in H1. destruct H1 as [H1|H1]; auto.
           subst z. discriminate.
        -- apply last_byte_None in Z. subst r. exists [], c. auto.
    + intros (F & (c' & r' & E & A) & (b & z & E2 & Az)). inversion E; subst c' r'. inversion F; subst.
      repeat split; auto.
      * now apply all_forallb.
      * destruct (last_byte r) as [y|] eqn:Z; auto.
        apply last_byte_Some in Z. destruct Z as (b' & ->).
        change (c :: b' ++ [y]) with ((c :: b') ++ [y]) in E2. apply app_last_inj in E2.
        destruct E2 as [_ ->]. apply negb_true_iff. apply aeqb_false. now apply alnum_not_minus.
Qed.

Lemma tld_ok_iff l : tld_ok l = true <-> TldG l.
Proof.
  unfold tld_ok, TldG. destruct l as [|c r].
  - split; [discriminate|]. intros [H _]; congruence.
  - rewrite <- all_forallb. split; [intros H; split; [discriminate|auto]|tauto].
Qed.

Lemma re_fields_iff h t :
  re_fields h t = true <-> exists init tld, h :: t = init ++ [tld] /\ Forall LabelG init /\ TldG tld.
Proof.
  revert h; induction t as [|x t IH]; intros h; simpl.
  - rewrite tld_ok_iff. split.
    + intros H. exists [], h. auto.
    + intros (init & tld & E & _ & T). destruct init as [|i0 init]; simpl in E; inversion E; subst; auto.
      destruct init; discriminate.
  - rewrite andb_true_iff, label_ok_iff, IH. split.
    + intros (L & init & tld & E & F & T). exists (h :: init), tld. simpl. rewrite <- E. auto.
    + intros (init & tld & E & F & T). destruct init as [|i0 init]; simpl in E; inversion E; subst.
      inversion F; subst. split; auto. exists init, tld. auto.
Qed.

(* the regular language of ^(([a-z0-9]|[a-z0-9][a-z0-9\-]*[a-z0-9])\.)*([a-z]+)$, spelled
   out: labels each followed by a dot, then a non-empty alphabetic word *)
Definition RegexLang (s : bytes) : Prop :=
  exists labels tld, Forall LabelG labels /\ TldG tld /\
    s = concat (map (fun l => l ++ [c_dot]) labels) ++ tld.

Lemma LabelG_nodot l : LabelG l -> ~ In c_dot l.
Proof.
  intros (F & _ & _) H. unfold all in F. rewrite Forall_forall in F. specialize (F _ H).
  vm_compute in F. discriminate.
Qed.

Lemma TldG_nodot l : TldG l -> ~ In c_dot l.
Proof.
  intros (_ & F) H. unfold all in F. rewrite Forall_forall in F. specialize (F _ H).
  vm_compute in F. discriminate.
Qed.

Lemma sepjoin_concat init tld :
  sepjoin c_dot (init ++ [tld]) = concat (map (fun l => l ++ [c_dot]) init) ++ tld.
Proof.
  induction init as [|x init IH]; simpl; auto.
  destruct (init ++ [tld]) eqn:E.
  - destruct init; discriminate.
  - rewrite IH. rewrite <- !app_assoc. reflexivity.
Qed.

Theorem regex_hostname_iff s : regex_hostname s = true <-> RegexLang s.
Proof.
  unfold regex_hostname, RegexLang. destruct (split_byte c_dot s) as [h t] eqn:S.
  rewrite re_fields_iff. split.
  - intros (init & tld & E & F & T). exists init, tld. split; [auto|split; [auto|]].
    destruct (split_byte_join _ _ _ _ S) as [J _]. rewrite J, E. apply sepjoin_concat.
  - intros (labels & tld & F & T & E). exists labels, tld. split; [|split; auto].
    rewrite <- sepjoin_concat in E.
    destruct (labels ++ [tld]) as [|h' t'] eqn:L; [destruct labels; discriminate|].
    assert (ND : Forall (fun l : bytes => ~ In c_dot l) (h' :: t')).
    { rewrite <- L. apply Forall_app. split.
      - eapply Forall_impl; [|exact F]. apply LabelG_nodot.
      - constructor; auto. now apply TldG_nodot. }
    rewrite E in S. rewrite (split_byte_sepjoin c_dot h' t' ND) in S. congruence.
Qed.

(* ---- validHostname ----------------------------------------------------------------------- *)
Lemma lens_ok_iff ls :
  existsb (fun e : bytes => Nat.ltb (length e) 1 || Nat.ltb 63 (length e)) ls = false <->
  Forall (fun l : bytes => 1 <= length l <= 63) ls.
Proof.
  induction ls as [|x r IH]; simpl.
  - split; auto.
  - rewrite orb_false_iff, IH, orb_false_iff, !Nat.ltb_ge. split.
    + intros [[A B] F]. constructor; auto.
    + intros F; inversion F; subst. split; auto.
Qed.

Lemma sepjoin_nonempty c ls : ls <> [] -> Forall (fun l : bytes => 1 <= length l) ls -> sepjoin c ls <> [].
Proof.
  destruct ls as [|x r]; [congruence|]. intros _ F. inversion F; subst.
  destruct x; [simpl in *; lia|]. destruct r; simpl; discriminate.
Qed.

(* body-level part, shared by the two trailing-dot cases *)
Lemma hostname_body body :
  (let (h, t) := split_byte c_dot body in
   if existsb (fun e : bytes => Nat.ltb (length e) 1 || Nat.ltb 63 (length e)) (h :: t) then false
   else if re_fields h t then true else Nat.eqb (count_byte c_dot body) 0) = true <->
  exists ls, body = sepjoin c_dot ls /\ ls <> [] /\
    Forall (fun l => ~ In c_dot l /\ 1 <= length l <= 63) ls /\
    (length ls = 1 \/ exists init tld, ls = init ++ [tld] /\ Forall LabelG init /\ TldG tld).
Proof.
  destruct (split_byte c_dot body) as [h t] eqn:S.
  destruct (split_byte_join _ _ _ _ S) as [J ND]. split.
  - intros H.
    destruct (existsb _ (h :: t)) eqn:X; [discriminate|]. apply lens_ok_iff in X.
    exists (h :: t). repeat split; auto; try discriminate.
    + clear -ND X. induction ND; inversion X; subst; constructor; auto.
    + destruct (re_fields h t) eqn:R.
      * right. now apply re_fields_iff.
      * left. apply Nat.eqb_eq, count_byte_0 in H.
        rewrite (split_byte_notin _ _ H) in S. inversion S; subst. reflexivity.
  - intros (ls & E & NE & F & D).
    destruct ls as [|h' t']; [congruence|].
    assert (ND' : Forall (fun l : bytes => ~ In c_dot l) (h' :: t')).
    { eapply Forall_impl; [|exact F]. simpl. tauto. }
    rewrite E in S. rewrite (split_byte_sepjoin c_dot h' t' ND') in S. inversion S; subst h' t'.
    assert (X : existsb (fun e : bytes => Nat.ltb (length e) 1 || Nat.ltb 63 (length e)) (h :: t) = false).
    { apply lens_ok_iff. eapply Forall_impl; [|exact F]. simpl. tauto. }
    rewrite X. destruct D as [D|D].
    + destruct t; [|simpl in D; lia]. simpl in E. subst body.
      destruct (re_fields h []); auto. apply Nat.eqb_eq, count_byte_0. now inversion ND'.
    + apply re_fields_iff in D. now rewrite D.
Qed.

Lemma ok_if3 (a b c : bool) :
  (if a then Ok false else if b then Ok true else if c then Ok true else Ok false) = Ok true <->
  (if a then false else if b then true else c) = true.
Proof. destruct a, b, c; simpl; split; congruence. Qed.

Theorem valid_hostname_iff v h : valid_hostname v h = Ok true <-> HostNameG (mode_of v) h.
Proof.
  unfold valid_hostname, HostNameG. destruct h as [|c0 r0].
  { split; [discriminate|]. intros [H _]; congruence. }
  set (h := c0 :: r0). cbn [m_fold mode_of m_maxdot].
  destruct (last_byte (fold_case v h)) as [c|] eqn:LB.
  2:{ split; [discriminate|]. intros (_ & body & ls & D & E & NE & F & _).
      apply last_byte_None in LB. exfalso.
      assert (B : body <> []).
      { rewrite E. apply sepjoin_nonempty; auto. eapply Forall_impl; [|exact F]. simpl. tauto. }
      destruct D as [(D & _)|(D & _)]; rewrite LB in D; [congruence|]. destruct body; discriminate. }
  apply last_byte_Some in LB. destruct LB as (b & LB).
  cbv zeta.
  destruct (Ascii.eqb c c_dot) eqn:Ed.
  - (* trailing dot *)
    apply aeqb_true in Ed. subst c. rewrite LB in *. rewrite removelast_last in *.
    pose proof (hostname_body b) as HB.
    destruct (split_byte c_dot b) as [hh tt] eqn:S.
    split.
    + intros H. split; [discriminate|].
      destruct (Nat.ltb _ (length b)) eqn:LT; [discriminate|]. apply Nat.ltb_ge in LT.
      apply ok_if3 in H. apply HB in H.
      destruct H as (ls & E & NE & F & D). exists b, ls. repeat split; auto.
      right. split; auto. destruct (len253 v); simpl in LT |- *; lia.
    + intros (_ & body & ls & D & E & NE & F & R).
      assert (body = b /\ length b <= (if len253 v then 253 else 254)) as [-> LT].
      { destruct D as [(D & ND & _)|(D & L)].
        - exfalso. apply (ND b). congruence.
        - apply app_last_inj in D. destruct D as [-> _]. auto. }
      destruct (Nat.ltb _ (length b)) eqn:LT'.
      { apply Nat.ltb_lt in LT'. destruct (len253 v); simpl in LT'; lia. }
      apply ok_if3. apply HB. exists ls. auto.
  - (* no trailing dot *)
    apply aeqb_false in Ed. simpl andb. cbv iota.
    pose proof (hostname_body (fold_case v h)) as HB.
    destruct (split_byte c_dot (fold_case v h)) as [hh tt] eqn:S.
    split.
    + intros H. split; [discriminate|].
      destruct (Nat.ltb 253 (length (fold_case v h))) eqn:LT; [discriminate|]. apply Nat.ltb_ge in LT.
      apply ok_if3 in H. apply HB in H.
      destruct H as (ls & E & NE & F & D). exists (fold_case v h), ls. repeat split; auto.
      left. repeat split; auto. intros b' Eb. rewrite LB in Eb. apply app_last_inj in Eb. tauto.
    + intros (_ & body & ls & D & E & NE & F & R).
      assert (body = fold_case v h /\ length (fold_case v h) <= 253) as [-> LT].
      { destruct D as [(D & ND & L)|(D & L)].
        - subst body. auto.
        - exfalso. rewrite LB in D. apply app_last_inj in D. destruct D as [_ D]. congruence. }
      destruct (Nat.ltb 253 (length (fold_case v h))) eqn:LT'.
      { apply Nat.ltb_lt in LT'. lia. }
      apply ok_if3. apply HB. exists ls. auto.
Qed.

(* ---- case folding never empties a string (so s[len(s)-1] cannot panic) ----------------------- *)
Lemma encode_rune_nonempty r : encode_rune r <> [].
Proof.
  unfold encode_rune.
  destruct (r <=? 127)%N; [discriminate|].
  destruct (r <=? 2047)%N; [discriminate|].
  destruct ((1114111 <? r) || ((55296 <=? r) && (r <=? 57343)))%N; [discriminate|].
  destruct (r <=? 65535)%N; discriminate.
Qed.

Lemma fold_case_nonempty v c r : fold_case v (c :: r) <> [].
Proof.
  unfold fold_case, go_to_lower. destruct (ascii_fold v); [discriminate|].
  destruct (forallb is_ascii (c :: r)); [discriminate|].
  cbn [lower_bytes]. destruct (decode_rune (c :: r)) as [rn w].
  intros H. apply app_eq_nil in H. destruct H as [H _]. exact (encode_rune_nonempty _ H).
Qed.

Lemma valid_hostname_no_crash v h : valid_hostname v h <> Crash.
Proof.
  unfold valid_hostname. destruct h as [|c r]; [discriminate|].
  destruct (last_byte (fold_case v (c :: r))) as [z|] eqn:LB.
  - cbv zeta. destruct (Nat.ltb _ _); [discriminate|].
    destruct (split_byte c_dot _) as [hh tt]. destruct (existsb _ _); [discriminate|].
    destruct (re_fields hh tt); [discriminate|]. destruct (Nat.eqb _ 0); discriminate.
  - apply last_byte_None in LB. exfalso. exact (fold_case_nonempty v c r LB).
Qed.

(* ---- Valid ------------------------------------------------------------------------------------ *)
Lemma conn_type_known t : bytes_eqb (conn_type_of t) t_wrong = false <-> KnownType t.
Proof.
  unfold conn_type_of, KnownType.
  destruct (bytes_eqb t t_tcp) eqn:E1.
  { apply bytes_eqb_eq in E1. subst. simpl. split; auto. }
  destruct (bytes_eqb t t_tls) eqn:E2.
  { apply bytes_eqb_eq in E2. subst. simpl. split; auto. }
  destruct (bytes_eqb t t_local) eqn:E3.
  { apply bytes_eqb_eq in E3. subst. simpl. split; auto. }
  cbn [orb]. rewrite bytes_eqb_refl. split; [discriminate|].
  intros [ -> | [ -> | -> ] ]; discriminate.
Qed.

Lemma conn_type_of_known t : KnownType t -> conn_type_of t = t.
Proof. intros [ -> | [ -> | -> ] ]; reflexivity. Qed.

Lemma split_sep_known ty hp : KnownType ty -> NoSub sep hp ->
  split_sep sep (ty ++ sep ++ hp) 0 = (ty, [hp]).
Proof.
  intros K NS. pose proof (split_sep_nosub sep hp ltac:(discriminate) NS) as E.
  unfold sep, B in *. simpl list_ascii_of_string in *.
  destruct K as [ -> | [ -> | -> ] ]; simpl; rewrite E; reflexivity.
Qed.

Lemma PortG_clean p : PortG p -> clean p.
Proof.
  intros (sign & ds & -> & [_ A] & _ & S).
  assert (C : forall c, In c ds -> c <> c_colon /\ c <> c_lbr /\ c <> c_rbr).
  { intros c H. unfold all in A. rewrite Forall_forall in A. specialize (A c H).
    repeat split; intros ->; vm_compute in A; discriminate. }
  assert (CS : forall c, In c sign -> c <> c_colon /\ c <> c_lbr /\ c <> c_rbr).
  { intros c H. destruct S as [ -> | [ -> | [ -> _ ] ] ]; simpl in H; try tauto;
      destruct H as [<-|[]]; repeat split; discriminate. }
  unfold clean. repeat split; intros H; apply in_app_or in H; destruct H as [H|H];
    try (apply CS in H; tauto); try (apply C in H; tauto).
Qed.

Lemma has_prefix_lbr hp : has_prefix [c_lbr] hp = true <-> exists w, hp = c_lbr :: w.
Proof. rewrite has_prefix_spec. simpl. tauto. Qed.

Theorem valid_iff_grammar v a : valid v a = Ok true <-> AddressG (mode_of v) a.
Proof.
  split.
  - unfold valid. destruct (split_sep sep a 0) as [v0 rest] eqn:S.
    destruct rest as [|v1 [|]]; try discriminate.
    destruct (split_sep_cons sep a v0 v1 [] ltac:(discriminate) S) as (rest & Ea & S2 & _).
    destruct (split_sep_nil sep rest v1 ltac:(discriminate) S2) as [-> NS].
    destruct (bytes_eqb (conn_type_of v0) t_wrong) eqn:CT; [discriminate|].
    apply conn_type_known in CT.
    destruct (split_host_port rest) as [[ip port]| |] eqn:SHP; try discriminate.
    destruct (split_host_port_Ok _ _ _ SHP) as (Il & Ir & Pc & Form).
    destruct (atoi port) as [z|] eqn:AT; [|discriminate].
    destruct ((z <? 0)%Z || (65535 <? z)%Z) eqn:RG; [discriminate|].
    apply orb_false_iff in RG. destruct RG as [R1 R2]. apply Z.ltb_ge in R1, R2.
    assert (PG : PortG port) by (apply atoi_port; exists z; split; auto; lia).
    destruct (strict_brackets v && has_prefix [c_lbr] rest && negb (has_byte c_colon ip)) eqn:SB; [discriminate|].
    intros H. exists v0, rest, ip, port. unfold AddressParts. repeat split; auto.
    + destruct Form as [[E NC]|E]; [left; auto|right]. split; auto.
      cbn [mode_of m_brackets_any].
      destruct (strict_brackets v); [|left; reflexivity].
      assert (HP : has_prefix [c_lbr] rest = true) by (apply has_prefix_lbr; rewrite E; eauto).
      rewrite HP in SB. simpl in SB. apply negb_false_iff in SB. right. now apply has_byte_In.
    + destruct ip as [|i0 ip']; [left; reflexivity|]. right.
      destruct (parse_ip_ok (i0 :: ip')) eqn:PI.
      * apply parse_ip_ok_iff in PI. tauto.
      * right; right. now apply valid_hostname_iff.
  - intros (ty & hp & h & p & Ea & K & NS & (Hl & Hr & Form) & PG & HG).
    change (B "://") with sep in Ea, NS. subst a.
    unfold valid. rewrite (split_sep_known ty hp K NS).
    rewrite (conn_type_of_known ty K).
    assert (KW : bytes_eqb ty t_wrong = false) by (destruct K as [ -> | [ -> | -> ] ]; reflexivity).
    rewrite KW.
    pose proof (PortG_clean p PG) as PC.
    assert (SHP : split_host_port hp = Ok (h, p)).
    { destruct Form as [[-> NC]|[-> _]].
      - now apply split_host_port_plain.
      - now apply split_host_port_bracket. }
    rewrite SHP.
    destruct (proj2 (atoi_port p) PG) as (z & AT & R). rewrite AT.
    replace ((z <? 0)%Z || (65535 <? z)%Z) with false
      by (symmetry; apply orb_false_iff; split; apply Z.ltb_ge; lia).
    assert (SB : strict_brackets v && has_prefix [c_lbr] hp && negb (has_byte c_colon h) = false).
    { destruct Form as [[-> NC]|[-> [BA|IC]]].
      - replace (has_prefix [c_lbr] (h ++ c_colon :: p)) with false; [now rewrite andb_false_r|].
        symmetry. destruct (has_prefix [c_lbr] (h ++ c_colon :: p)) eqn:HP; auto.
        apply has_prefix_lbr in HP. destruct HP as (w & HP). destruct h as [|h0 h']; [discriminate|].
        inversion HP; subst. exfalso. apply Hl. left; reflexivity.
      - cbn [mode_of m_brackets_any] in BA. apply negb_true_iff in BA. now rewrite BA.
      - apply has_byte_In in IC. rewrite IC. simpl. now rewrite andb_false_r. }
    rewrite SB. destruct h as [|h0 h']; [reflexivity|].
    destruct (parse_ip_ok (h0 :: h')) eqn:PI; [reflexivity|].
    apply valid_hostname_iff. destruct HG as [HG|[HG|[HG|HG]]]; auto; try discriminate.
    + assert (parse_ip_ok (h0 :: h') = true) by (apply parse_ip_ok_iff; auto). congruence.
    + assert (parse_ip_ok (h0 :: h') = true) by (apply parse_ip_ok_iff; auto). congruence.
Qed.

Theorem valid_no_crash v a : valid v a <> Crash.
Proof.
  unfold valid. destruct (split_sep sep a 0) as [v0 rest].
  destruct rest as [|v1 [|]]; try discriminate.
  destruct (bytes_eqb _ t_wrong); [discriminate|].
  destruct (split_host_port v1) as [[ip port]| |] eqn:SHP; try discriminate.
  - destruct (atoi port); [|discriminate]. destruct (_ || _); [discriminate|].
    destruct (_ && _); [discriminate|]. destruct ip; [discriminate|].
    destruct (parse_ip_ok _); [discriminate|]. apply valid_hostname_no_crash.
  - exfalso. exact (split_host_port_no_crash _ SHP).
Qed.

Lemma valid_hostname_not_err v h : valid_hostname v h <> Err.
Proof.
  unfold valid_hostname. destruct h as [|c r]; [discriminate|].
  destruct (last_byte _); [|discriminate]. cbv zeta. destruct (Nat.ltb _ _); [discriminate|].
  destruct (split_byte c_dot _) as [hh tt]. destruct (existsb _ _); [discriminate|].
  destruct (re_fields hh tt); [discriminate|]. destruct (Nat.eqb _ 0); discriminate.
Qed.

Lemma valid_bool v a : exists b, valid v a = Ok b.
Proof.
  pose proof (valid_no_crash v a) as NC.
  assert (NE : valid v a <> Err).
  { unfold valid. destruct (split_sep sep a 0) as [v0 rest].
    destruct rest as [|v1 [|]]; try discriminate.
    destruct (bytes_eqb _ t_wrong); [discriminate|].
    destruct (split_host_port v1) as [[ip port]| |]; try discriminate.
    destruct (atoi port); [|discriminate]. destruct (_ || _); [discriminate|].
    destruct (_ && _); [discriminate|]. destruct ip; [discriminate|].
    destruct (parse_ip_ok _); [discriminate|]. apply valid_hostname_not_err. }
  destruct (valid v a) as [b| |]; [eauto|congruence|congruence].
Qed.

(* ---- accessors ---------------------------------------------------------------------------------- *)
Lemma parts_split m a ty hp h p : AddressParts m a ty hp h p ->
  split_sep sep a 0 = (ty, [hp]) /\ split_host_port hp = Ok (h, p) /\ hp <> [].
Proof.
  intros (Ea & K & NS & (Hl & Hr & Form) & PG & HG).
  change (B "://") with sep in Ea, NS. subst a. split; [now apply split_sep_known|].
  pose proof (PortG_clean p PG) as PC.
  destruct Form as [[-> NC]|[-> _]].
  - split; [now apply split_host_port_plain|]. destruct h; discriminate.
  - split; [now apply split_host_port_bracket|discriminate].
Qed.

Theorem accessors_valid v a ty hp h p :
  AddressParts (mode_of v) a ty hp h p ->
  valid v a = Ok true /\ conn_type v a = Ok ty /\ network_address v a = Ok hp /\
  host v a = Ok h /\ port v a = Ok p.
Proof.
  intros P. assert (V : valid v a = Ok true) by (apply valid_iff_grammar; exists ty, hp, h, p; exact P).
  destruct (parts_split _ _ _ _ _ _ P) as (S & SHP & NE).
  assert (K : KnownType ty) by (destruct P as (_ & K & _); exact K).
  assert (NA : network_address v a = Ok hp).
  { unfold network_address. rewrite V. simpl. now rewrite S. }
  split; [exact V|]. split.
  { unfold conn_type. rewrite V. simpl. rewrite S. now rewrite conn_type_of_known. }
  split; [exact NA|]. split.
  - unfold host. rewrite NA. simpl. destruct hp; [congruence|]. simpl. now rewrite SHP.
  - unfold port. rewrite NA. simpl. destruct hp; [congruence|]. simpl. now rewrite SHP.
Qed.

Theorem accessors_invalid v lk a : valid v a = Ok false ->
  conn_type v a = Ok t_wrong /\ network_address v a = Ok [] /\ host v a = Ok [] /\ port v a = Ok [] /\
  resolve v lk a = Ok [] /\ network_address_resolved v lk a = Ok [] /\ public v lk a = Ok false.
Proof.
  intros V.
  assert (NA : network_address v a = Ok []) by (unfold network_address; now rewrite V).
  assert (RS : network_address_resolved v lk a = Ok []) by (unfold network_address_resolved; now rewrite V).
  repeat split; auto.
  - unfold conn_type. now rewrite V.
  - unfold host. now rewrite NA.
  - unfold port. now rewrite NA.
  - unfold resolve. now rewrite V.
  - unfold public. rewrite RS, V. reflexivity.
Qed.

(* ---- re-assembly ---------------------------------------------------------------------------------- *)
Definition reassemble (v : variant) (a : bytes) : res bytes :=
  bind (conn_type v a) (fun t => bind (host v a) (fun h => bind (port v a) (fun p =>
    Ok (t ++ sep ++ join_host_port h p)))).

Lemma join_host_port_form h p hp :
  ~ In c_lbr h ->
  (hp = h ++ c_colon :: p /\ ~ In c_colon h) \/ hp = c_lbr :: h ++ c_rbr :: c_colon :: p ->
  (join_host_port h p = hp <-> (In c_colon h \/ hp = h ++ c_colon :: p)).
Proof.
  intros Hl Form. unfold join_host_port. destruct (has_byte c_colon h) eqn:C.
  - apply has_byte_In in C. destruct Form as [[-> NC]| ->]; [contradiction|]. tauto.
  - apply has_byte_false in C. destruct Form as [[-> NC]| ->]; [tauto|]. split.
    + intros E. exfalso. destruct h as [|h0 h']; [discriminate|].
      inversion E; subst. apply Hl. left; reflexivity.
    + intros [G|E]; [contradiction|]. exfalso.
      destruct h as [|h0 h']; [discriminate|]. inversion E; subst. apply Hl. left; reflexivity.
Qed.

Theorem reassemble_parts v a ty hp h p : AddressParts (mode_of v) a ty hp h p ->
  reassemble v a = Ok (ty ++ sep ++ join_host_port h p) /\
  (reassemble v a = Ok a <-> (In c_colon h \/ hp = h ++ c_colon :: p)).
Proof.
  intros P. destruct (accessors_valid v a ty hp h p P) as (_ & CT & _ & H & Pt).
  assert (R : reassemble v a = Ok (ty ++ sep ++ join_host_port h p)).
  { unfold reassemble. rewrite CT, H, Pt. reflexivity. }
  split; [exact R|]. rewrite R.
  destruct P as (Ea & _ & _ & (Hl & _ & Form) & _). change (B "://") with sep in Ea. subst a.
  assert (Form' : (hp = h ++ c_colon :: p /\ ~ In c_colon h) \/ hp = c_lbr :: h ++ c_rbr :: c_colon :: p) by tauto.
  rewrite <- (join_host_port_form h p hp Hl Form'). split.
  - intros E. inversion E as [E']. apply app_inv_head in E'. apply (app_inv_head sep) in E'. exact E'.
  - intros ->. reflexivity.
Qed.

(* in the documented grammar every address re-assembles *)
Theorem reassemble_documented v a : strict_brackets v = true -> valid v a = Ok true -> reassemble v a = Ok a.
Proof.
  intros SB V. apply valid_iff_grammar in V. destruct V as (ty & hp & h & p & P).
  apply (reassemble_parts v a ty hp h p P).
  destruct P as (_ & _ & _ & (_ & _ & Form) & _). destruct Form as [[E _]|[_ [BA|IC]]]; auto.
  cbn [mode_of m_brackets_any] in BA. rewrite SB in BA. discriminate.
Qed.

(* F24: the valid addresses that do not re-assemble are exactly those whose host is
   written in brackets although it contains no colon *)
Theorem bracket_exception v a : valid v a = Ok true ->
  (reassemble v a <> Ok a <->
   exists ty h p, a = ty ++ sep ++ c_lbr :: h ++ c_rbr :: c_colon :: p /\ ~ In c_colon h /\
                  host v a = Ok h /\ port v a = Ok p /\ conn_type v a = Ok ty).
Proof.
  intros V. apply valid_iff_grammar in V. destruct V as (ty & hp & h & p & P).
  destruct (reassemble_parts v a ty hp h p P) as [R RI].
  destruct (accessors_valid v a ty hp h p P) as (_ & CT & _ & H & Pt).
  pose proof P as (Ea & _ & _ & (Hl & _ & Form) & _). change (B "://") with sep in Ea.
  split.
  - intros NE. exists ty, h, p.
    assert (NC : ~ In c_colon h) by (intros G; apply NE, RI; auto).
    destruct Form as [[E _]|[E _]].
    + exfalso. apply NE, RI. auto.
    + subst hp. auto.
  - intros (ty' & h' & p' & Ea' & NC & H' & Pt' & CT') E.
    rewrite H in H'. rewrite Pt in Pt'. rewrite CT in CT'. inversion H'; inversion Pt'; inversion CT'; subst h' p' ty'.
    apply RI in E. destruct E as [E|E]; [contradiction|].
    subst hp. rewrite Ea in Ea'. apply app_inv_head in Ea'. apply (app_inv_head sep) in Ea'.
    destruct h as [|h0 h'']; [discriminate|]. inversion Ea'; subst. apply Hl. left; reflexivity.
Qed.

Example bracket_exception_witness :
  valid pinned (B "tcp://[localhost]:80") = Ok true /\
  reassemble pinned (B "tcp://[localhost]:80") = Ok (B "tcp://localhost:80").
Proof. vm_compute. auto. Qed.

(* ---- totality: no call can panic ------------------------------------------------------------------ *)
Lemma valid_true_split v a : valid v a = Ok true -> exists v0 v1, split_sep sep a 0 = (v0, [v1]).
Proof.
  unfold valid. destruct (split_sep sep a 0) as [v0 rest].
  destruct rest as [|v1 [|]]; try discriminate. eauto.
Qed.

Lemma conn_type_total v a : exists x, conn_type v a = Ok x.
Proof.
  unfold conn_type. destruct (valid_bool v a) as (b & ->). cbn [bind negb].
  destruct b; cbn [bind negb]; [|eauto]. destruct (split_sep sep a 0). eauto.
Qed.

Lemma network_address_total v a : exists x, network_address v a = Ok x.
Proof.
  unfold network_address. destruct (valid_bool v a) as (b & V). rewrite V. cbn [bind negb].
  destruct b; cbn [bind negb]; [|eauto]. destruct (valid_true_split v a V) as (v0 & v1 & ->). eauto.
Qed.

Lemma split_host_port_cases hp :
  (exists h p, split_host_port hp = Ok (h, p)) \/ split_host_port hp = Err.
Proof.
  pose proof (split_host_port_no_crash hp). destruct (split_host_port hp) as [[h p]| |]; eauto. congruence.
Qed.

Lemma host_total v a : exists x, host v a = Ok x.
Proof.
  unfold host. destruct (network_address_total v a) as (na & ->). cbn [bind negb].
  destruct (is_nil na); [eauto|].
  destruct (split_host_port_cases na) as [(h & p & ->)| ->]; eauto.
Qed.

Lemma port_total v a : exists x, port v a = Ok x.
Proof.
  unfold port. destruct (network_address_total v a) as (na & ->). cbn [bind negb].
  destruct (is_nil na); [eauto|].
  destruct (split_host_port_cases na) as [(h & p & ->)| ->]; eauto.
Qed.

Lemma valid_hostname_total v h : exists b, valid_hostname v h = Ok b.
Proof.
  pose proof (valid_hostname_no_crash v h). pose proof (valid_hostname_not_err v h).
  destruct (valid_hostname v h); eauto; congruence.
Qed.

Lemma is_hostname_total v a : exists b, is_hostname v a = Ok b.
Proof.
  unfold is_hostname. destruct (host_total v a) as (h & ->). cbn [bind negb].
  destruct (valid_hostname_total v h) as (b & ->). cbn [bind negb]. eauto.
Qed.

Lemma resolve_total v lk a : (forall h, lk h <> Some []) -> exists x, resolve v lk a = Ok x.
Proof.
  intros LK. unfold resolve. destruct (valid_bool v a) as (b & ->). cbn [bind negb].
  destruct b; cbn [bind negb]; [|eauto]. destruct (host_total v a) as (h & ->). cbn [bind negb].
  destruct (bytes_eqb h (B "[::]")); [eauto|]. destruct (parse_ip_ok h); [eauto|].
  destruct (is_hostname_total v a) as (ih & ->). cbn [bind negb]. destruct ih; cbn [bind negb]; [|eauto].
  specialize (LK h). destruct (lk h) as [[|ip ips]|]; eauto. congruence.
Qed.

Lemma resolved_total v lk a : (forall h, lk h <> Some []) -> exists x, network_address_resolved v lk a = Ok x.
Proof.
  intros LK. unfold network_address_resolved. destruct (valid_bool v a) as (b & ->). cbn [bind negb].
  destruct b; cbn [bind negb]; [|eauto]. destruct (resolve_total v lk a LK) as (ip & ->). cbn [bind negb].
  destruct (port_total v a) as (p & ->). cbn [bind negb]. eauto.
Qed.

Lemma public_total v lk a : (forall h, lk h <> Some []) -> exists x, public v lk a = Ok x.
Proof.
  intros LK. unfold public. destruct (resolved_total v lk a LK) as (r & ->). cbn [bind negb].
  destruct (valid_bool v a) as (b & ->). cbn [bind negb]. eauto.
Qed.

Lemma global_bind_no_crash s : global_bind s <> Crash.
Proof.
  unfold global_bind. destruct (split_host_port_cases s) as [(h & p & ->)| ->]; discriminate.
Qed.

Lemma listen_no_crash v a l : get_listen_address v a l <> Crash.
Proof.
  unfold get_listen_address. destruct (network_address_total v a) as (na & ->). cbn [bind negb].
  destruct (is_nil l); [apply global_bind_no_crash|].
  destruct (split_host_port_cases na) as [(h & p & ->)| ->]; [|discriminate].
  destruct (split_byte c_colon l) as [s0 srest]. destruct (_ && _).
  { destruct (fix_n3 v); [|discriminate].
    destruct (split_host_port_cases (s0 ++ c_colon :: p)) as [(h2 & p2 & ->)| ->]; discriminate. }
  destruct (split_host_port_cases l) as [(hl & pl & ->)| ->]; [|discriminate].
  destruct (_ && _); discriminate.
Qed.

Lemma ws_no_crash v a u g : get_ws_host_port v a u g <> WCrash.
Proof.
  unfold get_ws_host_port, ws_finish. destruct u as [|u0 u'].
  - destruct (port_total v a) as (ps & ->). destruct (parse_uint16 ps); [|discriminate].
    destruct (_ && _); [discriminate|]. destruct (host_total v a) as (h & ->). discriminate.
  - destruct (url_parse (u0 :: u')) as [| |sch uh]; try discriminate.
    destruct (scheme_to_port sch); [|discriminate].
    destruct (url_split_host_port uh) as [hn ps]. destruct ps; [discriminate|].
    destruct (parse_uint16 _); discriminate.
Qed.

Theorem total v lk a l u g :
  (forall h, lk h <> Some []) ->
  valid v a <> Crash /\ conn_type v a <> Crash /\ network_address v a <> Crash /\
  host v a <> Crash /\ port v a <> Crash /\ is_hostname v a <> Crash /\
  resolve v lk a <> Crash /\ network_address_resolved v lk a <> Crash /\ public v lk a <> Crash /\
  global_bind l <> Crash /\ get_listen_address v a l <> Crash /\ get_ws_host_port v a u g <> WCrash.
Proof.
  intros LK.
  destruct (conn_type_total v a) as (x1 & E1). destruct (network_address_total v a) as (x2 & E2).
  destruct (host_total v a) as (x3 & E3). destruct (port_total v a) as (x4 & E4).
  destruct (is_hostname_total v a) as (x5 & E5). destruct (resolve_total v lk a LK) as (x6 & E6).
  destruct (resolved_total v lk a LK) as (x7 & E7). destruct (public_total v lk a LK) as (x8 & E8).
  rewrite E1, E2, E3, E4, E5, E6, E7, E8.
  repeat split; try discriminate.
  - apply valid_no_crash.
  - apply global_bind_no_crash.
  - apply listen_no_crash.
  - apply ws_no_crash.
Qed.

(* the resolver hypothesis is needed: an empty answer without error makes Resolve index an
   empty slice *)
Example resolve_crash_on_empty_answer :
  resolve pinned (fun _ => Some []) (B "tcp://localhost:80") = Crash.
Proof. vm_compute. reflexivity. Qed.

(* ---- getWSHostPort ------------------------------------------------------------------------------------ *)
Theorem ws_addr_spec v a g r : get_ws_host_port v a [] g = WOk r ->
  exists h ps n, host v a = Ok h /\ port v a = Ok ps /\ parse_uint16 ps = Some n /\
    r = join_host_port (if g then B "0.0.0.0" else h) (format_uint ((n + 1) mod 65536)) /\
    (fix_f23 v = true -> (n + 1 <= 65535)%N /\ ((n + 1) mod 65536 = n + 1)%N).
Proof.
  unfold get_ws_host_port, ws_finish. destruct (port_total v a) as (ps & ->).
  destruct (parse_uint16 ps) as [n|] eqn:PU; [|discriminate].
  destruct (fix_f23 v && (n =? 65535)%N) eqn:FX; [discriminate|].
  destruct (host_total v a) as (h & ->). intros H; inversion H; subst r.
  exists h, ps, n. repeat split; auto.
  - apply parse_uint16_Some in PU. destruct PU as (_ & _ & LE).
    rewrite H0 in FX. simpl in FX. apply N.eqb_neq in FX. lia.
  - apply parse_uint16_Some in PU. destruct PU as (_ & _ & LE).
    rewrite H0 in FX. simpl in FX. apply N.eqb_neq in FX. apply N.mod_small. lia.
Qed.

(* F23: the pinned code wraps port 65535 round to 0 *)
Theorem ws_wrap_refuted :
  exists a, valid pinned a = Ok true /\ port pinned a = Ok (B "65535") /\
            get_ws_host_port pinned a [] false = WOk (B "127.0.0.1:0").
Proof. exists (B "tcp://127.0.0.1:65535"). vm_compute. auto. Qed.

Example ws_fixed_on_witness :
  get_ws_host_port (with_f23 true) (B "tcp://127.0.0.1:65535") [] false = WErr /\
  get_ws_host_port (with_f23 true) (B "tcp://127.0.0.1:65534") [] false = WOk (B "127.0.0.1:65535").
Proof. vm_compute. auto. Qed.

(* the URL branch never wraps either: host and port are the URL's host name and its port
   (<= 65535), or the scheme's port when the URL has none *)
Theorem ws_url_spec v a u0 u g r : get_ws_host_port v a (u0 :: u) g = WOk r ->
  exists scheme uh hn ps n,
    url_parse (u0 :: u) = UOk scheme uh /\ url_split_host_port uh = (hn, ps) /\
    (match ps with [] => scheme_to_port scheme = Some n | _ => parse_uint16 ps = Some n end) /\
    (n <= 65535)%N /\ r = join_host_port (if g then B "0.0.0.0" else hn) (format_uint n).
Proof.
  unfold get_ws_host_port, ws_finish. destruct (url_parse (u0 :: u)) as [| |scheme uh]; try discriminate.
  destruct (scheme_to_port scheme) as [pp|] eqn:SP; [|discriminate].
  assert (PP : (pp <= 65535)%N).
  { unfold scheme_to_port in SP. destruct (bytes_eqb scheme (B "http")); [inversion SP; lia|].
    destruct (bytes_eqb scheme (B "https")); [inversion SP; lia|discriminate]. }
  destruct (url_split_host_port uh) as [hn ps] eqn:US. destruct ps as [|p0 ps'].
  - intros H; inversion H. exists scheme, uh, hn, [], pp. auto.
  - destruct (parse_uint16 (p0 :: ps')) as [n|] eqn:PU; [|discriminate].
    pose proof PU as PU'. apply parse_uint16_Some in PU'. destruct PU' as (_ & _ & LE).
    intros H; inversion H. exists scheme, uh, hn, (p0 :: ps'), n. auto.
Qed.

(* ---- getListenAddress ------------------------------------------------------------------------------------ *)
Theorem listen_spec v a l r : get_listen_address v a l = Ok r ->
  exists na hp p, network_address v a = Ok na /\ split_host_port na = Ok (hp, p) /\
    ((l = [] /\ r = c_colon :: p) \/
     (l <> [] /\ ~ In c_colon l /\ p <> [] /\ r = l ++ c_colon :: p) \/
     (l <> [] /\ exists hl pl, split_host_port l = Ok (hl, pl) /\ hl <> [] /\ pl <> [] /\ r = l)).
Proof.
  unfold get_listen_address, global_bind. destruct (network_address_total v a) as (na & ->). simpl.
  destruct l as [|l0 l']; simpl is_nil; cbv iota.
  - destruct (split_host_port na) as [[hp p]| |] eqn:S; try discriminate.
    intros H; inversion H. exists na, hp, p. auto.
  - destruct (split_host_port na) as [[hp p]| |] eqn:S; try discriminate.
    destruct (split_byte c_colon (l0 :: l')) as [s0 srest] eqn:SB.
    destruct (is_nil srest && negb (is_nil p)) eqn:C.
    + apply andb_true_iff in C. destruct C as [C1 C2]. destruct srest; [|discriminate].
      apply split_byte_nil_iff in SB. destruct SB as [-> NC].
      intros H.
      assert (Er : r = (l0 :: l') ++ c_colon :: p).
      { destruct (fix_n3 v); [|inversion H; reflexivity].
        destruct (split_host_port ((l0 :: l') ++ c_colon :: p)) as [[h2 p2]| |]; try discriminate.
        inversion H; reflexivity. }
      exists na, hp, p. repeat split; auto. right; left.
      repeat split; auto; try discriminate. destruct p; [discriminate|discriminate].
    + destruct (split_host_port (l0 :: l')) as [[hl pl]| |] eqn:SL; try discriminate.
      destruct (negb (is_nil hl) && negb (is_nil pl)) eqn:D; [|discriminate].
      apply andb_true_iff in D. destruct D as [D1 D2].
      intros H; inversion H. exists na, hp, p. repeat split; auto. right; right.
      split; [discriminate|]. exists hl, pl. repeat split; auto.
      * destruct hl; [discriminate|discriminate].
      * destruct pl; [discriminate|discriminate].
Qed.

(* for a valid server address the result is a usable host:port unless the listen
   address is a colon-free string containing a bracket (finding N3) *)
Theorem listen_usable v a l r : valid v a = Ok true -> get_listen_address v a l = Ok r ->
  ((~ In c_lbr l /\ ~ In c_rbr l) \/ In c_colon l) ->
  exists h' p', split_host_port r = Ok (h', p') /\ p' <> [].
Proof.
  intros V L C. apply valid_iff_grammar in V. destruct V as (ty & hp & h & p & P).
  destruct (accessors_valid v a ty hp h p P) as (_ & _ & NA & _ & _).
  destruct (parts_split _ _ _ _ _ _ P) as (_ & SHP & _).
  assert (PG : PortG p) by (destruct P as (_ & _ & _ & _ & PG & _); exact PG).
  pose proof (PortG_clean p PG) as PC.
  assert (PN : p <> []).
  { destruct PG as (sg & ds & -> & [NE _] & _). intros E. apply app_eq_nil in E. tauto. }
  destruct (listen_spec v a l r L) as (na & hp' & p' & NA' & SHP' & Cases).
  rewrite NA in NA'. inversion NA'; subst na. rewrite SHP in SHP'. inversion SHP'; subst hp' p'.
  destruct Cases as [[-> ->]|[(NE & NC & _ & ->)|(NE & hl & pl & SL & HN & PN' & ->)]].
  - exists [], p. split; auto. apply (split_host_port_plain [] p); auto.
  - destruct C as [[CL CR]|CC]; [|contradiction].
    exists l, p. split; auto. now apply split_host_port_plain.
  - exists hl, pl. auto.
Qed.

Theorem listen_bracket_refuted :
  exists a l r, valid pinned a = Ok true /\ get_listen_address pinned a l = Ok r /\
                split_host_port r = Err.
Proof. exists (B "tcp://1.2.3.4:2000"), (B "[abc"), (B "[abc:2000"). vm_compute. auto. Qed.

Lemma last_colon_unique (u u' w w' : bytes) :
  u ++ c_colon :: w = u' ++ c_colon :: w' -> ~ In c_colon w -> ~ In c_colon w' -> w = w'.
Proof.
  intros E Nw Nw'. pose proof (last_index_byte_app c_colon u w Nw) as L1.
  pose proof (last_index_byte_app c_colon u' w' Nw') as L2. rewrite E in L1. rewrite L1 in L2.
  inversion L2 as [L]. apply app_len_inj in E; auto. destruct E as [_ E]. inversion E; auto.
Qed.

(* with the repair of N3 the bracket exception disappears: whatever getListenAddress
   returns for a valid server address is accepted by SplitHostPort again *)
Theorem listen_usable_fixed v a l r : fix_n3 v = true ->
  valid v a = Ok true -> get_listen_address v a l = Ok r ->
  exists h' p', split_host_port r = Ok (h', p') /\ p' <> [].
Proof.
  intros FX V L.
  destruct (in_dec ascii_dec c_colon l) as [IC|NC]; [eapply listen_usable; eauto|].
  destruct l as [|l0 l']; [eapply listen_usable; eauto; left; split; intros []|].
  pose proof V as V'. apply valid_iff_grammar in V'. destruct V' as (ty & hp & h & p & P).
  destruct (accessors_valid v a ty hp h p P) as (_ & _ & NA & _ & _).
  destruct (parts_split _ _ _ _ _ _ P) as (_ & SHP & _).
  assert (PG : PortG p) by (destruct P as (_ & _ & _ & _ & PG & _); exact PG).
  assert (PN : p <> []).
  { destruct PG as (sg & ds & -> & [NE _] & _). intros E. apply app_eq_nil in E. tauto. }
  unfold get_listen_address in L. rewrite NA in L. cbn [bind is_nil] in L. rewrite SHP in L.
  rewrite (split_byte_notin c_colon (l0 :: l') NC) in L. rewrite FX in L.
  destruct p as [|p0 p']; [congruence|]. cbn [is_nil andb negb] in L.
  destruct (split_host_port ((l0 :: l') ++ c_colon :: p0 :: p')) as [[h2 p2]| |] eqn:S2; try discriminate.
  inversion L; subst r. exists h2, p2. split; auto.
  destruct (split_host_port_Ok _ _ _ S2) as (_ & _ & (P2c & _ & _) & Form).
  destruct (PortG_clean _ PG) as (PC & _).
  assert (E2 : p0 :: p' = p2).
  { destruct Form as [[E _]|E].
    - eapply last_colon_unique; eauto.
    - change (c_lbr :: h2 ++ c_rbr :: c_colon :: p2) with ((c_lbr :: h2 ++ [c_rbr]) ++ c_colon :: p2) in E
        || (replace (c_lbr :: h2 ++ c_rbr :: c_colon :: p2) with ((c_lbr :: h2 ++ [c_rbr]) ++ c_colon :: p2) in E
              by (simpl; rewrite <- app_assoc; reflexivity)).
      eapply last_colon_unique; eauto. }
  rewrite <- E2. discriminate.
Qed.

(* ---- the documented grammar against the one the pinned code implements ------------------------------- *)
Lemma fold_case_ascii v h : all is_ascii h -> fold_case v h = map lower_ascii h.
Proof.
  intros A. unfold fold_case, go_to_lower. apply all_forallb in A. rewrite A. now destruct (ascii_fold v).
Qed.

(* the two exception shapes *)
Definition BracketNoColon (hp h p : bytes) : Prop :=
  hp = c_lbr :: h ++ c_rbr :: c_colon :: p /\ ~ In c_colon h.
Definition Dot254 (h : bytes) : Prop :=
  exists body, map lower_ascii h = body ++ [c_dot] /\ length body = 254.

Lemma HostNameG_modes h : all is_ascii h ->
  (HostNameG (mode_of documented) h -> HostNameG (mode_of pinned) h) /\
  (HostNameG (mode_of pinned) h -> HostNameG (mode_of documented) h \/ Dot254 h).
Proof.
  intros A. unfold HostNameG. cbn [mode_of m_fold m_maxdot].
  rewrite (fold_case_ascii documented h A), (fold_case_ascii pinned h A). cbn [len253 documented pinned].
  split.
  - intros (NE & body & ls & D & R). split; auto. exists body, ls. split; auto.
    destruct D as [D|[D L]]; [left; auto|right; split; auto; lia].
  - intros (NE & body & ls & D & R).
    destruct D as [D|[D L]].
    + left. split; auto. exists body, ls. auto.
    + destruct (Nat.eq_dec (length body) 254) as [E|NE254].
      * right. exists body. auto.
      * left. split; auto. exists body, ls. split; auto. right. split; auto. lia.
Qed.

Lemma ascii_parts a ty hp h p m : all is_ascii a -> AddressParts m a ty hp h p -> all is_ascii h.
Proof.
  intros A (Ea & _ & _ & (_ & _ & Form) & _). subst a. unfold all in *.
  apply Forall_app in A. destruct A as [_ A]. apply Forall_app in A. destruct A as [_ A].
  destruct Form as [[-> _]|[-> _]].
  - apply Forall_app in A. tauto.
  - inversion A; subst. apply Forall_app in H2. tauto.
Qed.

(* every address of the documented grammar is accepted by the pinned code (ASCII) *)
Theorem documented_implies_pinned a : all is_ascii a ->
  valid documented a = Ok true -> valid pinned a = Ok true.
Proof.
  intros A V. apply valid_iff_grammar in V. apply valid_iff_grammar.
  destruct V as (ty & hp & h & p & P). exists ty, hp, h, p.
  pose proof (ascii_parts _ _ _ _ _ _ A P) as Ah.
  destruct P as (Ea & K & NS & (Hl & Hr & Form) & PG & HG).
  repeat split; auto.
  - destruct Form as [F|[E _]]; [left; exact F|right; split; auto].
  - destruct HG as [HG|[HG|[HG|HG]]]; [left; auto|right; left; auto|right; right; left; auto|].
    right; right; right. now apply (HostNameG_modes h Ah).
Qed.

(* and the pinned code accepts nothing else, except the two recorded shapes F24 and N1
   (N2 needs a non-ASCII byte) *)
Theorem pinned_exceptions a ty hp h p : all is_ascii a ->
  AddressParts (mode_of pinned) a ty hp h p ->
  AddressParts (mode_of documented) a ty hp h p \/ BracketNoColon hp h p \/ Dot254 h.
Proof.
  intros A P. pose proof (ascii_parts _ _ _ _ _ _ A P) as Ah.
  destruct P as (Ea & K & NS & (Hl & Hr & Form) & PG & HG).
  destruct (in_dec ascii_dec c_colon h) as [IC|NC].
  - (* a colon in the host: brackets are mandatory and documented *)
    assert (HG' : HostG (mode_of documented) h \/ Dot254 h).
    { destruct HG as [HG|[HG|[HG|HG]]]; [left; left; auto|left; right; left; auto|left; right; right; left; auto|].
      destruct (proj2 (HostNameG_modes h Ah) HG) as [G|G]; [left; right; right; right; auto|right; auto]. }
    destruct HG' as [HG'|D]; [|right; right; exact D].
    left. repeat split; auto.
    destruct Form as [[_ NC]|[E _]]; [contradiction|right; split; auto].
  - destruct Form as [F|[E _]].
    + assert (HG' : HostG (mode_of documented) h \/ Dot254 h).
      { destruct HG as [HG|[HG|[HG|HG]]]; [left; left; auto|left; right; left; auto|left; right; right; left; auto|].
        destruct (proj2 (HostNameG_modes h Ah) HG) as [G|G]; [left; right; right; right; auto|right; auto]. }
      destruct HG' as [HG'|D]; [|right; right; exact D].
      left. repeat split; auto.
    + right; left. split; auto.
Qed.

(* N1: a 254-byte name plus trailing dot *)
Definition lab (n : nat) : bytes := repeat "a"%char n.
Definition host254dot : bytes :=
  lab 63 ++ c_dot :: lab 63 ++ c_dot :: lab 63 ++ c_dot :: lab 62 ++ [c_dot].

Theorem len254_refuted :
  exists a, valid pinned a = Ok true /\ valid documented a = Ok false /\
            length host254dot = 255 /\ a = B "tcp://" ++ host254dot ++ B ":80".
Proof. exists (B "tcp://" ++ host254dot ++ B ":80"). vm_compute. auto. Qed.

(* N2: Unicode case folding lets U+212A (Kelvin sign) pass as the letter k; and the
   U+FFFD substitution triples the length of invalid bytes *)
Definition kelvin : bytes := [chr 226; chr 132; chr 170].

Theorem unicode_fold_refuted :
  (exists a, valid pinned a = Ok true /\ valid documented a = Ok false /\
             a = B "tcp://" ++ kelvin ++ B ".com:80") /\
  (exists a, valid pinned a = Ok false /\ valid documented a = Ok true /\
             a = B "tcp://" ++ repeat (chr 255) 22 ++ B ":80").
Proof.
  split.
  - exists (B "tcp://" ++ kelvin ++ B ".com:80"). vm_compute. auto.
  - exists (B "tcp://" ++ repeat (chr 255) 22 ++ B ":80"). vm_compute. auto.
Qed.

(* ---- the hypotheses of the theorems above are satisfiable ------------------------------------------------ *)
Example grammar_inhabited :
  AddressG Documented (B "tls://[2001:db8::1.2.3.4]:7770") /\ AddressG Documented (B "tcp://EPFL.ch.:+80") /\
  AddressG Documented (B "local://:0") /\ AddressG Lenient (B "tcp://[localhost]:80") /\
  ~ AddressG Documented (B "tcp://[localhost]:80") /\ ~ AddressG Lenient (B "tcp://1.2.3.4:65536").
Proof.
  repeat split.
  - apply (valid_iff_grammar documented). vm_compute. reflexivity.
  - apply (valid_iff_grammar documented). vm_compute. reflexivity.
  - apply (valid_iff_grammar documented). vm_compute. reflexivity.
  - apply (valid_iff_grammar pinned). vm_compute. reflexivity.
  - intros H. apply (valid_iff_grammar documented) in H. vm_compute in H. discriminate.
  - intros H. apply (valid_iff_grammar pinned) in H. vm_compute in H. discriminate.
Qed.

Example parts_inhabited :
  exists ty hp h p, AddressParts (mode_of pinned) (B "tcp://[::1]:2000") ty hp h p /\
                    host pinned (B "tcp://[::1]:2000") = Ok h /\ h = B "::1" /\ p = B "2000".
Proof.
  assert (V : valid pinned (B "tcp://[::1]:2000") = Ok true) by (vm_compute; reflexivity).
  apply valid_iff_grammar in V. destruct V as (ty & hp & h & p & P).
  destruct (accessors_valid _ _ _ _ _ _ P) as (_ & _ & _ & H & Pt).
  exists ty, hp, h, p. split; auto. split; auto.
  assert (H' : host pinned (B "tcp://[::1]:2000") = Ok (B "::1")) by (vm_compute; reflexivity).
  assert (P' : port pinned (B "tcp://[::1]:2000") = Ok (B "2000")) by (vm_compute; reflexivity).
  rewrite H in H'. rewrite Pt in P'. inversion H'. inversion P'. auto.
Qed.

Example invalid_inhabited : valid pinned (B "tls://1000.0.0.4:2000") = Ok false /\ valid pinned [] = Ok false.
Proof. vm_compute. auto. Qed.

Example listen_inhabited :
  get_listen_address pinned (B "tcp://1.2.3.4:1234") [] = Ok (B ":1234") /\
  get_listen_address pinned (B "tcp://1.2.3.4:1234") (B "4.3.2.1") = Ok (B "4.3.2.1:1234") /\
  get_listen_address pinned (B "tcp://1.2.3.4:1234") (B "4.3.2.1:4321") = Ok (B "4.3.2.1:4321") /\
  get_listen_address pinned (B "tcp://1.2.3.4:1234") (B "::1") = Err.
Proof. vm_compute. auto. Qed.

Example ws_inhabited :
  get_ws_host_port pinned (B "tcp://8.8.8.8:7770") [] false = WOk (B "8.8.8.8:7771") /\
  get_ws_host_port pinned (B "tcp://8.8.8.8:7770") [] true = WOk (B "0.0.0.0:7771") /\
  get_ws_host_port pinned (B "tcp://8.8.8.8:7770") (B "https://example.com/path") false = WOk (B "example.com:443") /\
  get_ws_host_port pinned (B "tcp://8.8.8.8:7770") (B "http://[::1]:8080") false = WOk (B "[::1]:8080") /\
  get_ws_host_port pinned (B "tcp://8.8.8.8:7770") (B "http://h:65536") false = WErr.
Proof. vm_compute. auto. Qed.
