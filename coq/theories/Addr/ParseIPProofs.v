(* PROOF file: net.ParseIP as modelled in Addr/GoNet.v accepts exactly the IP
   literals of the declarative grammar (Addr/Grammar.v: IPv4, IPv6). *)
From Coq Require Import String Ascii NArith ZArith Bool List Lia.
From Onet Require Import Base.HexC20 Addr.GoStr Addr.GoNet Addr.Grammar Addr.GoStrProofs Addr.GoNetProofs.
Import ListNotations.
Local Open Scope list_scope.

(* ---- decimal values ------------------------------------------------------------------------- *)
Definition dstep (a : N) (c : ascii) : N := (10 * a + (code c - 48))%N.

Lemma dec_value_fold s : dec_value s = fold_left dstep s 0%N.
Proof. reflexivity. Qed.

Lemma dec_value_snoc s c : dec_value (s ++ [c]) = (10 * dec_value s + (code c - 48))%N.
Proof. unfold dec_value. rewrite fold_left_app. reflexivity. Qed.

Lemma fold_dstep_ge s acc : (acc <= fold_left dstep s acc)%N.
Proof.
  revert acc; induction s as [|c r IH]; intros acc; simpl; [lia|].
  specialize (IH (dstep acc c)). unfold dstep in *. lia.
Qed.

Lemma dec_value_app_ge s t : (dec_value s <= dec_value (s ++ t))%N.
Proof. unfold dec_value. rewrite fold_left_app. apply fold_dstep_ge. Qed.

Lemma all_app p s t : all p (s ++ t) <-> all p s /\ all p t.
Proof. unfold all. apply Forall_app. Qed.

Lemma digit_not_dot c : is_digit c = true -> c <> c_dot.
Proof. intros H ->. vm_compute in H. discriminate. Qed.

Lemma Octet_nodot o : Octet o -> ~ In c_dot o.
Proof.
  intros ([_ A] & _) H. unfold all in A. rewrite Forall_forall in A.
  apply (digit_not_dot _ (A _ H)). reflexivity.
Qed.

(* ---- IPv4 as four dot-separated fields ------------------------------------------------------------- *)
Lemma IPv4_fields s :
  IPv4 s <-> (let (h, t) := split_byte c_dot s in Octet h /\ Forall Octet t /\ length t = 3).
Proof.
  split.
  - intros (a & b & c & d & A & Bq & C & D & ->).
    assert (ND : Forall (fun l : bytes => ~ In c_dot l) (a :: [b; c; d])).
    { repeat constructor; now apply Octet_nodot. }
    change (a ++ c_dot :: b ++ c_dot :: c ++ c_dot :: d) with (sepjoin c_dot (a :: [b; c; d])).
    rewrite (split_byte_sepjoin c_dot a [b; c; d] ND). split; [exact A|split; [|reflexivity]].
    constructor; [exact Bq|constructor; [exact C|constructor; [exact D|constructor]]].
  - destruct (split_byte c_dot s) as [h t] eqn:S. intros (H & F & L).
    destruct (split_byte_join _ _ _ _ S) as [J _].
    destruct t as [|b [|c [|d [|]]]]; simpl in L; try lia.
    inversion F as [|? ? Hb F2]; subst. inversion F2 as [|? ? Hc F3]; subst. inversion F3 as [|? ? Hd _]; subst.
    exists h, b, c, d. split; [exact H|split; [exact Hb|split; [exact Hc|split; [exact Hd|reflexivity]]]].
Qed.

(* a prefix of an octet: digits so far, value still in range, no leading zero *)
Definition OP (cur : bytes) : Prop :=
  all is_digit cur /\ (dec_value cur <= 255)%N /\ (forall r, cur = "0"%char :: r -> r = []).

Lemma OP_Octet cur : OP cur -> cur <> [] -> Octet cur.
Proof. intros (A & V & Z) NE. repeat split; auto. Qed.

Lemma Octet_OP o : Octet o -> OP o.
Proof. intros ([_ A] & V & Z). repeat split; auto. Qed.

Lemma digit_code c : is_digit c = true -> (48 <= code c <= 57)%N.
Proof.
  unfold is_digit, in_range. rewrite andb_true_iff, !N.leb_le. tauto.
Qed.

Lemma single_zero cur : all is_digit cur -> length cur = 1 -> dec_value cur = 0%N -> cur = ["0"%char].
Proof.
  destruct cur as [|d [|]]; simpl; try discriminate. intros A _ V.
  inversion A; subst. apply digit_code in H1. unfold dec_value in V. simpl in V.
  assert (code d = 48%N) by lia. f_equal.
  unfold code in H. rewrite <- (ascii_N_embedding d). rewrite H. reflexivity.
Qed.

Lemma ipv4_loop_iff s : forall cur pos as_ pd,
  OP cur -> (pos <= 3)%N -> (as_ || pd = true <-> cur = []) -> (cur = [] -> s <> []) ->
  (ipv4_loop s (dec_value cur) pos (N.of_nat (length cur)) as_ pd = true <->
   (let (h, t) := split_byte c_dot s in
    Octet (cur ++ h) /\ Forall Octet t /\ N.of_nat (length t) = (3 - pos)%N)).
Proof.
  induction s as [|c r IH]; intros cur pos as_ pd HOP Hpos Hfl Hne.
  - cbn [ipv4_loop split_byte length]. change (N.of_nat 0) with 0%N. rewrite app_nil_r. rewrite N.leb_le.
    assert (cur <> []) by (intros E; apply (Hne E); reflexivity).
    split.
    + intros H3. split; [now apply OP_Octet|split; [constructor|lia]].
    + intros (_ & _ & L). lia.
  - cbn [ipv4_loop split_byte]. destruct (split_byte c_dot r) as [h' t'] eqn:S.
    destruct (is_digit c) eqn:Dg.
    + (* a digit *)
      assert (Ecd : Ascii.eqb c c_dot = false) by (apply aeqb_false; now apply digit_not_dot).
      rewrite Ecd.
      destruct ((N.of_nat (length cur) =? 1) && (dec_value cur =? 0))%N eqn:LZ.
      * apply andb_true_iff in LZ. destruct LZ as [L1 L2]. apply N.eqb_eq in L1, L2.
        assert (cur = ["0"%char]) by (apply single_zero; [apply HOP|lia|auto]). subst cur.
        split; [discriminate|]. intros ((_ & _ & Z) & _). specialize (Z _ eq_refl). discriminate.
      * destruct (255 <? 10 * dec_value cur + (code c - 48))%N eqn:OV.
        -- apply N.ltb_lt in OV. split; [discriminate|]. intros ((_ & V & _) & _). exfalso.
           pose proof (dec_value_app_ge (cur ++ [c]) h') as G. rewrite dec_value_snoc in G.
           rewrite <- app_assoc in G. cbn [app] in G. lia.
        -- apply N.ltb_ge in OV.
           assert (HOP' : OP (cur ++ [c])).
           { destruct HOP as (A & V & Z). repeat split.
             - apply all_app. split; auto. constructor; auto.
             - rewrite dec_value_snoc. lia.
             - intros r0 E. destruct cur as [|c0 cur'].
               + simpl in E. inversion E. reflexivity.
               + simpl in E. inversion E; subst c0. specialize (Z _ eq_refl). subst cur'.
                 simpl in LZ. unfold dec_value in LZ. simpl in LZ. discriminate. }
           specialize (IH (cur ++ [c]) pos false false HOP' Hpos).
           rewrite dec_value_snoc in IH. rewrite app_length in IH. simpl length in IH.
           replace (N.of_nat (length cur + 1)) with (N.of_nat (length cur) + 1)%N in IH by lia.
           rewrite <- app_assoc in IH. simpl app in IH.
           apply IH.
           ++ split; [discriminate|]. intros E. destruct cur; discriminate.
           ++ intros E. destruct cur; discriminate.
    + destruct (Ascii.eqb c c_dot) eqn:Ecd.
      * (* a dot *)
        apply aeqb_true in Ecd. subst c.
        destruct (as_ || match r with [] => true | _ :: _ => false end || pd) eqn:BAD.
        -- split; [discriminate|]. intros (O1 & F & L). exfalso.
           rewrite app_nil_r in O1.
           apply orb_true_iff in BAD. destruct BAD as [BAD|BAD]; [apply orb_true_iff in BAD; destruct BAD as [BAD|BAD]|].
           ++ assert (cur = []) by (apply Hfl; rewrite BAD; reflexivity). subst cur.
              destruct O1 as ([NE _] & _). congruence.
           ++ destruct r; [|discriminate]. simpl in S. inversion S; subst h' t'.
              inversion F; subst. destruct H1 as ([NE _] & _). congruence.
           ++ assert (cur = []) by (apply Hfl; rewrite BAD; apply orb_true_r). subst cur.
              destruct O1 as ([NE _] & _). congruence.
        -- apply orb_false_iff in BAD. destruct BAD as [BAD Bpd]. apply orb_false_iff in BAD. destruct BAD as [Bas Br].
           assert (NEc : cur <> []).
           { intros E. apply Hfl in E. rewrite Bas, Bpd in E. discriminate. }
           assert (NEr : r <> []) by (destruct r; [discriminate|discriminate]).
           destruct (pos =? 3)%N eqn:P3.
           ++ apply N.eqb_eq in P3. subst pos. split; [discriminate|]. intros (_ & _ & L). simpl in L. lia.
           ++ apply N.eqb_neq in P3.
              assert (HOP0 : OP []) by (repeat split; [constructor|unfold dec_value; simpl; lia|intros; discriminate]).
              specialize (IH [] (pos + 1)%N false true HOP0 ltac:(lia)).
              cbn [app length] in IH. change (dec_value []) with 0%N in IH. change (N.of_nat 0) with 0%N in IH. rewrite app_nil_r.
              rewrite IH; [|split; auto|auto].
              simpl length. split.
              ** intros (O1 & F & L). split; [now apply OP_Octet|split; [constructor; auto|lia]].
              ** intros (_ & F & L). inversion F; subst. split; [auto|split; [auto|lia]].
      * (* anything else *)
        split; [discriminate|]. intros (([_ A] & _) & _). exfalso.
        apply all_app in A. destruct A as [_ A]. inversion A; subst. congruence.
Qed.

Theorem ipv4_fields_ok_iff s : ipv4_fields_ok s = true <-> IPv4 s.
Proof.
  rewrite IPv4_fields. unfold ipv4_fields_ok. destruct s as [|c r].
  - simpl. split; [discriminate|]. intros (([NE _] & _) & _). congruence.
  - assert (HOP0 : OP []) by (repeat split; [constructor|unfold dec_value; simpl; lia|intros; discriminate]).
    pose proof (ipv4_loop_iff (c :: r) [] 0%N true false HOP0 ltac:(lia)) as H.
    simpl app in H. simpl length in H. change (dec_value []) with 0%N in H.
    rewrite H; [|split; auto|discriminate].
    destruct (split_byte c_dot (c :: r)) as [h t]. split.
    + intros (O1 & F & L). split; [auto|split; [auto|lia]].
    + intros (O1 & F & L). split; [auto|split; [auto|lia]].
Qed.

(* ---- IPv6: the inner hex loop ----------------------------------------------------------------------- *)
Lemma hexdigit_hex c : is_hex c = true -> exists d, hexdigit c = Some d /\ (d < 16)%N.
Proof.
  unfold is_hex, hexdigit. destruct (is_digit c) eqn:D.
  - intros _. apply digit_code in D. eexists; split; eauto. lia.
  - destruct (in_range 97 102 c) eqn:L.
    + intros _. unfold in_range in L. rewrite andb_true_iff, !N.leb_le in L. eexists; split; eauto. lia.
    + destruct (in_range 65 70 c) eqn:U; [|discriminate].
      intros _. unfold in_range in U. rewrite andb_true_iff, !N.leb_le in U. eexists; split; eauto. lia.
Qed.

Lemma hexdigit_nonhex c : is_hex c = false -> hexdigit c = None.
Proof.
  unfold is_hex, hexdigit. destruct (is_digit c); [discriminate|].
  destruct (in_range 97 102 c); [discriminate|]. destruct (in_range 65 70 c); [discriminate|reflexivity].
Qed.

Lemma hexdigit_Some_hex c d : hexdigit c = Some d -> is_hex c = true /\ (d < 16)%N.
Proof.
  intros H. destruct (is_hex c) eqn:E.
  - split; auto. destruct (hexdigit_hex c E) as (d' & H' & L). congruence.
  - rewrite (hexdigit_nonhex c E) in H. discriminate.
Qed.

(* bound on the accumulator after [off] digits *)
Definition hb (off : nat) : N :=
  match off with O => 1%N | S O => 16%N | S (S O) => 256%N | S (S (S O)) => 4096%N | _ => 65536%N end.

Definition stops (rest : bytes) : Prop := match rest with [] => True | c :: _ => is_hex c = false end.

Lemma hex_run_app g : forall rest off acc,
  all is_hex g -> off + length g <= 4 -> (acc < hb off)%N -> stops rest ->
  hex_run (g ++ rest) off acc = Some (off + length g, rest).
Proof.
  induction g as [|c g IH]; intros rest off acc A L B St.
  - simpl. rewrite Nat.add_0_r. destruct rest as [|c r]; [reflexivity|].
    simpl in St. simpl. now rewrite (hexdigit_nonhex c St).
  - inversion A as [|? ? Hc A']; subst. destruct (hexdigit_hex c Hc) as (d & Hd & Ld).
    simpl app. cbn [hex_run]. rewrite Hd. simpl length in L.
    assert (O3 : off <= 3) by lia.
    replace (Nat.ltb 3 off) with false by (symmetry; apply Nat.ltb_ge; lia).
    assert (B' : (acc * 16 + d < hb (S off))%N).
    { destruct off as [|[|[|[|]]]]; simpl in *; lia. }
    assert (B65 : (acc * 16 + d <= 65535)%N).
    { destruct off as [|[|[|[|]]]]; simpl in *; lia. }
    replace (65535 <? acc * 16 + d)%N with false by (symmetry; apply N.ltb_ge; lia).
    rewrite (IH rest (S off) (acc * 16 + d)%N A' ltac:(simpl; lia) B' St).
    f_equal. f_equal. simpl. lia.
Qed.

Lemma hex_run_sound s : forall off acc n rest,
  (acc < hb off)%N -> off <= 4 -> hex_run s off acc = Some (n, rest) ->
  exists g, s = g ++ rest /\ n = off + length g /\ all is_hex g /\ n <= 4 /\ stops rest.
Proof.
  induction s as [|c r IH]; intros off acc n rest B L H.
  - simpl in H. inversion H; subst. exists []. simpl. repeat split; auto; try lia; constructor.
  - cbn [hex_run] in H. destruct (hexdigit c) as [d|] eqn:Hd.
    + destruct (hexdigit_Some_hex c d Hd) as [Hc Ld].
      destruct (Nat.ltb 3 off) eqn:O; [discriminate|]. apply Nat.ltb_ge in O.
      destruct (65535 <? acc * 16 + d)%N; [discriminate|].
      assert (B' : (acc * 16 + d < hb (S off))%N).
      { destruct off as [|[|[|[|]]]]; simpl in *; lia. }
      destruct (IH (S off) (acc * 16 + d)%N n rest B' ltac:(lia) H) as (g & -> & -> & A & L4 & St).
      exists (c :: g). simpl. repeat split; auto; try lia. constructor; auto.
    + inversion H; subst. exists []. simpl. repeat split; auto; try lia; try (now constructor).
      destruct (is_hex c) eqn:E; auto. destruct (hexdigit_hex c E) as (d & Hd' & _). congruence.
Qed.

(* ---- IPv6: the group loop against a grammar of "tails" ------------------------------------------------ *)
(* Tail n e b s: s is a non-empty colon-separated run of groups occupying n 16-bit
   slots, e: it contains the "::", b: it ends with an embedded IPv4 address *)
Inductive Tail : nat -> bool -> bool -> bytes -> Prop :=
| T1 g : Hex4 g -> Tail 1 false false g
| T4 q : IPv4 q -> Tail 2 false true q
| TC g n e b s : Hex4 g -> Tail n e b s -> Tail (S n) e b (g ++ c_colon :: s)
| TE g : Hex4 g -> Tail 1 true false (g ++ [c_colon; c_colon])
| TEC g n b s : Hex4 g -> Tail n false b s -> Tail (S n) true b (g ++ c_colon :: c_colon :: s).

Lemma hex_colon : is_hex c_colon = false. Proof. reflexivity. Qed.
Lemma hex_dot : is_hex c_dot = false. Proof. reflexivity. Qed.

Lemma digit_is_hex c : is_digit c = true -> is_hex c = true.
Proof. unfold is_hex. intros ->. reflexivity. Qed.

Lemma Hex4_head g : Hex4 g -> exists c r, g = c :: r /\ is_hex c = true.
Proof.
  intros [[L _] A]. destruct g as [|c r]; [simpl in L; lia|]. inversion A; subst. eauto.
Qed.

Lemma Octet_head o : Octet o -> exists c r, o = c :: r /\ is_hex c = true.
Proof.
  intros ([NE A] & _). destruct o as [|c r]; [congruence|]. inversion A; subst.
  exists c, r. split; auto. now apply digit_is_hex.
Qed.

Lemma IPv4_head q : IPv4 q -> exists c r, q = c :: r /\ is_hex c = true.
Proof.
  intros (a & b & c & d & A & _ & _ & _ & ->). destruct (Octet_head a A) as (x & r & -> & H).
  simpl. eauto.
Qed.

(* a tail starts with a hex digit: in particular it is neither empty nor starts with ':' *)
Lemma Tail_head n e b s : Tail n e b s -> exists c r, s = c :: r /\ is_hex c = true.
Proof.
  induction 1.
  - now apply Hex4_head.
  - now apply IPv4_head.
  - destruct (Hex4_head g H) as (c & r & -> & Hc). simpl. eauto.
  - destruct (Hex4_head g H) as (c & r & -> & Hc). simpl. eauto.
  - destruct (Hex4_head g H) as (c & r & -> & Hc). simpl. eauto.
Qed.

Lemma Hex4_run g rest : Hex4 g -> stops rest ->
  exists m, length g = S m /\ hex_run (g ++ rest) 0 0 = Some (S m, rest).
Proof.
  intros [[L1 L4] A] St. destruct (length g) as [|m] eqn:LG; [lia|].
  exists m. split; auto.
  rewrite (hex_run_app g rest 0 0%N A ltac:(lia) ltac:(simpl; lia) St). now rewrite LG.
Qed.

Lemma Octet_hex_len o : Octet o -> all is_hex o /\ 1 <= length o <= 3.
Proof.
  intros ([NE A] & V & Z). split.
  - unfold all in *. eapply Forall_impl; [|exact A]. intros c. apply digit_is_hex.
  - split; [destruct o; [congruence|simpl; lia]|].
    destruct o as [|a [|b [|c [|d r]]]]; simpl; try lia. exfalso.
    inversion A as [|? ? Ha A1]; subst. inversion A1 as [|? ? Hb A2]; subst.
    inversion A2 as [|? ? Hc A3]; subst. inversion A3 as [|? ? Hd A4]; subst.
    apply digit_code in Ha, Hb, Hc, Hd.
    assert (a <> "0"%char) by (intros ->; specialize (Z _ eq_refl); discriminate).
    assert (code a <> 48%N).
    { intros E. apply H. unfold code in E. rewrite <- (ascii_N_embedding a), E. reflexivity. }
    pose proof (dec_value_app_ge [a; b; c; d] r) as G. simpl app in G.
    unfold dec_value at 1 in G. cbn [fold_left] in G. lia.
Qed.

Definition i_of (k : nat) : N := (16 - 2 * N.of_nat k)%N.

(* completeness: every tail that fits is accepted *)
Lemma v6_loop_complete n e b s : Tail n e b s ->
  forall k ell, n <= k -> k <= 8 ->
  (e = true -> ell = None) -> (b = true -> ell <> None \/ e = true \/ n = k) ->
  exists ell', v6_loop k ell s = V6Stop (i_of (k - n)) ell' [] /\
               (e = true -> ell' <> None) /\ (e = false -> ell' = ell).
Proof.
  induction 1 as [g Hg|q Hq|g n e b s Hg HT IH|g Hg|g n b s Hg HT IH]; intros k ell Lk K8 He Hb.
  - (* last group *)
    destruct k as [|k']; [lia|]. destruct (Hex4_run g [] Hg I) as (m & LG & HR).
    rewrite app_nil_r in HR. cbn [v6_loop]. rewrite HR.
    exists ell. split; [|split; auto; discriminate].
    f_equal. unfold i_of. lia.
  - (* embedded IPv4 *)
    destruct k as [|[|k']]; try lia.
    pose proof Hq as (a & b0 & c & d & A & _ & _ & _ & Eq).
    destruct (Octet_hex_len a A) as [AH [L1 L3]].
    assert (HR : exists m, hex_run q 0 0 = Some (S m, c_dot :: b0 ++ c_dot :: c ++ c_dot :: d)).
    { destruct (length a) as [|m] eqn:LA; [lia|]. exists m. rewrite Eq.
      rewrite (hex_run_app a (c_dot :: b0 ++ c_dot :: c ++ c_dot :: d) 0 0%N AH ltac:(lia) ltac:(simpl; lia) hex_dot). now rewrite LA. }
    destruct HR as (m & HR). cbn [v6_loop]. rewrite HR. change (Ascii.eqb c_dot c_dot) with true. cbv iota.
    apply ipv4_fields_ok_iff in Hq. rewrite Hq.
    assert (C1 : (match ell with None => true | Some _ => false end) &&
                 negb (16 - 2 * N.of_nat (S (S k')) =? 12)%N = false).
    { destruct ell; [reflexivity|]. cbn [andb]. apply negb_false_iff. apply N.eqb_eq.
      destruct (Hb eq_refl) as [G|[G|G]]; [congruence|discriminate|]. lia. }
    rewrite C1.
    replace (16 <? 16 - 2 * N.of_nat (S (S k')) + 4)%N with false by (symmetry; apply N.ltb_ge; lia).
    exists ell. split; [|split; auto; discriminate]. f_equal. unfold i_of. lia.
  - (* group ':' tail *)
    destruct k as [|k']; [lia|].
    destruct (Hex4_run g (c_colon :: s) Hg hex_colon) as (m & LG & HR).
    cbn [v6_loop]. rewrite HR. change (Ascii.eqb c_colon c_dot) with false.
    change (Ascii.eqb c_colon c_colon) with true. cbv iota. cbn [negb].
    destruct (Tail_head _ _ _ _ HT) as (c2 & r2 & Es & Hc2). rewrite Es.
    assert (NC : Ascii.eqb c2 c_colon = false).
    { apply aeqb_false. intros ->. rewrite hex_colon in Hc2. discriminate. }
    rewrite NC. rewrite <- Es.
    destruct (IH k' ell ltac:(lia) ltac:(lia) He) as (ell' & E & P1 & P2).
    { intros Hb'. destruct (Hb Hb') as [G|[G|G]]; auto; right; right; lia. }
    exists ell'. split; [|auto]. rewrite E. reflexivity.
  - (* group '::' at the end *)
    destruct k as [|k']; [lia|].
    destruct (Hex4_run g [c_colon; c_colon] Hg hex_colon) as (m & LG & HR).
    cbn [v6_loop]. rewrite HR. change (Ascii.eqb c_colon c_dot) with false.
    change (Ascii.eqb c_colon c_colon) with true. cbv iota. cbn [negb].
    rewrite (He eq_refl).
    exists (Some (16 - 2 * N.of_nat (S k') + 2)%N). split; [|split; [intros _; discriminate|discriminate]].
    f_equal. unfold i_of. lia.
  - (* group '::' tail *)
    destruct k as [|k']; [lia|].
    destruct (Hex4_run g (c_colon :: c_colon :: s) Hg hex_colon) as (m & LG & HR).
    cbn [v6_loop]. rewrite HR. change (Ascii.eqb c_colon c_dot) with false.
    change (Ascii.eqb c_colon c_colon) with true. cbv iota. cbn [negb].
    rewrite (He eq_refl).
    destruct (Tail_head _ _ _ _ HT) as (c2 & r2 & Es & Hc2). rewrite Es. rewrite <- Es.
    destruct (IH k' (Some (16 - 2 * N.of_nat (S k') + 2)%N) ltac:(lia) ltac:(lia)) as (ell' & E & P1 & P2).
    { discriminate. }
    { intros _. left. discriminate. }
    exists ell'. split; [|split; [|discriminate]].
    + rewrite E. f_equal.
    + intros _. rewrite (P2 eq_refl). discriminate.
Qed.

(* soundness: whatever the loop accepts is a tail that fits *)
Lemma v6_loop_sound k : forall ell s i ell', s <> [] -> k <= 8 ->
  v6_loop k ell s = V6Stop i ell' [] ->
  exists n e b, Tail n e b s /\ n <= k /\ i = i_of (k - n) /\
    (e = true -> ell = None /\ ell' <> None) /\ (e = false -> ell' = ell) /\
    (b = true -> ell <> None \/ e = true \/ n = k).
Proof.
  induction k as [|k' IH]; intros ell s i ell' NE K8 H.
  - simpl in H. inversion H; subst. congruence.
  - cbn [v6_loop] in H. remember (16 - 2 * N.of_nat (S k'))%N as I eqn:EI in H.
    destruct (hex_run s 0 0) as [[off rest]|] eqn:HR; [|discriminate].
    destruct off as [|m]; [discriminate|].
    destruct (hex_run_sound s 0 0%N (S m) rest ltac:(simpl; lia) ltac:(lia) HR) as (g & Es & Lg & Ag & L4 & St).
    simpl in Lg.
    assert (Hg : Hex4 g) by (split; [lia|exact Ag]).
    destruct rest as [|c r1].
    + (* last group *)
      injection H as <- <-. rewrite app_nil_r in Es. subst s.
      exists 1, false, false. split; [now constructor|]. split; [lia|]. split; [unfold i_of; subst I; lia|].
      split; [discriminate|]. split; [reflexivity|discriminate].
    + destruct (Ascii.eqb c c_dot) eqn:Ed.
      * (* embedded IPv4 *)
        destruct ((match ell with None => true | Some _ => false end) &&
                  negb (I =? 12)%N) eqn:C1; [discriminate|].
        destruct (16 <? I + 4)%N eqn:C2; [discriminate|]. apply N.ltb_ge in C2.
        destruct (ipv4_fields_ok s) eqn:V4; [|discriminate].
        injection H as <- <-. apply ipv4_fields_ok_iff in V4.
        exists 2, false, true. split; [now constructor|]. split; [lia|]. split; [unfold i_of; subst I; lia|].
        split; [discriminate|]. split; [reflexivity|]. intros _.
        destruct ell; [left; discriminate|]. right; right.
        cbn [andb] in C1. apply negb_false_iff, N.eqb_eq in C1. subst I. lia.
      * destruct (Ascii.eqb c c_colon) eqn:Ec; [|discriminate]. cbn [negb] in H.
        apply aeqb_true in Ec. subst c.
        destruct r1 as [|c2 r2]; [discriminate|].
        destruct (Ascii.eqb c2 c_colon) eqn:E2.
        -- apply aeqb_true in E2. subst c2. destruct ell as [x|]; [discriminate|].
           destruct r2 as [|c3 r3].
           ++ injection H as <- <-. subst s.
              exists 1, true, false. split; [now constructor|]. split; [lia|]. split; [unfold i_of; subst I; lia|].
              split; [intros _; split; [reflexivity|discriminate]|]. split; discriminate.
           ++ destruct (IH (Some (I + 2)%N) (c3 :: r3) i ell' ltac:(discriminate) ltac:(lia) H) as (n & e & b & HT & Ln & Ei & P1 & P2 & P3).
              destruct e; [destruct (P1 eq_refl) as [P _]; discriminate P|].
              subst s. exists (S n), true, b. split; [now constructor|]. split; [lia|]. split; [exact Ei|].
              split; [intros _; split; [reflexivity|rewrite (P2 eq_refl); discriminate]|].
              split; [discriminate|]. intros _. right; left; reflexivity.
        -- destruct (IH ell (c2 :: r2) i ell' ltac:(discriminate) ltac:(lia) H) as (n & e & b & HT & Ln & Ei & P1 & P2 & P3).
           subst s. exists (S n), e, b. split; [now constructor|]. split; [lia|]. split; [exact Ei|].
           split; [exact P1|]. split; [exact P2|]. intros Hb. destruct (P3 Hb) as [G|[G|G]]; auto.
Qed.

(* ---- tails as lists of groups ------------------------------------------------------------------------ *)
Lemma sepjoin_cons c (x : bytes) (l : list bytes) : l <> [] -> sepjoin c (x :: l) = x ++ c :: sepjoin c l.
Proof. destruct l; [congruence|reflexivity]. Qed.

Lemma Tail_ff n s : Tail n false false s <->
  exists gs, gs <> [] /\ Forall Hex4 gs /\ length gs = n /\ s = sepjoin c_colon gs.
Proof.
  split.
  - intros H. remember false as e0 eqn:Ee in H at 1. remember false as b0 eqn:Eb in H. revert Ee Eb.
    induction H as [g Hg|q Hq|g n e b s Hg HT IH|g Hg|g n b s Hg HT IH]; intros Ee Eb; try discriminate.
    + exists [g]. repeat split; auto; discriminate.
    + destruct (IH Ee Eb) as (gs & NE & F & L & ->). exists (g :: gs).
      split; [discriminate|]. split; [constructor; auto|]. split; [simpl; lia|].
      now rewrite sepjoin_cons.
  - intros (gs & NE & F & L & ->). revert n L. induction gs as [|g gs IH]; intros n L; [congruence|].
    inversion F; subst. destruct gs as [|g2 gs'].
    + simpl. now constructor.
    + rewrite sepjoin_cons by discriminate. simpl length. constructor; auto.
      apply IH; auto. discriminate.
Qed.

Lemma Tail_ft n s : Tail n false true s <->
  exists gs q, Forall Hex4 gs /\ IPv4 q /\ length gs + 2 = n /\ s = sepjoin c_colon (gs ++ [q]).
Proof.
  split.
  - intros H. remember false as e0 eqn:Ee in H. remember true as b0 eqn:Eb in H. revert Ee Eb.
    induction H as [g Hg|q Hq|g n e b s Hg HT IH|g Hg|g n b s Hg HT IH]; intros Ee Eb; try discriminate.
    + exists [], q. repeat split; auto.
    + destruct (IH Ee Eb) as (gs & q & F & Q & L & ->). exists (g :: gs), q.
      split; [constructor; auto|]. split; [auto|]. split; [simpl; lia|].
      simpl app. rewrite sepjoin_cons; auto. destruct gs; discriminate.
  - intros (gs & q & F & Q & L & ->). revert n L. induction gs as [|g gs IH]; intros n L.
    + simpl in *. subst n. now constructor.
    + inversion F; subst. simpl app. rewrite sepjoin_cons by (destruct gs; discriminate).
      simpl length. constructor; auto.
Qed.

Lemma Tail_t n b s : Tail n true b s <->
  exists l R m, l <> [] /\ Forall Hex4 l /\ s = sepjoin c_colon l ++ c_colon :: c_colon :: R /\
    n = length l + m /\ ((R = [] /\ m = 0 /\ b = false) \/ Tail m false b R).
Proof.
  split.
  - intros H. remember true as e0 eqn:Ee in H. revert Ee.
    induction H as [g Hg|q Hq|g n e b s Hg HT IH|g Hg|g n b s Hg HT IH]; intros Ee; try discriminate.
    + destruct (IH Ee) as (l & R & m & NE & F & -> & -> & D). exists (g :: l), R, m.
      split; [discriminate|]. split; [constructor; auto|]. split.
      * rewrite sepjoin_cons by auto. rewrite <- app_assoc. reflexivity.
      * split; [simpl; lia|exact D].
    + exists [g], [], 0. repeat split; auto; discriminate.
    + exists [g], s, n. split; [discriminate|]. split; [constructor; auto|]. split; [reflexivity|].
      split; [reflexivity|right; exact HT].
  - intros (l & R & m & NE & F & -> & -> & D). induction l as [|g l IH]; [congruence|].
    inversion F; subst. destruct l as [|g2 l'].
    + simpl. destruct D as [(-> & -> & ->)|HT].
      * now constructor.
      * now constructor.
    + rewrite sepjoin_cons by discriminate. rewrite <- app_assoc. simpl app. simpl length.
      constructor; auto. apply IH; auto. discriminate.
Qed.

(* ---- netip.parseIPv6 / ParseAddr / net.ParseIP ------------------------------------------------------- *)
Definition v6_accept (st : v6state) : bool :=
  match st with
  | V6Stop i ell [] =>
      if (i <? 16)%N then (match ell with Some _ => true | None => false end)
      else (match ell with Some _ => false | None => true end)
  | _ => false
  end.

Definition v6_body (s : bytes) : bool :=
  match s with
  | c1 :: c2 :: r =>
      if Ascii.eqb c1 c_colon && Ascii.eqb c2 c_colon
      then (match r with [] => true | _ => v6_accept (v6_loop 8 (Some 0%N) r) end)
      else v6_accept (v6_loop 8 None s)
  | _ => v6_accept (v6_loop 8 None s)
  end.

Lemma parse_ipv6_body s : parse_ipv6 s = Some (AddrV6 []) <-> (~ In c_pct s /\ v6_body s = true).
Proof.
  unfold parse_ipv6. destruct (index_byte c_pct s) as [i|] eqn:IP.
  - (* a zone: never the zone-less result *)
    assert (INP : In c_pct s) by (apply has_byte_In; unfold has_byte; now rewrite IP).
    split; [|tauto]. intros H. exfalso.
    destruct (skipn (S i) s) as [|z0 z] eqn:Z; [discriminate|]. cbv iota beta in H.
    destruct (firstn i s) as [|c1 [|c2 r]].
    + destruct (v6_loop 8 None []) as [|i' ell rest]; [discriminate|].
      destruct rest; [|discriminate]. destruct (i' <? 16)%N; destruct ell; discriminate.
    + destruct (v6_loop 8 None [c1]) as [|i' ell rest]; [discriminate|].
      destruct rest; [|discriminate]. destruct (i' <? 16)%N; destruct ell; discriminate.
    + destruct (Ascii.eqb c1 c_colon && Ascii.eqb c2 c_colon).
      * destruct r; [discriminate|].
        destruct (v6_loop 8 (Some 0%N) (a :: r)) as [|i' ell rest]; [discriminate|].
        destruct rest; [|discriminate]. destruct (i' <? 16)%N; destruct ell; discriminate.
      * destruct (v6_loop 8 None (c1 :: c2 :: r)) as [|i' ell rest]; [discriminate|].
        destruct rest; [|discriminate]. destruct (i' <? 16)%N; destruct ell; discriminate.
  - apply index_byte_None in IP. cbv iota beta. unfold v6_body, v6_accept.
    split.
    + intros H. split; [exact IP|].
      destruct s as [|c1 [|c2 r]].
      * destruct (v6_loop 8 None []) as [|i' ell rest]; [discriminate|].
        destruct rest; [|discriminate]. destruct (i' <? 16)%N; destruct ell; try discriminate; reflexivity.
      * destruct (v6_loop 8 None [c1]) as [|i' ell rest]; [discriminate|].
        destruct rest; [|discriminate]. destruct (i' <? 16)%N; destruct ell; try discriminate; reflexivity.
      * destruct (Ascii.eqb c1 c_colon && Ascii.eqb c2 c_colon).
        -- destruct r; [reflexivity|].
           destruct (v6_loop 8 (Some 0%N) (a :: r)) as [|i' ell rest]; [discriminate|].
           destruct rest; [|discriminate]. destruct (i' <? 16)%N; destruct ell; try discriminate; reflexivity.
        -- destruct (v6_loop 8 None (c1 :: c2 :: r)) as [|i' ell rest]; [discriminate|].
           destruct rest; [|discriminate]. destruct (i' <? 16)%N; destruct ell; try discriminate; reflexivity.
    + intros [_ H].
      destruct s as [|c1 [|c2 r]].
      * destruct (v6_loop 8 None []) as [|i' ell rest]; [discriminate|].
        destruct rest; [|discriminate]. destruct (i' <? 16)%N; destruct ell; try discriminate; reflexivity.
      * destruct (v6_loop 8 None [c1]) as [|i' ell rest]; [discriminate|].
        destruct rest; [|discriminate]. destruct (i' <? 16)%N; destruct ell; try discriminate; reflexivity.
      * destruct (Ascii.eqb c1 c_colon && Ascii.eqb c2 c_colon).
        -- destruct r; [reflexivity|].
           destruct (v6_loop 8 (Some 0%N) (a :: r)) as [|i' ell rest]; [discriminate|].
           destruct rest; [|discriminate]. destruct (i' <? 16)%N; destruct ell; try discriminate; reflexivity.
        -- destruct (v6_loop 8 None (c1 :: c2 :: r)) as [|i' ell rest]; [discriminate|].
           destruct rest; [|discriminate]. destruct (i' <? 16)%N; destruct ell; try discriminate; reflexivity.
Qed.

Lemma v6_accept_inv st : v6_accept st = true ->
  exists i ell, st = V6Stop i ell [] /\
    (((i < 16)%N /\ ell <> None) \/ ((16 <= i)%N /\ ell = None)).
Proof.
  destruct st as [|i ell rest]; [discriminate|]. simpl. destruct rest; [|discriminate].
  destruct (i <? 16)%N eqn:L; destruct ell; try discriminate; intros _; exists i; eexists; split; eauto.
  - left. apply N.ltb_lt in L. split; [auto|discriminate].
  - right. apply N.ltb_ge in L. auto.
Qed.

Lemma i_of_lt n : n <= 8 -> ((i_of (8 - n) < 16)%N <-> n <= 7).
Proof. unfold i_of. lia. Qed.

(* what the loop accepts, as a tail *)
Lemma v6_body_sound s : v6_body s = true -> IPv6 s.
Proof.
  unfold v6_body.
  assert (NoLead : forall s, s <> [] -> v6_accept (v6_loop 8 None s) = true -> IPv6 s).
  { clear s. intros s NE H. destruct (v6_accept_inv _ H) as (i & ell' & E & Fin).
    destruct (v6_loop_sound 8 None s i ell' NE ltac:(lia) E) as (n & e & b & HT & Ln & Ei & P1 & P2 & P3).
    destruct e.
    - destruct (P1 eq_refl) as [_ NN].
      assert (N7 : n <= 7).
      { destruct Fin as [[L _]|[_ EN]]; [|congruence]. subst i. now apply i_of_lt in L. }
      apply Tail_t in HT. destruct HT as (l & R & m & NEl & Fl & -> & -> & D).
      destruct D as [(-> & -> & ->)|HT].
      + right; right; left. exists l, []. repeat split; auto; try (simpl; lia).
      + destruct b.
        * apply Tail_ft in HT. destruct HT as (gs & q & Fg & Q & Lm & ->).
          right; right; right. exists l, gs, q. repeat split; auto; try lia.
        * apply Tail_ff in HT. destruct HT as (gs & NEg & Fg & Lm & ->).
          right; right; left. exists l, gs. repeat split; auto; try lia.
    - pose proof (P2 eq_refl) as EN. subst ell'.
      assert (N8 : n = 8).
      { destruct Fin as [[_ NN]|[L _]]; [congruence|]. subst i. unfold i_of in L. lia. }
      subst n. destruct b.
      + apply Tail_ft in HT. destruct HT as (gs & q & Fg & Q & Lm & ->).
        right; left. exists gs, q. repeat split; auto; try lia.
      + apply Tail_ff in HT. destruct HT as (gs & NEg & Fg & Lm & ->).
        left. exists gs. repeat split; auto. }
  destruct s as [|c1 [|c2 r]].
  - simpl. discriminate.
  - apply NoLead. discriminate.
  - destruct (Ascii.eqb c1 c_colon && Ascii.eqb c2 c_colon) eqn:CC.
    + apply andb_true_iff in CC. destruct CC as [C1 C2]. apply aeqb_true in C1, C2. subst c1 c2.
      destruct r as [|r0 r'].
      * intros _. right; right; left. exists [], []. repeat split; auto; try (simpl; lia).
      * intros H. destruct (v6_accept_inv _ H) as (i & ell' & E & Fin).
        destruct (v6_loop_sound 8 (Some 0%N) (r0 :: r') i ell' ltac:(discriminate) ltac:(lia) E)
          as (n & e & b & HT & Ln & Ei & P1 & P2 & P3).
        destruct e; [destruct (P1 eq_refl) as [P _]; discriminate P|].
        pose proof (P2 eq_refl) as EN. subst ell'.
        assert (N7 : n <= 7).
        { destruct Fin as [[L _]|[_ EN]]; [|discriminate EN]. subst i. now apply i_of_lt in L. }
        destruct b.
        -- apply Tail_ft in HT. destruct HT as (gs & q & Fg & Q & Lm & ->).
           right; right; right. exists [], gs, q. repeat split; auto; try (simpl; lia).
        -- apply Tail_ff in HT. destruct HT as (gs & NEg & Fg & Lm & ->).
           right; right; left. exists [], gs. repeat split; auto; try (simpl; lia).
    + apply NoLead. discriminate.
Qed.

(* ---- completeness: every IPv6 literal of the grammar is accepted ------------------------------------------- *)
Lemma hex_notin c g : all is_hex g -> is_hex c = false -> ~ In c g.
Proof.
  intros A H G. unfold all in A. rewrite Forall_forall in A. rewrite (A c G) in H. discriminate.
Qed.

Lemma IPv4_chars q : IPv4 q -> forall c, In c q -> is_digit c = true \/ c = c_dot.
Proof.
  intros (a & b & c0 & d & ([_ A] & _) & ([_ Bq] & _) & ([_ C] & _) & ([_ D] & _) & ->) c H.
  unfold all in *. rewrite Forall_forall in A, Bq, C, D.
  repeat (apply in_app_or in H; destruct H as [H|H]; [left; auto|destruct H as [H|H]; [right; auto|]]).
  left; auto.
Qed.

Lemma Tail_nopct n e b s : Tail n e b s -> ~ In c_pct s.
Proof.
  induction 1 as [g Hg|q Hq|g n e b s Hg HT IH|g Hg|g n b s Hg HT IH].
  - apply hex_notin; [apply Hg|reflexivity].
  - intros G. destruct (IPv4_chars q Hq _ G) as [D|D]; [vm_compute in D|]; discriminate.
  - apply in_app_not. split; [apply hex_notin; [apply Hg|reflexivity]|]. intros [G|G]; [discriminate|auto].
  - apply in_app_not. split; [apply hex_notin; [apply Hg|reflexivity]|]. intros [G|[G|[]]]; discriminate.
  - apply in_app_not. split; [apply hex_notin; [apply Hg|reflexivity]|]. intros [G|[G|G]]; try discriminate; auto.
Qed.

Lemma first_sep_hex g rest : all is_hex g -> first_sep (g ++ c_colon :: rest) = Some c_colon.
Proof.
  induction g as [|c g IH]; intros A; [reflexivity|]. inversion A; subst. simpl.
  assert (Ascii.eqb c c_dot = false) by (apply aeqb_false; intros ->; discriminate).
  assert (Ascii.eqb c c_colon = false) by (apply aeqb_false; intros ->; discriminate).
  assert (Ascii.eqb c c_pct = false) by (apply aeqb_false; intros ->; discriminate).
  rewrite H, H0, H3. simpl. auto.
Qed.

Lemma Tail_first_sep n e b s : Tail n e b s -> (3 <= n \/ e = true \/ (n = 2 /\ b = false)) ->
  first_sep s = Some c_colon.
Proof.
  intros HT C. destruct HT as [g Hg|q Hq|g n e b s Hg HT|g Hg|g n b s Hg HT].
  - exfalso. destruct C as [C|[C|[C _]]]; try lia; discriminate.
  - exfalso. destruct C as [C|[C|[_ C]]]; try lia; discriminate.
  - apply first_sep_hex, Hg.
  - apply first_sep_hex, Hg.
  - apply first_sep_hex, Hg.
Qed.

Lemma Tail_not_colon n e b s : Tail n e b s -> exists c r, s = c :: r /\ Ascii.eqb c c_colon = false.
Proof.
  intros HT. destruct (Tail_head _ _ _ _ HT) as (c & r & -> & Hc). exists c, r. split; auto.
  apply aeqb_false. intros ->. discriminate.
Qed.

Lemma v6_nolead_complete n e b s : Tail n e b s -> n <= 8 -> (e = false -> n = 8) -> (e = true -> n <= 7) ->
  v6_body s = true.
Proof.
  intros HT L8 Hf Ht.
  assert (B : v6_body s = v6_accept (v6_loop 8 None s)).
  { destruct (Tail_not_colon _ _ _ _ HT) as (c & r & -> & NC). unfold v6_body.
    destruct r; [reflexivity|]. now rewrite NC. }
  rewrite B.
  destruct (v6_loop_complete n e b s HT 8 None L8 ltac:(lia)) as (ell' & E & P1 & P2).
  { auto. }
  { intros _. destruct e; [right; left; reflexivity|right; right; auto]. }
  rewrite E. unfold v6_accept. destruct e.
  - specialize (Ht eq_refl). replace (i_of (8 - n) <? 16)%N with true by (symmetry; apply N.ltb_lt; unfold i_of; lia).
    destruct ell'; [reflexivity|]. exfalso. now apply P1.
  - rewrite (Hf eq_refl). rewrite (P2 eq_refl). reflexivity.
Qed.

Lemma v6_lead_complete n b r : Tail n false b r -> n <= 7 ->
  v6_body (c_colon :: c_colon :: r) = true.
Proof.
  intros HT L7. unfold v6_body. change (Ascii.eqb c_colon c_colon) with true. cbn [andb].
  destruct (Tail_head _ _ _ _ HT) as (c & r' & -> & _).
  destruct (v6_loop_complete n false b (c :: r') HT 8 (Some 0%N) ltac:(lia) ltac:(lia)) as (ell' & E & P1 & P2).
  { discriminate. }
  { intros _. left. discriminate. }
  rewrite E. unfold v6_accept. rewrite (P2 eq_refl).
  replace (i_of (8 - n) <? 16)%N with true by (symmetry; apply N.ltb_lt; unfold i_of; lia).
  reflexivity.
Qed.

Lemma Forall_Hex4_nonempty_join gs : gs <> [] -> Forall Hex4 gs -> Tail (length gs) false false (sepjoin c_colon gs).
Proof. intros NE F. apply Tail_ff. exists gs. auto. Qed.

Lemma v6_body_complete s : IPv6 s -> ~ In c_pct s /\ v6_body s = true /\ first_sep s = Some c_colon.
Proof.
  intros [(gs & F & L & ->)|[(gs & q & F & L & Q & ->)|[(l & r & Fl & Fr & L & ->)|(l & r & q & Fl & Fr & Q & L & ->)]]].
  - assert (HT : Tail 8 false false (sepjoin c_colon gs)).
    { apply Tail_ff. exists gs. repeat split; auto. destruct gs; [discriminate|discriminate]. }
    split; [eapply Tail_nopct; eauto|]. split.
    + eapply v6_nolead_complete; eauto; try lia; discriminate.
    + eapply Tail_first_sep; [eauto|left; lia].
  - assert (HT : Tail 8 false true (sepjoin c_colon (gs ++ [q]))).
    { apply Tail_ft. exists gs, q. repeat split; auto. lia. }
    split; [eapply Tail_nopct; eauto|]. split.
    + eapply v6_nolead_complete; eauto; try lia; discriminate.
    + eapply Tail_first_sep; [eauto|left; lia].
  - destruct l as [|l0 l'].
    + simpl sepjoin. simpl app. destruct r as [|r0 r'].
      * simpl. split; [|split; reflexivity]. intros [G|[G|[]]]; discriminate.
      * assert (HT : Tail (length (r0 :: r')) false false (sepjoin c_colon (r0 :: r'))).
        { apply Forall_Hex4_nonempty_join; auto. discriminate. }
        split; [|split; [|reflexivity]].
        -- intros [G|[G|G]]; try discriminate. eapply Tail_nopct; eauto.
        -- eapply v6_lead_complete; [eauto|simpl in L |- *; lia].
    + assert (HT : Tail (length (l0 :: l') + length r) true false
                    (sepjoin c_colon (l0 :: l') ++ c_colon :: c_colon :: sepjoin c_colon r)).
      { apply Tail_t. exists (l0 :: l'), (sepjoin c_colon r), (length r).
        split; [discriminate|]. split; [auto|]. split; [reflexivity|]. split; [reflexivity|].
        destruct r as [|r0 r']; [left; auto|right]. apply Forall_Hex4_nonempty_join; auto. discriminate. }
      split; [eapply Tail_nopct; eauto|]. split.
      * eapply v6_nolead_complete; eauto; try lia; discriminate.
      * eapply Tail_first_sep; [eauto|right; left; reflexivity].
  - assert (HR : Tail (length r + 2) false true (sepjoin c_colon (r ++ [q]))).
    { apply Tail_ft. exists r, q. auto. }
    destruct l as [|l0 l'].
    + simpl sepjoin. simpl app. split; [|split; [|reflexivity]].
      * intros [G|[G|G]]; try discriminate. eapply Tail_nopct; eauto.
      * eapply v6_lead_complete; [eauto|simpl in L |- *; lia].
    + assert (HT : Tail (length (l0 :: l') + (length r + 2)) true true
                    (sepjoin c_colon (l0 :: l') ++ c_colon :: c_colon :: sepjoin c_colon (r ++ [q]))).
      { apply Tail_t. exists (l0 :: l'), (sepjoin c_colon (r ++ [q])), (length r + 2).
        split; [discriminate|]. split; [auto|]. split; [reflexivity|]. split; [reflexivity|]. right; auto. }
      split; [eapply Tail_nopct; eauto|]. split.
      * eapply v6_nolead_complete; eauto; try lia; discriminate.
      * eapply Tail_first_sep; [eauto|right; left; reflexivity].
Qed.

Lemma IPv4_first_sep q : IPv4 q -> first_sep q = Some c_dot.
Proof.
  intros (a & b & c & d & ([_ A] & _) & _ & _ & _ & ->). induction a as [|x a IH]; [reflexivity|].
  inversion A; subst. simpl.
  assert (Ascii.eqb x c_dot = false) by (apply aeqb_false; intros ->; discriminate).
  assert (Ascii.eqb x c_colon = false) by (apply aeqb_false; intros ->; discriminate).
  assert (Ascii.eqb x c_pct = false) by (apply aeqb_false; intros ->; discriminate).
  rewrite H, H0, H3. simpl. auto.
Qed.

Lemma parse_ipv6_not_v4 s : parse_ipv6 s <> Some AddrV4.
Proof.
  unfold parse_ipv6.
  destruct (match index_byte c_pct s with
            | Some i => (firstn i s, skipn (S i) s, match skipn (S i) s with [] => true | _ :: _ => false end)
            | None => (s, [], false)
            end) as [[s0 zone] zerr].
  destruct zerr; [discriminate|].
  destruct (match s0 with
            | c1 :: c2 :: r => if Ascii.eqb c1 c_colon && Ascii.eqb c2 c_colon
                               then (Some 0%N, r, match r with [] => true | _ :: _ => false end)
                               else (None, s0, false)
            | _ => (None, s0, false)
            end) as [[ell0 s1] only].
  destruct only; [discriminate|].
  destruct (v6_loop 8 ell0 s1) as [|i ell rest]; [discriminate|].
  destruct rest; [|discriminate]. destruct (i <? 16)%N; destruct ell; discriminate.
Qed.

(* net.ParseIP(s) != nil exactly for the IP literals of the grammar *)
Theorem parse_ip_ok_iff s : parse_ip_ok s = true <-> IPv4 s \/ IPv6 s.
Proof.
  unfold parse_ip_ok, parse_addr. split.
  - destruct (first_sep s) as [c|] eqn:FS; [|discriminate].
    destruct (Ascii.eqb c c_dot) eqn:E1.
    + destruct (ipv4_fields_ok s) eqn:V4; [|discriminate]. intros _. left. now apply ipv4_fields_ok_iff.
    + destruct (Ascii.eqb c c_colon) eqn:E2; [|discriminate].
      destruct (parse_ipv6 s) as [[|zn]|] eqn:P6; [exfalso; exact (parse_ipv6_not_v4 s P6)| |discriminate].
      destruct zn; [|discriminate]. intros _. right.
      apply parse_ipv6_body in P6. apply v6_body_sound, P6.
  - intros [H|H].
    + rewrite (IPv4_first_sep s H). change (Ascii.eqb c_dot c_dot) with true. cbv iota.
      apply ipv4_fields_ok_iff in H. now rewrite H.
    + destruct (v6_body_complete s H) as (NP & B & FS). rewrite FS.
      change (Ascii.eqb c_colon c_dot) with false. change (Ascii.eqb c_colon c_colon) with true. cbv iota.
      assert (P6 : parse_ipv6 s = Some (AddrV6 [])) by (apply parse_ipv6_body; auto).
      now rewrite P6.
Qed.
