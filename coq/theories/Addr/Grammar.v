(* The INDEPENDENT PARSE of property C20: a declarative grammar of onet
   addresses, written with concatenation and existential quantifiers only.
   Nothing here calls the model's parsing functions (split_sep,
   split_host_port, parse_ip_ok, atoi, valid_hostname, ...); the only imports
   from the model side are the character classes and, for the lenient mode, the
   case-folding function of strings.ToLower.

   A [mode] fixes the three points where the pinned code is more lenient than
   its documentation:
     m_brackets_any  brackets are allowed around a host without colon     (F24)
     m_fold          the case folding applied to a host name              (N2)
     m_maxdot        maximal length of a name written with a trailing dot,
                     not counting that dot                                 (N1) *)
From Coq Require Import String Ascii NArith Bool List.
From Onet Require Import Base.HexC20 Addr.GoStr.
Import ListNotations.
Local Open Scope list_scope.

Record mode := {
  m_brackets_any : bool;
  m_fold : bytes -> bytes;
  m_maxdot : nat
}.

Definition Documented : mode := Build_mode false (map lower_ascii) 253.
Definition Lenient : mode := Build_mode true go_to_lower 254.

(* [s] does not contain [sub] *)
Definition NoSub (sub s : bytes) : Prop := ~ exists u w, s = u ++ sub ++ w.

Definition all (p : ascii -> bool) (s : bytes) : Prop := Forall (fun c => p c = true) s.

(* l joined by the byte c *)
Fixpoint sepjoin (c : ascii) (l : list bytes) : bytes :=
  match l with
  | [] => []
  | [x] => x
  | x :: r => x ++ c :: sepjoin c r
  end.

(* ---- numbers --------------------------------------------------------------------- *)
Definition dec_value (ds : bytes) : N := fold_left (fun acc c => (10 * acc + (code c - 48))%N) ds 0%N.
Definition Digits (ds : bytes) : Prop := ds <> [] /\ all is_digit ds.

(* port: optionally signed decimal denoting 0..65535 (so "-" only before zero) *)
Definition PortG (p : bytes) : Prop :=
  exists sign ds, p = sign ++ ds /\ Digits ds /\ (dec_value ds <= 65535)%N /\
    (sign = [] \/ sign = B "+" \/ (sign = B "-" /\ dec_value ds = 0%N)).

(* ---- IP literals ------------------------------------------------------------------ *)
(* decimal octet without leading zero *)
Definition Octet (o : bytes) : Prop :=
  Digits o /\ (dec_value o <= 255)%N /\ (forall r, o = "0"%char :: r -> r = []).

Definition IPv4 (s : bytes) : Prop :=
  exists a b c d, Octet a /\ Octet b /\ Octet c /\ Octet d /\
    s = a ++ c_dot :: b ++ c_dot :: c ++ c_dot :: d.

Definition is_hex (c : ascii) : bool := is_digit c || in_range 97 102 c || in_range 65 70 c.
Definition Hex4 (g : bytes) : Prop := 1 <= length g <= 4 /\ all is_hex g.

(* eight 16-bit groups, the last two possibly written as an IPv4 address, at
   most one "::" standing for one or more zero groups *)
Definition IPv6 (s : bytes) : Prop :=
  (exists gs, Forall Hex4 gs /\ length gs = 8 /\ s = sepjoin c_colon gs) \/
  (exists gs q, Forall Hex4 gs /\ length gs = 6 /\ IPv4 q /\ s = sepjoin c_colon (gs ++ [q])) \/
  (exists l r, Forall Hex4 l /\ Forall Hex4 r /\ length l + length r <= 7 /\
     s = sepjoin c_colon l ++ c_colon :: c_colon :: sepjoin c_colon r) \/
  (exists l r q, Forall Hex4 l /\ Forall Hex4 r /\ IPv4 q /\ length l + length r <= 5 /\
     s = sepjoin c_colon l ++ c_colon :: c_colon :: sepjoin c_colon (r ++ [q])).

(* ---- host names -------------------------------------------------------------------- *)
Definition is_alnum_lc (c : ascii) : bool := is_lower c || is_digit c.
Definition is_ldh_lc (c : ascii) : bool := is_alnum_lc c || Ascii.eqb c c_minus.

(* letters, digits, hyphen; neither first nor last character a hyphen *)
Definition LabelG (l : bytes) : Prop :=
  all is_ldh_lc l /\
  (exists c r, l = c :: r /\ is_alnum_lc c = true) /\
  (exists r c, l = r ++ [c] /\ is_alnum_lc c = true).

Definition TldG (l : bytes) : Prop := l <> [] /\ all is_lower l.

(* After case folding and removal of one trailing dot: at most 253 bytes (m_maxdot
   if there was a trailing dot), dot-separated labels of 1..63 bytes, and either
   a single label of any bytes (the documented "no dot" escape) or LDH labels
   followed by an alphabetic last label. *)
Definition HostNameG (m : mode) (h : bytes) : Prop :=
  h <> [] /\
  exists body ls,
    ((m_fold m h = body /\ (forall b, body <> b ++ [c_dot]) /\ length body <= 253) \/
     (m_fold m h = body ++ [c_dot] /\ length body <= m_maxdot m)) /\
    body = sepjoin c_dot ls /\ ls <> [] /\
    Forall (fun l => ~ In c_dot l /\ 1 <= length l <= 63) ls /\
    (length ls = 1 \/ exists init tld, ls = init ++ [tld] /\ Forall LabelG init /\ TldG tld).

Definition HostG (m : mode) (h : bytes) : Prop :=
  h = [] \/ IPv4 h \/ IPv6 h \/ HostNameG m h.

(* ---- addresses --------------------------------------------------------------------- *)
Definition KnownType (ty : bytes) : Prop := ty = B "tcp" \/ ty = B "tls" \/ ty = B "local".

(* [hp] is host [h] and port [p] written as host:port; brackets are mandatory
   around a host containing a colon and, in the documented mode, allowed only
   there *)
Definition HostPortG (m : mode) (hp h p : bytes) : Prop :=
  ~ In c_lbr h /\ ~ In c_rbr h /\
  ((hp = h ++ c_colon :: p /\ ~ In c_colon h) \/
   (hp = c_lbr :: h ++ c_rbr :: c_colon :: p /\ (m_brackets_any m = true \/ In c_colon h))).

(* The parts of an address: connection type, network address, host, port. *)
Definition AddressParts (m : mode) (a ty hp h p : bytes) : Prop :=
  a = ty ++ B "://" ++ hp /\ KnownType ty /\ NoSub (B "://") hp /\
  HostPortG m hp h p /\ PortG p /\ HostG m h.

Definition AddressG (m : mode) (a : bytes) : Prop := exists ty hp h p, AddressParts m a ty hp h p.
