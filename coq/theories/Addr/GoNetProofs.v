(* PROOF file: net.SplitHostPort / net.JoinHostPort / net.ParseIP as modelled in
   Addr/GoNet.v, characterised against the declarative grammar of Addr/Grammar.v. *)
From Coq Require Import String Ascii NArith ZArith Bool List Lia.
From Onet Require Import Base.HexC20 Addr.GoStr Addr.GoNet Addr.Grammar Addr.GoStrProofs.
Import ListNotations.
Local Open Scope list_scope.

Lemma app_len_inj {A} (u u' x y : list A) :
  length u = length u' -> u ++ x = u' ++ y -> u = u' /\ x = y.
Proof.
  revert u'; induction u as [|a u IH]; destruct u' as [|b u']; simpl; intros L E; try discriminate; auto.
  inversion E; subst. destruct (IH u') as [-> ->]; auto.
Qed.

(* no colon, no bracket *)
Definition clean (s : bytes) : Prop := ~ In c_colon s /\ ~ In c_lbr s /\ ~ In c_rbr s.

Lemma in_app_not {A} (x : A) u w : ~ In x (u ++ w) <-> ~ In x u /\ ~ In x w.
Proof.
  rewrite in_app_iff. tauto.
Qed.

(* ---- net.SplitHostPort ---------------------------------------------------------------- *)
Lemma split_host_port_plain h p :
  ~ In c_colon h -> ~ In c_lbr h -> ~ In c_rbr h -> clean p ->
  split_host_port (h ++ c_colon :: p) = Ok (h, p).
Proof.
  intros Hc Hl Hr (Pc & Pl & Pr). unfold split_host_port.
  rewrite last_index_byte_app by assumption.
  assert (NL : ~ In c_lbr (h ++ c_colon :: p)).
  { apply in_app_not. split; auto. intros [G|G]; [discriminate|auto]. }
  assert (NR : ~ In c_rbr (h ++ c_colon :: p)).
  { apply in_app_not. split; auto. intros [G|G]; [discriminate|auto]. }
  destruct (h ++ c_colon :: p) as [|c0 rest] eqn:E.
  - destruct h; discriminate.
  - destruct (Ascii.eqb c0 c_lbr) eqn:E0.
    + apply aeqb_true in E0. subst c0. exfalso. apply NL. left; auto.
    + rewrite <- E. rewrite firstn_app_len. rewrite <- E in NL, NR.
      apply has_byte_false in Hc, NL, NR. rewrite Hc, NL, NR.
      now rewrite skipn_S_app_len.
Qed.

Lemma split_host_port_bracket h p :
  ~ In c_lbr h -> ~ In c_rbr h -> clean p ->
  split_host_port (c_lbr :: h ++ c_rbr :: c_colon :: p) = Ok (h, p).
Proof.
  intros Hl Hr (Pc & Pl & Pr). unfold split_host_port.
  set (hp := c_lbr :: h ++ c_rbr :: c_colon :: p).
  assert (E1 : hp = (c_lbr :: h ++ [c_rbr]) ++ c_colon :: p).
  { unfold hp. simpl. rewrite <- app_assoc. reflexivity. }
  assert (E2 : hp = (c_lbr :: h) ++ c_rbr :: c_colon :: p) by reflexivity.
  assert (L1 : last_index_byte c_colon hp = Some (S (length h + 1))).
  { rewrite E1. rewrite last_index_byte_app by assumption. simpl. now rewrite app_length. }
  assert (L2 : index_byte c_rbr hp = Some (S (length h))).
  { rewrite E2. rewrite index_byte_app; auto. intros [G|G]; [discriminate|auto]. }
  rewrite L1. unfold hp at 1. cbv beta iota. change (Ascii.eqb c_lbr c_lbr) with true. cbv iota.
  fold hp. rewrite L2.
  assert (LH : length hp = S (length h + S (S (length p)))).
  { unfold hp. simpl. rewrite app_length. simpl. reflexivity. }
  rewrite LH.
  destruct (Nat.eqb (S (S (length h))) (S (length h + S (S (length p))))) eqn:Q.
  { apply Nat.eqb_eq in Q. lia. }
  replace (Nat.eqb (S (S (length h))) (S (length h + 1))) with true
    by (symmetry; apply Nat.eqb_eq; lia).
  assert (S1 : skipn 1 hp = h ++ c_rbr :: c_colon :: p) by reflexivity.
  rewrite S1.
  assert (N1 : ~ In c_lbr (h ++ c_rbr :: c_colon :: p)).
  { apply in_app_not. split; auto. intros [G|[G|G]]; try discriminate; auto. }
  apply has_byte_false in N1. rewrite N1.
  assert (S2 : skipn (S (S (length h))) hp = c_colon :: p).
  { rewrite E2. change (S (S (length h))) with (S (length (c_lbr :: h))). apply skipn_S_app_len. }
  rewrite S2.
  assert (N2 : ~ In c_rbr (c_colon :: p)) by (intros [G|G]; [discriminate|auto]).
  apply has_byte_false in N2. rewrite N2.
  replace (S (length h) - 1) with (length h) by lia. rewrite firstn_app_len.
  assert (S3 : skipn (S (S (length h + 1))) hp = p).
  { rewrite E1. replace (S (length h + 1)) with (length (c_lbr :: h ++ [c_rbr])).
    - apply skipn_S_app_len.
    - simpl. now rewrite app_length. }
  now rewrite S3.
Qed.

Lemma split_host_port_Ok hp h p :
  split_host_port hp = Ok (h, p) ->
  ~ In c_lbr h /\ ~ In c_rbr h /\ clean p /\
  ((hp = h ++ c_colon :: p /\ ~ In c_colon h) \/ hp = c_lbr :: h ++ c_rbr :: c_colon :: p).
Proof.
  unfold split_host_port. intros H.
  destruct (last_index_byte c_colon hp) as [i|] eqn:L; [|discriminate].
  destruct (last_index_byte_Some _ _ _ L) as (u & w & E & Li & Wc).
  destruct hp as [|c0 rest] eqn:Ehp; [discriminate|]. rewrite <- Ehp in *.
  destruct (Ascii.eqb c0 c_lbr) eqn:E0.
  - apply aeqb_true in E0. subst c0.
    destruct (index_byte c_rbr hp) as [e|] eqn:I; [|discriminate].
    destruct (index_byte_Some _ _ _ I) as (u' & w' & E' & Le & Ur).
    destruct (Nat.eqb (S e) (length hp)) eqn:Q1; [discriminate|].
    destruct (Nat.eqb (S e) i) eqn:Q2.
    + apply Nat.eqb_eq in Q2.
      remember (skipn 1 hp) as s1 eqn:Hs1.
      remember (skipn (S e) hp) as s2 eqn:Hs2.
      remember (skipn (S i) hp) as s3 eqn:Hs3.
      destruct (has_byte c_lbr s1) eqn:B1; [discriminate|].
      destruct (has_byte c_rbr s2) eqn:B2; [discriminate|].
      inversion H; subst h p; clear H.
      (* u = u' ++ [']'] and w' = ':' :: w *)
      assert (E3 : (u' ++ [c_rbr]) ++ w' = u ++ c_colon :: w).
      { rewrite <- app_assoc. simpl. congruence. }
      destruct w' as [|x w''].
      { exfalso. apply Nat.eqb_neq in Q1. apply Q1. rewrite E'. rewrite app_length. simpl. lia. }
      assert (E4 : (u' ++ [c_rbr]) ++ x :: w'' = u ++ c_colon :: w) by exact E3.
      apply app_len_inj in E4; [|rewrite app_length; simpl; lia].
      destruct E4 as [Eu Ew]. inversion Ew; subst x w''; clear Ew.
      (* u' starts with '[' *)
      destruct u' as [|b h0].
      { rewrite E' in Ehp. simpl in Ehp. inversion Ehp. }
      assert (b = c_lbr) by (rewrite E' in Ehp; simpl in Ehp; inversion Ehp; auto). subst b.
      assert (S1 : s1 = h0 ++ c_rbr :: c_colon :: w) by (rewrite Hs1, E'; reflexivity).
      assert (S2 : s2 = c_colon :: w).
      { rewrite Hs2, E'. rewrite <- Le. apply skipn_S_app_len. }
      assert (S3 : s3 = w) by (rewrite Hs3, E, <- Li; apply skipn_S_app_len).
      clear Hs1 Hs2 Hs3. subst s1 s2 s3.
      apply has_byte_false in B1. apply in_app_not in B1. destruct B1 as [B1a B1b].
      apply has_byte_false in B2.
      assert (F1 : firstn (e - 1) (h0 ++ c_rbr :: c_colon :: w) = h0).
      { rewrite <- Le. simpl. replace (length h0 - 0) with (length h0) by lia. apply firstn_app_len. }
      rewrite F1. repeat split.
      * exact B1a.
      * intros G. apply Ur. right; auto.
      * exact Wc.
      * intros G. apply B1b. right; right; auto.
      * intros G. apply B2. right; auto.
      * right. rewrite E'. reflexivity.
    + destruct (nth_error hp (S e)); discriminate.
  - apply aeqb_false in E0.
    assert (F : firstn i hp = u) by (rewrite E, <- Li; apply firstn_app_len).
    assert (S3 : skipn (S i) hp = w) by (rewrite E, <- Li; apply skipn_S_app_len).
    rewrite F, S3 in H.
    destruct (has_byte c_colon u) eqn:B0; [discriminate|].
    destruct (has_byte c_lbr hp) eqn:B1; [discriminate|].
    destruct (has_byte c_rbr hp) eqn:B2; [discriminate|].
    inversion H; subst h p; clear H.
    apply has_byte_false in B0, B1, B2. rewrite E in B1, B2.
    apply in_app_not in B1, B2. destruct B1 as [B1a B1b], B2 as [B2a B2b].
    repeat split; auto.
    + intros G; apply B1b; right; auto.
    + intros G; apply B2b; right; auto.
Qed.

Lemma split_host_port_no_crash hp : split_host_port hp <> Crash.
Proof.
  unfold split_host_port.
  destruct (last_index_byte c_colon hp) as [i|] eqn:L; [|discriminate].
  destruct hp as [|c0 rest] eqn:Ehp; [discriminate|]. rewrite <- Ehp.
  destruct (Ascii.eqb c0 c_lbr).
  - destruct (index_byte c_rbr hp) as [e|] eqn:I; [|discriminate].
    destruct (Nat.eqb (S e) (length hp)) eqn:Q1; [discriminate|].
    destruct (Nat.eqb (S e) i); [destruct (has_byte c_lbr (skipn 1 hp)); [discriminate|];
                                 destruct (has_byte c_rbr (skipn (S e) hp)); discriminate|].
    destruct (nth_error hp (S e)) eqn:N; [discriminate|].
    exfalso. apply nth_error_None in N.
    destruct (index_byte_Some _ _ _ I) as (u' & w' & E' & Le & _).
    apply Nat.eqb_neq in Q1. rewrite E' in N, Q1. rewrite app_length in N, Q1. simpl in N, Q1. lia.
  - destruct (has_byte c_colon (firstn i hp)); [discriminate|].
    destruct (has_byte c_lbr hp); [discriminate|].
    destruct (has_byte c_rbr hp); discriminate.
Qed.

(* ---- net.JoinHostPort ------------------------------------------------------------------- *)
Lemma join_split h p :
  ~ In c_lbr h -> ~ In c_rbr h -> clean p ->
  split_host_port (join_host_port h p) = Ok (h, p).
Proof.
  intros Hl Hr Hp. unfold join_host_port. destruct (has_byte c_colon h) eqn:C.
  - now apply split_host_port_bracket.
  - apply has_byte_false in C. now apply split_host_port_plain.
Qed.
