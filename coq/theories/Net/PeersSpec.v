(* C17 REFERENCE SPECIFICATION and the boolean checker of the property itself.

   The property text speaks about "the current sets": a map  set id -> set of
   peers, peers being identified by their PUBLIC KEY (id derived from the key).
   The reference keeps the whole history of set operations (newest first) and
   reads the current value of a set as the LATEST write to its identifier --
   deliberately a different data structure from the in-place map of the model.

   [check_hist] walks an observed history (operation, observed outcome) and
   returns the numbers of the clauses of the property that the OBSERVATION
   violates:
     1  a connection offered by a peer that is in none of the current sets was accepted
     2  a message of such a refused connection / non-member was dispatched
     3  a peer that is in at least one current set was refused, or a message on
        its open accepted connection was not dispatched
     4  a peer was refused (or its message dropped) before any set was given
     5  reading a set back did not return exactly its members
     6  a connection that never sent an identity was accepted / its message dispatched
   (+10 / +20: same clause, blamed on a dishonest declared id / a dishonest id
   given to a set operation -- see [tag])
   Executable Gallina only. *)
From Coq Require Import List Arith Bool.
Import ListNotations.
From Onet Require Import Base.Corr Net.Peers.

Section Spec.
  Variable idk : nat -> nat.

  (* history of set operations, newest first; members as key-derived ids *)
  Definition slog := list (sid * list nat).

  Fixpoint latest (l : slog) (s : sid) : option (list nat) :=
    match l with
    | [] => None
    | (s', v) :: r => if sid_eqb s s' then Some v else latest r s
    end.

  (* is the peer holding key k in at least one CURRENT set? *)
  Definition in_some_set (l : slog) (k : nat) : bool :=
    existsb (fun e => match latest l (fst e) with
                      | Some v => mem (idk k) v
                      | None => false
                      end) l.

  Definition no_set_given (l : slog) : bool := match l with [] => true | _ => false end.

  Definition spec_valid (l : slog) (k : nat) : bool := no_set_given l || in_some_set l k.

  Definition spec_members (l : slog) (s : sid) : list nat :=
    match latest l s with Some v => v | None => [] end.

  (* two lists denote the same set, the second without repetition *)
  Fixpoint nodupb (l : list nat) : bool :=
    match l with
    | [] => true
    | x :: r => negb (mem x r) && nodupb r
    end.

  Definition subset (a b : list nat) : bool := forallb (fun x => mem x b) a.
  Definition same_set (members got : list nat) : bool :=
    subset members got && subset got members && nodupb got.

  (* Blame refinement (used only to tell WHICH defect a violation is, never to
     excuse one): a clause number is raised by 10 when the connection concerned
     sent an identity whose declared ID field differs from the id derived from
     its key, and by 20 once some set operation was given such an identity. *)
  Definition honest_id (i : ident) : bool := idecl i =? idk (ikey i).

  Record cstate := mkC {
    c_log : slog;
    c_n : nat;
    c_conns : list (nat * (nat * (bool * bool)));
       (* open offered connections: position, key, was the peer valid (by the
          reference) when it offered?, was its identity message honest? *)
    c_junk : list nat;             (* positions of connections without identity *)
    c_pconn : list nat;            (* peers expected to hold an accepted router connection *)
    c_taint : bool                 (* a set operation was given a dishonest identity *)
  }.

  Definition cinit : cstate := mkC [] 0 [] [] [] false.

  Fixpoint find_c (l : list (nat * (nat * (bool * bool)))) (c : nat) : option (nat * (bool * bool)) :=
    match l with
    | [] => None
    | (c', b) :: r => if c =? c' then Some b else find_c r c
    end.

  Definition is_disp (x : out) : bool := match x with XDisp _ _ => true | _ => false end.
  Definition is_accept (x : out) : bool := match x with XAccept => true | _ => false end.

  (* clause to blame when a peer that must be served is not *)
  Definition serve_clause (l : slog) : nat := if no_set_given l then 4 else 3.

  Definition tag (taint hon : bool) (cl : list nat) : list nat :=
    map (fun c => c + (if taint then 20 else if hon then 0 else 10)) cl.

  Definition cstep (s : cstate) (ox : op * out) : cstate * list nat :=
    let (o, x) := ox in
    let n := c_n s in
    let l := c_log s in
    let t := c_taint s in
    match o with
    | OSet _ d peers =>
        (mkC ((src_sid d, map (fun i => idk (ikey i)) peers) :: l) (S n) (c_conns s) (c_junk s) (c_pconn s)
             (t || negb (forallb honest_id peers)), [])
    | OGet _ d =>
        (mkC l (S n) (c_conns s) (c_junk s) (c_pconn s) t,
         (* nil is the documented answer for "no set was ever given" (everybody valid);
            once a set was given -- an empty one included -- the read-back is the list of
            members, for an empty or never-set identifier the EMPTY list, not nil *)
         tag t true (clause 5 (match x with
                   | XGot None => no_set_given l
                   | XGot (Some got) => same_set (spec_members l (src_sid d)) got
                   | _ => false
                   end)))
    | OOffer i =>
        let v := spec_valid l (ikey i) in
        (mkC l (S n) ((n, (ikey i, (v, honest_id i))) :: c_conns s) (c_junk s) (c_pconn s) t,
         tag t (honest_id i)
             (if v then clause (serve_clause l) (is_accept x) else clause 1 (negb (is_accept x))))
    | OOfferJunk =>
        (mkC l (S n) (c_conns s) (n :: c_junk s) (c_pconn s) t, clause 6 (negb (is_accept x)))
    | OMsg c m =>
        (mkC l (S n) (c_conns s) (c_junk s) (c_pconn s) t,
         match find_c (c_conns s) c with
         | Some (k, (true, h)) =>
             (* accepted connection: the property demands service while the peer is
                in a current set (or no set exists); it is silent otherwise *)
             if spec_valid l k then tag t h (clause (serve_clause l) (is_disp x)) else []
         | Some (_, (false, h)) => tag t h (clause 2 (negb (is_disp x)))
         | None => if mem c (c_junk s) then clause 6 (negb (is_disp x)) else []
         end)
    | OClose c =>
        (mkC l (S n) (filter (fun e => negb (fst e =? c)) (c_conns s)) (c_junk s) (c_pconn s) t, [])
    | OPeerSend p m =>
        if mem p (c_pconn s)
        then (mkC l (S n) (c_conns s) (c_junk s) (c_pconn s) t,
              if spec_valid l p then tag t true (clause (serve_clause l) (is_disp x)) else [])
        else if spec_valid l p
        then (mkC l (S n) (c_conns s) (c_junk s) (p :: c_pconn s) t,
              tag t true (clause (serve_clause l) (is_disp x)))
        else (mkC l (S n) (c_conns s) (c_junk s) (c_pconn s) t, tag t true (clause 2 (negb (is_disp x))))
    | OPeerDrop p =>
        (mkC l (S n) (c_conns s) (c_junk s) (filter (fun q => negb (q =? p)) (c_pconn s)) t, [])
    end.

  Fixpoint cwalk (s : cstate) (h : list (op * out)) : list nat :=
    match h with
    | [] => []
    | ox :: r => let (s1, cl) := cstep s ox in cl ++ cwalk s1 r
    end.

  Definition check_hist (h : list (op * out)) : list nat := cwalk cinit h.
End Spec.
