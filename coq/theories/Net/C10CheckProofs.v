(* C10 -- the checker of Corr/C10.v says what the property says, and the repaired
   model passes it in every quiescent state. *)
From Coq Require Import List Arith Bool Lia.
Import ListNotations.
From Onet Require Import Base.Corr Net.RouterClose Net.RouterCloseProofs Net.CloseSeq Net.CloseSeqProofs Corr.C10.

Lemma clause_nil n b : clause n b = [] <-> b = true.
Proof. unfold clause. destruct b; split; intros H; auto; discriminate. Qed.

Lemma app_nil_iff {A} (l1 l2 : list A) : l1 ++ l2 = [] <-> l1 = [] /\ l2 = [].
Proof. split; [apply app_eq_nil|intros [-> ->]; reflexivity]. Qed.

(* what the router-level checker demands of an observation *)
Definition router_prop (o : robs) : Prop :=
  o_late o = 0 /\ (count_true (o_open o) = 0 /\ open_only_exempt (o_open_ret o) (o_exempt_ret o) = true) /\
  o_goroutines o = 0 /\ o_rebind o = true /\
  (forall r, In r (o_sends o) -> r <> RPending) /\ o_panic o = false /\
  (forall b, In b (o_stops o) -> b = true) /\ o_inprogress o = 0.

Theorem check_router_iff o : check_router o = [] <-> router_prop o.
Proof.
  unfold check_router, router_prop.
  rewrite !app_nil_iff, !clause_nil.
  rewrite andb_true_iff, !Nat.eqb_eq, negb_true_iff, !forallb_forall.
  split.
  - intros (A & B & C & D & E & F & G & H). repeat split; try tauto; auto.
    + intros r Hr Hp. specialize (E r Hr). subst. discriminate.
  - intros (A & B & C & D & E & F & G & H). repeat split; try tauto; auto.
    intros r Hr. specialize (E r Hr). destruct r; auto; congruence.
Qed.

Definition server_prop (o : sobs) : Prop :=
  s_late o = 0 /\ s_conns_open o = 0 /\ s_goroutines o = 0 /\ s_ports o = true /\ s_db o = true /\
  s_ops_pending o = 0 /\ s_panic o = false /\ s_returned o = true /\ s_instances o = 0.

Theorem check_server_iff o : check_server o = [] <-> server_prop o.
Proof.
  unfold check_server, server_prop.
  rewrite !app_nil_iff, !clause_nil.
  rewrite !Nat.eqb_eq, negb_true_iff. tauto.
Qed.

(* the observation a state of the router model stands for; the implementation-only facts
   (goroutines, port) are given their logical counterparts: no handler alive, listener off *)
Definition obs_of_state (s : state) : robs :=
  mkRobs (map model_send (senders s)) (map stop_done (stops s)) (map lopen (conns s))
         (map lopen (conns s)) (map (fun _ => false) (conns s))
         (dispatched s) (late s)
         (if stop_returned s then count_live (conns s) else 0)
         (crashed s) (count_live (conns s)) (negb (listening s)).

Lemma count_true_zero l : (forall b, In b l -> b = false) -> count_true l = 0.
Proof.
  unfold count_true. induction l as [|b r IH]; intros H; cbn; auto.
  rewrite (H b (or_introl eq_refl)). apply IH. intros x Hx. apply H. now right.
Qed.

(* With the repair of F11: whatever the interleaving, once a Stop has returned and every
   call and goroutine has ended, the model's observation satisfies the property checker. *)
Theorem model_passes_checker f4 acts s :
  run (mkFx true f4) init acts = Some s -> stop_returned s = true -> quiescent s = true ->
  check_router (obs_of_state s) = [].
Proof.
  intros R Hr Q. apply check_router_iff.
  destruct (all_closed _ _ _ R Q) as [AC W].
  destruct (registered_closed_at_return _ _ _ R Hr) as (Hc & Hl & Hw & _ & _ & NL).
  pose proof (reachable_inv _ _ _ R) as I.
  assert (Z : count_live (conns s) = 0) by (apply busy_zero_live; rewrite <- (inv_wg _ _ I); auto).
  unfold quiescent in Q. apply andb_true_iff in Q as [Q Qc]. apply andb_true_iff in Q as [Qs Qt].
  unfold router_prop, obs_of_state; cbn. rewrite Hr, Z, Hl. repeat split; auto.
  - apply (inv_late _ _ I).
  - apply count_true_zero. intros b Hb. apply in_map_iff in Hb as (k & <- & Hk).
    apply In_nth_error in Hk as [c Hc']. eauto.
  - assert (G : forall l, (forall k, In k l -> lopen k = false) ->
                open_only_exempt (map lopen l) (map (fun _ : conn => false) l) = true).
    { induction l as [|k r IH]; intros Hall; cbn; auto. rewrite (Hall k (or_introl eq_refl)). cbn.
      apply IH. intros k' Hk'. apply Hall. now right. }
    apply G. intros k Hk. apply In_nth_error in Hk as [c Hc']. eauto.
  - intros r Hin Hp. apply in_map_iff in Hin as (p & <- & Hp').
    rewrite forallb_forall in Qs. specialize (Qs _ Hp'). destruct p as [| | | |[|]]; cbn in *; discriminate.
  - apply (inv_crash _ _ I).
  - intros b Hb. apply in_map_iff in Hb as (p & <- & Hp').
    rewrite forallb_forall in Qt. auto.
Qed.

(* the pinned model fails it on the three F11 witnesses, on clause 2 exactly *)
Theorem pinned_fails_checker :
  forall acts, In acts [witness_out; witness_in; witness_after] ->
  exists s, run (mkFx false false) init acts = Some s /\ check_router (obs_of_state s) = [2].
Proof.
  intros acts [<-|[<-|[<-|[]]]]; eexists; (split; [vm_compute; reflexivity|]); vm_compute; reflexivity.
Qed.

(* the macro scripts of the correspondence are runs of the transition system: every
   state [exec] produces is reachable, so every theorem above applies to it *)
Lemma attempt_reach fx s a : (exists acts, run fx init acts = Some s) ->
  exists acts, run fx init acts = Some (attempt fx s a).
Proof.
  intros [acts R]. unfold attempt. destruct (step fx s a) as [s'|] eqn:E; [|eauto].
  exists (acts ++ [a]). revert R. generalize init. induction acts as [|b l IH]; intros s0 R; cbn in *.
  - inversion R; subst. now rewrite E.
  - destruct (step fx s0 b); [|discriminate]. auto.
Qed.

Lemma tries_reach fx l : forall s, (exists acts, run fx init acts = Some s) ->
  exists acts, run fx init acts = Some (tries fx s l).
Proof. induction l as [|a r IH]; intros s H; cbn; auto. apply IH. now apply attempt_reach. Qed.

Definition Reach (fx : fixes) (s : state) : Prop := exists acts, run fx init acts = Some s.

Lemma reach_step fx s a s' : Reach fx s -> step fx s a = Some s' -> Reach fx s'.
Proof.
  intros H E. pose proof (attempt_reach fx s a H) as R. unfold attempt in R. now rewrite E in R.
Qed.

Lemma reach_fold {A} fx (f : state -> A -> state) l :
  (forall s x, Reach fx s -> Reach fx (f s x)) -> forall s, Reach fx s -> Reach fx (fold_left f l s).
Proof. intros Hf. induction l as [|x r IH]; intros s H; cbn; auto. Qed.

Lemma sender_step_reach fx d h s t s' :
  Reach fx s -> sender_step fx d h s t = Some s' -> Reach fx s'.
Proof.
  intros R H. unfold sender_step in H.
  repeat match type of H with
         | context[match ?x with _ => _ end] => destruct x eqn:?; try discriminate
         | context[if ?x then _ else _] => destruct x eqn:?; try discriminate
         end; eapply reach_step; eauto.
Qed.

Lemma sender_run_reach fx fuel : forall d h s t, Reach fx s -> Reach fx (sender_run fx fuel d h s t).
Proof.
  induction fuel as [|f IH]; intros d h s t R; cbn; auto.
  destruct (sender_step fx d h s t) as [s'|] eqn:E; auto.
  apply IH. eapply sender_step_reach; eauto.
Qed.

Lemma pass_reach fx x : Reach fx (xs x) -> Reach fx (pass fx x).
Proof.
  intros R. unfold pass. apply reach_fold.
  - intros s t H. destruct (mem t (held_stop x)); auto. now apply attempt_reach.
  - apply reach_fold; auto. intros s c H. now apply tries_reach.
Qed.

Lemma settle_reach fx x : Reach fx (xs x) -> Reach fx (xs (settle fx x)).
Proof.
  unfold settle. generalize 4. intros n. revert x. induction n as [|n IH]; intros x R; cbn; auto.
  apply IH. cbn. now apply pass_reach.
Qed.

Lemma do_macro_reach fx tcp x m : Reach fx (xs x) -> Reach fx (xs (do_macro fx tcp x m)).
Proof.
  intros R. destruct m as [p|p|p|p|t|p|p|p|p|c|c|c m|c m|c| | |t|c]; cbn [do_macro xs].
  - apply sender_run_reach. now apply attempt_reach.
  - apply sender_run_reach. now apply attempt_reach.
  - apply sender_run_reach. now apply attempt_reach.
  - apply sender_run_reach. now apply attempt_reach.
  - unfold sender_release. destruct (nth_error (senders (xs x)) t) as [[| | | |]|]; auto.
    apply sender_run_reach. now apply tries_reach.
  - destruct (step fx (xs x) (AIncoming p)) as [s1|] eqn:E; cbn [xs]; auto.
    unfold incoming_rest. apply tries_reach. eapply reach_step; eauto.
  - destruct (step fx (xs x) (AIncoming p)) as [s1|] eqn:E; cbn [xs]; auto.
    apply tries_reach. eapply reach_step; eauto.
  - now apply attempt_reach.
  - now apply tries_reach.
  - unfold incoming_rest. now apply tries_reach.
  - now apply tries_reach.
  - now apply tries_reach.
  - set (s1 := tries fx (xs x) [AHRecvMsg c m; AHCheck c]).
    assert (R1 : Reach fx s1) by (now apply tries_reach).
    destruct (nth_error (conns s1) c) as [k|]; cbn [xs]; auto. destruct (hd k); cbn [xs]; auto.
  - exact R.
  - now apply tries_reach.
  - now apply tries_reach.
  - exact R.
  - now apply attempt_reach.
Qed.

(* every state the correspondence's script executor produces is a reachable state of the
   transition system: all theorems of Properties/C10.v speak about it *)
Theorem exec_reachable fx tcp ms : Reach fx (exec fx tcp ms).
Proof.
  unfold exec.
  assert (G : forall x, Reach fx (xs x) ->
              Reach fx (xs (fold_left (fun x m => settle fx (do_macro fx tcp x m)) ms x))).
  { induction ms as [|m r IH]; intros x R; cbn; auto.
    apply IH. apply settle_reach. now apply do_macro_reach. }
  apply G. cbn. exists []. reflexivity.
Qed.

(* the same for the server scripts *)
Definition CReach (insts : list nat) (s : cstate) : Prop :=
  exists acts, crun code_fixed_F41 code_fixed_F42 (cinit insts) acts = Some s.

Lemma ctry_reach insts s a : CReach insts s -> CReach insts (ctry s a).
Proof.
  intros [acts R]. unfold ctry. destruct (cstep code_fixed_F41 code_fixed_F42 s a) as [s'|] eqn:E; [|exists acts; auto].
  exists (acts ++ [a]). eapply crun_app; eauto. cbn [crun]. now rewrite E.
Qed.

Lemma ctries_reach insts l : forall s, CReach insts s -> CReach insts (ctries s l).
Proof. induction l as [|a r IH]; intros s H; cbn; auto. apply IH. now apply ctry_reach. Qed.

Lemma close_go_reach insts s : CReach insts s -> CReach insts (close_go s).
Proof.
  intros R. unfold close_go. repeat (apply ctries_reach || apply ctry_reach). exact R.
Qed.

Theorem sexec_reachable insts ms : CReach insts (sexec insts ms).
Proof.
  unfold sexec.
  assert (G : forall s, CReach insts s -> CReach insts (fold_left do_smacro ms s)).
  { induction ms as [|m r IH]; intros s R; cbn; auto. apply IH.
    destruct m; cbn [do_smacro]; try (now apply ctry_reach); try (now apply close_go_reach).
    destruct (closing (ctry s (ATimerDelete j))); [apply close_go_reach|]; now apply ctry_reach. }
  apply G. exists []. reflexivity.
Qed.

(* the run that keeps the snapshot and the strictness flag is the same run *)
Lemma exec_full_xs fx tcp ms : xs (rx (exec_full fx tcp ms)) = exec fx tcp ms.
Proof.
  unfold exec_full, exec.
  assert (G : forall r0, xs (rx (fold_left (run_step fx tcp) ms r0)) =
                         xs (fold_left (fun x m => settle fx (do_macro fx tcp x m)) ms (rx r0))).
  { induction ms as [|m r IH]; intros r0; cbn [fold_left]; auto. rewrite IH. reflexivity. }
  apply G.
Qed.
