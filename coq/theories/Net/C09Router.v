(* C09 -- peer failures seen from one surviving router: connection table, Send with
   its single reconnect, the receive loop with the error classifier, removal and
   error-handler notification, and the send entry points offered to services and
   protocols as functions of the router's Send.

   Go code mirrored (pinned tree):
     network/tcp.go     handleError          : raw error -> ErrClosed | ErrCanceled | ErrEOF | ErrUnknown | ErrTimeout
     network/router.go  Send                 : lookup arr[0]; none -> connect; per message c.Send, on failure
                                               ONE connect + resend on the new connection (the new connection is
                                               bound to a shadowing variable: the next message of the same call
                                               goes to the OLD connection again)
                        connect              : host.Connect; c.Send(identity); registerConnection; launchHandleRoutine
                        handleConn           : Receive; if router closed -> leave; Timeout | Closed | EOF | Unknown ->
                                               call every error handler with the peer, leave; anything else -> continue;
                                               deferred: c.Close, removeConnection (swap with last, shrink)
                        Start (listen func)  : identity received -> registerConnection -> launchHandleRoutine
     network/local.go   a closed endpoint makes every later Send on either side fail
     context.go         SendRaw              : DROPS the router's error (F10; [fix_f10] returns it)
     overlay.go         SendToTreeNode       : returns the router's error
     treenode.go        SendTo, SendToParent, SendToChildren (stops at the first failure),
                        SendToChildrenInParallel, Multicast, Broadcast (one error per failed destination)

   A peer that is shutting down can still dial us (its Send does not look at the closed flag):
   its registerConnection is then refused and the pinned code drops the connection WITHOUT
   closing it (F11). Seen from here the connection is accepted, registered, never fails and
   never delivers: [AAcceptClosing false]. With the repair the peer closes it: [AAcceptClosing true].

   One action = one critical section / one connection operation / one handler call.
   The environment (peers) acts through ACrash / ARestart / AAccept / ARecv*.
   A write to a dead TCP peer may be accepted by the kernel: the [oracle] bit of a
   thread step says so; on the in-memory transport a dead endpoint always refuses. *)
From Coq Require Import List Arith Bool.
Import ListNotations.

(* ---- error translation and classification -------------------------------- *)

(* what handleError looks at in a raw error *)
Record rawerr := mkRaw {
  has_use_of_closed : bool;     (* message contains "use of closed" *)
  has_broken_pipe : bool;       (* message contains "broken pipe" *)
  has_canceled : bool;          (* message contains "canceled" *)
  is_eof : bool;                (* err == io.EOF or message contains "EOF" *)
  is_neterr : bool;             (* implements net.Error *)
  is_timeout : bool }.          (* net.Error.Timeout() *)

(* ETooBig: the peer announced a frame above MaxPacketSize (tcp.go receiveRawProd wraps ErrTooBig; it
   does not pass through handleError). EOther: the remaining errors that reach handleConn without
   passing through handleError (undecodable message, errors of another Conn implementation). *)
Inductive ecls := EClosed | ECanceled | EEOF | EUnknown | ETimeout | ETooBig | EOther.

Definition handle_error (e : rawerr) : ecls :=
  if has_use_of_closed e || has_broken_pipe e then EClosed
  else if has_canceled e then ECanceled
  else if is_eof e then EEOF
  else if negb (is_neterr e) then EUnknown
  else if is_timeout e then ETimeout
  else EUnknown.

Inductive verdict := Drop | Continue.

(* handleConn: ErrTimeout, then ErrClosed/ErrEOF, then ErrUnknown, then ErrTooBig (since the F04 fix: the
   body of the refused frame was not read, the stream cannot be parsed any more) leave the loop *)
Definition classify (c : ecls) : verdict :=
  match c with
  | ETimeout | EClosed | EEOF | EUnknown | ETooBig => Drop
  | ECanceled | EOther => Continue
  end.

(* ---- the router ----------------------------------------------------------- *)

Inductive res := ROk | RErr.

Inductive lstate :=
| LFresh (t : nat)      (* dialled by Send thread t, handleConn not launched yet *)
| LNone                 (* accepted from the listener, handleConn not launched yet *)
| LRun                  (* handleConn blocked in / returning from Receive *)
| LTrig (k : nat)       (* unrecoverable error seen: handlers 0..k-1 called, k is next *)
| LQuit                 (* saw the closed flag: leaving without notification *)
| LExited (err : bool). (* deferred part done: closed, removed *)

Record conn := mkConn {
  cpeer : nat;          (* the identity it is registered under *)
  cinc : nat;           (* incarnation of the peer holding the other end *)
  alive : bool;         (* the other end still exists *)
  lclosed : bool;       (* closed on our side *)
  sink : bool;          (* abandoned by a peer that shut down without closing it: writes succeed, nobody reads *)
  loop : lstate }.

Inductive pc :=
| PLookup                                  (* r.connection(id) *)
| PDial (outer : option nat)               (* host.Connect; outer = Some c: retry inside the message loop *)
| PIdent (c : nat) (outer : option nat)    (* c.Send(own identity) *)
| PReg (c : nat) (outer : option nat)      (* registerConnection *)
| PLaunch (c : nat) (outer : option nat)   (* launchHandleRoutine *)
| PMsg (c : nat)                           (* c.Send(next message) on the connection of the outer variable *)
| PRetry (c' : nat) (outer : nat)          (* resend the same message on the fresh connection *)
| PDone (r : res).

Record thread := mkThread { tpeer : nat; tmsgs : list nat; tpc : pc }.

Record state := mkState {
  f11 : bool;                              (* code variant: a connection whose set-up is refused is closed (fix of F11) *)
  tcp : bool;                              (* transport lets writes to dead peers succeed *)
  closed : bool;                           (* Router.isClosed *)
  nh : nat;                                (* registered error handlers 0 .. nh-1 *)
  table : nat -> list nat;                 (* connections: peer -> arr *)
  conns : nat -> option conn;              (* every connection ever created *)
  nextc : nat;
  listening : nat -> bool;                 (* environment: something listens at the peer's address *)
  incn : nat -> nat;                       (* environment: incarnation counter *)
  calls : list (nat * nat * nat);          (* (handler, peer it was told, connection) in call order *)
  delivered : list (nat * nat);            (* (message, connection) handed to a live remote end *)
  dispatched : list (nat * nat);           (* (connection, message) dispatched locally *)
  threads : nat -> option thread;
  nextt : nat }.

Definition init (fix_f11 is_tcp : bool) (handlers : nat) : state :=
  mkState fix_f11 is_tcp false handlers (fun _ => []) (fun _ => None) 0 (fun _ => true) (fun _ => 0)
          [] [] [] (fun _ => None) 0.

Definition upd {A} (f : nat -> A) (k : nat) (v : A) : nat -> A :=
  fun x => if x =? k then v else f x.

Definition set_closed (s : state) v :=
  mkState (f11 s) (tcp s) v (nh s) (table s) (conns s) (nextc s) (listening s) (incn s) (calls s)
          (delivered s) (dispatched s) (threads s) (nextt s).
Definition set_table (s : state) v :=
  mkState (f11 s) (tcp s) (closed s) (nh s) v (conns s) (nextc s) (listening s) (incn s) (calls s)
          (delivered s) (dispatched s) (threads s) (nextt s).
Definition set_conns (s : state) v :=
  mkState (f11 s) (tcp s) (closed s) (nh s) (table s) v (nextc s) (listening s) (incn s) (calls s)
          (delivered s) (dispatched s) (threads s) (nextt s).
Definition set_nextc (s : state) v :=
  mkState (f11 s) (tcp s) (closed s) (nh s) (table s) (conns s) v (listening s) (incn s) (calls s)
          (delivered s) (dispatched s) (threads s) (nextt s).
Definition set_env (s : state) l i :=
  mkState (f11 s) (tcp s) (closed s) (nh s) (table s) (conns s) (nextc s) l i (calls s)
          (delivered s) (dispatched s) (threads s) (nextt s).
Definition set_calls (s : state) v :=
  mkState (f11 s) (tcp s) (closed s) (nh s) (table s) (conns s) (nextc s) (listening s) (incn s) v
          (delivered s) (dispatched s) (threads s) (nextt s).
Definition set_delivered (s : state) v :=
  mkState (f11 s) (tcp s) (closed s) (nh s) (table s) (conns s) (nextc s) (listening s) (incn s) (calls s)
          v (dispatched s) (threads s) (nextt s).
Definition set_dispatched (s : state) v :=
  mkState (f11 s) (tcp s) (closed s) (nh s) (table s) (conns s) (nextc s) (listening s) (incn s) (calls s)
          (delivered s) v (threads s) (nextt s).
Definition set_threads (s : state) v n :=
  mkState (f11 s) (tcp s) (closed s) (nh s) (table s) (conns s) (nextc s) (listening s) (incn s) (calls s)
          (delivered s) (dispatched s) v n.

Definition set_conn (s : state) (c : nat) (x : conn) : state := set_conns s (upd (conns s) c (Some x)).
Definition set_loop (x : conn) (l : lstate) : conn := mkConn (cpeer x) (cinc x) (alive x) (lclosed x) (sink x) l.
Definition set_lclosed (x : conn) (b : bool) : conn := mkConn (cpeer x) (cinc x) (alive x) b (sink x) (loop x).
Definition set_alive (x : conn) (b : bool) : conn := mkConn (cpeer x) (cinc x) b (lclosed x) (sink x) (loop x).
Definition set_thread (s : state) (t : nat) (x : thread) : state :=
  set_threads s (upd (threads s) t (Some x)) (nextt s).
Definition set_pc (x : thread) (p : pc) : thread := mkThread (tpeer x) (tmsgs x) p.

(* a fresh connection to the current incarnation of p *)
Definition new_conn (s : state) (p : nat) (l : lstate) : state * nat :=
  let c := nextc s in
  (set_nextc (set_conn s c (mkConn p (incn s p) true false false l)) (S c), c).

(* router.go closeRefused (fix of F11): a freshly opened or accepted connection whose set-up cannot
   be completed is closed by the thread that holds it; the pinned code just dropped the handle *)
Definition close_refused (s : state) (c : nat) : state :=
  if f11 s then
    match conns s c with
    | Some x => set_conn s c (set_lclosed x true)
    | None => s
    end
  else s.

(* Conn.Send of one message: a locally closed connection refuses; a live remote end
   receives; a dead one refuses, unless the kernel buffers the write (TCP, oracle) *)
Definition conn_send (s : state) (c m : nat) (oracle : bool) : state * bool :=
  match conns s c with
  | None => (s, false)
  | Some x =>
      if lclosed x then (s, false)
      else if alive x then
        (* an abandoned connection swallows the message *)
        (if sink x then s else set_delivered s (delivered s ++ [(m, c)]), true)
      else if tcp s && oracle then (s, true)
      else (s, false)
  end.

(* Conn.Send of the own identity during connect (nothing recorded) *)
Definition ident_send (s : state) (c : nat) (oracle : bool) : bool :=
  match conns s c with
  | None => false
  | Some x => if lclosed x then false else if alive x then true else tcp s && oracle
  end.

(* removeConnection: the entry is overwritten by the last element and the slice shrinks.
   (The Go loop keeps the LAST matching index; a connection is registered once, so
   first and last coincide -- invariant [tab_nodup] of the proofs.) *)
Fixpoint split_last (l : list nat) : option (list nat * nat) :=
  match l with
  | [] => None
  | x :: r => match split_last r with
              | None => Some ([], x)
              | Some (i, z) => Some (x :: i, z)
              end
  end.

Fixpoint swap_remove (c : nat) (l : list nat) : list nat :=
  match l with
  | [] => []                                    (* "Remove a connection which is not registered" *)
  | x :: r => if x =? c then match split_last r with
                             | None => []
                             | Some (i, z) => z :: i
                             end
              else x :: swap_remove c r
  end.

Definition mem (c : nat) (l : list nat) : bool := existsb (Nat.eqb c) l.

Inductive action :=
| ASpawn (p : nat) (msgs : list nat)     (* some goroutine calls Send(p, msgs...) *)
| AStep (t : nat) (oracle : bool)        (* Send thread t performs its next atomic step *)
| ARecvErr (c : nat) (e : ecls)          (* handleConn of c: Receive returns an error *)
| ARecvMsg (c m : nat)                   (* handleConn of c: Receive returns a message *)
| ATrigger (c : nat)                     (* handleConn of c calls the next error handler *)
| AExit (c : nat)                        (* handleConn of c: deferred Close + removeConnection *)
| AAccept (p : nat)                      (* listener: p dialled us, identity received, registerConnection *)
| AAcceptFail (p : nat)                  (* listener: p dialled us, no identity arrived: closed, not registered *)
| AAcceptClosing (closes : bool) (p : nat)
                                         (* listener: p dialled us while shutting down; p's side refuses to register
                                            the connection and closes it ([closes]) or just drops it (pinned code) *)
| ALaunchInc (c : nat)                   (* listener goroutine: launchHandleRoutine *)
| ACrash (p : nat)                       (* environment: p dies; every connection with it loses its far end
                                            (an abandoned one stays as it is: nobody is left to close it) *)
| ARestart (p : nat)                     (* environment: p listens again (new incarnation) *)
| AClose.                                (* Router.Stop: closed flag, every registered connection closed *)

Definition thread_step (s : state) (t : nat) (oracle : bool) : option state :=
  match threads s t with
  | None => None
  | Some th =>
      let p := tpeer th in
      let goto s' q := Some (set_thread s' t (set_pc th q)) in
      match tpc th with
      | PDone _ => None
      | PLookup =>
          match table s p with
          | [] => goto s (PDial None)
          | c :: _ => goto s (PMsg c)
          end
      | PDial o =>
          if listening s p then
            let (s', c) := new_conn s p (LFresh t) in goto s' (PIdent c o)
          else goto s (PDone RErr)                              (* "connecting: ..." *)
      | PIdent c o =>
          if ident_send s c oracle then goto s (PReg c o)
          else goto (close_refused s c) (PDone RErr)            (* "sending: ..." *)
      | PReg c o =>
          if closed s then goto (close_refused s c) (PDone RErr)  (* "register connection: closing" *)
          else goto (set_table s (upd (table s) p (table s p ++ [c]))) (PLaunch c o)
      | PLaunch c o =>
          if closed s then goto (close_refused s c) (PDone RErr)  (* "handling routine: closing" *)
          else match conns s c with
               | Some x =>
                   match loop x with
                   | LFresh t' =>
                       if t' =? t then
                         goto (set_conn s c (set_loop x LRun))
                              (match o with None => PMsg c | Some out => PRetry c out end)
                       else None
                   | _ => None
                   end
               | None => None
               end
      | PMsg c =>
          match tmsgs th with
          | [] => goto s (PDone ROk)
          | m :: rest =>
              let (s', ok) := conn_send s c m oracle in
              if ok then
                Some (set_thread s' t (mkThread p rest (match rest with [] => PDone ROk | _ => PMsg c end)))
              else goto s' (PDial (Some c))                     (* "Couldn't send ... trying again" *)
          end
      | PRetry c' out =>
          match tmsgs th with
          | [] => goto s (PDone ROk)
          | m :: rest =>
              let (s', ok) := conn_send s c' m oracle in
              if ok then
                (* the fresh connection was bound to a shadowing variable: back to [out] *)
                Some (set_thread s' t (mkThread p rest (match rest with [] => PDone ROk | _ => PMsg out end)))
              else goto s' (PDone RErr)
          end
      end
  end.

Definition step (s : state) (a : action) : option state :=
  match a with
  | ASpawn p msgs =>
      let t := nextt s in
      Some (set_threads s (upd (threads s) t
              (Some (mkThread p msgs (match msgs with [] => PDone RErr | _ => PLookup end)))) (S t))
  | AStep t oracle => thread_step s t oracle
  | ARecvErr c e =>
      match conns s c with
      | Some x =>
          match loop x with
          | LRun =>
              if closed s then Some (set_conn s c (set_loop x LQuit))
              else match classify e with
                   | Drop => Some (set_conn s c (set_loop x (LTrig 0)))
                   | Continue => Some s
                   end
          | _ => None
          end
      | None => None
      end
  | ARecvMsg c m =>
      match conns s c with
      | Some x =>
          match loop x with
          | LRun =>
              if closed s then Some (set_conn s c (set_loop x LQuit))
              else Some (set_dispatched s (dispatched s ++ [(c, m)]))
          | _ => None
          end
      | None => None
      end
  | ATrigger c =>
      match conns s c with
      | Some x =>
          match loop x with
          | LTrig k =>
              if k <? nh s then
                Some (set_calls (set_conn s c (set_loop x (LTrig (S k)))) (calls s ++ [(k, cpeer x, c)]))
              else None
          | _ => None
          end
      | None => None
      end
  | AExit c =>
      match conns s c with
      | Some x =>
          let leave err :=
            Some (set_table (set_conn s c (set_loop (set_lclosed x true) (LExited err)))
                            (upd (table s) (cpeer x) (swap_remove c (table s (cpeer x))))) in
          match loop x with
          | LTrig k => if nh s <=? k then leave true else None
          | LQuit => leave false
          | _ => None
          end
      | None => None
      end
  | AAccept p =>
      if listening s p then
        let (s', c) := new_conn s p LNone in
        if closed s then Some (close_refused s' c)              (* refused: "because it's closed" *)
        else Some (set_table s' (upd (table s') p (table s' p ++ [c])))
      else None
  | AAcceptClosing closes p =>
      if listening s p then None
      else
        let c := nextc s in
        let s' := set_nextc (set_conn s c (mkConn p (incn s p) (negb closes) false (negb closes) LNone)) (S c) in
        if closed s then Some (close_refused s' c)
        else Some (set_table s' (upd (table s') p (table s' p ++ [c])))
  | AAcceptFail p =>
      let c := nextc s in
      Some (set_nextc (set_conn s c (mkConn p (incn s p) false true false (LExited false))) (S c))
  | ALaunchInc c =>
      match conns s c with
      | Some x =>
          match loop x with
          | LNone =>
              if mem c (table s (cpeer x)) then
                if closed s then Some (close_refused s c) else Some (set_conn s c (set_loop x LRun))
              else None
          | _ => None
          end
      | None => None
      end
  | ACrash p =>
      Some (set_env
              (set_conns s (fun c => match conns s c with
                                     | Some x => Some (if (cpeer x =? p) && negb (sink x) then set_alive x false else x)
                                     | None => None
                                     end))
              (upd (listening s) p false) (incn s))
  | ARestart p =>
      if listening s p then None
      else Some (set_env s (upd (listening s) p true) (upd (incn s) p (S (incn s p))))
  | AClose =>
      Some (set_closed
              (set_conns s (fun c => match conns s c with
                                     | Some x => Some (if mem c (table s (cpeer x)) then set_lclosed x true else x)
                                     | None => None
                                     end))
              true)
  end.

Fixpoint run (s : state) (acts : list action) : option state :=
  match acts with
  | [] => Some s
  | a :: r => match step s a with None => None | Some s' => run s' r end
  end.

(* a Send thread run alone until it returns (every write to a dead TCP peer answers [oracle]) *)
Fixpoint run_thread (fuel : nat) (s : state) (t : nat) (oracle : bool) : state :=
  match fuel with
  | 0 => s
  | S f => match thread_step s t oracle with
           | None => s
           | Some s' => run_thread f s' t oracle
           end
  end.

Definition result (s : state) (t : nat) : option res :=
  match threads s t with
  | Some th => match tpc th with PDone r => Some r | _ => None end
  | None => None
  end.

(* at most 6 steps per message (send, dial, identity, register, launch, resend) plus the
   lookup and the first connect; [send_returns] in the proofs *)
Definition send_fuel (msgs : list nat) : nat := 12 + 6 * length msgs.

(* Router.Send as one uninterrupted call *)
Definition send_call (s : state) (p : nat) (msgs : list nat) (oracle : bool) : state * option res :=
  match step s (ASpawn p msgs) with
  | None => (s, None)
  | Some s1 => let s2 := run_thread (send_fuel msgs) s1 (nextt s) oracle in (s2, result s2 (nextt s))
  end.

(* ---- the send entry points, as functions of the router's result ---------- *)

(* context.go SendRaw *)
Definition send_raw (fix_f10 : bool) (r : res) : res := if fix_f10 then r else ROk.

(* overlay.go SendToTreeNode; treenode.go SendTo (refuses a nil node and a closing instance
   before anything is sent) *)
Definition send_to_tree_node (r : res) : res := r.
Definition tn_send_to (to_nil closing : bool) (r : res) : res :=
  if to_nil then RErr else if closing then RErr else send_to_tree_node r.

(* treenode.go SendTo: the configuration set with SetConfig travels with the FIRST message to a node.
   The pinned code marks it as sent before sending ([sentTo[to.ID] = true] precedes the send), so a
   first send that fails leaves the node without configuration for good; [fix_n1]: mark after success.
   [earlier]: results of the earlier SendTo calls of this instance towards that node. *)
Definition carries_config (fix_n1 : bool) (earlier : list res) : bool :=
  match earlier with
  | [] => true
  | _ => fix_n1 && forallb (fun r => match r with RErr => true | ROk => false end) earlier
  end.

(* overlay.go requestTree / treestorage.go: a tree id is marked "requested" before RequestTree is
   sent; the mark is cleared by the answer or by a FAILED send. A request that was sent and is never
   answered (the peer died or restarted without the tree; handleRequestTree stays silent when it
   does not hold the tree) leaves the mark for ever and no second request is made: messages of
   later runs on that tree are parked. [fix_n2]: the mark expires / a negative answer exists. *)
Definition asks_again (fix_n2 request_unanswered : bool) : bool := negb request_unanswered || fix_n2.

Section Multi.
  Variable St : Type.
  Variable snd : St -> nat -> St * res.     (* one SendTo towards a destination *)

  (* SendToChildren: in order, stops at the first failure *)
  Fixpoint send_to_children (s : St) (dests : list nat) : St * res :=
    match dests with
    | [] => (s, ROk)
    | d :: r => let (s', x) := snd s d in
                match x with RErr => (s', RErr) | ROk => send_to_children s' r end
    end.

  (* Multicast / Broadcast / SendToChildrenInParallel: every destination is tried, the
     failed ones are reported *)
  Fixpoint multicast (s : St) (dests : list nat) : St * list nat :=
    match dests with
    | [] => (s, [])
    | d :: r => let (s', x) := snd s d in
                let (s'', errs) := multicast s' r in
                (s'', match x with RErr => d :: errs | ROk => errs end)
    end.

  Definition broadcast (s : St) (self : nat) (nodes : list nat) : St * list nat :=
    multicast s (filter (fun d => negb (d =? self)) nodes).

  (* SendToParent: the root sends nothing and reports success *)
  Definition send_to_parent (s : St) (parent : option nat) : St * res :=
    match parent with None => (s, ROk) | Some q => snd s q end.
End Multi.

(* ---- network/local.go under back-pressure -------------------------------------------------------

   One direction of an in-memory connection towards a peer whose reader does not keep up:
     LocalManager.send  : lm.Lock; lookup; incomingQueue <- msg (blocks when full, LOCK HELD); unlock
     LocalConn.start    : for { select { case b := <-incomingQueue: outgoingQueue <- b (blocks when full)
                                         case <-closeCh: close queues; closeConfirm <- true; return } }
     LocalManager.close : lm.Lock; delete entry; close(closeCh); <-closeConfirm (LOCK HELD); unlock
     LocalConn.Receive  : <-outgoingQueue (the router's handleConn; it stops reading when the router
                          closes or while its dispatcher is busy)
   Both queues hold LocalMaxBuffer = 200 packets. [fix_n3]: send waits for room without the manager's
   lock and watches closeCh; the forwarding goroutine watches closeCh while it pushes. *)

Inductive fpc := FSelect | FHold | FGone.   (* forwarder: at its select / holding a packet, pushing / returned *)
Inductive cpc := CIdle | CWait | CDone.     (* closer: not started / in lm.close waiting for closeConfirm, lock held / returned *)

Record lconn := mkL {
  lcap : nat; inq : nat; outq : nat; fwd : fpc; closer : cpc;
  closesig : bool;                          (* closeCh closed, entry deleted *)
  lock_s : bool;                            (* a sender sits in lm.send with the manager's lock, waiting for room *)
  reading : bool }.                         (* the reader still calls Receive *)

Definition linit (cap : nat) : lconn := mkL cap 0 0 FSelect CIdle false false true.

Definition lock_free (s : lconn) : bool :=
  negb (lock_s s) && match closer s with CWait => false | _ => true end.

Inductive laction :=
| LSend          (* the survivor calls Send on this connection *)
| LSendRoom      (* the sender blocked in lm.send finds room *)
| LFwdTake | LFwdPush | LFwdClose
| LRead | LReaderStop
| LCloseBegin | LCloseEnd
| LOther.        (* any other connection of the same manager is used (needs the manager's lock) *)

Definition lstep (fix_n3 : bool) (s : lconn) (a : laction) : option lconn :=
  let upd_q i o := mkL (lcap s) i o (fwd s) (closer s) (closesig s) (lock_s s) (reading s) in
  match a with
  | LSend =>
      if fix_n3 then
        if closesig s then Some s                                    (* ErrClosed *)
        else if inq s <? lcap s then Some (upd_q (S (inq s)) (outq s))
        else None                                                    (* waits, without any lock *)
      else
        if lock_free s then
          if closesig s then Some s
          else if inq s <? lcap s then Some (upd_q (S (inq s)) (outq s))
          else Some (mkL (lcap s) (inq s) (outq s) (fwd s) (closer s) (closesig s) true (reading s))
        else None
  | LSendRoom =>
      if lock_s s && (inq s <? lcap s)
      then Some (mkL (lcap s) (S (inq s)) (outq s) (fwd s) (closer s) (closesig s) false (reading s))
      else None
  | LFwdTake =>
      match fwd s, inq s with
      | FSelect, S i => Some (mkL (lcap s) i (outq s) FHold (closer s) (closesig s) (lock_s s) (reading s))
      | _, _ => None
      end
  | LFwdPush =>
      match fwd s with
      | FHold => if outq s <? lcap s
                 then Some (mkL (lcap s) (inq s) (S (outq s)) FSelect (closer s) (closesig s) (lock_s s) (reading s))
                 else None
      | _ => None
      end
  | LFwdClose =>
      if closesig s then
        match fwd s with
        | FSelect => Some (mkL (lcap s) (inq s) (outq s) FGone (closer s) true (lock_s s) (reading s))
        | FHold => if fix_n3 then Some (mkL (lcap s) (inq s) (outq s) FGone (closer s) true (lock_s s) (reading s))
                   else None
        | FGone => None
        end
      else None
  | LRead =>
      match reading s, outq s with
      | true, S o => Some (upd_q (inq s) o)
      | _, _ => None
      end
  | LReaderStop => if reading s then Some (mkL (lcap s) (inq s) (outq s) (fwd s) (closer s) (closesig s) (lock_s s) false) else None
  | LCloseBegin =>
      match closer s with
      | CIdle => if lock_free s
                 then Some (mkL (lcap s) (inq s) (outq s) (fwd s) CWait true (lock_s s) (reading s))
                 else None
      | _ => None
      end
  | LCloseEnd =>
      match closer s, fwd s with
      | CWait, FGone => Some (mkL (lcap s) (inq s) (outq s) (fwd s) CDone (closesig s) (lock_s s) (reading s))
      | _, _ => None
      end
  | LOther => if lock_free s then Some s else None
  end.

Fixpoint lrun (fx : bool) (s : lconn) (acts : list laction) : option lconn :=
  match acts with
  | [] => Some s
  | a :: r => match lstep fx s a with None => None | Some s' => lrun fx s' r end
  end.

(* the forwarder, the blocked sender and the closer run as far as they can *)
Fixpoint lsettle (fx : bool) (fuel : nat) (s : lconn) : lconn :=
  match fuel with
  | 0 => s
  | S f =>
      let try a k := match lstep fx s a with Some s' => lsettle fx f s' | None => k end in
      try LFwdPush (try LFwdTake (try LSendRoom (try LFwdClose (try LCloseEnd s))))
  end.

(* k messages are sent while the reader took the first one and then stopped; returns the state and
   whether every Send returned *)
Fixpoint lflood (fx : bool) (k : nat) (s : lconn) : lconn * bool :=
  match k with
  | 0 => (s, true)
  | S k' => match lstep fx s LSend with
            | Some s' => lflood fx k' (lsettle fx 4 s')
            | None => (s, false)
            end
  end.

(* (Stop closed its connections, every Send returned, a later Send returns, the manager is usable) *)
Definition flood_outcome (fx : bool) (cap k : nat) : bool * bool * bool * bool :=
  match k with
  | 0 => (true, true, true, true)
  | S k' =>
      let s0 := lsettle fx 4 (match lstep fx (linit cap) LSend with Some s => s | None => linit cap end) in
      let s1 := match lstep fx s0 LRead with Some s => s | None => s0 end in
      let s2 := match lstep fx s1 LReaderStop with Some s => s | None => s1 end in
      let (s3, all_sent) := lflood fx k' s2 in
      let s4 := match lstep fx s3 LCloseBegin with Some s => lsettle fx 6 s | None => s3 end in
      let closed_ok := match closer s4 with CDone => true | _ => false end in
      (* with the repair a Send that waits for room is woken by the close and returns an error *)
      let sends_ok := negb (lock_s s4) && (all_sent || (fx && closed_ok)) in
      (closed_ok, sends_ok, lock_free s4, lock_free s4)
  end.

(* ---- the router's mutex -----------------------------------------------------------------------------

   Which code of network/router.go runs with r.Mutex held, and what it calls meanwhile. sync.Mutex is
   not re-entrant: a thread that asks for the mutex it holds waits for ever, and so does everybody else.
     connection, registerConnection, launchHandleRoutine, removeConnection, Closed, Tx, Rx :
                        Lock; touch the tables; Unlock  -- nothing is called with the mutex held
     Stop             : Lock; isClosed = true; c.Close() for every connection; Unlock; wg.Wait
     handleConn       : Lock/Unlock (paused), Closed(), then on an unrecoverable error
                        triggerConnectionErrorHandlers: the handlers are called WITHOUT the mutex
                        ([handlers_locked = false]); a variant that takes the mutex around the calls
                        ([handlers_locked = true], seeded change C09-A) dead-locks as soon as a handler uses
                        its own router
     error handler    : application code; a re-entrant one calls Closed / Tx / Send on the router
   Threads are instruction lists; one instruction = one step. *)

Inductive instr := ILock | IUnlock | IWork.

Definition lockprog := list instr.

Record msys := mkM { mtx : option nat; progs : list lockprog }.

Fixpoint set_nth {A} (l : list A) (i : nat) (x : A) : list A :=
  match l, i with
  | [], _ => []
  | _ :: r, 0 => x :: r
  | y :: r, S j => y :: set_nth r j x
  end.

(* thread t executes its next instruction *)
Definition mstep (s : msys) (t : nat) : option msys :=
  match nth_error (progs s) t with
  | Some (ILock :: r) => match mtx s with
                         | None => Some (mkM (Some t) (set_nth (progs s) t r))
                         | Some _ => None                       (* waits -- also when it is the holder itself *)
                         end
  | Some (IUnlock :: r) => match mtx s with
                           | Some h => if h =? t then Some (mkM None (set_nth (progs s) t r)) else None
                           | None => None
                           end
  | Some (IWork :: r) => Some (mkM (mtx s) (set_nth (progs s) t r))
  | _ => None
  end.

Fixpoint mrun (s : msys) (ts : list nat) : option msys :=
  match ts with
  | [] => Some s
  | t :: r => match mstep s t with None => None | Some s' => mrun s' r end
  end.

Definition locked_section (body : lockprog) : lockprog := ILock :: body ++ [IUnlock].

(* one error handler: a re-entrant one asks its router something *)
Definition handler_prog (reentrant : bool) : lockprog :=
  if reentrant then locked_section [] (* r.Closed() *) else [IWork].

(* handleConn from the return of Receive with an unrecoverable error to its end *)
Definition loop_exit_prog (handlers_locked : bool) (handlers : list bool) : lockprog :=
  locked_section [] (* paused? *) ++ locked_section [] (* Closed() *) ++
  (if handlers_locked then [ILock] else []) ++
  concat (map handler_prog handlers) ++
  (if handlers_locked then [IUnlock] else []) ++
  [IWork] (* c.Close *) ++ locked_section [] (* removeConnection *).

(* Router.Send with a connect *)
Definition send_prog : lockprog :=
  locked_section [] (* connection() *) ++ [IWork; IWork] (* dial, identity *) ++
  locked_section [] (* registerConnection *) ++ locked_section [] (* launchHandleRoutine *) ++ [IWork] (* c.Send *).

Definition stop_prog : lockprog :=
  [IWork] (* host.Stop *) ++ locked_section [IWork] (* closed flag, c.Close of every connection *) ++ [IWork] (* wg.Wait *).

(* ---- tcp.go receiveRawProd: under which deadline a Receive waits -----------------------------------------

   A peer that dies SILENTLY (power loss, network cut: neither FIN nor RST reaches the survivor) is noticed
   only by the read deadline of the survivor's handleConn. receiveRawProd arms the deadline (now + timeout)
   before the read of the 4-byte frame header and again before every read of the body. [arm_header = false]
   is the variant that arms it only before body reads: the header read then runs under whatever deadline
   the last body read left behind -- none at all on a connection that has not received a frame yet.
   Times are natural numbers; [leftover] is the absolute deadline left by the last body read. *)

(* the time at which a Receive that starts waiting for a header at [now] on a silent connection returns
   ErrTimeout; None: it never returns *)
Definition receive_silent (arm_header : bool) (now timeout : nat) (leftover : option nat) : option nat :=
  if arm_header then Some (now + timeout)
  else match leftover with
       | Some d => Some (Nat.max now d)
       | None => None
       end.

(* the deadline a body read at time t leaves behind *)
Definition after_body (t timeout : nat) : option nat := Some (t + timeout).

(* is the silent death of the peer noticed on a connection ([fresh]: no frame received on it so far) *)
Definition mute_detected (arm_header fresh : bool) : bool :=
  match receive_silent arm_header 1 1 (if fresh then None else after_body 0 1) with
  | Some _ => true
  | None => false
  end.

(* ---- network/local.go: the listening table of the in-memory transport -------------------------------------

   LocalManager.listening maps an ADDRESS to the accept function of whoever listens there; it does not
   know which listener object registered the entry. LocalListener.Stop releases the address only while
   this object is the one that listens ([unset_first = false], the tree). The variant that releases it
   before looking at its own flag ([unset_first = true], seeded change C09-G) lets a second Stop of an
   old, already stopped listener delete the registration of its restarted successor. *)

Record llistener := mkLL { ll_addr : nat; ll_id : nat; ll_on : bool }.

Definition ltable := nat -> option nat.     (* address -> listener object whose accept function is registered *)

Definition ll_listen (tb : ltable) (l : llistener) : ltable * llistener :=
  (upd tb (ll_addr l) (Some (ll_id l)), mkLL (ll_addr l) (ll_id l) true).

Definition ll_stop (unset_first : bool) (tb : ltable) (l : llistener) : ltable * llistener :=
  if unset_first then (upd tb (ll_addr l) None, mkLL (ll_addr l) (ll_id l) false)
  else if ll_on l then (upd tb (ll_addr l) None, mkLL (ll_addr l) (ll_id l) false)
  else (tb, l).

(* a peer is stopped, restarted on the same address, and its OLD incarnation is stopped once more
   (Server.Close does that unconditionally): who is registered at the address afterwards *)
Definition restart_then_stop_old (unset_first : bool) (addr : nat) : option nat :=
  let old := mkLL addr 1 false in
  let (t1, old1) := ll_listen (fun _ => None) old in
  let (t2, old2) := ll_stop unset_first t1 old1 in
  let (t3, new1) := ll_listen t2 (mkLL addr 2 false) in
  let (t4, _) := ll_stop unset_first t3 old2 in
  t4 addr.

(* ---- network/tcp.go TCPConn.Send: the send mutex ------------------------------------------------------------
   Send holds sendMutex around the write and releases it on every path ([leaks = false], the tree); the
   variant that unlocks only on the success path ([leaks = true], seeded change C09-H) keeps it after a
   failed write. Programs for the mutex machine above. *)
Definition conn_send_prog (write_ok leaks : bool) : lockprog :=
  if write_ok || negb leaks then locked_section [IWork] else [ILock; IWork].
