(* C03 PROOFS about Net/Frame.v and Net/Marshal.v. *)
From Coq Require Import List NArith Bool Lia Arith.
From Coq Require Import Init.Byte.
From Onet Require Import Net.Frame Net.Marshal.
Import ListNotations.
Local Open Scope N_scope.

(* ======================================================================== *)
(* 1. reading n bytes from any segmentation = taking n bytes of the stream  *)
(* ======================================================================== *)

Lemma dropN_nil_len {A} n (s : list A) : dropN n s = [] -> lenN s <= n.
Proof.
  intros H. pose proof (lenN_dropN n s) as HL. rewrite H, lenN_nil in HL. lia.
Qed.

Lemma dropN_cons_len {A} n (s : list A) x l : dropN n s = x :: l -> n < lenN s.
Proof.
  intros H. pose proof (lenN_dropN n s) as HL. rewrite H, lenN_cons in HL. lia.
Qed.

Lemma read_n_spec : forall segs need acc,
  (need <= lenN (concat segs) ->
     exists rest, read_n need acc segs = RfOk (acc ++ takeN need (concat segs)) rest /\
                  concat rest = dropN need (concat segs)) /\
  (lenN (concat segs) < need -> read_n need acc segs = RfEnd (acc ++ concat segs)).
Proof.
  induction segs as [|s r IH]; intros need acc.
  - cbn [concat read_n]. rewrite lenN_nil. destruct (need =? 0) eqn:E.
    + apply N.eqb_eq in E. subst. split; [|lia]. intros _. exists [].
      rewrite takeN_0, app_nil_r. split; reflexivity.
    + apply N.eqb_neq in E. split; [lia|]. intros _. now rewrite app_nil_r.
  - cbn [concat read_n]. destruct (need =? 0) eqn:E.
    + apply N.eqb_eq in E. subst. split; [|lia]. intros _. exists (s :: r).
      rewrite takeN_0, app_nil_r, dropN_0. split; reflexivity.
    + apply N.eqb_neq in E. destruct (dropN need s) as [|x l] eqn:D.
      * apply dropN_nil_len in D. rewrite lenN_app.
        destruct (IH (need - lenN s) (acc ++ s)) as [IH1 IH2]. split.
        -- intros H. destruct IH1 as [rest [R1 R2]]; [lia|]. exists rest. split.
           ++ rewrite R1, takeN_app_ge by lia. now rewrite app_assoc.
           ++ rewrite R2, dropN_app_ge by lia. reflexivity.
        -- intros H. rewrite IH2 by lia. now rewrite app_assoc.
      * pose proof (dropN_cons_len _ _ _ _ D) as Hlt. rewrite lenN_app. split; [|lia].
        intros _. exists ((x :: l) :: r). split.
        -- now rewrite takeN_app_lt by lia.
        -- cbn [concat]. rewrite dropN_app_lt by lia. now rewrite D.
Qed.

(* ======================================================================== *)
(* 2. one receiveRaw on any segmentation = one parse step on the stream     *)
(* ======================================================================== *)

Definition rr_matches (r : rr) (p : pr) : Prop :=
  match p with
  | PEnd b => r = RrEnd b
  | PTooBig t rest => exists rs, r = RrTooBig t rs /\ concat rs = rest
  | PFrame b rest => exists rs, r = RrFrame b rs /\ concat rs = rest
  end.

Lemma receive_raw_spec limit segs :
  rr_matches (receive_raw limit segs) (parse1 limit (concat segs)).
Proof.
  unfold receive_raw, parse1.
  destruct (read_n_spec segs 4 []) as [H1 H2].
  destruct (lenN (concat segs) <? 4) eqn:E4.
  - apply N.ltb_lt in E4. rewrite H2 by exact E4. cbn [app rr_matches]. reflexivity.
  - apply N.ltb_ge in E4. destruct (H1 E4) as [rest [R1 R2]]. rewrite R1. cbn [app].
    destruct (limit <? de32 (takeN 4 (concat segs))) eqn:EL.
    + cbn [rr_matches]. exists rest. split; [reflexivity|exact R2].
    + destruct (read_n_spec rest (de32 (takeN 4 (concat segs))) []) as [B1 B2].
      rewrite R2 in B1, B2.
      destruct (lenN (dropN 4 (concat segs)) <? de32 (takeN 4 (concat segs))) eqn:EB.
      * apply N.ltb_lt in EB. rewrite B2 by exact EB. reflexivity.
      * apply N.ltb_ge in EB. destruct (B1 EB) as [rest' [S1 S2]]. rewrite S1. cbn [app rr_matches].
        exists rest'. split; [reflexivity|exact S2].
Qed.

(* ======================================================================== *)
(* 3. the receive loop does not depend on the segmentation                  *)
(* ======================================================================== *)

Theorem recv_loop_concat fix_f04 limit : forall fuel segs,
  recv_loop fix_f04 limit fuel segs = parse_loop fix_f04 limit fuel (concat segs).
Proof.
  induction fuel as [|f IH]; intros segs; [reflexivity|].
  cbn [recv_loop parse_loop].
  pose proof (receive_raw_spec limit segs) as H.
  destruct (parse1 limit (concat segs)) as [b rest|t rest|p]; cbn [rr_matches] in H.
  - destruct H as [rs [-> <-]]. now rewrite IH.
  - destruct H as [rs [-> <-]]. destruct fix_f04; [reflexivity|]. now rewrite IH.
  - now rewrite H.
Qed.

Theorem recv_all_concat fix_f04 limit segs :
  recv_all fix_f04 limit segs = parse_all fix_f04 limit (concat segs).
Proof. unfold recv_all, parse_all, fuel_for. apply recv_loop_concat. Qed.

(* any two segmentations of the same byte stream -- frames, garbage, refused
   frames, either variant -- are received identically *)
Theorem recv_segmentation_invariant fix_f04 limit segs1 segs2 :
  concat segs1 = concat segs2 ->
  recv_all fix_f04 limit segs1 = recv_all fix_f04 limit segs2.
Proof. intros H. now rewrite !recv_all_concat, H. Qed.

(* ======================================================================== *)
(* 4. fuel: enough is given, and more changes nothing                       *)
(* ======================================================================== *)

Lemma length_lenN {A} (l : list A) : N.of_nat (length l) = lenN l.
Proof. reflexivity. Qed.

Lemma parse1_progress limit s :
  match parse1 limit s with
  | PFrame _ rest | PTooBig _ rest => (length rest + 4 <= length s)%nat
  | PEnd _ => True
  end.
Proof.
  unfold parse1. destruct (lenN s <? 4) eqn:E4; [exact I|]. apply N.ltb_ge in E4.
  assert (lenN (dropN 4 s) = lenN s - 4) as HD by apply lenN_dropN.
  destruct (limit <? de32 (takeN 4 s)).
  - unfold lenN in *. lia.
  - destruct (lenN (dropN 4 s) <? de32 (takeN 4 s)); [exact I|].
    pose proof (lenN_dropN (de32 (takeN 4 s)) (dropN 4 s)) as HD2. unfold lenN in *. lia.
Qed.

Lemma parse_loop_no_fuel fix_f04 limit : forall fuel s,
  (length s < fuel)%nat -> snd (parse_loop fix_f04 limit fuel s) <> FinFuel.
Proof.
  induction fuel as [|f IH]; intros s H; [lia|]. cbn [parse_loop].
  pose proof (parse1_progress limit s) as P.
  destruct (parse1 limit s) as [b rest|t rest|p].
  - specialize (IH rest ltac:(lia)). destruct (parse_loop fix_f04 limit f rest). exact IH.
  - destruct fix_f04; [cbn; discriminate|].
    specialize (IH rest ltac:(lia)). destruct (parse_loop false limit f rest). exact IH.
  - cbn. discriminate.
Qed.

Lemma parse_loop_mono fix_f04 limit : forall f s f',
  snd (parse_loop fix_f04 limit f s) <> FinFuel -> (f <= f')%nat ->
  parse_loop fix_f04 limit f' s = parse_loop fix_f04 limit f s.
Proof.
  induction f as [|f IH]; intros s f' H Hle; [cbn in H; congruence|].
  destruct f' as [|f']; [lia|]. cbn [parse_loop] in *.
  destruct (parse1 limit s) as [b rest|t rest|p]; [| |reflexivity].
  - rewrite (IH rest f'); [reflexivity| |lia].
    destruct (parse_loop fix_f04 limit f rest). exact H.
  - destruct fix_f04; [reflexivity|]. rewrite (IH rest f'); [reflexivity| |lia].
    destruct (parse_loop false limit f rest). exact H.
Qed.

Theorem parse_all_no_fuel fix_f04 limit s : snd (parse_all fix_f04 limit s) <> FinFuel.
Proof. apply parse_loop_no_fuel. lia. Qed.

Theorem recv_all_fuel fix_f04 limit segs : snd (recv_all fix_f04 limit segs) <> FinFuel.
Proof. rewrite recv_all_concat. apply parse_all_no_fuel. Qed.

(* ======================================================================== *)
(* 5. frames written by sendRaw are a prefix code                            *)
(* ======================================================================== *)

Definition stream (ps : list bytes) : bytes := concat (map send_raw ps).

Definition fits (limit : N) (p : bytes) : Prop := lenN p <= limit.

Lemma send_raw_small p : lenN p < 4294967296 -> send_raw p = be32 (lenN p) ++ p.
Proof.
  intros H. unfold send_raw, size_of. rewrite N.mod_small by exact H.
  destruct (lenN p =? 0) eqn:E; [|reflexivity].
  apply N.eqb_eq in E. destruct p; [reflexivity|]. rewrite lenN_cons in E. lia.
Qed.

Lemma parse1_frame limit p rest :
  limit < 4294967296 -> fits limit p ->
  parse1 limit (send_raw p ++ rest) = PFrame p rest.
Proof.
  unfold fits. intros HL Hp. rewrite send_raw_small by lia. unfold parse1.
  rewrite <- app_assoc.
  assert (lenN (be32 (lenN p) ++ p ++ rest) <? 4 = false) as ->.
  { apply N.ltb_ge. rewrite lenN_app, lenN_be32. lia. }
  change 4 with (lenN (be32 (lenN p))).
  rewrite takeN_app_exact, dropN_app_exact, de32_be32 by lia.
  assert (limit <? lenN p = false) as -> by (apply N.ltb_ge; lia).
  assert (lenN (p ++ rest) <? lenN p = false) as ->.
  { apply N.ltb_ge. rewrite lenN_app. lia. }
  now rewrite takeN_app_exact, dropN_app_exact.
Qed.

Lemma parse1_oversize limit p rest :
  limit < lenN p -> lenN p < 4294967296 ->
  parse1 limit (send_raw p ++ rest) = PTooBig (lenN p) (p ++ rest).
Proof.
  intros HL Hp. rewrite send_raw_small by lia. unfold parse1.
  rewrite <- app_assoc.
  assert (lenN (be32 (lenN p) ++ p ++ rest) <? 4 = false) as ->.
  { apply N.ltb_ge. rewrite lenN_app, lenN_be32. lia. }
  change 4 with (lenN (be32 (lenN p))).
  rewrite takeN_app_exact, dropN_app_exact, de32_be32 by lia.
  assert (limit <? lenN p = true) as -> by (apply N.ltb_lt; lia).
  reflexivity.
Qed.

Lemma stream_app a b : stream (a ++ b) = stream a ++ stream b.
Proof. unfold stream. now rewrite map_app, concat_app. Qed.

Lemma parse_loop_frames fix_f04 limit : forall ps f rest,
  limit < 4294967296 -> Forall (fits limit) ps ->
  parse_loop fix_f04 limit (length ps + f) (stream ps ++ rest) =
  (map EvFrame ps ++ fst (parse_loop fix_f04 limit f rest),
   snd (parse_loop fix_f04 limit f rest)).
Proof.
  induction ps as [|p ps IH]; intros f rest HL HF.
  - cbn. now destruct (parse_loop fix_f04 limit f rest).
  - inversion HF as [|? ? Hp HF']; subst. unfold stream in *.
    cbn [map concat length Nat.add parse_loop]. rewrite <- app_assoc.
    rewrite parse1_frame by assumption. rewrite IH by assumption. reflexivity.
Qed.

Lemma length_send_raw p : (1 <= length (send_raw p))%nat.
Proof. unfold send_raw. rewrite app_length. cbn [be32 length]. lia. Qed.

Lemma length_stream ps : (length ps <= length (stream ps))%nat.
Proof.
  induction ps as [|p ps IH]; [cbn; lia|]. unfold stream in *. cbn [map concat length].
  rewrite app_length. pose proof (length_send_raw p). lia.
Qed.

(* frames within the limit, followed by ANY bytes: the frames are received in
   order, exactly once, and reception continues with the rest as if it started there *)
Theorem parse_all_frames_then fix_f04 limit ps rest :
  limit < 4294967296 -> Forall (fits limit) ps ->
  parse_all fix_f04 limit (stream ps ++ rest) =
  (map EvFrame ps ++ fst (parse_all fix_f04 limit rest), snd (parse_all fix_f04 limit rest)).
Proof.
  intros HL HF. unfold parse_all.
  rewrite <- (parse_loop_frames fix_f04 limit ps (S (length rest)) rest HL HF).
  apply parse_loop_mono.
  - rewrite parse_loop_frames by assumption. cbn [snd]. apply parse_loop_no_fuel. lia.
  - rewrite app_length. pose proof (length_stream ps). lia.
Qed.

Lemma parse_all_nil fix_f04 limit : parse_all fix_f04 limit [] = ([], FinEnd false).
Proof. reflexivity. Qed.

Theorem parse_all_frames fix_f04 limit ps :
  limit < 4294967296 -> Forall (fits limit) ps ->
  parse_all fix_f04 limit (stream ps) = (map EvFrame ps, FinEnd false).
Proof.
  intros HL HF. rewrite <- (app_nil_r (stream ps)).
  rewrite parse_all_frames_then by assumption. rewrite parse_all_nil. cbn [fst snd].
  now rewrite app_nil_r.
Qed.

(* THE segmentation theorem (framing layer): however the stream of frames is
   cut, exactly the payloads come out, in sending order, once each *)
Theorem segmentation fix_f04 limit ps segs :
  limit < 4294967296 -> Forall (fits limit) ps ->
  concat segs = stream ps ->
  recv_all fix_f04 limit segs = (map EvFrame ps, FinEnd false).
Proof.
  intros HL HF HS. rewrite recv_all_concat, HS. now apply parse_all_frames.
Qed.

(* an oversize announcement: fixed variant closes right there ... *)
Theorem parse_all_oversize_fixed limit pre big post :
  limit < 4294967296 -> Forall (fits limit) pre ->
  limit < lenN big -> lenN big < 4294967296 ->
  parse_all true limit (stream pre ++ send_raw big ++ post) =
  (map EvFrame pre ++ [EvTooBig (lenN big)], FinClosed).
Proof.
  intros HL HF HB HB2. rewrite parse_all_frames_then by assumption.
  unfold parse_all at 1 2. cbn [parse_loop]. rewrite parse1_oversize by assumption.
  reflexivity.
Qed.

(* ... the pinned variant goes on parsing the BODY of the refused frame as headers *)
Theorem parse_all_oversize_pinned limit pre big post :
  limit < 4294967296 -> Forall (fits limit) pre ->
  limit < lenN big -> lenN big < 4294967296 ->
  parse_all false limit (stream pre ++ send_raw big ++ post) =
  (map EvFrame pre ++ EvTooBig (lenN big) :: fst (parse_all false limit (big ++ post)),
   snd (parse_all false limit (big ++ post))).
Proof.
  intros HL HF HB HB2. rewrite parse_all_frames_then by assumption.
  assert (parse_all false limit (send_raw big ++ post) =
          (EvTooBig (lenN big) :: fst (parse_all false limit (big ++ post)),
           snd (parse_all false limit (big ++ post)))) as ->; [|reflexivity].
  remember (parse_all false limit (big ++ post)) as R eqn:HR.
  unfold parse_all. cbn [parse_loop]. rewrite parse1_oversize by assumption.
  rewrite (parse_loop_mono false limit (S (length (big ++ post))) (big ++ post)
             (length (send_raw big ++ post))).
  - fold (parse_all false limit (big ++ post)). rewrite <- HR. now destruct R.
  - apply parse_loop_no_fuel. lia.
  - rewrite send_raw_small by assumption. rewrite !app_length. cbn [be32 length]. lia.
Qed.

(* the framing is injective: two sequences of buffers within the limit that
   put the same bytes on the wire are the same sequence *)
Theorem stream_injective limit ps1 ps2 :
  limit < 4294967296 -> Forall (fits limit) ps1 -> Forall (fits limit) ps2 ->
  stream ps1 = stream ps2 -> ps1 = ps2.
Proof.
  intros HL H1 H2 HS.
  pose proof (parse_all_frames false limit ps1 HL H1) as P1.
  pose proof (parse_all_frames false limit ps2 HL H2) as P2.
  rewrite HS, P2 in P1. injection P1 as P1.
  clear -P1. revert ps1 P1. induction ps2 as [|p ps IH]; intros [|q qs] H; cbn in H; try discriminate.
  - reflexivity.
  - injection H as -> H. f_equal. now apply IH.
Qed.

(* why buffers must be shorter than 2^32 bytes: the size header is a uint32.
   A buffer of 2^32 + k bytes (0 < k <= limit) is announced as k bytes; the
   receiver takes its first k bytes for the frame and parses the rest of the
   buffer as further frames. *)
Theorem size_wrap limit b rest k :
  lenN b = 4294967296 + k -> 0 < k -> k <= limit -> limit < 4294967296 ->
  parse1 limit (send_raw b ++ rest) = PFrame (takeN k b) (dropN k b ++ rest).
Proof.
  intros Hb Hk Hkl HL. unfold send_raw, size_of. rewrite Hb.
  replace ((4294967296 + k) mod 4294967296) with k.
  2:{ rewrite N.add_mod by lia. rewrite N.mod_same by lia. cbn [N.add].
      rewrite N.mod_mod by lia. symmetry. apply N.mod_small. lia. }
  assert (k =? 0 = false) as -> by (apply N.eqb_neq; lia).
  unfold parse1. rewrite <- app_assoc.
  assert (lenN (be32 k ++ b ++ rest) <? 4 = false) as ->.
  { apply N.ltb_ge. rewrite lenN_app, lenN_be32. lia. }
  change 4 with (lenN (be32 k)).
  rewrite takeN_app_exact, dropN_app_exact, de32_be32 by lia.
  assert (limit <? k = false) as -> by (apply N.ltb_ge; lia).
  assert (lenN (b ++ rest) <? k = false) as ->.
  { apply N.ltb_ge. rewrite lenN_app. lia. }
  rewrite takeN_app_lt, dropN_app_lt by lia. reflexivity.
Qed.

(* ======================================================================== *)
(* 6. envelope, Receive, handleConn                                          *)
(* ======================================================================== *)

(* the property: [expected] are the legitimate messages of the stream in
   sending order, [d] what was dispatched, [x] how the connection ended.
   Either everything legitimate arrived, or the connection was dropped by the
   receiver after a prefix -- never a gap, a stranger, a duplicate or a swap
   on a connection that stays up. *)
Definition wire_ok {X} (expected d : list X) (x : fin) : Prop :=
  d = expected \/ (x = FinClosed /\ exists rest, expected = d ++ rest).

Definition fitsb (limit : N) (p : bytes) : bool := lenN p <=? limit.

Lemma fitsb_fits limit p : fitsb limit p = true <-> fits limit p.
Proof. unfold fitsb, fits. apply N.leb_le. Qed.

Fixpoint take_while {A} (f : A -> bool) (l : list A) : list A :=
  match l with
  | [] => []
  | x :: r => if f x then x :: take_while f r else []
  end.

Lemma filter_take_while {A} (f : A -> bool) l :
  exists rest, filter f l = take_while f l ++ rest.
Proof.
  induction l as [|x r [rest IH]]; [now exists []|]. cbn [filter take_while].
  destruct (f x).
  - exists rest. cbn [app]. now rewrite IH.
  - now exists (filter f r).
Qed.

Lemma take_while_all {A} (f : A -> bool) l : forallb f l = true -> take_while f l = filter f l.
Proof.
  induction l as [|x r IH]; [reflexivity|]. cbn [forallb filter take_while].
  destruct (f x); [|discriminate]. cbn [andb]. intros H. now rewrite IH.
Qed.

Section Env.
  Variables (V T : Type) (type_of : V -> T) (tid_of : T -> bytes)
            (registry : bytes -> option T)
            (enc : V -> option bytes) (dec : T -> bytes -> option V).

  Local Notation marsh := (marshal type_of tid_of registry enc).
  Local Notation unm := (unmarshal registry dec).
  Local Notation hconn := (handle_conn registry dec).
  Local Notation hall := (handle_all registry dec).
  Local Notation deliv := (deliveries registry dec).
  Local Notation lhandle := (local_handle registry dec).

  (* the hypotheses about what is not modelled, as explicit predicates *)
  Definition codec_roundtrip : Prop :=
    forall v b, enc v = Some b -> dec (type_of v) b = Some v.
  Definition tid_16 : Prop := forall t, lenN (tid_of t) = 16.
  (* the value's type is registered and no other registered type has the same id *)
  Definition registered (v : V) : Prop :=
    registry (tid_of (type_of v)) = Some (type_of v).

  Definition envelope_of (v : V) : bytes * V := (tid_of (type_of v), v).

  Theorem unmarshal_marshal v buf :
    tid_16 -> codec_roundtrip -> registered v ->
    marsh v = Some buf -> unm buf = UOk (tid_of (type_of v)) v.
  Proof.
    intros H16 Hrt Hreg. unfold marshal, unmarshal. rewrite Hreg.
    destruct (enc v) as [b|] eqn:E; [|discriminate]. intros [= <-].
    assert (lenN (tid_of (type_of v) ++ b) <? 16 = false) as ->.
    { apply N.ltb_ge. rewrite lenN_app, H16. lia. }
    rewrite <- (H16 (type_of v)). rewrite takeN_app_exact, dropN_app_exact, Hreg.
    now rewrite (Hrt v b E).
  Qed.

  (* distinct values are distinct on the wire *)
  Theorem marshal_injective v1 v2 buf :
    tid_16 -> codec_roundtrip -> registered v1 -> registered v2 ->
    marsh v1 = Some buf -> marsh v2 = Some buf -> v1 = v2.
  Proof.
    intros H16 Hrt R1 R2 M1 M2.
    pose proof (unmarshal_marshal v1 buf H16 Hrt R1 M1) as U1.
    pose proof (unmarshal_marshal v2 buf H16 Hrt R2 M2) as U2.
    rewrite U1 in U2. now injection U2.
  Qed.

  (* a value comes out only of bytes that form a valid message *)
  Definition valid_message (buf : bytes) (id : bytes) (v : V) : Prop :=
    exists body t, buf = id ++ body /\ lenN id = 16 /\ registry id = Some t /\ dec t body = Some v.

  Theorem unmarshal_ok_iff buf id v :
    unm buf = UOk id v <-> valid_message buf id v.
  Proof.
    unfold unmarshal, valid_message. split.
    - destruct (lenN buf <? 16) eqn:E; [discriminate|]. apply N.ltb_ge in E.
      destruct (registry (takeN 16 buf)) as [t|] eqn:ER; [|discriminate].
      destruct (dec t (dropN 16 buf)) as [v'|] eqn:ED; [|discriminate].
      intros [= <- <-]. exists (dropN 16 buf), t. repeat split; try assumption.
      + now rewrite takeN_dropN.
      + rewrite lenN_takeN. lia.
    - intros [body [t [-> [H16 [HR HD]]]]].
      assert (lenN (id ++ body) <? 16 = false) as ->.
      { apply N.ltb_ge. rewrite lenN_app. lia. }
      rewrite <- H16, takeN_app_exact, dropN_app_exact, HR, HD. reflexivity.
  Qed.

  (* Unmarshal is total: a value or one of the three errors -- no other outcome *)
  Theorem unmarshal_total buf :
    (exists id v, unm buf = UOk id v /\ valid_message buf id v) \/
    (exists why, unm buf = UErr why /\ forall id v, ~ valid_message buf id v).
  Proof.
    destruct (unm buf) as [id v|why] eqn:E.
    - left. exists id, v. split; [reflexivity|]. now apply unmarshal_ok_iff.
    - right. exists why. split; [reflexivity|]. intros id v Hv.
      apply unmarshal_ok_iff in Hv. congruence.
  Qed.

  (* handleConn = the framing loop, then Unmarshal + Dispatch per frame *)
  Lemma handle_conn_deliveries fix_f04 limit : forall fuel segs,
    hconn fix_f04 limit fuel segs =
    (deliv (fst (recv_loop fix_f04 limit fuel segs)), snd (recv_loop fix_f04 limit fuel segs)).
  Proof.
    induction fuel as [|f IH]; intros segs; [reflexivity|].
    cbn [handle_conn recv_loop]. unfold receive.
    destruct (receive_raw limit segs) as [b rest|t rest|p].
    - destruct (unm b) as [id v|why] eqn:EU; rewrite (IH rest);
        destruct (recv_loop fix_f04 limit f rest) as [e x];
        cbn [fst snd deliveries flat_map]; rewrite EU; reflexivity.
    - destruct fix_f04; [reflexivity|]. rewrite (IH rest).
      destruct (recv_loop false limit f rest) as [e x]. reflexivity.
    - reflexivity.
  Qed.

  Theorem handle_all_deliveries fix_f04 limit segs :
    hall fix_f04 limit segs =
    (deliv (fst (parse_all fix_f04 limit (concat segs))), snd (parse_all fix_f04 limit (concat segs))).
  Proof.
    unfold handle_all. rewrite handle_conn_deliveries.
    fold (recv_all fix_f04 limit segs). now rewrite recv_all_concat.
  Qed.

  Theorem handle_segmentation_invariant fix_f04 limit segs1 segs2 :
    concat segs1 = concat segs2 -> hall fix_f04 limit segs1 = hall fix_f04 limit segs2.
  Proof. intros H. now rewrite !handle_all_deliveries, H. Qed.

  Theorem handle_all_fuel fix_f04 limit segs : snd (hall fix_f04 limit segs) <> FinFuel.
  Proof. rewrite handle_all_deliveries. apply parse_all_no_fuel. Qed.

  Lemma deliveries_frames ps : deliv (map EvFrame ps) = lhandle ps.
  Proof.
    unfold deliveries, local_handle. induction ps as [|p ps IH]; [reflexivity|].
    cbn [map flat_map]. now rewrite IH.
  Qed.

  Lemma deliveries_app a b : deliv (a ++ b) = deliv a ++ deliv b.
  Proof. unfold deliveries. apply flat_map_app. Qed.

  Lemma local_handle_app a b : lhandle (a ++ b) = lhandle a ++ lhandle b.
  Proof. unfold local_handle. apply flat_map_app. Qed.

  (* refusal is isolated: ANY byte strings framed within the limit -- valid
     messages, unknown types, undecodable bodies, short or empty frames -- on
     ANY segmentation, in EITHER variant: exactly the valid ones are dispatched,
     in order, and the connection stays in step *)
  Theorem refusal_isolated fix_f04 limit ps segs :
    limit < 4294967296 -> Forall (fits limit) ps -> concat segs = stream ps ->
    hall fix_f04 limit segs = (lhandle ps, FinEnd false).
  Proof.
    intros HL HF HS. rewrite handle_all_deliveries, HS, parse_all_frames by assumption.
    cbn [fst snd]. now rewrite deliveries_frames.
  Qed.

  Lemma local_handle_values vs ps :
    tid_16 -> codec_roundtrip -> Forall registered vs ->
    Forall2 (fun v p => marsh v = Some p) vs ps ->
    lhandle ps = map envelope_of vs.
  Proof.
    intros H16 Hrt Hreg H2. induction H2 as [|v p vs ps Hm H2 IH]; [reflexivity|].
    inversion Hreg as [|? ? Hr Hreg']; subst.
    unfold local_handle in *. cbn [flat_map map].
    rewrite (unmarshal_marshal v p H16 Hrt Hr Hm). cbn [app]. now rewrite IH.
  Qed.

  (* values: sent values of registered types arrive as equal values with their
     type id, in sending order, once each, on any segmentation *)
  Theorem delivery fix_f04 limit vs ps segs :
    tid_16 -> codec_roundtrip -> Forall registered vs ->
    Forall2 (fun v p => marsh v = Some p) vs ps ->
    limit < 4294967296 -> Forall (fits limit) ps -> concat segs = stream ps ->
    hall fix_f04 limit segs = (map envelope_of vs, FinEnd false).
  Proof.
    intros H16 Hrt Hreg H2 HL HF HS.
    rewrite (refusal_isolated fix_f04 limit ps segs HL HF HS).
    now rewrite (local_handle_values vs ps H16 Hrt Hreg H2).
  Qed.

  (* fixed variant, ALL sequences of frames (sizes below 2^32): what is
     dispatched is the valid part of the frames in front of the first oversize
     one, and the connection is closed there *)
  Lemma parse_all_fixed_stream limit : forall ps,
    limit < 4294967296 -> Forall (fun p => lenN p < 4294967296) ps ->
    deliv (fst (parse_all true limit (stream ps))) = lhandle (take_while (fitsb limit) ps) /\
    snd (parse_all true limit (stream ps)) =
      (if forallb (fitsb limit) ps then FinEnd false else FinClosed).
  Proof.
    intros ps HL. induction ps as [|p ps IH]; intros HS; [split; reflexivity|].
    inversion HS as [|? ? Hp HS']; subst. specialize (IH HS') as [IH1 IH2].
    cbn [take_while forallb]. destruct (fitsb limit p) eqn:E.
    - apply fitsb_fits in E. change (p :: ps) with ([p] ++ ps) at 1 2. rewrite stream_app.
      rewrite parse_all_frames_then by (auto using Forall_cons, Forall_nil).
      cbn [fst snd map andb]. rewrite deliveries_app, IH1, IH2.
      change (p :: take_while (fitsb limit) ps) with ([p] ++ take_while (fitsb limit) ps).
      rewrite local_handle_app, <- deliveries_frames. split; reflexivity.
    - assert (limit < lenN p) as Hbig.
      { unfold fitsb in E. apply N.leb_gt in E. exact E. }
      change (stream (p :: ps)) with (stream [] ++ send_raw p ++ stream ps).
      rewrite parse_all_oversize_fixed by (auto using Forall_nil). split; reflexivity.
  Qed.

  Theorem wire_ok_fixed limit ps segs :
    limit < 4294967296 -> Forall (fun p => lenN p < 4294967296) ps ->
    concat segs = stream ps ->
    wire_ok (lhandle (filter (fitsb limit) ps))
            (fst (hall true limit segs)) (snd (hall true limit segs)).
  Proof.
    intros HL HS HC. rewrite handle_all_deliveries, HC. cbn [fst snd].
    destruct (parse_all_fixed_stream limit ps HL HS) as [H1 H2]. rewrite H1, H2.
    unfold wire_ok. destruct (forallb (fitsb limit) ps) eqn:E.
    - left. now rewrite take_while_all.
    - right. split; [reflexivity|].
      destruct (filter_take_while (fitsb limit) ps) as [rest Hr]. rewrite Hr.
      exists (lhandle rest). apply local_handle_app.
  Qed.

  (* fixed variant, oversize frame followed by ANY bytes: everything in front is
     dispatched, nothing behind it is parsed *)
  Theorem oversize_closes limit pre big post segs :
    limit < 4294967296 -> Forall (fits limit) pre ->
    limit < lenN big -> lenN big < 4294967296 ->
    concat segs = stream pre ++ send_raw big ++ post ->
    hall true limit segs = (lhandle pre, FinClosed).
  Proof.
    intros HL HF HB HB2 HC. rewrite handle_all_deliveries, HC.
    rewrite parse_all_oversize_fixed by assumption. cbn [fst snd].
    rewrite deliveries_app, deliveries_frames. cbn. now rewrite app_nil_r.
  Qed.

  (* pinned variant: after the refused announcement the BODY is parsed as frames *)
  Theorem oversize_desync limit pre big post segs :
    limit < 4294967296 -> Forall (fits limit) pre ->
    limit < lenN big -> lenN big < 4294967296 ->
    concat segs = stream pre ++ send_raw big ++ post ->
    hall false limit segs =
    (lhandle pre ++ fst (hall false limit [big ++ post]), snd (hall false limit [big ++ post])).
  Proof.
    intros HL HF HB HB2 HC. rewrite !handle_all_deliveries, HC.
    rewrite parse_all_oversize_pinned by assumption. cbn [fst snd concat].
    rewrite app_nil_r, deliveries_app, deliveries_frames. reflexivity.
  Qed.

  (* ---- identity exchange in front of handleConn ---- *)
  Variable is_identity : bytes -> bool.

  Theorem accept_then_handle fix_f04 limit idv idp ps segs :
    tid_16 -> codec_roundtrip -> registered idv -> marsh idv = Some idp ->
    is_identity (tid_of (type_of idv)) = true ->
    limit < 4294967296 -> fits limit idp -> Forall (fits limit) ps ->
    concat segs = send_raw idp ++ stream ps ->
    accept_conn registry dec is_identity fix_f04 limit segs =
    AcHandled idv (lhandle ps) (FinEnd false).
  Proof.
    intros H16 Hrt Hreg Hm Hid HL Hfit HF HC. unfold accept_conn, receive.
    pose proof (receive_raw_spec limit segs) as H. rewrite HC, parse1_frame in H by assumption.
    cbn [rr_matches] in H. destruct H as [rs [-> Hrs]].
    rewrite (unmarshal_marshal idv idp H16 Hrt Hreg Hm), Hid.
    fold (hall fix_f04 limit rs).
    rewrite (refusal_isolated fix_f04 limit ps rs HL HF Hrs). reflexivity.
  Qed.

  (* ---- in-memory transport ---- *)
  Lemma local_send_all_from q vs ps :
    Forall2 (fun v p => marsh v = Some p) vs ps ->
    fold_left (fun q v => fst (local_send type_of tid_of registry enc q v)) vs q = q ++ ps.
  Proof.
    intros H2. revert q. induction H2 as [|v p vs ps Hm H2 IH]; intros q.
    - now rewrite app_nil_r.
    - cbn [fold_left]. unfold local_send at 2. rewrite Hm. cbn [fst].
      rewrite IH, <- app_assoc. reflexivity.
  Qed.

  Theorem local_fifo vs ps :
    tid_16 -> codec_roundtrip -> Forall registered vs ->
    Forall2 (fun v p => marsh v = Some p) vs ps ->
    lhandle (local_send_all type_of tid_of registry enc vs) = map envelope_of vs.
  Proof.
    intros H16 Hrt Hreg H2. unfold local_send_all.
    rewrite (local_send_all_from [] vs ps H2). cbn [app].
    now apply local_handle_values.
  Qed.

End Env.

(* ======================================================================== *)
(* 7. F04: the pinned receive loop violates the property -- witnesses        *)
(* ======================================================================== *)

(* A concrete codec for the witnesses: one registered type whose id is sixteen
   bytes 0x01, values = byte strings, encoding = identity. It satisfies the
   hypotheses of every theorem above (hypotheses_satisfiable). *)
Module Witness.
  Definition id0 : bytes := repeat x01 16.
  Definition w_type_of (_ : bytes) : unit := tt.
  Definition w_tid_of (_ : unit) : bytes := id0.
  Definition w_registry (id : bytes) : option unit := if bytes_eqb id id0 then Some tt else None.
  Definition w_enc (v : bytes) : option bytes := Some v.
  Definition w_dec (_ : unit) (b : bytes) : option bytes := Some b.

  Definition w_marshal := marshal w_type_of w_tid_of w_registry w_enc.
  Definition w_handle := handle_all w_registry w_dec.
  Definition w_expected (limit : N) (ps : list bytes) :=
    local_handle w_registry w_dec (filter (fitsb limit) ps).

  Definition limit : N := 32.
  Definition m (b : byte) : bytes := id0 ++ [b].                (* a 17-byte message buffer *)
  Definition zeros4 (k : nat) : bytes := repeat x00 (4 * k).

  (* swallow: the refused body ends in the size 21 = one whole 17-byte frame *)
  Definition big_swallow : bytes := id0 ++ zeros4 9 ++ [x00; x00; x00; x15].
  Definition ps_swallow : list bytes := [m x41; big_swallow; m x43; m x44; m x45].

  (* smuggle: the refused body carries a complete frame of a message nobody sent *)
  Definition big_smuggle : bytes := id0 ++ zeros4 3 ++ send_raw (m x58).
  Definition ps_smuggle : list bytes := [m x41; big_smuggle; m x43].
End Witness.

Import Witness.

Example hypotheses_satisfiable :
  tid_16 unit w_tid_of /\ codec_roundtrip bytes unit w_type_of w_enc w_dec /\
  (forall v, registered bytes unit w_type_of w_tid_of w_registry v) /\
  limit < 4294967296 /\
  Forall2 (fun v p => w_marshal v = Some p) [[x41]; [x43]] [m x41; m x43] /\
  Forall (fits limit) [m x41; m x43] /\
  limit < lenN big_swallow /\ lenN big_swallow < 4294967296.
Proof.
  split; [intros t; reflexivity|].
  split; [intros v b [= <-]; reflexivity|].
  split; [intros v; reflexivity|].
  split; [reflexivity|].
  split; [repeat constructor|].
  split; [repeat constructor; vm_compute; congruence|].
  split; reflexivity.
Qed.

(* five legitimate messages, the second over the limit, every Send succeeds:
   the pinned loop delivers 1, 4, 5 -- message 3 is swallowed -- and keeps the
   connection *)
Theorem desync_refuted :
  exists (limit : N) (ps : list bytes),
    limit < 4294967296 /\ Forall (fun p => lenN p < 4294967296) ps /\
    (forall p, In p ps -> exists v, w_marshal v = Some p) /\
    w_handle false limit [stream ps] =
      ([(id0, [x41]); (id0, [x44]); (id0, [x45])], FinEnd false) /\
    w_expected limit ps = [(id0, [x41]); (id0, [x43]); (id0, [x44]); (id0, [x45])] /\
    ~ wire_ok (w_expected limit ps) (fst (w_handle false limit [stream ps]))
              (snd (w_handle false limit [stream ps])).
Proof.
  exists limit, ps_swallow. split; [vm_compute; reflexivity|]. split.
  { repeat constructor; vm_compute; reflexivity. }
  split.
  { intros p Hp. exists (dropN 16 p).
    cbn [In ps_swallow] in Hp. destruct Hp as [<-|[<-|[<-|[<-|[<-|[]]]]]]; vm_compute; reflexivity. }
  split; [vm_compute; reflexivity|]. split; [vm_compute; reflexivity|].
  assert (w_handle false limit [stream ps_swallow] =
          ([(id0, [x41]); (id0, [x44]); (id0, [x45])], FinEnd false)) as -> by (vm_compute; reflexivity).
  assert (w_expected limit ps_swallow =
          [(id0, [x41]); (id0, [x43]); (id0, [x44]); (id0, [x45])]) as -> by (vm_compute; reflexivity).
  cbn [fst snd]. intros [H|[H _]]; discriminate H.
Qed.

(* ... and it dispatches a message that was never sent *)
Theorem smuggle_refuted :
  exists (limit : N) (ps : list bytes) (stranger : bytes * bytes),
    limit < 4294967296 /\ Forall (fun p => lenN p < 4294967296) ps /\
    (forall p, In p ps -> exists v, w_marshal v = Some p) /\
    In stranger (fst (w_handle false limit [stream ps])) /\
    ~ In stranger (local_handle w_registry w_dec ps) /\
    snd (w_handle false limit [stream ps]) <> FinClosed /\
    ~ wire_ok (w_expected limit ps) (fst (w_handle false limit [stream ps]))
              (snd (w_handle false limit [stream ps])).
Proof.
  exists limit, ps_smuggle, (id0, [x58]). split; [vm_compute; reflexivity|]. split.
  { repeat constructor; vm_compute; reflexivity. }
  split.
  { intros p Hp. exists (dropN 16 p).
    cbn [In ps_smuggle] in Hp. destruct Hp as [<-|[<-|[<-|[]]]]; vm_compute; reflexivity. }
  assert (w_handle false limit [stream ps_smuggle] =
          ([(id0, [x41]); (id0, [x58]); (id0, [x43])], FinEnd false)) as -> by (vm_compute; reflexivity).
  assert (w_expected limit ps_smuggle = [(id0, [x41]); (id0, [x43])]) as -> by (vm_compute; reflexivity).
  cbn [fst snd]. split; [right; left; reflexivity|]. split.
  { assert (local_handle w_registry w_dec ps_smuggle =
            [(id0, [x41]); (id0, dropN 16 big_smuggle); (id0, [x43])]) as -> by (vm_compute; reflexivity).
    intros [H|[H|[H|[]]]]; vm_compute in H; discriminate H. }
  split; [discriminate|]. intros [H|[H _]]; discriminate H.
Qed.

(* the same two histories with the fix: nothing behind the refused frame is
   parsed, the connection is dropped (instances of wire_ok_fixed) *)
Example witnesses_fixed :
  w_handle true limit [stream ps_swallow] = ([(id0, [x41])], FinClosed) /\
  w_handle true limit [stream ps_smuggle] = ([(id0, [x41])], FinClosed).
Proof. split; vm_compute; reflexivity. Qed.

Theorem receive_total (V T : Type) (registry : bytes -> option T) (dec : T -> bytes -> option V)
        fix_f04 limit segs :
  snd (recv_all fix_f04 limit segs) <> FinFuel /\
  snd (handle_all registry dec fix_f04 limit segs) <> FinFuel.
Proof. split; [apply recv_all_fuel|apply handle_all_fuel]. Qed.

(* ======================================================================== *)
(* type ids: the uuid (a hash H) of the package-qualified type name          *)
(* ======================================================================== *)

(* computeMessageType: tid t = H (qname t).  If qualified names identify types
   and H does not collide on them, ids identify types ... *)
Theorem type_ids_injective (T Name : Type) (qname : T -> Name) (H : Name -> bytes) :
  (forall t1 t2, qname t1 = qname t2 -> t1 = t2) ->
  (forall n1 n2, H n1 = H n2 -> n1 = n2) ->
  forall t1 t2, H (qname t1) = H (qname t2) -> t1 = t2.
Proof. intros Hq Hh t1 t2 E. apply Hq, Hh, E. Qed.

(* ... whereas any name function that identifies two types (the bare name of
   namesakes in different packages) gives them one id, whatever the hash *)
Theorem type_ids_collide (T Name : Type) (bare : T -> Name) (H : Name -> bytes) t1 t2 :
  bare t1 = bare t2 -> H (bare t1) = H (bare t2).
Proof. intros E. now rewrite E. Qed.

(* the registry as a table of the registered types: with ids that identify
   types, looking up a registered type's id gives that type -- the hypothesis
   [registered] of the value theorems (which of two entries with one id wins
   does not matter then) *)
Definition registry_of {T} (types : list T) (tid : T -> bytes) (id : bytes) : option T :=
  find (fun t => bytes_eqb (tid t) id) types.

Theorem registry_of_registered {T} (types : list T) (tid : T -> bytes) :
  (forall t1 t2, In t1 types -> In t2 types -> tid t1 = tid t2 -> t1 = t2) ->
  forall t, In t types -> registry_of types tid (tid t) = Some t.
Proof.
  unfold registry_of. induction types as [|a r IH]; intros Hinj t Hin; [destruct Hin|].
  cbn [find]. destruct (bytes_eqb (tid a) (tid t)) eqn:E.
  - apply bytes_eqb_eq in E. f_equal. apply Hinj; [now left|exact Hin|exact E].
  - destruct Hin as [->|Hin]; [now rewrite bytes_eqb_refl in E|].
    apply IH; [|exact Hin]. intros t1 t2 H1 H2. apply Hinj; now right.
Qed.
