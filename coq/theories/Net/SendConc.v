(* C03 MODEL (3/3): goroutines calling TCPConn.Send on ONE connection.

   A small-step transition system mirroring network/tcp.go:190-235 as it is:

     func (c *TCPConn) Send(msg Message) (uint64, error) {
         c.sendMutex.Lock()                       -- ALock
         defer c.sendMutex.Unlock()               -- AUnlock (last step of every path)
         b, err := Marshal(msg)                   -- AMarshal (inside the lock)
         if err != nil { return 0, err }
         len, err := c.sendRaw(b) ... }
     func (c *TCPConn) sendRaw(b []byte) (uint64, error) {
         packetSize := Size(len(b))
         if err := binary.Write(c.conn, order, packetSize); err != nil {
             return 0, err }                      -- AHeader / AHeaderFail n
         var sent Size
         for sent < packetSize {
             n, err := c.conn.Write(b[sent:])     -- AWrite n / AWriteFail n
             if err != nil { c.updateTx(4 + sent); return 4 + sent, err }
             sent += Size(n) }
         c.updateTx(4 + sent); return 4 + sent, nil }   -- AFinish

   One action = one atomic region: taking / releasing the mutex, one Write call
   on the connection (Go serialises concurrent Write calls on a net.Conn, each
   is atomic with respect to the others), the counter update (counterSafe has
   its own lock).  How many bytes a Write call takes ([AWrite n], 1 <= n <= what
   is left) and where a Write fails ([AWriteFail n]: n bytes went out, then the
   error) is chosen by the schedule.  The mutex is a parameter: [with_mutex =
   false] is the code with the two sendMutex lines deleted.

   [fix_n1 = false] is the code as it is: Send does not close or poison the
   connection when a Write fails; Router.Send (router.go) then opens a NEW
   connection for ITS message and leaves the old one registered -- and first in
   line for every other goroutine.  So sending goes on after a failure (finding
   C03-N1).  [fix_n1 = true] is the code with proposed_fixes/C03-N1.diff: Send
   closes the connection when sendRaw returns an error ([broken]); every later
   Write on it fails without a byte going out.

   Threads are a total map nat -> thread; a thread with nothing to send never
   moves, so "k goroutines" is any map that is empty from k on.
   Executable Gallina only; proofs are in Net/SendConcProofs.v. *)
From Coq Require Import List NArith Bool Arith.
From Coq Require Import Init.Byte.
From Onet Require Export Net.Frame.
Import ListNotations.
Local Open Scope N_scope.

Section Conc.
  Variable V : Type.                          (* message values *)
  Variable msh : V -> option bytes.           (* network.Marshal; None = error *)

  Inductive pc :=
  | PIdle                                             (* between two Send calls *)
  | PLocked (v : V)                                   (* past Lock, about to Marshal *)
  | PHeader (v : V) (b : bytes)                       (* in sendRaw, about to write the size *)
  | PBody (v : V) (b : bytes) (sent : N) (w : bytes)  (* in the loop; w (ghost) = bytes this call has written *)
  | PRet (v : V) (w : bytes) (n : N) (ok : bool).     (* sendRaw / Marshal returned (n, err = not ok); deferred Unlock pending *)

  Record thread := { todo : list V; at_ : pc }.

  (* one finished Send call (ghost): who, what, the bytes it put on the wire,
     the byte count it returned, whether it returned a nil error *)
  Record call := { c_who : nat; c_val : V; c_bytes : bytes; c_ret : N; c_ok : bool }.

  Record state := {
    thr : nat -> thread;
    holder : option nat;            (* sendMutex: who holds it *)
    wire : bytes;                   (* everything written to the connection so far *)
    tx : N;                         (* the connection's Tx counter *)
    broken : bool;                  (* fix_n1 only: the connection was closed by a failed Send *)
    acq : list (nat * V);           (* ghost: Send calls in the order they got past Lock *)
    done : list call                (* ghost: finished calls in the order they returned *)
  }.

  Inductive act :=
  | ALock | AMarshal | AHeader | AHeaderFail (n : N)
  | AWrite (n : N) | AWriteFail (n : N) | AFinish | AUnlock.

  Definition upd (f : nat -> thread) (i : nat) (t : thread) : nat -> thread :=
    fun j => if Nat.eqb j i then t else f j.

  Definition set_pc (s : state) (i : nat) (p : pc) : nat -> thread :=
    upd (thr s) i {| todo := todo (thr s i); at_ := p |}.

  Definition header (b : bytes) : bytes := be32 (size_of b).

  (* [step with_mutex fix_n1 s (i, a)]: goroutine i performs a; None = not enabled *)
  Definition step (with_mutex fix_n1 : bool) (s : state) (ia : nat * act) : option state :=
    let (i, a) := ia in
    let t := thr s i in
    let dead := fix_n1 && broken s in          (* every Write on a closed connection fails, 0 bytes *)
    match a, at_ t with
    | ALock, PIdle =>
        match todo t with
        | [] => None
        | v :: r =>
            if with_mutex && (match holder s with Some _ => true | None => false end) then None
            else Some {| thr := upd (thr s) i {| todo := r; at_ := PLocked v |};
                         holder := if with_mutex then Some i else holder s;
                         wire := wire s; tx := tx s; broken := broken s;
                         acq := acq s ++ [(i, v)]; done := done s |}
        end
    | AMarshal, PLocked v =>
        let p := match msh v with
                 | Some b => PHeader v b
                 | None => PRet v [] 0 false
                 end in
        Some {| thr := set_pc s i p; holder := holder s; wire := wire s; tx := tx s;
                broken := broken s; acq := acq s; done := done s |}
    | AHeader, PHeader v b =>
        if dead then None else
        Some {| thr := set_pc s i (PBody v b 0 (header b)); holder := holder s;
                wire := wire s ++ header b; tx := tx s; broken := broken s;
                acq := acq s; done := done s |}
    | AHeaderFail n, PHeader v b =>
        (* binary.Write fails after n < 4 bytes: "return 0, err", no updateTx;
           fix_n1: Send then closes the connection *)
        if (n <? 4) && (negb dead || (n =? 0)) then
          Some {| thr := set_pc s i (PRet v (takeN n (header b)) 0 false); holder := holder s;
                  wire := wire s ++ takeN n (header b); tx := tx s;
                  broken := fix_n1 || broken s; acq := acq s; done := done s |}
        else None
    | AWrite n, PBody v b sent w =>
        let rest := dropN sent b in
        if (sent <? size_of b) && (1 <=? n) && (n <=? lenN rest) && negb dead then
          Some {| thr := set_pc s i (PBody v b (sent + n) (w ++ takeN n rest)); holder := holder s;
                  wire := wire s ++ takeN n rest; tx := tx s; broken := broken s;
                  acq := acq s; done := done s |}
        else None
    | AWriteFail n, PBody v b sent w =>
        (* Write returns (n, err) with n < len(b[sent:]); n is NOT added to sent *)
        let rest := dropN sent b in
        if (sent <? size_of b) && (n <? lenN rest) && (negb dead || (n =? 0)) then
          Some {| thr := set_pc s i (PRet v (w ++ takeN n rest) (4 + sent) false); holder := holder s;
                  wire := wire s ++ takeN n rest; tx := tx s + (4 + sent);
                  broken := fix_n1 || broken s; acq := acq s; done := done s |}
        else None
    | AFinish, PBody v b sent w =>
        if sent <? size_of b then None
        else Some {| thr := set_pc s i (PRet v w (4 + sent) true); holder := holder s;
                     wire := wire s; tx := tx s + (4 + sent); broken := broken s;
                     acq := acq s; done := done s |}
    | AUnlock, PRet v w n ok =>
        Some {| thr := set_pc s i PIdle;
                holder := if with_mutex then None else holder s;
                wire := wire s; tx := tx s; broken := broken s; acq := acq s;
                done := done s ++ [{| c_who := i; c_val := v; c_bytes := w; c_ret := n; c_ok := ok |}] |}
    | _, _ => None
    end.

  Fixpoint run (with_mutex fix_n1 : bool) (sched : list (nat * act)) (s : state) : option state :=
    match sched with
    | [] => Some s
    | ia :: r => match step with_mutex fix_n1 s ia with
                 | Some s' => run with_mutex fix_n1 r s'
                 | None => None
                 end
    end.

  Definition init (progs : nat -> list V) : state :=
    {| thr := fun i => {| todo := progs i; at_ := PIdle |};
       holder := None; wire := []; tx := 0; broken := false; acq := []; done := [] |}.

  (* the schedule in which goroutine i runs one whole Send with a single Write
     of the body of lb bytes: what an uncontended call does *)
  Definition whole_send (i : nat) (lb : N) : list (nat * act) :=
    [(i, ALock); (i, AMarshal); (i, AHeader)] ++
    (if lb =? 0 then [] else [(i, AWrite lb)]) ++ [(i, AFinish); (i, AUnlock)].

End Conc.

Arguments PIdle {V}.
Arguments PLocked {V}.
Arguments PHeader {V}.
Arguments PBody {V}.
Arguments PRet {V}.
Arguments todo {V}.
Arguments at_ {V}.
Arguments c_who {V}.
Arguments c_val {V}.
Arguments c_bytes {V}.
Arguments c_ret {V}.
Arguments c_ok {V}.
Arguments thr {V}.
Arguments holder {V}.
Arguments wire {V}.
Arguments tx {V}.
Arguments broken {V}.
Arguments acq {V}.
Arguments done {V}.
Arguments step {V}.
Arguments run {V}.
Arguments init {V}.
