(* C10 -- Send blocked in the write vs. Router.Stop: the code as it is never hangs, the
   variant in which TCPConn.Close takes sendMutex does. *)
From Coq Require Import List Arith Bool Lia.
Import ListNotations.
From Onet Require Import Net.RouterClose Net.RouterCloseProofs Net.CloseConcProofs Net.SendClose.

Definition in_write (p : wpc) : nat := match p with WWrite => 1 | _ => 0 end.

Record WInv (s : wstate) : Prop := {
  wi_mu : lsum in_write (writers s) = b2n (sendmu s);
  wi_rl : rlock s = true <-> stopper s = SLocked;
  wi_sock : stopper s = SWaiting \/ stopper s = SRet -> sock s = false;
  wi_wg : wgw s = match reader s with RGone => 0 | _ => 1 end }.

Lemma WInv_init : WInv winit.
Proof. constructor; cbn; auto. - split; discriminate. - intros [H|H]; discriminate. Qed.

Lemma wstep_inv ctm s a s' : WInv s -> wstep ctm s a = Some s' -> WInv s'.
Proof.
  intros [Mu Rl Sk Wg] H. destruct a as [ | | | |i|i|i|i| | | | | ]; cbn [wstep] in H.
  - inversion H; subst. constructor; cbn; auto. rewrite lsum_app. cbn. lia.
  - inversion H; subst. constructor; cbn; auto.
  - inversion H; subst. constructor; cbn; auto.
  - destruct (stopper s) eqn:Es; try discriminate. destruct (rlock s) eqn:Er; [discriminate|].
    inversion H; subst. constructor; cbn; auto. + tauto. + intros [E|E]; discriminate.
  - destruct (nth_error (writers s) i) as [[| |r]|] eqn:Ei; try discriminate.
    destruct (sendmu s) eqn:Em; [discriminate|]. inversion H; subst. constructor; cbn; auto.
    pose proof (lsum_upd in_write _ _ _ WWrite Ei) as Q. cbn in Q, Mu. lia.
  - destruct (nth_error (writers s) i) as [[| |r]|] eqn:Ei; try discriminate.
    destruct (sock s && negb (stalled s)); [|discriminate]. inversion H; subst. constructor; cbn; auto.
    pose proof (lsum_upd in_write _ _ _ (WDone Ok) Ei) as Q. pose proof (lsum_pos in_write _ _ _ Ei) as P.
    cbn in Q, P. destruct (sendmu s); cbn in Mu; lia.
  - destruct (nth_error (writers s) i) as [[| |r]|] eqn:Ei; try discriminate.
    destruct (sock s || ctm); [discriminate|]. inversion H; subst. constructor; cbn; auto.
    pose proof (lsum_upd in_write _ _ _ (WDone Err) Ei) as Q. pose proof (lsum_pos in_write _ _ _ Ei) as P.
    cbn in Q, P. destruct (sendmu s); cbn in Mu; lia.
  - destruct (nth_error (writers s) i) as [[| |r]|] eqn:Ei; try discriminate.
    destruct (sock s && stalled s && negb ctm); [|discriminate]. inversion H; subst. constructor; cbn; auto.
    pose proof (lsum_upd in_write _ _ _ (WDone Err) Ei) as Q. pose proof (lsum_pos in_write _ _ _ Ei) as P.
    cbn in Q, P. destruct (sendmu s); cbn in Mu; lia.
  - destruct (stopper s) eqn:Es; try discriminate. destruct (ctm && sendmu s); [discriminate|].
    inversion H; subst. constructor; cbn; auto. split; discriminate.
  - destruct (stopper s) eqn:Es; try discriminate. destruct (wgw s =? 0); [|discriminate].
    inversion H; subst. constructor; cbn; auto.
    + rewrite Rl. split; discriminate.
  - destruct (reader s) eqn:Er; try discriminate. destruct (sock s); [discriminate|].
    inversion H; subst. constructor; cbn; auto.
  - destruct (reader s) eqn:Er; try discriminate. destruct (rlock s); [discriminate|].
    inversion H; subst. constructor; cbn; auto.
  - destruct (reader s) eqn:Er; try discriminate. destruct (ctm && sendmu s); [discriminate|].
    inversion H; subst. constructor; cbn; auto. rewrite Wg. reflexivity.
Qed.

Lemma wrun_inv ctm acts : forall s s', WInv s -> wrun ctm s acts = Some s' -> WInv s'.
Proof.
  induction acts as [|a r IH]; intros s s' I H; cbn in H; [inversion H; subst; auto|].
  destruct (wstep ctm s a) as [s1|] eqn:E; [|discriminate]. apply (IH s1); auto. eapply wstep_inv; eauto.
Qed.

(* the code as it is: once Stop has been called, a state in which no internal action
   (anything but new calls and the peer) is enabled has Stop returned and every Send
   returned - a Send blocked in the write does not delay Stop, and Stop releases it *)
Theorem send_close_no_hang acts s :
  wrun false winit acts = Some s -> stopper s <> SIdle ->
  (forall a, internal a = true -> wstep false s a = None) ->
  stopper s = SRet /\ forall i p, nth_error (writers s) i = Some p -> wdone p = true.
Proof.
  intros R Ns Dead. pose proof (wrun_inv _ _ _ _ WInv_init R) as [Mu Rl Sk Wg].
  assert (Hs : stopper s = SRet).
  { destruct (stopper s) eqn:Es; auto; try congruence.
    - specialize (Dead SClose eq_refl). cbn in Dead. rewrite Es in Dead. discriminate.
    - assert (Hk : sock s = false) by auto.
      assert (Hr : rlock s = false).
      { destruct (rlock s) eqn:E; auto. destruct Rl as [Rl1 _]. specialize (Rl1 eq_refl). discriminate. }
      destruct (reader s) eqn:Er.
      + specialize (Dead RdErr eq_refl). cbn in Dead. rewrite Er, Hk in Dead. discriminate.
      + specialize (Dead RdChk eq_refl). cbn in Dead. rewrite Er, Hr in Dead. discriminate.
      + specialize (Dead RdExit eq_refl). cbn in Dead. rewrite Er in Dead. discriminate.
      + specialize (Dead SWaitDone eq_refl). cbn in Dead. rewrite Es, Wg in Dead. discriminate. }
  split; auto. assert (Hk : sock s = false) by auto.
  assert (NoW : forall i, nth_error (writers s) i <> Some WWrite).
  { intros i Hi. specialize (Dead (WErr i) eq_refl). cbn in Dead. rewrite Hi, Hk in Dead. discriminate. }
  assert (Hm : sendmu s = false).
  { destruct (sendmu s); auto. cbn in Mu. exfalso.
    assert (G : forall l, lsum in_write l = 1 -> exists i, nth_error l i = Some WWrite).
    { induction l as [|x r IH]; cbn; [discriminate|]. destruct x; cbn.
      - intros H. destruct (IH H) as [i Hi]. exists (S i). auto.
      - intros _. exists 0. reflexivity.
      - intros H. destruct (IH H) as [i Hi]. exists (S i). auto. }
    destruct (G _ Mu) as [i Hi]. exact (NoW _ Hi). }
  intros i p Hp. destruct p; auto.
  - specialize (Dead (WLock i) eq_refl). cbn in Dead. rewrite Hp, Hm in Dead. discriminate.
  - exfalso. exact (NoW _ Hp).
Qed.

(* closing the socket makes the blocked write fail at once *)
Theorem blocked_writer_released acts s i :
  wrun false winit acts = Some s -> stopper s = SWaiting \/ stopper s = SRet ->
  nth_error (writers s) i = Some WWrite -> exists s', wstep false s (WErr i) = Some s'.
Proof.
  intros R Hs Hi. pose proof (wrun_inv _ _ _ _ WInv_init R) as [Mu Rl Sk Wg].
  cbn. rewrite Hi, (Sk Hs). cbn. eauto.
Qed.

(* without Stop: the write deadline of a blocked write ends the Send with an error AND
   closes the socket (e91db58), after which the handler's Receive fails and it exits *)
Theorem write_deadline_closes acts s i :
  wrun false winit acts = Some s -> nth_error (writers s) i = Some WWrite ->
  sock s = true -> stalled s = true ->
  exists s', wstep false s (WDeadline i) = Some s' /\
             sock s' = false /\ sendmu s' = false /\
             nth_error (writers s') i = Some (WDone Err) /\
             (reader s' = RReading -> exists s'', wstep false s' RdErr = Some s'').
Proof.
  intros R Hi Hk Hst. cbn. rewrite Hi, Hk, Hst. cbn. eexists. split; [reflexivity|]. cbn.
  repeat split.
  - apply nth_error_upd_eq. eapply nth_error_lt; eauto.
  - intros Er. rewrite Er. eauto.
Qed.

(* every internal step decreases a measure (both variants): only the environment can keep
   the system running *)
Definition wm (p : wpc) : nat := match p with WIdle => 2 | WWrite => 1 | WDone _ => 0 end.
Definition wmeas (s : wstate) : nat :=
  lsum wm (writers s) +
  match stopper s with SLocked => 2 | SWaiting => 1 | _ => 0 end +
  match reader s with RReading => 3 | RCheck => 2 | RExiting => 1 | RGone => 0 end.

Theorem send_close_measure ctm s a s' :
  internal a = true -> wstep ctm s a = Some s' -> wmeas s' < wmeas s.
Proof.
  intros Ia H. unfold wmeas. destruct a as [ | | | |i|i|i|i| | | | | ]; try discriminate; cbn [wstep] in H.
  - destruct (nth_error (writers s) i) as [[| |r]|] eqn:Ei; try discriminate.
    destruct (sendmu s); [discriminate|]. inversion H; subst; cbn.
    pose proof (lsum_upd wm _ _ _ WWrite Ei) as Q. cbn in Q. lia.
  - destruct (nth_error (writers s) i) as [[| |r]|] eqn:Ei; try discriminate.
    destruct (sock s && negb (stalled s)); [|discriminate]. inversion H; subst; cbn.
    pose proof (lsum_upd wm _ _ _ (WDone Ok) Ei) as Q. cbn in Q. lia.
  - destruct (nth_error (writers s) i) as [[| |r]|] eqn:Ei; try discriminate.
    destruct (sock s || ctm); [discriminate|]. inversion H; subst; cbn.
    pose proof (lsum_upd wm _ _ _ (WDone Err) Ei) as Q. cbn in Q. lia.
  - destruct (stopper s); try discriminate. destruct (ctm && sendmu s); [discriminate|]. inversion H; subst; cbn. lia.
  - destruct (stopper s); try discriminate. destruct (wgw s =? 0); [|discriminate]. inversion H; subst; cbn. lia.
  - destruct (reader s); try discriminate. destruct (sock s); [discriminate|]. inversion H; subst; cbn. lia.
  - destruct (reader s); try discriminate. destruct (rlock s); [discriminate|]. inversion H; subst; cbn. lia.
  - destruct (reader s); try discriminate. destruct (ctm && sendmu s); [discriminate|]. inversion H; subst; cbn. lia.
Qed.

(* the variant hangs: a Send is blocked in the write (live peer that does not read), Stop
   takes the router lock and then waits for sendMutex inside TCPConn.Close; no internal
   action is enabled, only the peer (or the one-minute write deadline) can end it *)
Definition ctm_witness : list waction := [WCall; PeerStall; WLock 0; SCall].

Theorem close_takes_sendmutex_refuted :
  exists s, wrun true winit ctm_witness = Some s /\
            stopper s = SLocked /\ rlock s = true /\ writers s = [WWrite] /\
            forall a, internal a = true -> wstep true s a = None.
Proof.
  eexists. split; [vm_compute; reflexivity|]. repeat split.
  intros a Ia. destruct a as [ | | | |i|i|i|i| | | | | ]; try discriminate; try reflexivity;
    destruct i as [|[|i]]; reflexivity.
Qed.

(* the same schedule on the code as it is goes on: Stop closes the socket, the write fails *)
Example blocked_schedule_ok :
  exists s, wrun false winit (blocked_schedule 2) = Some s /\
            stopper s = SRet /\ writers s = [WDone Ok; WDone Ok; WDone Err] /\ wgw s = 0.
Proof. eexists. split; [vm_compute; reflexivity|]. repeat split. Qed.

(* the [pred] in RdExit never meets a zero counter: wg.Done() of the handler is never a
   negative-counter panic *)
Theorem send_close_no_underflow ctm acts s :
  wrun ctm winit acts = Some s -> reader s = RExiting -> wgw s = 1.
Proof. intros R Hr. pose proof (wrun_inv _ _ _ _ WInv_init R) as [_ _ _ Wg]. now rewrite Hr in Wg. Qed.

(* the schedule compared when no Send was in flight when Stop closed the connection *)
Example unblocked_schedule_ok :
  exists s, wrun false winit (unblocked_schedule 3) = Some s /\
            stopper s = SRet /\ writers s = [WDone Ok; WDone Ok; WDone Ok] /\ wgw s = 0 /\ sock s = false.
Proof. eexists. split; [vm_compute; reflexivity|]. repeat split. Qed.
