(* C08 -- executable model of the TLS link rule of network/tls.go and
   network/router.go (pinned tree), clause by clause.

     makeVerifier              -> [verify]
     crypto/tls around it      -> [tls_handshake]   (trusted library behaviour, see below)
     receiveServerIdentity     -> [router_accepts]
     Router.Start / connect / handleConn (which identity is stamped on
     dispatched envelopes)     -> [link]

   Abstraction (done by the harness from the very specification it builds the
   real x509 certificate from):
   - a server key pair is a number [key]; "holding k" = holding its private key;
     a TLS (certificate) key pair is a number [tkey]; a nonce is a number, 0 being
     the nonce the verifier drew for THIS handshake.
   - the certificate's CommonName is [cname]: a key in one of three spellings
     (pubToCN = "Z"+lower-case hex, the same with upper-case hex, the old
     Point.String() form), or a string that decodes to no key, or no CN at all.
     String equality of names = equality of [cname] values.
   - signatures are symbolic: [SigBy k n over tk] is a Schnorr signature by the
     private key of k over  n || asn1(over)  (pinned format, tk = None) or over
     n || asn1(over) || tlskey  (format of the proposed binding, tk = Some _).
     n is always 32 bytes for signatures made by honest code (certMaker.get
     refuses other lengths) and asn1 strings are self-delimiting, so the pair is
     recovered uniquely from the signed bytes.  Unforgeability of Schnorr is the
     content of the knowledge relation of TlsProofs.v, not of this file.

   Four defects of the pinned code are kept as parameters ([fixes]; fix_resume is
   described at [resumes] below):
     fix_f09  : the dialler also requires the key decoded from the CN (the one the
                signature is checked against) to be the key it dialled      (F09)
     fix_bind : the signed bytes also cover the certificate's TLS public key,
                so a proof cannot be moved to another TLS endpoint (relay).
     fix_nokey: receiveServerIdentity refuses an identity message without a public
                key instead of calling Equal(nil) on it (nil interface conversion:
                the process dies).                                                 *)
From Coq Require Import List Bool Arith ZArith.
Import ListNotations.

Definition key := nat.
Definition tkey := nat.
Definition nonce := nat.

Inductive suite := Ed25519 | Bn256G2.

Inductive cn_style := SNew | SUpper | SOld.
Inductive cname := CNKey (st : cn_style) (k : key) | CNJunk | CNEmpty.

(* onet-pubkey:<service>:<name>; scheme_ok = scheme is "onet-pubkey",
   svc_empty = the service part is empty (the server key) *)
Inductive uri := URI (scheme_ok svc_empty : bool) (name : cname).

Inductive sigval :=
| SigBy (k : key) (n : nonce) (over : cname) (tk : option tkey)
| SigGarbage
| SigEmpty.

(* who signed the certificate itself *)
Inductive csigner := SgSelf | SgOtherKey | SgCA.

Record cert := mkcert {
  c_cn : cname;
  c_uris : list uri;
  c_sig : option sigval;       (* value of the extension 1.3.6.1.4.1.51281.1.1, if present *)
  c_tlskey : tkey;             (* subject public key *)
  c_signer : csigner;
  c_nb : Z; c_na : Z;          (* NotBefore / NotAfter, seconds relative to the verifier's clock *)
  c_eku_server : bool;         (* no extended key usage, or it contains serverAuth / any *)
  c_crit : bool                (* carries an unknown critical extension *)
}.

(* one entry of the certificate list sent by the peer *)
Inductive rawcert := RawOne (c : cert) | RawMany | RawJunk.

(* what the peer presents: certificate list + the TLS private key it signs the
   handshake with *)
Inductive hello := Hello (chain : list rawcert) (hskey : tkey).

Record fixes := mkfixes { fix_f09 : bool; fix_bind : bool; fix_nokey : bool; fix_resume : bool }.
Definition pinned := mkfixes false false false false.

Inductive reason :=
| RCount | RParse | RX509 | RExpected | RNoSig | RCnDecode | RBadSig | RNoCert | RTlsKey.
Inductive verdict := Accept | Reject (r : reason).

Definition accepted (v : verdict) : bool := match v with Accept => true | Reject _ => false end.

(* ---------- names ---------------------------------------------------------- *)

Definition style_eqb (a b : cn_style) : bool :=
  match a, b with
  | SNew, SNew | SUpper, SUpper | SOld, SOld => true
  | _, _ => false
  end.

Definition cname_eqb (a b : cname) : bool :=
  match a, b with
  | CNKey s1 k1, CNKey s2 k2 => style_eqb s1 s2 && (k1 =? k2)
  | CNJunk, CNJunk => true
  | CNEmpty, CNEmpty => true
  | _, _ => false
  end.

(* pubFromCN: 'Z' + hex (either case) is unmarshalled; anything else goes to
   StringHexToPoint, which reads Ed25519's String() form but not bn256's *)
Definition key_of_cn (s : suite) (cn : cname) : option key :=
  match cn with
  | CNKey SNew k | CNKey SUpper k => Some k
  | CNKey SOld k => match s with Ed25519 => Some k | Bn256G2 => None end
  | CNJunk | CNEmpty => None
  end.

(* pubToCN *)
Definition pub_to_cn (k : key) : cname := CNKey SNew k.

(* ---------- makeVerifier ----------------------------------------------------- *)

(* cert.Verify(VerifyOptions{Roots: {cert}}): the certificate is its own trust
   root, so x509 returns the chain [cert] WITHOUT looking at the signature or the
   issuer ([c_signer] does not occur below -- the "self-signed" of the comment
   in tls.go is not checked).  What x509 does check on the leaf: unknown critical
   extensions, the validity window, and -- KeyUsages being empty -- serverAuth. *)
Definition x509_ok (now : Z) (c : cert) : bool :=
  negb (c_crit c) && (c_nb c <=? now)%Z && (now <=? c_na c)%Z && c_eku_server c.

Definition uri_matches (e : key) (u : uri) : bool :=
  match u with URI sch svc name => sch && svc && cname_eqb name (pub_to_cn e) end.

(* "if them != nil": URIs if there are any, else the CN string *)
Definition expected_ok (fx : fixes) (s : suite) (them : option key) (c : cert) : bool :=
  match them with
  | None => true
  | Some e =>
      (match c_uris c with
       | [] => cname_eqb (c_cn c) (pub_to_cn e)
       | us => existsb (uri_matches e) us
       end)
      && (if fix_f09 fx
          then match key_of_cn s (c_cn c) with Some k => k =? e | None => false end
          else true)
  end.

Definition opt_tkey_ok (fx : fixes) (c : cert) (tk : option tkey) : bool :=
  if fix_bind fx
  then match tk with Some t => t =? c_tlskey c | None => false end
  else match tk with None => true | Some _ => false end.

(* schnorr.Verify(suite, pub, nonce || asn1(cn), sig) *)
Definition sig_ok (fx : fixes) (k : key) (n : nonce) (c : cert) (sg : sigval) : bool :=
  match sg with
  | SigBy k' n' over tk =>
      (k' =? k) && (n' =? n) && cname_eqb over (c_cn c) && opt_tkey_ok fx c tk
  | SigGarbage | SigEmpty => false
  end.

Definition verify (fx : fixes) (s : suite) (now : Z) (n : nonce) (them : option key)
           (raws : list rawcert) : verdict :=
  match raws with
  | [RawOne c] =>
      if negb (x509_ok now c) then Reject RX509 else
      if negb (expected_ok fx s them c) then Reject RExpected else
      match c_sig c with
      | None => Reject RNoSig
      | Some sg =>
          match key_of_cn s (c_cn c) with
          | None => Reject RCnDecode
          | Some k => if sig_ok fx k n c sg then Accept else Reject RBadSig
          end
      end
  | [RawMany] => Reject RCount        (* len(certs) != 1 *)
  | [RawJunk] => Reject RParse
  | _ => Reject RCount                (* len(rawCerts) != 1 *)
  end.

(* ---------- crypto/tls around the verifier (library behaviour, trusted) ----- *)

Definition is_one (r : rawcert) : bool := match r with RawOne _ => true | _ => false end.

(* both roles: the peer must send a certificate (RequireAnyClientCert / a server
   always does), every entry must parse as exactly one certificate, the
   handshake signature must verify under the leaf's public key, and
   VerifyPeerCertificate must return nil *)
Definition tls_handshake (fx : fixes) (s : suite) (now : Z) (n : nonce) (them : option key)
           (h : hello) : verdict :=
  match h with
  | Hello chain hskey =>
      match chain with
      | [] => Reject RNoCert
      | RawOne c :: _ =>
          if negb (forallb is_one chain) then Reject RParse else
          if negb (c_tlskey c =? hskey) then Reject RTlsKey else
          verify fx s now n them chain
      | _ :: _ => Reject RParse
      end
  end.

(* ---------- receiveServerIdentity ------------------------------------------ *)

(* first message on an accepted connection: an identity declaring the key of
   the CN / another key, some other message type, an identity whose public-key
   field is not a point (undecodable: Receive fails), an identity WITHOUT the
   public-key field (decodes, Public == nil) *)
Inductive ident := IdMatch | IdKey (k : key) | IdWrongType | IdBadKey | IdNoKey.

Definition leaf (h : hello) : option cert :=
  match h with Hello (RawOne c :: _) _ => Some c | _ => None end.

Definition declared (s : suite) (c : cert) (id : ident) : option key :=
  match id with
  | IdMatch => key_of_cn s (c_cn c)
  | IdKey k => Some k
  | IdWrongType | IdBadKey | IdNoKey => None
  end.

(* pubFromCN(PeerCertificates[0].Subject.CommonName).Equal(dst.Public) *)
Definition router_accepts (s : suite) (c : cert) (id : ident) : bool :=
  match declared s c id, key_of_cn s (c_cn c) with
  | Some d, Some k => k =? d
  | _, _ => false
  end.

(* ---------- the link as a whole --------------------------------------------- *)

Inductive level := LUnit | LTls.
Inductive role := RDial (e : key) | RAccept.

Definition them_of (r : role) : option key :=
  match r with RDial e => Some e | RAccept => None end.

Record outcome := mkout {
  out_hs : bool;             (* handshake / verifier accepted *)
  out_disp : nat;            (* application messages dispatched by the honest router *)
  out_stamp : list key;      (* public key of the identity stamped on each of them *)
  out_crash : bool           (* the honest process panicked *)
}.

(* receiveServerIdentity on an identity without public key: the CN is decoded
   first (error -> dropped), then pub.Equal(nil) panics *)
Definition nokey_crashes (fx : fixes) (s : suite) (c : cert) (id : ident) : bool :=
  match id with
  | IdNoKey => negb (fix_nokey fx) && match key_of_cn s (c_cn c) with Some _ => true | None => false end
  | _ => false
  end.

Definition chain_of (h : hello) : list rawcert := match h with Hello ch _ => ch end.

Definition link (fx : fixes) (lv : level) (r : role) (s : suite) (h : hello)
           (id : ident) (msgs : nat) : outcome :=
  match lv with
  | LUnit => mkout (accepted (verify fx s 0 0 (them_of r) (chain_of h))) 0 [] false
  | LTls =>
      if accepted (tls_handshake fx s 0 0 (them_of r) h) then
        match r with
        | RDial e => mkout true msgs (repeat e msgs) false  (* packet.ServerIdentity = the dialled identity *)
        | RAccept =>
            match leaf h with
            | Some c =>
                if nokey_crashes fx s c id then mkout true 0 [] true else
                if router_accepts s c id then
                  match declared s c id with
                  | Some d => mkout true msgs (repeat d msgs) false
                  | None => mkout true 0 [] false
                  end
                else mkout true 0 [] false               (* connection closed, nothing dispatched *)
            | None => mkout true 0 [] false
            end
        end
      else mkout false 0 [] false
  end.

(* ---------- TLS session resumption ------------------------------------------- *)

(* crypto/tls resumes a session when the client offers a ticket the listener
   issued (tickets are on unless SessionTicketsDisabled; the keys live in the
   listener's tls.Config, i.e. in one incarnation of the router) and
   ClientAuth = RequireAnyClientCert does not stand in the way.  A resumed
   handshake carries no certificate and VerifyPeerCertificate is NOT called:
   nothing is signed over the new nonce.  ConnectionState().PeerCertificates is
   the certificate of the ORIGINAL handshake, which receiveServerIdentity then
   reads.  Only the listening side: onet's own client config has no
   ClientSessionCache and never offers a session.

   A ticket = (certificate accepted in the earlier handshake, same incarnation
   of the listener?).  fix_resume: SessionTicketsDisabled on onet's TLS config:
   the offered session is ignored and a full handshake takes place. *)
Definition ticket := option (cert * bool).

Definition resumes (fx : fixes) (lv : level) (r : role) (t : ticket) : option cert :=
  match lv, r, t with
  | LTls, RAccept, Some (c0, true) => if fix_resume fx then None else Some c0
  | _, _, _ => None
  end.

(* what the router does with an accepted inbound connection whose peer
   certificate is c (the [Some c] branch of [link]; Tls proofs: link_accepted_conn) *)
Definition accepted_conn (fx : fixes) (s : suite) (c : cert) (id : ident) (msgs : nat) : outcome :=
  if nokey_crashes fx s c id then mkout true 0 [] true else
  if router_accepts s c id then
    match declared s c id with
    | Some d => mkout true msgs (repeat d msgs) false
    | None => mkout true 0 [] false
    end
  else mkout true 0 [] false.

(* the link when the peer may offer a ticket; second component: was it a resumption *)
Definition link_r (fx : fixes) (lv : level) (r : role) (s : suite) (t : ticket) (h : hello)
           (id : ident) (msgs : nat) : outcome * bool :=
  match resumes fx lv r t with
  | Some c0 => (accepted_conn fx s c0 id msgs, true)
  | None => (link fx lv r s h id msgs, false)
  end.

(* what the peer has effectively presented for the connection under observation:
   on a resumption nothing but the ticket, i.e. the certificate (and the proof
   over the EARLIER nonce) of the original handshake *)
Definition effective (resumed : bool) (t : ticket) (h : hello) : hello :=
  match resumed, t with
  | true, Some (c0, _) => Hello [RawOne c0] (c_tlskey c0)
  | _, _ => h
  end.

(* ---------- earlier connections of the router --------------------------------- *)

(* receiveServerIdentity decodes the key from the CURRENT connection's
   certificate and compares it with the identity announced on the CURRENT
   connection; the router's table of registered connections is not consulted.
   [prior]: keys of the peers that connected genuinely earlier (and may have
   left).  [keycache] = true is NOT /repo: the variant that remembers, per
   announced identity, the key decoded on an earlier connection and does not
   look at the current certificate on a hit; kept for the refutation witness. *)
Definition router_accepts_h (keycache : bool) (prior : list key) (s : suite) (c : cert) (id : ident) : bool :=
  if keycache && match declared s c id with
                 | Some d => existsb (Nat.eqb d) prior
                 | None => false
                 end
  then true
  else router_accepts s c id.

(* the link with a history: /repo's decision does not depend on it *)
Definition link_h (fx : fixes) (lv : level) (r : role) (s : suite) (prior : list key) (t : ticket)
           (h : hello) (id : ident) (msgs : nat) : outcome * bool :=
  link_r fx lv r s t h id msgs.

(* ---------- several outgoing dials of one host -------------------------------- *)

(* NewTLSConn builds a fresh tls.Config for every call and makeVerifier's closure
   (expected key, nonce) is stored in THAT config: the verifier state of a dial
   is private to the dial.  crypto/tls reads VerifyPeerCertificate only when
   the server's Certificate message arrives, i.e. possibly long after other
   dials of the same host have started.
   A host is modelled as the table of its dials' verifiers; [shared] = true is
   NOT /repo: it is the variant in which all dials of a host write their
   verifier into one configuration (the last one started wins), kept for the
   refutation witness only. *)
Inductive hev :=
| HStart (id : nat) (e : key) (n : nonce)     (* dial [id] starts: makeVerifier(suite, e) draws n *)
| HCert (id : nat) (h : hello).               (* the server's certificate arrives on dial [id] *)

Record hstate := mkhost { h_dials : list (nat * (key * nonce)); h_last : option (key * nonce) }.
Definition host0 := mkhost [] None.

Fixpoint dial_lookup (id : nat) (l : list (nat * (key * nonce))) : option (key * nonce) :=
  match l with
  | [] => None
  | (i, v) :: r => if i =? id then Some v else dial_lookup id r
  end.

Definition host_verifier (shared : bool) (st : hstate) (id : nat) : option (key * nonce) :=
  if shared then h_last st else dial_lookup id (h_dials st).

(* one event; a certificate event yields the verdict of that dial (None: the dial
   never started -- no such connection) *)
Definition host_step (shared : bool) (fx : fixes) (s : suite) (st : hstate) (ev : hev)
  : hstate * option verdict :=
  match ev with
  | HStart id e n => (mkhost ((id, (e, n)) :: h_dials st) (Some (e, n)), None)
  | HCert id h =>
      (st, match host_verifier shared st id with
           | Some (e, n) => Some (tls_handshake fx s 0 n (Some e) h)
           | None => None
           end)
  end.

Fixpoint host_run (shared : bool) (fx : fixes) (s : suite) (st : hstate) (evs : list hev) : hstate :=
  match evs with
  | [] => st
  | ev :: r => host_run shared fx s (fst (host_step shared fx s st ev)) r
  end.

(* the scenario the harness forces: the honest host dials e (nonce 0; the link
   under observation) and, before the certificate for that dial arrives, dials
   [other] (nonce 4); then the peer answers the FIRST dial with h.  The link is
   registered under the dialled identity e (Router.connect). *)
Definition conc_nonce : nonce := 4.

Definition conc_dial (shared : bool) (fx : fixes) (s : suite) (e other : key) (h : hello)
           (msgs : nat) : outcome :=
  let st := host_run shared fx s host0 [HStart 0 e 0; HStart 1 other conc_nonce] in
  match snd (host_step shared fx s st (HCert 0 h)) with
  | Some Accept => mkout true msgs (repeat e msgs) false
  | _ => mkout false 0 [] false
  end.

(* the concurrent, honestly answered dial to [other] (certificate of a peer that
   holds [other], over that dial's nonce) comes up *)
Definition conc_other_up (shared : bool) (fx : fixes) (s : suite) (e other : key) (tk : tkey) : bool :=
  let st := host_run shared fx s host0 [HStart 0 e 0; HStart 1 other conc_nonce] in
  let c := mkcert (pub_to_cn other) [URI true true (pub_to_cn other)]
                  (Some (SigBy other conc_nonce (pub_to_cn other)
                               (if fix_bind fx then Some tk else None)))
                  tk SgSelf (-300) 7200 true false in
  match snd (host_step shared fx s st (HCert 1 (Hello [RawOne c] tk))) with
  | Some Accept => true
  | _ => false
  end.

(* ---------- the property, as a boolean checker over an OBSERVATION ---------- *)

(* ground truth of a run: which private server keys the deviating peer holds,
   what it presented, what it declared; observation: what the honest side did.
   Clause numbers:
   1 handshake accepted although the peer does not hold the private key of the
     key its certificate names (no proof of possession)
   2 handshake accepted although the certificate carries no signature by the
     named key over THIS handshake's nonce (missing / garbled / other key /
     stale or foreign nonce / other name)
   3 dialling side: handshake accepted although the proven key is not the key
     the dialler intended to reach
   4 a dispatched message carries an identity whose public key the peer does
     not own (or no identity was recorded for it)
   5 messages dispatched although the handshake was refused, or (accepting side)
     although the declared identity differs from the proven key
   6 the honest node crashed or hung (neither served nor dropped the peer)
   7 handshake accepted although the certificate carrying the proof is outside
     its validity period (expired / not yet valid): the quantifier lists these
     among the deviations under which no link may come up *)

Definition holds_b (holds : list key) (k : key) : bool := existsb (Nat.eqb k) holds.

Definition proven_key (s : suite) (h : hello) : option key :=
  match leaf h with Some c => key_of_cn s (c_cn c) | None => None end.

Definition fresh_proof_b (s : suite) (h : hello) : bool :=
  match leaf h with
  | Some c =>
      match key_of_cn s (c_cn c), c_sig c with
      | Some k, Some (SigBy k' n over _) => (k' =? k) && (n =? 0) && cname_eqb over (c_cn c)
      | _, _ => false
      end
  | None => false
  end.

Definition valid_now_b (h : hello) : bool :=
  match leaf h with
  | Some c => (c_nb c <=? 0)%Z && (0 <=? c_na c)%Z
  | None => false
  end.

Definition opt_key_eqb (a : option key) (b : key) : bool :=
  match a with Some x => x =? b | None => false end.

Definition clause_if (n : nat) (b : bool) : list nat := if b then [] else [n].

Definition prop_check (lv : level) (r : role) (s : suite) (holds : list key) (h : hello) (id : ident)
           (o_hs : bool) (o_disp : nat) (o_stamp : list key) (o_crash : bool) : list nat :=
  clause_if 1 (negb o_hs || match proven_key s h with Some k => holds_b holds k | None => false end) ++
  clause_if 2 (negb o_hs || fresh_proof_b s h) ++
  clause_if 3 (negb o_hs || match r with RDial e => opt_key_eqb (proven_key s h) e | RAccept => true end) ++
  clause_if 4 ((length o_stamp =? o_disp) && forallb (holds_b holds) o_stamp) ++
  clause_if 5 ((o_disp =? 0) ||
               (o_hs && match r with
                        | RDial _ => true
                        | RAccept => match leaf h with
                                     | Some c => router_accepts s c id
                                     | None => false
                                     end
                        end)) ++
  clause_if 6 (negb o_crash) ++
  clause_if 7 (negb o_hs || valid_now_b h).
