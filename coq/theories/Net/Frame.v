(* C03 MODEL (1/2): length-prefixed framing of network/tcp.go.

   sendRaw        (tcp.go:208-235)  ->  [send_raw]
   conn.Read      (net.Conn)        ->  the head of a LIST OF SEGMENTS: each Read
                                        returns a non-empty prefix of the first
                                        non-empty segment, at most len(buf) bytes
   binary.Read of the 4-byte size   ->  [read_n 4]   (io.ReadFull loop)
   the body loop  (tcp.go:159-179)  ->  [read_n total]
   receiveRawProd (tcp.go:143-185)  ->  [receive_raw]
   the receive loop of Router.handleConn (router.go:421-477), restricted to the
   framing layer (what is done with a frame is in Net/Marshal.v) -> [recv_loop]

   The list of segments is ANY way of cutting the byte stream that TCP may
   choose.  Executable Gallina only; proofs are in Net/WireProofs.v. *)
From Coq Require Import List NArith Bool.
From Coq Require Import Init.Byte.
From Onet Require Export Base.BytesC03.
Import ListNotations.
Local Open Scope N_scope.

(* ---- sender ------------------------------------------------------------ *)

(* packetSize := Size(len(b)) -- Size is uint32, the conversion truncates *)
Definition size_of (b : bytes) : N := lenN b mod 4294967296.

(* sendRaw: the size, then [for sent < packetSize { n := Write(b[sent:]) ; sent += Size(n) }].
   net.Conn.Write writes its whole argument or fails, so the first Write sends all
   of b; with packetSize = 0 (empty b, or len(b) a multiple of 2^32) nothing follows. *)
Definition send_raw (b : bytes) : bytes :=
  be32 (size_of b) ++ (if size_of b =? 0 then [] else b).

(* ---- receiver ---------------------------------------------------------- *)

(* Reading exactly [need] bytes by repeated Read calls with a buffer of the
   [need] bytes still missing (io.ReadFull for the header; the loop
   [for read < total { n := Read(b); ...; b = b[n:] }] for the body).
   [RfEnd got]: the data ran out after [got] (EOF, or nothing more arrives and
   the read deadline expires: both end the connection, see handleError). *)
Inductive rf :=
| RfOk (got : bytes) (rest : list bytes)
| RfEnd (got : bytes).

Fixpoint read_n (need : N) (acc : bytes) (segs : list bytes) : rf :=
  if need =? 0 then RfOk acc segs else
  match segs with
  | [] => RfEnd acc
  | s :: r =>
      match dropN need s with
      | [] =>                       (* Read returned all of s (len s <= need; an empty s is skipped) *)
          read_n (need - lenN s) (acc ++ s) r
      | lft =>                      (* Read filled the buffer; the rest of s stays in the socket *)
          RfOk (acc ++ takeN need s) (lft :: r)
      end
  end.

Inductive rr :=
| RrFrame (b : bytes) (rest : list bytes)
| RrTooBig (total : N) (rest : list bytes)   (* "sends too big packet": the body is NOT consumed *)
| RrEnd (partial : bool).                    (* io.EOF (false) / io.ErrUnexpectedEOF or stall inside a frame (true) *)

Definition receive_raw (limit : N) (segs : list bytes) : rr :=
  match read_n 4 [] segs with
  | RfEnd got => RrEnd (match got with [] => false | _ => true end)
  | RfOk h rest =>
      let total := de32 h in
      if limit <? total then RrTooBig total rest else
      match read_n total [] rest with
      | RfOk b rest' => RrFrame b rest'
      | RfEnd _ => RrEnd true
      end
  end.

(* ---- the receive loop, framing layer only -------------------------------- *)

Inductive ev :=
| EvFrame (b : bytes)
| EvTooBig (total : N).

Inductive fin :=
| FinEnd (partial : bool)   (* the stream ended; partial = inside a header or a body *)
| FinClosed                 (* the receiver dropped the connection itself (fix_f04) *)
| FinFuel.                  (* out of fuel: excluded by WireProofs.recv_all_fuel *)

(* [fix_f04 = false] is the code as it was at the pinned commit (the repair
   has since landed in /repo: ErrTooBig; Corr.C03.code_fixed_F04 = true): the too-big error is none of
   ErrTimeout/ErrClosed/ErrEOF/ErrUnknown, so handleConn logs it and calls
   Receive again ("Temporary error, continue").  [fix_f04 = true]: an
   oversize announcement ends the connection. *)
Fixpoint recv_loop (fix_f04 : bool) (limit : N) (fuel : nat) (segs : list bytes) : list ev * fin :=
  match fuel with
  | O => ([], FinFuel)
  | S f =>
      match receive_raw limit segs with
      | RrEnd p => ([], FinEnd p)
      | RrTooBig t rest =>
          if fix_f04 then ([EvTooBig t], FinClosed)
          else let (e, x) := recv_loop fix_f04 limit f rest in (EvTooBig t :: e, x)
      | RrFrame b rest =>
          let (e, x) := recv_loop fix_f04 limit f rest in (EvFrame b :: e, x)
      end
  end.

(* every iteration that continues has consumed at least the 4 header bytes *)
Definition fuel_for (segs : list bytes) : nat := S (length (concat segs)).

Definition recv_all (fix_f04 : bool) (limit : N) (segs : list bytes) : list ev * fin :=
  recv_loop fix_f04 limit (fuel_for segs) segs.

(* ---- the same loop on the unsegmented stream (the meaning of a byte stream) ---- *)

Inductive pr :=
| PFrame (b : bytes) (rest : bytes)
| PTooBig (total : N) (rest : bytes)
| PEnd (partial : bool).

Definition parse1 (limit : N) (s : bytes) : pr :=
  if lenN s <? 4 then PEnd (match s with [] => false | _ => true end) else
  let total := de32 (takeN 4 s) in
  let s' := dropN 4 s in
  if limit <? total then PTooBig total s' else
  if lenN s' <? total then PEnd true else PFrame (takeN total s') (dropN total s').

Fixpoint parse_loop (fix_f04 : bool) (limit : N) (fuel : nat) (s : bytes) : list ev * fin :=
  match fuel with
  | O => ([], FinFuel)
  | S f =>
      match parse1 limit s with
      | PEnd p => ([], FinEnd p)
      | PTooBig t rest =>
          if fix_f04 then ([EvTooBig t], FinClosed)
          else let (e, x) := parse_loop fix_f04 limit f rest in (EvTooBig t :: e, x)
      | PFrame b rest =>
          let (e, x) := parse_loop fix_f04 limit f rest in (EvFrame b :: e, x)
      end
  end.

Definition parse_all (fix_f04 : bool) (limit : N) (s : bytes) : list ev * fin :=
  parse_loop fix_f04 limit (S (length s)) s.
