(* C10 -- a Send blocked in the socket write while Router.Stop closes the connection.

   Go code mirrored (network/tcp.go, network/router.go), for ONE registered TCP connection
   with its handleConn goroutine, any number of Send calls on it and one Stop:
     TCPConn.Send  : sendMutex.Lock(); write the frame to the socket; if the write failed,
                     c.Close() (e91db58: part of the frame may be on the wire);
                     sendMutex.Unlock()
                     - the write blocks while the peer does not read and the buffers are
                       full, fails at once when the socket is closed, and fails when the
                       write deadline expires (WDeadline, a timer = environment)
     TCPConn.Close : closedMut.Lock(); conn.Close(); closed = true      (no sendMutex)
     Router.Stop   : host.Stop(); Lock(); isClosed = true; close every connection; Unlock();
                     wg.Wait()
     handleConn    : Receive() fails on the closed socket; r.Closed() (takes the router
                     lock); deferred c.Close(); wg.Done()

   One action = one critical section / one blocking call returning.  [ctm]
   ("close takes sendMutex") is the variant in which TCPConn.Close first takes sendMutex. *)
From Coq Require Import List Arith Bool Lia.
Import ListNotations.
From Onet Require Import Net.RouterClose.

Inductive wpc :=
| WIdle                (* about to take sendMutex *)
| WWrite               (* holds sendMutex, inside the socket write *)
| WDone (r : res).

Inductive stoppc :=
| SIdle                (* Stop not called *)
| SLocked              (* holds the router lock, isClosed set, about to close the connection *)
| SWaiting             (* lock released, in wg.Wait() *)
| SRet.

Inductive rdpc :=
| RReading             (* handleConn blocked in Receive *)
| RCheck               (* Receive failed; about to call r.Closed() *)
| RExiting             (* about to run the deferred c.Close(); wg.Done() *)
| RGone.

Record wstate := mkW {
  sock : bool;            (* the socket is open *)
  sendmu : bool;          (* sendMutex is held *)
  rlock : bool;           (* the router lock is held *)
  stalled : bool;         (* the peer is not reading and the buffers are full: a write blocks *)
  writers : list wpc;
  stopper : stoppc;
  reader : rdpc;
  wgw : nat }.

Definition winit : wstate := mkW true false false false [] SIdle RReading 1.

Inductive waction :=
(* environment *)
| WCall | PeerStall | PeerRead | SCall
(* Send i *)
| WLock (i : nat) | WOk (i : nat) | WErr (i : nat)
| WDeadline (i : nat)     (* the write deadline of a blocked write expires (timer) *)
(* Stop *)
| SClose | SWaitDone
(* handleConn *)
| RdErr | RdChk | RdExit.

Definition internal (a : waction) : bool :=
  match a with WCall | PeerStall | PeerRead | SCall | WDeadline _ => false | _ => true end.

Definition wstep (ctm : bool) (s : wstate) (a : waction) : option wstate :=
  match a with
  | WCall => Some (mkW (sock s) (sendmu s) (rlock s) (stalled s) (writers s ++ [WIdle]) (stopper s) (reader s) (wgw s))
  | PeerStall => Some (mkW (sock s) (sendmu s) (rlock s) true (writers s) (stopper s) (reader s) (wgw s))
  | PeerRead => Some (mkW (sock s) (sendmu s) (rlock s) false (writers s) (stopper s) (reader s) (wgw s))
  | SCall =>
      match stopper s with
      | SIdle => if rlock s then None
                 else Some (mkW (sock s) (sendmu s) true (stalled s) (writers s) SLocked (reader s) (wgw s))
      | _ => None
      end
  | WLock i =>
      match nth_error (writers s) i with
      | Some WIdle => if sendmu s then None
                      else Some (mkW (sock s) true (rlock s) (stalled s) (upd (writers s) i WWrite) (stopper s) (reader s) (wgw s))
      | _ => None
      end
  | WOk i =>
      match nth_error (writers s) i with
      | Some WWrite => if sock s && negb (stalled s)
                       then Some (mkW (sock s) false (rlock s) (stalled s) (upd (writers s) i (WDone Ok)) (stopper s) (reader s) (wgw s))
                       else None                                  (* blocked in the write *)
      | _ => None
      end
  | WErr i =>
      match nth_error (writers s) i with
      | Some WWrite => if sock s || ctm then None              (* variant: the Send's own c.Close() waits for the sendMutex it holds *)
                       else Some (mkW (sock s) false (rlock s) (stalled s) (upd (writers s) i (WDone Err)) (stopper s) (reader s) (wgw s))
      | _ => None
      end
  | WDeadline i =>
      (* the failed Send closes the socket itself; TCPConn.Close takes closedMut only, so the
         sendMutex this Send holds is no obstacle - in the variant it is *)
      match nth_error (writers s) i with
      | Some WWrite => if sock s && stalled s && negb ctm
                       then Some (mkW false false (rlock s) (stalled s) (upd (writers s) i (WDone Err)) (stopper s) (reader s) (wgw s))
                       else None
      | _ => None
      end
  | SClose =>
      match stopper s with
      | SLocked => if ctm && sendmu s then None                   (* Close blocked on sendMutex, router lock held *)
                   else Some (mkW false (sendmu s) false (stalled s) (writers s) SWaiting (reader s) (wgw s))
      | _ => None
      end
  | SWaitDone =>
      match stopper s with
      | SWaiting => if wgw s =? 0 then Some (mkW (sock s) (sendmu s) (rlock s) (stalled s) (writers s) SRet (reader s) (wgw s))
                    else None
      | _ => None
      end
  | RdErr =>
      match reader s with
      | RReading => if sock s then None
                    else Some (mkW (sock s) (sendmu s) (rlock s) (stalled s) (writers s) (stopper s) RCheck (wgw s))
      | _ => None
      end
  | RdChk =>
      match reader s with
      | RCheck => if rlock s then None
                  else Some (mkW (sock s) (sendmu s) (rlock s) (stalled s) (writers s) (stopper s) RExiting (wgw s))
      | _ => None
      end
  | RdExit =>
      match reader s with
      | RExiting => if ctm && sendmu s then None
                    else Some (mkW false (sendmu s) (rlock s) (stalled s) (writers s) (stopper s) RGone (pred (wgw s)))
      | _ => None
      end
  end.

Fixpoint wrun (ctm : bool) (s : wstate) (acts : list waction) : option wstate :=
  match acts with
  | [] => Some s
  | a :: r => match wstep ctm s a with None => None | Some s' => wrun ctm s' r end
  end.

Definition wdone (p : wpc) : bool := match p with WDone _ => true | _ => false end.

(* the schedule of the harness class: n sends complete, the peer stalls, one more send
   blocks in the write, Stop is called; then everything internal that can run *)
Definition blocked_schedule (n : nat) : list waction :=
  flat_map (fun i => [WCall; WLock i; WOk i]) (seq 0 n) ++
  [WCall; PeerStall; WLock n; SCall; SClose; WErr n; RdErr; RdChk; RdExit; SWaitDone].

(* the schedule of the same class when no Send was in flight when Stop closed the connection
   (the kernel took everything, or the last Send completed just before): n sends complete,
   the peer stalls, Stop is called; then everything internal that can run *)
Definition unblocked_schedule (n : nat) : list waction :=
  flat_map (fun i => [WCall; WLock i; WOk i]) (seq 0 n) ++
  [PeerStall; SCall; SClose; RdErr; RdChk; RdExit; SWaitDone].
