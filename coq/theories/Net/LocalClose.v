(* C10 -- closing an in-memory connection whose peer does not read its backlog.

   Go code mirrored (network/local.go), for ONE in-memory connection between the closing
   side A and a peer B, any number of Sends A -> B, one Close (Router.Stop -> LocalConn.Close
   -> LocalManager.close) and the other users of the same LocalManager:

     LocalManager.send  : Lock; look the endpoint up; Unlock;
                          select { incomingQueue <- msg | <-closeCh -> ErrClosed }
     LocalConn.start    : (the forwarding goroutine of an endpoint)
                          for { select { buff := <-incomingQueue:
                                            select { outgoingQueue <- buff: continue | <-closeCh }
                                       | <-closeCh }
                                close(outgoingQueue); closeConfirm <- true; return }
     LocalConn.Receive  : <-outgoingQueue
     LocalManager.close : Lock; delete the endpoint; close(closeCh); <-closeConfirm;
                          the same for the remote endpoint; Unlock
                          - the manager's lock is HELD while it waits for the two forwarders

   Both queues hold [cap] packets (LocalMaxBuffer = 200).  One action = one critical section /
   one channel operation.  [nw] ("no watch") is the variant in which the forwarder pushes to the
   reader's queue with a plain send: parked on a full queue it does not see closeCh. *)
From Coq Require Import List Arith Bool Lia.
Import ListNotations.
From Onet Require Import Net.RouterClose.

Inductive fpc :=
| FIdle                (* in the outer select *)
| FPush                (* holds one packet, pushing it to the reader's queue (parked when it is full) *)
| FConfirm             (* saw closeCh, closed the reader's queue, offers closeConfirm *)
| FDone.

Inductive lspc :=
| LSLookup             (* about to take the manager's lock for the look-up *)
| LSRoom               (* lock released, waiting for room in the peer's incoming queue *)
| LSDone (r : res).

Inductive lcpc :=
| LCIdle
| LCLock               (* Close called, about to take the manager's lock *)
| LCSigA               (* lock held, own endpoint deleted, about to close its closeCh *)
| LCWaitA              (* waits for the confirmation of the own endpoint's forwarder *)
| LCSigB               (* about to close the remote endpoint's closeCh *)
| LCWaitB              (* waits for the confirmation of the remote endpoint's forwarder *)
| LCUnlock
| LCRet (r : res).

Record lstate := mkL {
  mlock : bool;          (* the manager's lock is held *)
  present : bool;        (* the endpoints are in the manager's table *)
  inq : nat;             (* B's incoming queue *)
  outq : nat;            (* B's outgoing queue (read by Receive) *)
  outclosed : bool;
  fwdB : fpc;
  fwdA : fpc;            (* A's own forwarder (no traffic B -> A here) *)
  chA : bool;            (* closeCh of A's endpoint is closed *)
  chB : bool;
  lstalled : bool;       (* B's handler does not return: nothing is read *)
  lsenders : list lspc;
  closer : lcpc;
  others : nat;          (* operations of OTHER users of the manager that got its lock *)
  nread : nat }.

Definition linit : lstate := mkL false true 0 0 false FIdle FIdle false false false [] LCIdle 0 0.

Inductive laction :=
(* environment *)
| LSendCall | LStall | LUnstall | LRead | LCloseCall
| LOther                 (* another connection / server of the same manager takes its lock for a moment *)
(* Send t *)
| LSendLookup (t : nat) | LSendPut (t : nat) | LSendClosed (t : nat)
(* forwarder of B's endpoint *)
| LFwdTake | LFwdPush | LFwdSee
(* forwarder of A's endpoint *)
| LFwdASee
(* Close *)
| LCloseLock | LCloseSigA | LCloseWaitA | LCloseSigB | LCloseWaitB | LCloseUnlock.

Definition linternal (a : laction) : bool :=
  match a with LSendCall | LStall | LUnstall | LRead | LCloseCall | LOther => false | _ => true end.

Definition set_ls (s : lstate) (l : list lspc) : lstate :=
  mkL (mlock s) (present s) (inq s) (outq s) (outclosed s) (fwdB s) (fwdA s) (chA s) (chB s) (lstalled s) l
      (closer s) (others s) (nread s).

Definition lstep (nw : bool) (cap : nat) (s : lstate) (a : laction) : option lstate :=
  match a with
  | LSendCall => Some (set_ls s (lsenders s ++ [LSLookup]))
  | LStall => Some (mkL (mlock s) (present s) (inq s) (outq s) (outclosed s) (fwdB s) (fwdA s) (chA s) (chB s) true
                        (lsenders s) (closer s) (others s) (nread s))
  | LUnstall => Some (mkL (mlock s) (present s) (inq s) (outq s) (outclosed s) (fwdB s) (fwdA s) (chA s) (chB s) false
                          (lsenders s) (closer s) (others s) (nread s))
  | LRead =>
      if negb (lstalled s) && (0 <? outq s)
      then Some (mkL (mlock s) (present s) (inq s) (pred (outq s)) (outclosed s) (fwdB s) (fwdA s) (chA s) (chB s)
                     (lstalled s) (lsenders s) (closer s) (others s) (S (nread s)))
      else None
  | LCloseCall =>
      match closer s with
      | LCIdle => Some (mkL (mlock s) (present s) (inq s) (outq s) (outclosed s) (fwdB s) (fwdA s) (chA s) (chB s)
                            (lstalled s) (lsenders s) LCLock (others s) (nread s))
      | _ => None
      end
  | LOther =>
      if mlock s then None                                       (* blocked in Lock() *)
      else Some (mkL (mlock s) (present s) (inq s) (outq s) (outclosed s) (fwdB s) (fwdA s) (chA s) (chB s)
                     (lstalled s) (lsenders s) (closer s) (S (others s)) (nread s))
  | LSendLookup t =>
      match nth_error (lsenders s) t with
      | Some LSLookup =>
          if mlock s then None
          else Some (set_ls s (upd (lsenders s) t (if present s then LSRoom else LSDone Err)))
      | _ => None
      end
  | LSendPut t =>
      match nth_error (lsenders s) t with
      | Some LSRoom =>
          if inq s <? cap
          then Some (mkL (mlock s) (present s) (S (inq s)) (outq s) (outclosed s) (fwdB s) (fwdA s) (chA s) (chB s)
                         (lstalled s) (upd (lsenders s) t (LSDone Ok)) (closer s) (others s) (nread s))
          else None                                              (* waits for room, WITHOUT the lock *)
      | _ => None
      end
  | LSendClosed t =>
      match nth_error (lsenders s) t with
      | Some LSRoom => if chB s then Some (set_ls s (upd (lsenders s) t (LSDone Err))) else None
      | _ => None
      end
  | LFwdTake =>
      match fwdB s with
      | FIdle => if 0 <? inq s
                 then Some (mkL (mlock s) (present s) (pred (inq s)) (outq s) (outclosed s) FPush (fwdA s) (chA s) (chB s)
                                (lstalled s) (lsenders s) (closer s) (others s) (nread s))
                 else None
      | _ => None
      end
  | LFwdPush =>
      match fwdB s with
      | FPush => if outq s <? cap
                 then Some (mkL (mlock s) (present s) (inq s) (S (outq s)) (outclosed s) FIdle (fwdA s) (chA s) (chB s)
                                (lstalled s) (lsenders s) (closer s) (others s) (nread s))
                 else None                                       (* parked on the full queue *)
      | _ => None
      end
  | LFwdSee =>
      if chB s then
        match fwdB s with
        | FIdle => Some (mkL (mlock s) (present s) (inq s) (outq s) true FConfirm (fwdA s) (chA s) (chB s)
                             (lstalled s) (lsenders s) (closer s) (others s) (nread s))
        | FPush => if nw then None                                (* the plain send does not watch closeCh *)
                   else Some (mkL (mlock s) (present s) (inq s) (outq s) true FConfirm (fwdA s) (chA s) (chB s)
                                  (lstalled s) (lsenders s) (closer s) (others s) (nread s))
        | _ => None
        end
      else None
  | LFwdASee =>
      if chA s then
        match fwdA s with
        | FIdle => Some (mkL (mlock s) (present s) (inq s) (outq s) (outclosed s) (fwdB s) FConfirm (chA s) (chB s)
                             (lstalled s) (lsenders s) (closer s) (others s) (nread s))
        | _ => None
        end
      else None
  | LCloseLock =>
      match closer s with
      | LCLock =>
          if mlock s then None
          else if present s
               then Some (mkL true false (inq s) (outq s) (outclosed s) (fwdB s) (fwdA s) (chA s) (chB s)
                              (lstalled s) (lsenders s) LCSigA (others s) (nread s))
               else Some (mkL (mlock s) (present s) (inq s) (outq s) (outclosed s) (fwdB s) (fwdA s) (chA s) (chB s)
                              (lstalled s) (lsenders s) (LCRet Err) (others s) (nread s))
      | _ => None
      end
  | LCloseSigA =>
      match closer s with
      | LCSigA => Some (mkL (mlock s) (present s) (inq s) (outq s) (outclosed s) (fwdB s) (fwdA s) true (chB s)
                            (lstalled s) (lsenders s) LCWaitA (others s) (nread s))
      | _ => None
      end
  | LCloseWaitA =>
      match closer s, fwdA s with
      | LCWaitA, FConfirm => Some (mkL (mlock s) (present s) (inq s) (outq s) (outclosed s) (fwdB s) FDone (chA s) (chB s)
                                       (lstalled s) (lsenders s) LCSigB (others s) (nread s))
      | _, _ => None
      end
  | LCloseSigB =>
      match closer s with
      | LCSigB => Some (mkL (mlock s) (present s) (inq s) (outq s) (outclosed s) (fwdB s) (fwdA s) (chA s) true
                            (lstalled s) (lsenders s) LCWaitB (others s) (nread s))
      | _ => None
      end
  | LCloseWaitB =>
      match closer s, fwdB s with
      | LCWaitB, FConfirm => Some (mkL (mlock s) (present s) (inq s) (outq s) (outclosed s) FDone (fwdA s) (chA s) (chB s)
                                       (lstalled s) (lsenders s) LCUnlock (others s) (nread s))
      | _, _ => None
      end
  | LCloseUnlock =>
      match closer s with
      | LCUnlock => Some (mkL false (present s) (inq s) (outq s) (outclosed s) (fwdB s) (fwdA s) (chA s) (chB s)
                              (lstalled s) (lsenders s) (LCRet Ok) (others s) (nread s))
      | _ => None
      end
  end.

Fixpoint lrun (nw : bool) (cap : nat) (s : lstate) (acts : list laction) : option lstate :=
  match acts with
  | [] => Some s
  | a :: r => match lstep nw cap s a with None => None | Some s' => lrun nw cap s' r end
  end.

(* the schedule of the harness class: r messages are sent, forwarded and read (the identity, the
   set-up message and whatever the peer's Receive in progress still takes), the peer's handler
   blocks, n more messages are sent; the forwarder moves what fits into the reader's queue and,
   if there is more, parks holding the next one; Close is called and runs as far as it can;
   another user of the manager then takes its lock.  r and n are the numbers OBSERVED. *)
Definition one_read (t : nat) : list laction :=
  [LSendCall; LSendLookup t; LSendPut t; LFwdTake; LFwdPush; LRead].
Definition one_sent (t : nat) : list laction := [LSendCall; LSendLookup t; LSendPut t].

(* each unread message is forwarded as it comes: into the reader's queue while there is room,
   then the forwarder parks holding the next one, the rest stays in the incoming queue *)
Definition backlog_sends (cap r n : nat) : list laction :=
  flat_map one_read (seq 0 r) ++ [LStall] ++
  flat_map (fun i => one_sent (r + i) ++
                     (if i <? cap then [LFwdTake; LFwdPush] else if i =? cap then [LFwdTake] else []))
           (seq 0 n).

Definition close_prefix : list laction :=
  [LCloseCall; LCloseLock; LCloseSigA; LFwdASee; LCloseWaitA; LCloseSigB].
Definition close_suffix : list laction := [LFwdSee; LCloseWaitB; LCloseUnlock; LOther].

Definition backlog_schedule (cap r n : nat) : list laction :=
  backlog_sends cap r n ++ close_prefix ++ close_suffix.
