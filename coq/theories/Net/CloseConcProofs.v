(* C10 -- k concurrent callers of Server.Close(): safety, deadlock freedom, termination,
   the final state, and the hang of the check-then-act variant. *)
From Coq Require Import List Arith Bool Lia.
Import ListNotations.
From Onet Require Import Net.RouterClose Net.RouterCloseProofs Net.CloseConc.

(* ---- sums over lists --------------------------------------------------------- *)

Fixpoint lsum {A} (f : A -> nat) (l : list A) : nat :=
  match l with [] => 0 | x :: r => f x + lsum f r end.

Lemma lsum_upd {A} (f : A -> nat) l i x y :
  nth_error l i = Some x -> lsum f (upd l i y) + f x = lsum f l + f y.
Proof.
  revert i; induction l as [|z r IH]; intros [|i] H; cbn in *; try discriminate.
  - inversion H; subst. lia.
  - specialize (IH _ H). lia.
Qed.

Lemma lsum_app {A} (f : A -> nat) l x : lsum f (l ++ [x]) = lsum f l + f x.
Proof. induction l as [|z r IH]; cbn; lia. Qed.

Lemma lsum_repeat {A} (f : A -> nat) x n : lsum f (repeat x n) = n * f x.
Proof. induction n as [|n IH]; cbn; lia. Qed.

Lemma lsum_pos {A} (f : A -> nat) l i x : nth_error l i = Some x -> f x <= lsum f l.
Proof.
  revert i; induction l as [|z r IH]; intros [|i] H; cbn in *; try discriminate.
  - inversion H; subst. lia.
  - specialize (IH _ H). lia.
Qed.

Lemma lsum_two {A} (f : A -> nat) l i j x y :
  i <> j -> nth_error l i = Some x -> nth_error l j = Some y -> f x + f y <= lsum f l.
Proof.
  revert i j; induction l as [|z r IH]; intros [|i] [|j] N Hi Hj; cbn in *; try discriminate; try congruence.
  - inversion Hi; subst. pose proof (lsum_pos f _ _ _ Hj). lia.
  - inversion Hj; subst. pose proof (lsum_pos f _ _ _ Hi). lia.
  - assert (i <> j) by congruence. specialize (IH _ _ H Hi Hj). lia.
Qed.

Lemma lsum_zero_all {A} (f : A -> nat) l i x : lsum f l = 0 -> nth_error l i = Some x -> f x = 0.
Proof. intros Z H. pose proof (lsum_pos f _ _ _ H). lia. Qed.

(* ---- the invariant ------------------------------------------------------------ *)

Definition in_cs (p : kpc) : nat := match p with KSendPc | KClearPc => 1 | _ => 0 end.
Definition past_flag (p : kpc) : bool := match p with KEnter | KSendPc | KClearPc => false | _ => true end.
Definition past_stop (p : kpc) : bool := match p with KWsPc | KOvPc | KDbPc | KRet _ => true | _ => false end.
Definition past_ws (p : kpc) : bool := match p with KOvPc | KDbPc | KRet _ => true | _ => false end.
Definition past_ov (p : kpc) : bool := match p with KDbPc | KRet _ => true | _ => false end.
Definition is_ok (p : kpc) : nat := match p with KRet Ok => 1 | _ => 0 end.
Definition is_err (p : kpc) : nat := match p with KRet Err => 1 | _ => 0 end.

Record caller_ok (cta : bool) (s : kstate) (p : kpc) : Prop := {
  co_flag : past_flag p = true -> flag s = false;
  co_send : p = KSendPc -> cta = false -> start s = StRunning \/ start s = StWaiting;
  co_clear : p = KClearPc -> start s = StReturned;
  co_thread : forall t, p = KStopRun t -> t < length (stops (router s));
  co_stop : past_stop p = true -> stop_returned (router s) = true;
  co_ws : past_ws p = true -> ws_started s = false;
  co_ov : past_ov p = true -> ov_closed_k s = true /\ instances_k s = 0;
  co_db : returned p = true -> db_open s = false }.

Record KInv (cta del_db : bool) (fx : fixes) (s : kstate) : Prop := {
  ki_router : Inv fx (router s);
  ki_sret : forall t, nth_error (stops (router s)) t = Some SReturned -> stop_returned (router s) = true;
  ki_sent : sent s = match start s with StReturned => 1 | _ => 0 end;
  ki_lock : cta = false -> lsum in_cs (callers s) = b2n (klock s);
  ki_nolock : cta = true -> klock s = false;
  ki_flag : cta = false -> flag s = true -> klock s = false -> start s = StRunning \/ start s = StWaiting;
  ki_start : start s = StRunning \/ start s = StWaiting -> flag s = true;
  ki_callers : forall i p, nth_error (callers s) i = Some p -> caller_ok cta s p;
  ki_ok : if del_db then lsum is_ok (callers s) + b2n (db_file s) = 1 else lsum is_err (callers s) = 0;
  ki_file : del_db = true -> db_open s = false -> db_file s = false }.

Lemma repeat_nth {A} (x : A) n i y : nth_error (repeat x n) i = Some y -> y = x.
Proof. intros H. apply nth_error_In in H. now apply repeat_spec in H. Qed.

Lemma KInv_init cta del_db fx started r0 n k :
  Inv fx r0 -> stops r0 = [] -> KInv cta del_db fx (kinit started r0 n k).
Proof.
  intros I0 S0. constructor; cbn; auto.
  - rewrite S0. intros [|t] H; discriminate.
  - destruct started; reflexivity.
  - intros _. rewrite lsum_repeat. cbn. lia.
  - destruct started; auto. discriminate.
  - destruct started; auto. intros [H|H]; discriminate.
  - intros i p H. apply repeat_nth in H. subst. constructor; cbn; try discriminate.
  - destruct del_db; rewrite lsum_repeat; cbn; lia.
Qed.

(* facts about allowed router actions *)
Lemma allowed_stops fx r a r' :
  allowed a = true -> step fx r a = Some r' ->
  length (stops r') = length (stops r) /\
  (stop_returned r = true -> stop_returned r' = true) /\
  ((forall t, nth_error (stops r) t = Some SReturned -> stop_returned r = true) ->
   forall t, nth_error (stops r') t = Some SReturned -> stop_returned r' = true).
Proof.
  intros Al H. split; [|split].
  - destruct a; try discriminate; cbn [step] in H; unfold give_up in H; step_cases H; inversion H; subst; cbn; auto using upd_length.
  - intros Hr. eapply step_ret_stable; eauto.
  - intros Hs t Ht.
    destruct a; try discriminate; cbn [step] in H; unfold give_up in H; step_cases H; inversion H; subst; cbn in *; auto;
      try (apply nth_upd_cases in Ht as [[_ E]|[_ Ht]]; [discriminate|eauto]); eauto.
Qed.

Lemma handler_allowed a : handler_action a -> allowed a = true.
Proof. destruct a; cbn; tauto. Qed.

(* a caller's view is unaffected by a change of the router that keeps what it looks at *)
Lemma caller_ok_router cta s p r' :
  caller_ok cta s p ->
  length (stops r') = length (stops (router s)) ->
  (stop_returned (router s) = true -> stop_returned r' = true) ->
  caller_ok cta (mkK (flag s) (klock s) (start s) (sent s) (callers s) r' (ws_started s)
                     (instances_k s) (ov_closed_k s) (db_open s) (db_file s)) p.
Proof.
  intros [A B C D E F G H] L R. constructor; cbn; auto.
  intros t Ht. rewrite L. auto.
Qed.

Ltac upd_cases Hp :=
  let Nj := fresh "Nj" in apply nth_upd_cases in Hp as [[? ?]|[Nj Hp]]; [subst|].

Ltac co_other H :=
  let A := fresh "A" in let B := fresh "B" in let C := fresh "C" in let D := fresh "D" in
  let E := fresh "E" in let F := fresh "F" in let G := fresh "G" in let K := fresh "K" in
  destruct H as [A B C D E F G K]; constructor; cbn; auto.

Lemma kstep_inv cta del_db fx s a s' : KInv cta del_db fx s -> kstep cta del_db fx s a = Some s' -> KInv cta del_db fx s'.
Proof.
  intros I H. pose proof I as [Ir Isr Ise Il Inl Ifl Ist Ic Iok Ifile].
  destruct a as [ |i|i|i|i|a|i|i|i|i]; cbn [kstep] in H.
  - (* KStartArrive *)
    destruct (start s) eqn:Es; try discriminate. inversion H; subst; clear H.
    constructor; cbn; auto.
    intros i p Hp. specialize (Ic _ _ Hp). co_other Ic. intros E0. specialize (C E0). congruence.
  - (* KLockRead *)
    destruct (nth_error (callers s) i) as [[| | | | | | | |]|] eqn:Ei; try discriminate.
    destruct (klock s) eqn:Ek; [discriminate|].
    destruct (flag s) eqn:Ef; inversion H; subst; clear H.
    + (* the flag is set: go and send *)
      constructor; cbn; auto.
      * intros Hc. specialize (Il Hc). pose proof (lsum_upd in_cs _ _ _ KSendPc Ei) as Q. cbn in Q.
        rewrite Hc. cbn. cbn in Il. lia.
      * intros ->. reflexivity.
      * intros j p Hp. upd_cases Hp.
        -- constructor; cbn; try discriminate; auto.
        -- specialize (Ic _ _ Hp). co_other Ic. intros P0. specialize (A P0). congruence.
      * destruct del_db.
        -- pose proof (lsum_upd is_ok _ _ _ KSendPc Ei) as Q. cbn in Q. lia.
        -- pose proof (lsum_upd is_err _ _ _ KSendPc Ei) as Q. cbn in Q. lia.
    + (* not started / already cleared *)
      constructor; cbn; auto.
      * intros Hc. pose proof (ki_lock _ _ _ _ I Hc) as L0. pose proof (lsum_upd in_cs _ _ _ KStopCall Ei) as Q. cbn in Q. lia.
      * apply (ki_flag _ _ _ _ I).
      * apply (ki_start _ _ _ _ I).
      * intros j p Hp. upd_cases Hp.
        -- constructor; cbn; try discriminate; auto.
        -- specialize (Ic _ _ Hp). co_other Ic.
      * destruct del_db.
        -- pose proof (lsum_upd is_ok _ _ _ KStopCall Ei) as Q. cbn in Q. lia.
        -- pose proof (lsum_upd is_err _ _ _ KStopCall Ei) as Q. cbn in Q. lia.
  - (* KSend *)
    destruct (nth_error (callers s) i) as [[| | | | | | | |]|] eqn:Ei; try discriminate.
    destruct (start s) eqn:Es; try discriminate. inversion H; subst; clear H.
    assert (Hfl : flag s = true) by (apply Ist; auto).
    constructor; cbn; auto.
    + intros Hc. specialize (Il Hc). pose proof (lsum_upd in_cs _ _ _ KClearPc Ei) as Q. cbn in Q. lia.
    + intros Hc _ Hk. specialize (Il Hc). pose proof (lsum_pos in_cs _ _ _ Ei) as P. cbn in P.
      rewrite Hk in Il. cbn in Il. lia.
    + intros j p Hp. upd_cases Hp.
      * constructor; cbn; try discriminate; auto.
      * specialize (Ic _ _ Hp). co_other Ic.
        -- intros -> Hc. exfalso. specialize (Il Hc).
           pose proof (lsum_two in_cs _ _ _ _ _ Nj Ei Hp) as T. cbn in T. destruct (klock s); cbn in Il; lia.
    + destruct del_db.
      * pose proof (lsum_upd is_ok _ _ _ KClearPc Ei) as Q. cbn in Q. lia.
      * pose proof (lsum_upd is_err _ _ _ KClearPc Ei) as Q. cbn in Q. lia.
  - (* KClear *)
    destruct (nth_error (callers s) i) as [[| | | | | | | |]|] eqn:Ei; try discriminate.
    destruct (cta && klock s) eqn:Eck; [discriminate|]. inversion H; subst; clear H.
    pose proof (co_clear _ _ _ (Ic _ _ Ei) eq_refl) as Hst.
    constructor; cbn; auto.
    + intros Hc. specialize (Il Hc). pose proof (lsum_upd in_cs _ _ _ KStopCall Ei) as Q. cbn in Q.
      pose proof (lsum_pos in_cs _ _ _ Ei) as P. cbn in P. destruct (klock s); cbn in Il; lia.
    + discriminate.
    + rewrite Hst. intros [E|E]; discriminate.
    + intros j p Hp. upd_cases Hp.
      * constructor; cbn; try discriminate; auto.
      * specialize (Ic _ _ Hp). co_other Ic.
    + destruct del_db.
      * pose proof (lsum_upd is_ok _ _ _ KStopCall Ei) as Q. cbn in Q. lia.
      * pose proof (lsum_upd is_err _ _ _ KStopCall Ei) as Q. cbn in Q. lia.
  - (* KStopCall_ *)
    destruct (nth_error (callers s) i) as [[| | | | | | | |]|] eqn:Ei; try discriminate.
    destruct (step fx (router s) ACallStop) as [r'|] eqn:Er; [|discriminate]. inversion H; subst; clear H.
    assert (Er' := Er). cbn in Er'. inversion Er'; subst; clear Er'.
    constructor; cbn; auto.
    + eapply step_inv; eauto.
    + intros t Ht. apply nth_app_cases in Ht as [Ht|[_ Ht]]; [eauto|discriminate].
    + intros Hc. specialize (Il Hc). pose proof (lsum_upd in_cs _ _ _ (KStopRun (length (stops (router s)))) Ei) as Q.
      cbn in Q. lia.
    + intros j p Hp. upd_cases Hp.
      * pose proof (Ic _ _ Ei) as [A B C D E F G K].
        constructor; cbn; try discriminate; auto.
        intros t Ht. inversion Ht; subst. rewrite app_length. cbn. lia.
      * specialize (Ic _ _ Hp). co_other Ic. intros t Ht. rewrite app_length. specialize (D _ Ht). lia.
    + destruct del_db.
      * pose proof (lsum_upd is_ok _ _ _ (KStopRun (length (stops (router s)))) Ei) as Q. cbn in Q. lia.
      * pose proof (lsum_upd is_err _ _ _ (KStopRun (length (stops (router s)))) Ei) as Q. cbn in Q. lia.
  - (* KR *)
    destruct (klock s) eqn:Ekl; [discriminate|].
    destruct (allowed a) eqn:Al; [|discriminate].
    destruct (step fx (router s) a) as [r'|] eqn:Er; [|discriminate]. inversion H; subst; clear H.
    destruct (allowed_stops _ _ _ _ Al Er) as (L & R & S).
    constructor; cbn; auto.
    + eapply step_inv; eauto.
    + apply S. exact Isr.
    + intros i p Hp. specialize (Ic _ _ Hp). co_other Ic. intros t Ht. rewrite L. auto.
  - (* KStopRet *)
    destruct (nth_error (callers s) i) as [[| | | |t| | | |]|] eqn:Ei; try discriminate.
    destruct (nth_error (stops (router s)) t) as [[| | |]|] eqn:Et; try discriminate. inversion H; subst; clear H.
    constructor; cbn; auto.
    + intros Hc. specialize (Il Hc). pose proof (lsum_upd in_cs _ _ _ KWsPc Ei) as Q. cbn in Q. lia.
    + intros j p Hp. upd_cases Hp.
      * pose proof (Ic _ _ Ei) as [A B C D E F G K].
        constructor; cbn; try discriminate; eauto.
      * specialize (Ic _ _ Hp). co_other Ic.
    + destruct del_db.
      * pose proof (lsum_upd is_ok _ _ _ KWsPc Ei) as Q. cbn in Q. lia.
      * pose proof (lsum_upd is_err _ _ _ KWsPc Ei) as Q. cbn in Q. lia.
  - (* KWs *)
    destruct (nth_error (callers s) i) as [[| | | | | | | |]|] eqn:Ei; try discriminate. inversion H; subst; clear H.
    constructor; cbn; auto.
    + intros Hc. specialize (Il Hc). pose proof (lsum_upd in_cs _ _ _ KOvPc Ei) as Q. cbn in Q. lia.
    + intros j p Hp. upd_cases Hp.
      * pose proof (Ic _ _ Ei) as [A B C D E F G K].
        constructor; cbn; try discriminate; auto.
      * specialize (Ic _ _ Hp). co_other Ic.
    + destruct del_db.
      * pose proof (lsum_upd is_ok _ _ _ KOvPc Ei) as Q. cbn in Q. lia.
      * pose proof (lsum_upd is_err _ _ _ KOvPc Ei) as Q. cbn in Q. lia.
  - (* KOv *)
    destruct (nth_error (callers s) i) as [[| | | | | | | |]|] eqn:Ei; try discriminate. inversion H; subst; clear H.
    constructor; cbn; auto.
    + intros Hc. specialize (Il Hc). pose proof (lsum_upd in_cs _ _ _ KDbPc Ei) as Q. cbn in Q. lia.
    + intros j p Hp. upd_cases Hp.
      * pose proof (Ic _ _ Ei) as [A B C D E F G K].
        constructor; cbn; try discriminate; auto.
      * specialize (Ic _ _ Hp). co_other Ic.
    + destruct del_db.
      * pose proof (lsum_upd is_ok _ _ _ KDbPc Ei) as Q. cbn in Q. lia.
      * pose proof (lsum_upd is_err _ _ _ KDbPc Ei) as Q. cbn in Q. lia.
  - (* KDb *)
    destruct (nth_error (callers s) i) as [[| | | | | | | |]|] eqn:Ei; try discriminate. inversion H; subst; clear H.
    constructor; cbn; auto.
    + intros Hc. specialize (Il Hc).
      pose proof (lsum_upd in_cs _ _ _ (KRet (if del_db then if db_file s then Ok else Err else Ok)) Ei) as Q.
      cbn in Q. lia.
    + intros j p Hp. upd_cases Hp.
      * pose proof (Ic _ _ Ei) as [A B C D E F G K].
        constructor; cbn; try discriminate; auto.
      * specialize (Ic _ _ Hp). co_other Ic.
    + destruct del_db.
      * pose proof (lsum_upd is_ok _ _ _ (KRet (if db_file s then Ok else Err)) Ei) as Q. cbn in Q.
        destruct (db_file s); cbn in *; lia.
      * pose proof (lsum_upd is_err _ _ _ (KRet Ok) Ei) as Q. cbn in Q. lia.
    + intros -> _. reflexivity.
Qed.

Lemma krun_inv cta del_db fx acts : forall s s', KInv cta del_db fx s -> krun cta del_db fx s acts = Some s' -> KInv cta del_db fx s'.
Proof.
  induction acts as [|a r IH]; intros s s' I H; cbn in H.
  - inversion H; subst; auto.
  - destruct (kstep cta del_db fx s a) as [s1|] eqn:E; [|discriminate].
    apply (IH s1 s'); auto. eapply kstep_inv; eauto.
Qed.


(* ========================================================================== *)
(* Theorems                                                                     *)
(* ========================================================================== *)

Theorem conc_inv cta del_db fx started r0 n k acts s :
  Inv fx r0 -> stops r0 = [] ->
  krun cta del_db fx (kinit started r0 n k) acts = Some s -> KInv cta del_db fx s.
Proof. intros I0 S0. apply krun_inv. now apply KInv_init. Qed.

(* ---- (1) safety -------------------------------------------------------------- *)

(* at most one value is ever sent on closeitChannel, Start returns exactly when it has been
   sent (hence at most once), and no step is a panic; both variants *)
Theorem conc_safety cta del_db fx started r0 n k acts s :
  Inv fx r0 -> stops r0 = [] ->
  krun cta del_db fx (kinit started r0 n k) acts = Some s ->
  sent s <= 1 /\ (start s = StReturned <-> sent s = 1) /\ crashed (router s) = false.
Proof.
  intros I0 S0 R. pose proof (conc_inv _ _ _ _ _ _ _ _ _ I0 S0 R) as I.
  pose proof (ki_sent _ _ _ _ I) as E. split; [|split].
  - destruct (start s); lia.
  - destruct (start s); split; intros H; try discriminate; auto; lia.
  - apply (inv_crash _ _ (ki_router _ _ _ _ I)).
Qed.

(* ---- (2) deadlock freedom (the code as it is: cta = false) ---------------------- *)

Lemma caller_progress del_db fx s i p :
  KInv false del_db fx s -> nth_error (callers s) i = Some p -> returned p = false ->
  exists a s', kstep false del_db fx s a = Some s'.
Proof.
  intros I Hp Nr. pose proof I as [Ir Isr Ise Il Inl Ifl Ist Ic Iok Ifile]. specialize (Il eq_refl).
  (* whoever holds the lock can move *)
  assert (Holder : klock s = true -> exists a s', kstep false del_db fx s a = Some s').
  { intros Hk. rewrite Hk in Il. cbn in Il.
    assert (exists j q, nth_error (callers s) j = Some q /\ in_cs q = 1) as (j & q & Hj & Hq).
    { clear - Il. induction (callers s) as [|x r IH]; cbn in Il; [lia|].
      destruct (in_cs x) eqn:E.
      - destruct IH as (j & q & Hj & Hq); [lia|]. exists (S j), q. auto.
      - exists 0, x. split; auto. destruct x; cbn in *; try discriminate; auto. }
    destruct q; try discriminate.
    - destruct (co_send _ _ _ (Ic _ _ Hj) eq_refl eq_refl) as [Es|Es].
      + exists KStartArrive. eexists. cbn. rewrite Es. reflexivity.
      + exists (KSend j). eexists. cbn. rewrite Hj, Es. reflexivity.
    - exists (KClear j). eexists. cbn. rewrite Hj. cbn. reflexivity. }
  destruct p as [| | | |t| | | |r]; try discriminate.
  - destruct (klock s) eqn:Hk; [auto|].
    exists (KLockRead i). cbn. rewrite Hp, Hk. destruct (flag s); eexists; reflexivity.
  - destruct (co_send _ _ _ (Ic _ _ Hp) eq_refl eq_refl) as [Es|Es].
    + exists KStartArrive. eexists. cbn. rewrite Es. reflexivity.
    + exists (KSend i). eexists. cbn. rewrite Hp, Es. reflexivity.
  - exists (KClear i). eexists. cbn. rewrite Hp. cbn. reflexivity.
  - exists (KStopCall_ i). eexists. cbn. rewrite Hp. reflexivity.
  - (* inside Router.Stop *)
    pose proof (co_thread _ _ _ (Ic _ _ Hp) t eq_refl) as Lt.
    destruct (nth_error (stops (router s)) t) as [pc|] eqn:Et; [|apply nth_error_None in Et; lia].
    destruct (klock s) eqn:Hkl; [auto|].
    destruct pc.
    + exists (KR (AHostStop t)). eexists. cbn. rewrite Hkl, Et. reflexivity.
    + exists (KR (ACloseAll t)). eexists. cbn. rewrite Hkl, Et. reflexivity.
    + destruct (wg (router s)) as [|w] eqn:Ew.
      * exists (KR (AWait t)). eexists. cbn. rewrite Hkl, Et, Ew. cbn. reflexivity.
      * assert (Hc : closed (router s) = true) by (apply (inv_stops _ _ Ir _ _ Et); auto).
        assert (NZ : sumf wgf (conns (router s)) <> 0).
        { pose proof (inv_wg _ _ Ir) as W. unfold count_busy in W. lia. }
        destruct (sumf_zero_ex _ _ NZ) as (c & k & Hk & Hl).
        assert (exists a r', handler_action a /\ step fx (router s) a = Some r') as (a & r' & Ha & Hs).
        { unfold wgf in Hl. destruct (live (hd k)) eqn:L.
          - destruct (handler_progress _ _ _ _ Ir Hc Hk L) as (a & r' & Ha & Hs & _). eauto.
          - destruct (neg k) eqn:Ng; [|cbn in Hl; congruence].
            destruct (neg_progress _ _ _ _ Ir Hc Hk Ng) as (a & r' & Ha & Hs & _). eauto. }
        exists (KR a). eexists. cbn. rewrite Hkl, (handler_allowed _ Ha), Hs. reflexivity.
    + exists (KStopRet i). eexists. cbn. rewrite Hp, Et. reflexivity.
  - exists (KWs i). eexists. cbn. rewrite Hp. reflexivity.
  - exists (KOv i). eexists. cbn. rewrite Hp. reflexivity.
  - exists (KDb i). eexists. cbn. rewrite Hp. reflexivity.
Qed.

Lemma start_none_stable cta del_db fx s a s' :
  kstep cta del_db fx s a = Some s' -> (start s = StNone <-> start s' = StNone).
Proof.
  intros H. destruct a; cbn [kstep] in H; unfold set_callers in H;
    repeat match type of H with
           | context[match ?x with _ => _ end] => destruct x eqn:?; try discriminate
           | context[if ?x then _ else _] => destruct x eqn:?; try discriminate
           end; inversion H; subst; cbn; try tauto; split; intros; congruence.
Qed.

Lemma start_none_run cta del_db fx acts : forall s s',
  krun cta del_db fx s acts = Some s' -> (start s = StNone <-> start s' = StNone).
Proof.
  induction acts as [|a r IH]; intros s s' H; cbn in H.
  - inversion H; subst; tauto.
  - destruct (kstep cta del_db fx s a) as [s1|] eqn:E; [|discriminate].
    rewrite (start_none_stable _ _ _ _ _ _ E). eauto.
Qed.

Lemma callers_length_run cta del_db fx l : forall s0 s1,
  krun cta del_db fx s0 l = Some s1 -> length (callers s1) = length (callers s0).
Proof.
  induction l as [|a r IH]; intros s0 s1 H; cbn in H; [inversion H; auto|].
  destruct (kstep cta del_db fx s0 a) as [s2|] eqn:E; [|discriminate]. rewrite (IH _ _ H).
  destruct a; cbn [kstep] in E; unfold set_callers in E;
    repeat match type of E with
           | context[match ?x with _ => _ end] => destruct x eqn:?; try discriminate
           | context[if ?x then _ else _] => destruct x eqn:?; try discriminate
           end; inversion E; subst; cbn; auto using upd_length.
Qed.

Lemma all_returned_flag cta del_db fx s :
  KInv cta del_db fx s -> callers s <> [] ->
  (forall i p, nth_error (callers s) i = Some p -> returned p = true) ->
  flag s = false /\ (start s = StNone \/ start s = StReturned).
Proof.
  intros I Ne All. destruct (callers s) as [|p0 r] eqn:Ec; [congruence|].
  assert (H0 : nth_error (callers s) 0 = Some p0) by (rewrite Ec; reflexivity).
  rewrite <- Ec in All. pose proof (All _ _ H0) as R0.
  assert (F : flag s = false).
  { apply (co_flag _ _ _ (ki_callers _ _ _ _ I _ _ H0)). destruct p0; try discriminate; reflexivity. }
  split; auto. pose proof (ki_start _ _ _ _ I) as S.
  destruct (start s); auto; rewrite S in F; auto; discriminate.
Qed.

(* In every reachable state of the code as it is in which NO action is enabled, every
   caller of Close() has returned, and Start() has returned if the server was started. *)
Theorem conc_deadlock_free del_db fx started r0 n k acts s :
  Inv fx r0 -> stops r0 = [] ->
  krun false del_db fx (kinit started r0 n k) acts = Some s ->
  (forall a, kstep false del_db fx s a = None) ->
  (forall i p, nth_error (callers s) i = Some p -> returned p = true) /\
  (k >= 1 -> started = true -> start s = StReturned).
Proof.
  intros I0 S0 R Dead. pose proof (conc_inv _ _ _ _ _ _ _ _ _ I0 S0 R) as I.
  assert (All : forall i p, nth_error (callers s) i = Some p -> returned p = true).
  { intros i p Hp. destruct (returned p) eqn:E; auto.
    destruct (caller_progress _ _ _ _ _ I Hp E) as (a & s' & Hs). rewrite Dead in Hs. discriminate. }
  split; auto. intros Hk Hst.
  assert (Len : length (callers s) = k).
  { rewrite (callers_length_run _ _ _ _ _ _ R). cbn. apply repeat_length. }
  assert (Ne : callers s <> []) by (intros E; rewrite E in Len; cbn in Len; lia).
  destruct (all_returned_flag _ _ _ _ I Ne All) as [_ [N|Rt]]; auto.
  apply (start_none_run _ _ _ _ _ _ R) in N. cbn in N. rewrite Hst in N. discriminate.
Qed.

(* ---- (3) termination ----------------------------------------------------------- *)

Definition cmeas (p : kpc) : nat :=
  match p with
  | KEnter => 13 | KSendPc => 12 | KClearPc => 11 | KStopCall => 10 | KStopRun _ => 6
  | KWsPc => 3 | KOvPc => 2 | KDbPc => 1 | KRet _ => 0
  end.
Definition stmeas (p : stpc) : nat :=
  match p with SHost => 3 | SCloseAll => 2 | SWait => 1 | SReturned => 0 end.
Definition hm2 (h : hpc) : nat :=
  match h with
  | HGot (Some _) => 8 | HDisp _ => 7 | HRecv => 6 | HGot None => 5
  | HExitClose => 4 | HExitDone => 3 | HExitRemove => 2 | HDead => 0 | HNone => 0
  end.
Definition smeas2 (x : spc) : nat :=
  match x with
  | IAccept => 22 | IRecvId => 20 | ICheck | OSendId => 18 | IRegister | ORegister => 16
  | ILaunch | OLaunch => 14 | SetupOk | SetupErr => 0
  end.
Definition hmf2 (k : conn) : nat := hm2 (hd k) + smeas2 (setup k) + b2n (neg k).
Definition rmeas (r : state) : nat := lsum stmeas (stops r) + sumf hmf2 (conns r).
Definition startmeas (p : startpc) : nat := match p with StRunning => 2 | StWaiting => 1 | _ => 0 end.
Definition kmeas (s : kstate) : nat := lsum cmeas (callers s) + rmeas (router s) + startmeas (start s).

Lemma allowed_decreases fx r a r' : allowed a = true -> step fx r a = Some r' -> rmeas r' < rmeas r.
Proof.
  intros Al H. unfold rmeas.
  destruct a as [ |p|p|c|c|t|t|t|t|t|t|t|t|t|c|c|c|c|c|c|c|c v|c|c|c m|c|c|c|c|c|c|c]; try discriminate; cbn [step] in H.
  - destruct (nth_error (stops r) t) as [[| | |]|] eqn:Et; try discriminate. inversion H; subst; cbn.
    pose proof (lsum_upd stmeas _ _ _ SCloseAll Et) as Q. cbn in Q. lia.
  - destruct (nth_error (stops r) t) as [[| | |]|] eqn:Et; try discriminate. inversion H; subst; cbn.
    pose proof (lsum_upd stmeas _ _ _ SWait Et) as Q. cbn in Q.
    rewrite sumf_close_listed by reflexivity. lia.
  - destruct (nth_error (stops r) t) as [[| | |]|] eqn:Et; try discriminate.
    destruct (wg r =? 0); [|discriminate]. inversion H; subst; cbn.
    pose proof (lsum_upd stmeas _ _ _ SReturned Et) as Q. cbn in Q. lia.
  - (* ABegin *)
    destruct (nth_error (conns r) c) as [k|] eqn:Ek; [|discriminate].
    destruct (setup k) eqn:Es; try discriminate.
    destruct (f43 fx); [destruct (closed r)|]; inversion H; subst; cbn;
      [pose proof (sumf_upd hmf2 _ _ _ (set_setup (close_conn k) SetupErr) Ek) as Q
      |pose proof (sumf_upd hmf2 _ _ _ (set_neg (set_setup k IRecvId) true) Ek) as Q
      |pose proof (sumf_upd hmf2 _ _ _ (set_setup k IRecvId) Ek) as Q];
      unfold hmf2 in Q at 2 4; rewrite Es in Q; cbn in Q; destruct (neg k); cbn in Q; lia.
  - (* AEnd *)
    destruct (nth_error (conns r) c) as [k|] eqn:Ek; [|discriminate].
    destruct (neg k) eqn:En; [|discriminate]. destruct (setup_done (setup k)); [|discriminate]. cbn in H.
    pose proof (sumf_upd hmf2 _ _ _ (set_neg k false) Ek) as Q. unfold hmf2 in Q at 2 4. rewrite En in Q. cbn in Q.
    destruct (wg r); inversion H; subst; cbn; lia.
  - (* ARecvIdFail *)
    destruct (nth_error (conns r) c) as [k|] eqn:Ek; [|discriminate].
    destruct (setup k) eqn:Es; try discriminate. destruct (lopen k && popen k); [discriminate|]. inversion H; subst; cbn.
    pose proof (sumf_upd hmf2 _ _ _ (set_setup (close_conn k) SetupErr) Ek) as Q.
    unfold hmf2 in Q at 2 4. rewrite Es in Q. cbn in Q. lia.
  - (* ACheckPeer *)
    destruct (nth_error (conns r) c) as [k|] eqn:Ek; [|discriminate].
    destruct (setup k) eqn:Es; try discriminate.
    destruct v; inversion H; subst; cbn;
      [pose proof (sumf_upd hmf2 _ _ _ (set_setup k IRegister) Ek) as Q
      |pose proof (sumf_upd hmf2 _ _ _ (set_setup (close_conn k) SetupErr) Ek) as Q];
      unfold hmf2 in Q at 2 4; rewrite Es in Q; cbn in Q; lia.
  - (* ARegister *)
    destruct (nth_error (conns r) c) as [k|] eqn:Ek; [|discriminate].
    destruct (setup k) eqn:Es; try discriminate;
      (destruct (closed r); [unfold give_up in H; destruct (f11 fx)|]; inversion H; subst; cbn;
       [pose proof (sumf_upd hmf2 _ _ _ (set_setup (close_conn k) SetupErr) Ek) as Q
       |pose proof (sumf_upd hmf2 _ _ _ (set_setup k SetupErr) Ek) as Q
       |match goal with |- context[upd _ _ ?k'] => pose proof (sumf_upd hmf2 _ _ _ k' Ek) as Q end];
       unfold hmf2 in Q at 2 4; rewrite Es in Q; cbn in Q; lia).
  - (* ALaunch *)
    destruct (nth_error (conns r) c) as [k|] eqn:Ek; [|discriminate].
    destruct (setup k) eqn:Es; try discriminate;
      (destruct (closed r); [unfold give_up in H; destruct (f11 fx)|]; inversion H; subst; cbn;
       [pose proof (sumf_upd hmf2 _ _ _ (set_setup (close_conn k) SetupErr) Ek) as Q
       |pose proof (sumf_upd hmf2 _ _ _ (set_setup k SetupErr) Ek) as Q
       |pose proof (sumf_upd hmf2 _ _ _ (set_hd (set_setup k SetupOk) HRecv) Ek) as Q];
       unfold hmf2 in Q at 2 4; rewrite Es in Q; cbn in Q; lia).
  - destruct (nth_error (conns r) c) as [k|] eqn:Ek; [|discriminate].
    destruct (hd k) eqn:Eh; try discriminate. destruct (lopen k && popen k); [discriminate|].
    inversion H; subst; cbn.
    pose proof (sumf_upd hmf2 _ _ _ (set_hd k (HGot None)) Ek) as Q. unfold hmf2 in Q at 2 4. rewrite Eh in Q. cbn in Q. lia.
  - destruct (nth_error (conns r) c) as [k|] eqn:Ek; [|discriminate].
    destruct (hd k) as [| |x| | | | |] eqn:Eh; try discriminate.
    destruct (closed r); [|destruct x as [m|]]; inversion H; subst; cbn;
      [pose proof (sumf_upd hmf2 _ _ _ (set_hd k HExitClose) Ek) as Q
      |pose proof (sumf_upd hmf2 _ _ _ (set_hd k (HDisp m)) Ek) as Q
      |pose proof (sumf_upd hmf2 _ _ _ (set_hd k HExitClose) Ek) as Q];
      unfold hmf2 in Q at 2 4; rewrite Eh in Q; cbn in Q; try destruct x; lia.
  - destruct (nth_error (conns r) c) as [k|] eqn:Ek; [|discriminate].
    destruct (hd k) eqn:Eh; try discriminate. inversion H; subst; cbn.
    pose proof (sumf_upd hmf2 _ _ _ (set_hd k HRecv) Ek) as Q. unfold hmf2 in Q at 2 4. rewrite Eh in Q. cbn in Q. lia.
  - destruct (nth_error (conns r) c) as [k|] eqn:Ek; [|discriminate].
    destruct (hd k) eqn:Eh; try discriminate. inversion H; subst; cbn.
    pose proof (sumf_upd hmf2 _ _ _ (set_hd (close_conn k) HExitDone) Ek) as Q. unfold hmf2 in Q at 2 4. rewrite Eh in Q. cbn in Q. lia.
  - destruct (nth_error (conns r) c) as [k|] eqn:Ek; [|discriminate].
    destruct (hd k) eqn:Eh; try discriminate.
    pose proof (sumf_upd hmf2 _ _ _ (set_hd k HExitRemove) Ek) as Q. unfold hmf2 in Q at 2 4. rewrite Eh in Q. cbn in Q.
    destruct (wg r); inversion H; subst; cbn; lia.
  - destruct (nth_error (conns r) c) as [k|] eqn:Ek; [|discriminate].
    destruct (hd k) eqn:Eh; try discriminate. inversion H; subst; cbn.
    pose proof (sumf_upd hmf2 _ _ _ (set_hd k HDead) Ek) as Q. unfold hmf2 in Q at 2 4. rewrite Eh in Q. cbn in Q. lia.
Qed.

(* every step strictly decreases a natural-number measure: both variants *)
Theorem conc_measure cta del_db fx s a s' :
  kstep cta del_db fx s a = Some s' -> kmeas s' < kmeas s.
Proof.
  intros H. unfold kmeas. destruct a as [ |i|i|i|i|a|i|i|i|i]; cbn [kstep] in H.
  - destruct (start s) eqn:Es; try discriminate. inversion H; subst; cbn. lia.
  - destruct (nth_error (callers s) i) as [[| | | | | | | |]|] eqn:Ei; try discriminate.
    destruct (klock s); [discriminate|]. destruct (flag s); inversion H; subst; cbn.
    + pose proof (lsum_upd cmeas _ _ _ KSendPc Ei) as Q. cbn in Q. lia.
    + pose proof (lsum_upd cmeas _ _ _ KStopCall Ei) as Q. cbn in Q. lia.
  - destruct (nth_error (callers s) i) as [[| | | | | | | |]|] eqn:Ei; try discriminate.
    destruct (start s) eqn:Es; try discriminate. inversion H; subst; cbn.
    pose proof (lsum_upd cmeas _ _ _ KClearPc Ei) as Q. cbn in Q. lia.
  - destruct (nth_error (callers s) i) as [[| | | | | | | |]|] eqn:Ei; try discriminate.
    destruct (cta && klock s); [discriminate|]. inversion H; subst; cbn.
    pose proof (lsum_upd cmeas _ _ _ KStopCall Ei) as Q. cbn in Q. lia.
  - destruct (nth_error (callers s) i) as [[| | | | | | | |]|] eqn:Ei; try discriminate.
    cbn in H. inversion H; subst; cbn. unfold rmeas. cbn. rewrite lsum_app. cbn.
    pose proof (lsum_upd cmeas _ _ _ (KStopRun (length (stops (router s)))) Ei) as Q. cbn in Q. lia.
  - destruct (klock s); [discriminate|]. destruct (allowed a) eqn:Al; [|discriminate].
    destruct (step fx (router s) a) as [r'|] eqn:Er; [|discriminate]. inversion H; subst; cbn.
    pose proof (allowed_decreases _ _ _ _ Al Er). lia.
  - destruct (nth_error (callers s) i) as [[| | | |t| | | |]|] eqn:Ei; try discriminate.
    destruct (nth_error (stops (router s)) t) as [[| | |]|]; try discriminate. inversion H; subst; cbn.
    pose proof (lsum_upd cmeas _ _ _ KWsPc Ei) as Q. cbn in Q. lia.
  - destruct (nth_error (callers s) i) as [[| | | | | | | |]|] eqn:Ei; try discriminate. inversion H; subst; cbn.
    pose proof (lsum_upd cmeas _ _ _ KOvPc Ei) as Q. cbn in Q. lia.
  - destruct (nth_error (callers s) i) as [[| | | | | | | |]|] eqn:Ei; try discriminate. inversion H; subst; cbn.
    pose proof (lsum_upd cmeas _ _ _ KDbPc Ei) as Q. cbn in Q. lia.
  - destruct (nth_error (callers s) i) as [[| | | | | | | |]|] eqn:Ei; try discriminate. inversion H; subst; cbn.
    pose proof (lsum_upd cmeas _ _ _ (KRet (if del_db then if db_file s then Ok else Err else Ok)) Ei) as Q.
    cbn in Q. lia.
Qed.

(* hence every run is finite: it cannot be longer than the measure of its first state *)
Theorem conc_runs_finite cta del_db fx acts : forall s s',
  krun cta del_db fx s acts = Some s' -> length acts + kmeas s' <= kmeas s.
Proof.
  induction acts as [|a r IH]; intros s s' H; cbn in H.
  - inversion H; subst. cbn. lia.
  - destruct (kstep cta del_db fx s a) as [s1|] eqn:E; [|discriminate].
    pose proof (conc_measure _ _ _ _ _ _ E). specialize (IH _ _ H). cbn. lia.
Qed.

(* every maximal run of the code as it is ends with all calls returned: a run that cannot
   be extended is in a state without enabled action, which by (2) has everybody returned *)
Theorem conc_terminates del_db fx started r0 n k :
  Inv fx r0 -> stops r0 = [] ->
  forall acts s, krun false del_db fx (kinit started r0 n k) acts = Some s ->
  exists acts' s', krun false del_db fx s acts' = Some s' /\
                   (forall i p, nth_error (callers s') i = Some p -> returned p = true).
Proof.
  intros I0 S0 acts s R. pose proof (conc_inv _ _ _ _ _ _ _ _ _ I0 S0 R) as I. clear R.
  remember (kmeas s) as m eqn:Em. revert s Em I.
  induction m as [m IH] using lt_wf_ind. intros s Em I.
  destruct (forallb returned (callers s)) eqn:All.
  - exists [], s. split; [reflexivity|]. intros i p Hp. rewrite forallb_forall in All.
    apply All. eapply nth_error_In; eauto.
  - assert (exists i p, nth_error (callers s) i = Some p /\ returned p = false) as (i & p & Hp & Nr).
    { clear - All. induction (callers s) as [|x r IHl]; cbn in All; [discriminate|].
      destruct (returned x) eqn:E.
      - destruct IHl as (i & p & Hp & Nr); auto. exists (S i), p. auto.
      - exists 0, x. auto. }
    destruct (caller_progress _ _ _ _ _ I Hp Nr) as (a & s1 & Hs).
    pose proof (conc_measure _ _ _ _ _ _ Hs) as Lt.
    destruct (IH (kmeas s1)) with (s := s1) as (acts' & s' & R' & All'); auto.
    { lia. } { eapply kstep_inv; eauto. }
    exists (a :: acts'), s'. split; auto. cbn. now rewrite Hs.
Qed.

(* ---- (4) the final state -------------------------------------------------------- *)

Lemma lsum_all_zero {A} (f : A -> nat) l : (forall i x, nth_error l i = Some x -> f x = 0) -> lsum f l = 0.
Proof.
  induction l as [|x r IH]; intros H; cbn; auto.
  rewrite (H 0 x eq_refl). rewrite IH; auto. intros i y Hy. apply (H (S i) y Hy).
Qed.

(* whatever the number of callers and the interleaving: when all calls have returned the
   server is in the state a single Close() leaves (k = 1 is the single call) *)
Theorem conc_final_state cta del_db fx s :
  KInv cta del_db fx s -> callers s <> [] ->
  (forall i p, nth_error (callers s) i = Some p -> returned p = true) ->
  all_closed_k s.
Proof.
  intros I Ne All. destruct (all_returned_flag _ _ _ _ I Ne All) as [F _].
  destruct (callers s) as [|p0 r] eqn:Ec; [congruence|].
  assert (H0 : nth_error (callers s) 0 = Some p0) by (rewrite Ec; reflexivity).
  rewrite <- Ec in All. pose proof (All _ _ H0) as R0.
  pose proof (ki_callers _ _ _ _ I _ _ H0) as [A B C D E G Hov K].
  assert (P : past_stop p0 = true /\ past_ws p0 = true /\ past_ov p0 = true) by (destruct p0; try discriminate; auto).
  destruct P as (P1 & P2 & P3). specialize (E P1). pose proof (ki_router _ _ _ _ I) as Ir.
  destruct (inv_ret _ _ Ir E) as [Hc Hw]. destruct (Hov P3) as [O1 O2].
  unfold all_closed_k. repeat split; auto.
  - destruct cta eqn:Ect; [apply (ki_nolock _ _ _ _ I eq_refl)|].
    pose proof (ki_lock _ _ _ _ I eq_refl) as L. rewrite lsum_all_zero in L.
    + destruct (klock s); auto; discriminate.
    + intros i x Hx. specialize (All _ _ Hx). destruct x; try discriminate; reflexivity.
  - apply (inv_listen _ _ Ir Hc).
  - intros c k0 Hin Hk. apply (ci_j1 _ _ _ _ _ _ (inv_conn _ _ Ir _ _ Hk)); auto.
Qed.

(* with a temporary database (delDb, the test configuration) exactly one call returns nil,
   all others the "removing file" error; with a permanent database every call returns nil *)
Theorem conc_results cta del_db fx s :
  KInv cta del_db fx s -> callers s <> [] ->
  (forall i p, nth_error (callers s) i = Some p -> returned p = true) ->
  if del_db then lsum is_ok (callers s) = 1 else lsum is_ok (callers s) = length (callers s).
Proof.
  intros I Ne All. pose proof (ki_ok _ _ _ _ I) as O. destruct del_db.
  - destruct (conc_final_state _ _ _ _ I Ne All) as (_ & _ & _ & _ & _ & _ & _ & _ & _ & Db).
    rewrite (ki_file _ _ _ _ I eq_refl Db) in O. cbn in O. lia.
  - clear Ne. revert All O. induction (callers s) as [|x r IH]; intros All O; cbn in *; auto.
    pose proof (All 0 x eq_refl) as Rx. destruct x as [| | | | | | | |[|]]; try discriminate; cbn in *; try lia.
    rewrite IH; auto. intros i p Hp. apply (All (S i) p Hp).
Qed.

Theorem conc_final cta del_db fx started r0 n k acts s :
  Inv fx r0 -> stops r0 = [] -> k >= 1 ->
  krun cta del_db fx (kinit started r0 n k) acts = Some s ->
  (forall i p, nth_error (callers s) i = Some p -> returned p = true) ->
  all_closed_k s /\
  (if del_db then lsum is_ok (callers s) = 1 else lsum is_ok (callers s) = length (callers s)).
Proof.
  intros I0 S0 Hk R All.
  pose proof (conc_inv _ _ _ _ _ _ _ _ _ I0 S0 R) as I.
  assert (Ne : callers s <> []).
  { intros E. pose proof (callers_length_run _ _ _ _ _ _ R) as L. rewrite E in L. cbn in L.
    rewrite repeat_length in L. lia. }
  split; [exact (conc_final_state _ _ _ _ I Ne All)|exact (conc_results _ _ _ _ I Ne All)].
Qed.

(* ---- (5) check-then-act hangs --------------------------------------------------- *)

Definition cta_witness : list kaction :=
  [KStartArrive; KLockRead 0; KLockRead 1;      (* both calls read IsStarted = true *)
   KSend 0; KClear 0;                            (* the first wakes Start up and clears the flag *)
   KStopCall_ 0; KR (AHostStop 0); KR (ACloseAll 0); KR (AWait 0); KStopRet 0; KWs 0; KOv 0; KDb 0].

Theorem conc_check_then_act_refuted :
  exists s, krun true true (mkFx true true) (kinit true init 0 2) cta_witness = Some s /\
            callers s = [KRet Ok; KSendPc] /\ start s = StReturned /\ sent s = 1 /\
            forall a, kstep true true (mkFx true true) s a = None.
Proof.
  eexists. split; [vm_compute; reflexivity|]. repeat split.
  intros a. destruct a as [ |i|i|i|i|ra|i|i|i|i]; try reflexivity;
    try (destruct i as [|[|[|i]]]; reflexivity).
  destruct ra as [ |p|p|c|c|t|t|t|t|t|t|t|t|t|c|c|c|c|c|c|c|c v|c|c|c m|c|c|c|c|c|c|c]; try reflexivity;
    try (destruct t as [|[|t]]; reflexivity); try (destruct c as [|c]; reflexivity).
Qed.

(* the same schedule on the code as it is: the second call cannot read the flag while the
   first holds the lock *)
Example conc_witness_original :
  krun false true (mkFx true true) (kinit true init 0 2) [KStartArrive; KLockRead 0; KLockRead 1] = None /\
  exists s, krun false true (mkFx true true) (kinit true init 0 2)
                 ([KStartArrive; KLockRead 0; KSend 0; KClear 0; KLockRead 1]) = Some s /\
            callers s = [KStopCall; KStopCall] /\ flag s = false.
Proof. split; [vm_compute; reflexivity|]. eexists. split; [vm_compute; reflexivity|]. split; reflexivity. Qed.

(* the deterministic scheduler used by the correspondence only takes steps of the model *)
Lemma first_enabled_step cta del_db fx s l s' :
  first_enabled cta del_db fx s l = Some s' -> exists a, kstep cta del_db fx s a = Some s'.
Proof.
  induction l as [|a r IH]; cbn; [discriminate|].
  destruct (kstep cta del_db fx s a) as [s1|] eqn:E; auto. intros H; inversion H; subst. eauto.
Qed.

Theorem sched_reachable cta del_db fx fuel : forall s,
  exists acts, krun cta del_db fx s acts = Some (sched cta del_db fx fuel s).
Proof.
  induction fuel as [|f IH]; intros s; cbn [sched]; [exists []; reflexivity|].
  destruct (first_enabled cta del_db fx s (candidates s)) as [s1|] eqn:E; [|exists []; reflexivity].
  destruct (first_enabled_step _ _ _ _ _ _ E) as [a Ha]. destruct (IH s1) as [acts R].
  exists (a :: acts). cbn. now rewrite Ha.
Qed.
