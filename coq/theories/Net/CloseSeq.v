(* C10 -- Server.Close after the router has stopped: websocket stop, Overlay.Close,
   treeStorage.Close, database close, racing with the tree store's removal timers,
   with instances that finish and with protocol starts.

   Go code mirrored:
     server.go   Close            : Router.Stop(); WebSocket.stop(); overlay.Close(); closeDatabase()
     overlay.go  Close            : instancesLock.Lock(); for each instance: nodeDelete(tok);
                                    treeStorage.Close(); instancesLock.Unlock()
                 nodeDelete       : closeDispatch; delete instance; if no other instance uses
                                    the tree: treeStorage.Remove(tree)
                 nodeDone         : instancesLock.Lock(); nodeDelete; Unlock
                 newTreeNodeInstanceFromToken / RegisterTree (CreateProtocol, first message
                 of a run)        : go dispatchMsgReader(); instancesLock{ instances[tok] = tni };
                                    treeStorage.Set(tree)   -- there is NO closed flag in the overlay
     treestorage.go Remove(id)    : Lock; if closed return; if cancellations[id] exists return;
                                    wg.Add(1); c := make(chan); cancellations[id] = c;
                                    go { defer wg.Done(); select { <-timer.C: Lock; if cancellations[id] == c {
                                         delete(trees,id); delete(cancellations,id) }; Unlock
                                         |   <-c: return } }; Unlock
                 cancelDeletion   : (caller holds the lock) close(cancellations[id]); delete it
                 Close            : Lock; closed = true; close and delete every cancellation;
                                    wg.Wait(); Unlock          <- waits while HOLDING the lock

   One action = one critical section / one channel or timer event.  [fx_ts]: the repair
   "release the store's lock before wg.Wait()".  [fx_ov]: the repair "an overlay that has
   been closed refuses new instances" (the refused instance's reader goroutine is stopped
   and CreateProtocol returns an error).  Both repairs have landed: fx_ts = fx_ov = true is the code
   as it is, the text of Close above is the code before F41.  Router.Stop is one opaque
   step here; that it returns is the subject of Net/RouterClose.v. *)
From Coq Require Import List Arith Bool Lia.
Import ListNotations.

Inductive tpc := TArmed | TFired | TExited.

Record timer := mkTimer {
  ttree : nat;            (* the tree this removal is for *)
  tst : tpc;
  tcancel : bool }.       (* its cancellation channel has been closed *)

(* program counter of Server.Close *)
Inductive kpc := KRouter | KWebsocket | KOverlay | KTsWait | KDb | KReturned.

Record cstate := mkC {
  cpc : kpc;
  instances : list nat;          (* tree used by each live instance (o.instances) *)
  leaked : nat;                  (* instances registered after Overlay.Close returned *)
  ts_closed : bool;
  ts_lock : bool;                (* the store's mutex is held across a blocking call *)
  pending : list (nat * nat);    (* cancellations: tree -> index of the timer goroutine *)
  timers : list timer;
  twg : nat;
  tcrashed : bool }.

Definition cinit (insts : list nat) : cstate :=
  mkC KRouter insts 0 false false [] [] 0 false.

Inductive caction :=
(* Server.Close *)
| AKRouter | AKWebsocket
| AKDelete (j : nat)             (* Overlay.Close deletes the j-th instance (map iteration order) *)
| AKTsClose | AKTsWait | AKDb
(* timer goroutine j *)
| ATimerFire (j : nat) | ATimerCancelled (j : nat) | ATimerDelete (j : nat)
(* the rest of the server *)
| AInstDone (j : nat)            (* the j-th instance finishes: nodeDone *)
| ANewInstance (tree : nat)      (* CreateProtocol / first message of a run *)
| ARefresh (tree : nat).         (* a message for a known tree: getAndRefresh *)

Fixpoint cupd {A} (l : list A) (i : nat) (x : A) : list A :=
  match l, i with
  | [], _ => []
  | _ :: r, 0 => x :: r
  | y :: r, S j => y :: cupd r j x
  end.

Fixpoint remove_at {A} (l : list A) (i : nat) : list A :=
  match l, i with
  | [], _ => []
  | _ :: r, 0 => r
  | y :: r, S j => y :: remove_at r j
  end.

Fixpoint cmem (x : nat) (l : list nat) : bool :=
  match l with [] => false | y :: r => (x =? y) || cmem x r end.

Definition pending_of (p : list (nat * nat)) (tree : nat) : option nat :=
  match find (fun e => fst e =? tree) p with Some e => Some (snd e) | None => None end.

Definition drop_pending (p : list (nat * nat)) (tree : nat) : list (nat * nat) :=
  filter (fun e => negb (fst e =? tree)) p.

Definition set_cancel (t : timer) : timer := mkTimer (ttree t) (tst t) true.
Definition set_tst (t : timer) (x : tpc) : timer := mkTimer (ttree t) x (tcancel t).

(* holds instancesLock: Overlay.Close from its first line to its return *)
Definition ov_locked (s : cstate) : bool :=
  match cpc s with KOverlay | KTsWait => true | _ => false end.
(* Overlay.Close has returned *)
Definition ov_closed (s : cstate) : bool :=
  match cpc s with KDb | KReturned => true | _ => false end.

(* treeStorage.Remove(tree), one critical section; caller checked ts_lock = false *)
Definition ts_remove (s : cstate) (insts : list nat) (tree : nat) : cstate :=
  if ts_closed s then mkC (cpc s) insts (leaked s) (ts_closed s) (ts_lock s) (pending s) (timers s) (twg s) (tcrashed s)
  else match pending_of (pending s) tree with
       | Some _ => mkC (cpc s) insts (leaked s) (ts_closed s) (ts_lock s) (pending s) (timers s) (twg s) (tcrashed s)
       | None => mkC (cpc s) insts (leaked s) (ts_closed s) (ts_lock s)
                     (pending s ++ [(tree, length (timers s))])
                     (timers s ++ [mkTimer tree TArmed false]) (S (twg s)) (tcrashed s)
       end.

(* nodeDelete of the j-th instance *)
Definition node_delete (s : cstate) (j : nat) : option cstate :=
  match nth_error (instances s) j with
  | None => None
  | Some tree =>
      let rest := remove_at (instances s) j in
      if cmem tree rest
      then Some (mkC (cpc s) rest (leaked s) (ts_closed s) (ts_lock s) (pending s) (timers s) (twg s) (tcrashed s))
      else if ts_lock s then None else Some (ts_remove s rest tree)
  end.

(* cancelDeletion(tree), inside a critical section of the store *)
Definition cancel_deletion (s : cstate) (tree : nat) : cstate :=
  match pending_of (pending s) tree with
  | None => s
  | Some j =>
      mkC (cpc s) (instances s) (leaked s) (ts_closed s) (ts_lock s) (drop_pending (pending s) tree)
          (match nth_error (timers s) j with
           | Some t => cupd (timers s) j (set_cancel t)
           | None => timers s
           end) (twg s) (tcrashed s)
  end.

(* Close's loop: close every channel in the cancellation map *)
Fixpoint cancel_all (idx : list nat) (i : nat) (ts : list timer) : list timer :=
  match ts with
  | [] => []
  | t :: r => (if cmem i idx then set_cancel t else t) :: cancel_all idx (S i) r
  end.

Definition set_cpc (s : cstate) (k : kpc) : cstate :=
  mkC k (instances s) (leaked s) (ts_closed s) (ts_lock s) (pending s) (timers s) (twg s) (tcrashed s).

Definition timer_exit (s : cstate) (j : nat) (t : timer) (p : list (nat * nat)) : cstate :=
  match twg s with
  | 0 => mkC (cpc s) (instances s) (leaked s) (ts_closed s) (ts_lock s) p
             (cupd (timers s) j (set_tst t TExited)) 0 true          (* negative WaitGroup counter *)
  | S n => mkC (cpc s) (instances s) (leaked s) (ts_closed s) (ts_lock s) p
               (cupd (timers s) j (set_tst t TExited)) n (tcrashed s)
  end.

Definition cstep (fx_ts fx_ov : bool) (s : cstate) (a : caction) : option cstate :=
  match a with
  | AKRouter => match cpc s with KRouter => Some (set_cpc s KWebsocket) | _ => None end
  | AKWebsocket => match cpc s with KWebsocket => Some (set_cpc s KOverlay) | _ => None end
  | AKDelete j => match cpc s with KOverlay => node_delete s j | _ => None end
  | AKTsClose =>
      match cpc s, instances s with
      | KOverlay, [] =>
          if ts_lock s then None else
          Some (mkC KTsWait [] (leaked s) true (negb fx_ts) []
                    (cancel_all (map snd (pending s)) 0 (timers s))
                    (twg s) (tcrashed s))
      | _, _ => None
      end
  | AKTsWait =>
      match cpc s with
      | KTsWait => if twg s =? 0
                   then Some (mkC KDb (instances s) (leaked s) (ts_closed s) false (pending s) (timers s) (twg s) (tcrashed s))
                   else None                                  (* blocked in wg.Wait() *)
      | _ => None
      end
  | AKDb => match cpc s with KDb => Some (set_cpc s KReturned) | _ => None end
  | ATimerFire j =>
      match nth_error (timers s) j with
      | Some t => match tst t with
                  | TArmed => Some (mkC (cpc s) (instances s) (leaked s) (ts_closed s) (ts_lock s) (pending s)
                                        (cupd (timers s) j (set_tst t TFired)) (twg s) (tcrashed s))
                  | _ => None
                  end
      | None => None
      end
  | ATimerCancelled j =>
      match nth_error (timers s) j with
      | Some t => match tst t with
                  | TArmed => if tcancel t then Some (timer_exit s j t (pending s)) else None
                  | _ => None
                  end
      | None => None
      end
  | ATimerDelete j =>
      match nth_error (timers s) j with
      | Some t => match tst t with
                  | TFired => if ts_lock s then None                      (* blocked in ts.Lock() *)
                              else Some (timer_exit s j t
                                           (* the entry is dropped only if it is still this goroutine's channel *)
                                           (match pending_of (pending s) (ttree t) with
                                            | Some j' => if j' =? j then drop_pending (pending s) (ttree t) else pending s
                                            | None => pending s
                                            end))
                  | _ => None
                  end
      | None => None
      end
  | AInstDone j => if ov_locked s then None else node_delete s j
  | ANewInstance tree =>
      if ov_locked s || ts_lock s then None
      else if fx_ov && ov_closed s then Some s                 (* refused: error, reader stopped *)
      else let s1 := cancel_deletion s tree in
           Some (mkC (cpc s1) (instances s1 ++ [tree]) (if ov_closed s then S (leaked s1) else leaked s1)
                     (ts_closed s1) (ts_lock s1) (pending s1) (timers s1) (twg s1) (tcrashed s1))
  | ARefresh tree => if ts_lock s then None else Some (cancel_deletion s tree)
  end.

Fixpoint crun (fx_ts fx_ov : bool) (s : cstate) (acts : list caction) : option cstate :=
  match acts with
  | [] => Some s
  | a :: r => match cstep fx_ts fx_ov s a with None => None | Some s' => crun fx_ts fx_ov s' r end
  end.

Definition timer_live (t : timer) : bool := match tst t with TExited => false | _ => true end.
