(* C10 -- closing an in-memory connection whose peer does not read its backlog: the code as it
   is always gets through (the forwarder watches closeCh while it pushes), the variant with the
   plain send hangs holding the manager's lock. *)
From Coq Require Import List Arith Bool Lia.
Import ListNotations.
From Onet Require Import Net.RouterClose Net.RouterCloseProofs Net.CloseConcProofs Net.LocalClose.

Definition holds_lock (c : lcpc) : bool :=
  match c with LCSigA | LCWaitA | LCSigB | LCWaitB | LCUnlock => true | _ => false end.
Definition sigA_done (c : lcpc) : bool :=
  match c with LCWaitA | LCSigB | LCWaitB | LCUnlock | LCRet Ok => true | _ => false end.
Definition sigB_done (c : lcpc) : bool :=
  match c with LCWaitB | LCUnlock | LCRet Ok => true | _ => false end.
Definition confA_done (c : lcpc) : bool :=
  match c with LCSigB | LCWaitB | LCUnlock | LCRet Ok => true | _ => false end.
Definition confB_done (c : lcpc) : bool :=
  match c with LCUnlock | LCRet Ok => true | _ => false end.
Definition locked_once (c : lcpc) : bool :=
  match c with LCIdle | LCLock => false | _ => true end.

Record LInv (s : lstate) : Prop := {
  li_lock : mlock s = holds_lock (closer s);
  li_chA : chA s = sigA_done (closer s);
  li_chB : chB s = sigB_done (closer s);
  li_fA : match fwdA s with
          | FIdle => confA_done (closer s) = false
          | FConfirm => chA s = true /\ confA_done (closer s) = false
          | FDone => confA_done (closer s) = true
          | FPush => False
          end;
  li_fB : match fwdB s with
          | FConfirm => chB s = true /\ confB_done (closer s) = false
          | FDone => confB_done (closer s) = true
          | _ => confB_done (closer s) = false
          end;
  li_pres : present s = negb (locked_once (closer s));
  li_noerr : closer s <> LCRet Err }.

Lemma LInv_init : LInv linit.
Proof. constructor; cbn; auto. discriminate. Qed.

Ltac linv :=
  constructor; cbn in *; auto; try congruence; try discriminate;
  try (match goal with |- context [fwdA ?s] => destruct (fwdA s) eqn:? end; cbn in *; intuition congruence);
  try (match goal with |- context [fwdB ?s] => destruct (fwdB s) eqn:? end; cbn in *; intuition congruence).

Lemma lstep_inv nw cap s a s' : LInv s -> lstep nw cap s a = Some s' -> LInv s'.
Proof.
  intros [Lk CA CB FA FB Pr Ne] H.
  destruct a as [ | | | | | |t|t|t| | | | | | | | | | ]; cbn [lstep] in H.
  - inversion H; subst. linv.
  - inversion H; subst. linv.
  - inversion H; subst. linv.
  - destruct (negb (lstalled s) && (0 <? outq s)); [|discriminate]. inversion H; subst. linv.
  - destruct (closer s) eqn:Ec; try discriminate. inversion H; subst. linv.
  - destruct (mlock s) eqn:Em; [discriminate|]. inversion H; subst. linv.
  - destruct (nth_error (lsenders s) t) as [[| |r]|]; try discriminate.
    destruct (mlock s) eqn:Em; [discriminate|]. inversion H; subst. linv.
  - destruct (nth_error (lsenders s) t) as [[| |r]|]; try discriminate.
    destruct (inq s <? cap); [|discriminate]. inversion H; subst. linv.
  - destruct (nth_error (lsenders s) t) as [[| |r]|]; try discriminate.
    destruct (chB s) eqn:Ech; [|discriminate]. inversion H; subst. linv.
  - destruct (fwdB s) eqn:Ef; try discriminate. destruct (0 <? inq s); [|discriminate].
    inversion H; subst. linv.
  - destruct (fwdB s) eqn:Ef; try discriminate. destruct (outq s <? cap); [|discriminate].
    inversion H; subst. linv.
  - destruct (chB s) eqn:Ech; [|discriminate]. destruct (fwdB s) eqn:Ef; try discriminate.
    + inversion H; subst. linv.
    + destruct nw; [discriminate|]. inversion H; subst. linv.
  - destruct (chA s) eqn:Ech; [|discriminate]. destruct (fwdA s) eqn:Ef; try discriminate.
    inversion H; subst. linv.
  - destruct (closer s) eqn:Ec; try discriminate. destruct (mlock s) eqn:Em; [discriminate|].
    cbn in Pr. rewrite Pr in H. inversion H; subst. linv.
  - destruct (closer s) eqn:Ec; try discriminate. inversion H; subst. linv.
  - destruct (closer s) eqn:Ec; try discriminate. destruct (fwdA s) eqn:Ef; try discriminate.
    inversion H; subst. linv.
  - destruct (closer s) eqn:Ec; try discriminate. inversion H; subst. linv.
  - destruct (closer s) eqn:Ec; try discriminate. destruct (fwdB s) eqn:Ef; try discriminate.
    inversion H; subst. linv.
  - destruct (closer s) eqn:Ec; try discriminate. inversion H; subst. linv.
Qed.

Lemma lrun_inv nw cap acts : forall s s', LInv s -> lrun nw cap s acts = Some s' -> LInv s'.
Proof.
  induction acts as [|a r IH]; intros s s' I H; cbn in H; [inversion H; subst; auto|].
  destruct (lstep nw cap s a) as [s1|] eqn:E; [|discriminate]. apply (IH s1); auto. eapply lstep_inv; eauto.
Qed.

Definition ldone (p : lspc) : bool := match p with LSDone _ => true | _ => false end.

(* the code as it is: once Close has been called, a state in which no internal action is
   enabled has Close returned Ok, the manager's lock free and every Send returned - whatever
   the backlog, whether or not the peer reads *)
Theorem local_close_no_hang cap acts s :
  lrun false cap linit acts = Some s -> closer s <> LCIdle ->
  (forall a, linternal a = true -> lstep false cap s a = None) ->
  closer s = LCRet Ok /\ mlock s = false /\ forall t p, nth_error (lsenders s) t = Some p -> ldone p = true.
Proof.
  intros R Nc Dead. pose proof (lrun_inv _ _ _ _ _ LInv_init R) as [Lk CA CB FA FB Pr Ne].
  assert (Hc : closer s = LCRet Ok).
  { destruct (closer s) as [| | | | | | |[|]] eqn:Ec; auto; try congruence; exfalso; cbn in *.
    - specialize (Dead LCloseLock eq_refl). cbn in Dead. rewrite Ec, Lk, Pr in Dead. discriminate.
    - specialize (Dead LCloseSigA eq_refl). cbn in Dead. rewrite Ec in Dead. discriminate.
    - destruct (fwdA s) eqn:Ef; try tauto; try discriminate.
      + specialize (Dead LFwdASee eq_refl). cbn in Dead. rewrite CA, Ef in Dead. discriminate.
      + specialize (Dead LCloseWaitA eq_refl). cbn in Dead. rewrite Ec, Ef in Dead. discriminate.
    - specialize (Dead LCloseSigB eq_refl). cbn in Dead. rewrite Ec in Dead. discriminate.
    - destruct (fwdB s) eqn:Ef; try discriminate.
      + specialize (Dead LFwdSee eq_refl). cbn in Dead. rewrite CB, Ef in Dead. discriminate.
      + specialize (Dead LFwdSee eq_refl). cbn in Dead. rewrite CB, Ef in Dead. discriminate.
      + specialize (Dead LCloseWaitB eq_refl). cbn in Dead. rewrite Ec, Ef in Dead. discriminate.
    - specialize (Dead LCloseUnlock eq_refl). cbn in Dead. rewrite Ec in Dead. discriminate. }
  rewrite Hc in *. cbn in *. repeat split; auto.
  intros t p Hp. destruct p; auto.
  - specialize (Dead (LSendLookup t) eq_refl). cbn in Dead. rewrite Hp, Lk in Dead. discriminate.
  - specialize (Dead (LSendClosed t) eq_refl). cbn in Dead. rewrite Hp, CB in Dead. discriminate.
Qed.

(* every internal step lowers a measure (both variants): only the environment keeps the system
   running, Close and the Sends cannot be delayed for ever by internal steps *)
Definition lsm (p : lspc) : nat := match p with LSLookup => 4 | LSRoom => 3 | LSDone _ => 0 end.
Definition fwm (f : fpc) : nat := match f with FPush => 3 | FIdle => 2 | FConfirm => 1 | FDone => 0 end.
Definition lcm (c : lcpc) : nat :=
  match c with LCIdle => 8 | LCLock => 7 | LCSigA => 6 | LCWaitA => 5 | LCSigB => 4 | LCWaitB => 3 | LCUnlock => 2
          | LCRet _ => 0 end.
Definition lmeas (s : lstate) : nat :=
  lsum lsm (lsenders s) + 2 * inq s + fwm (fwdB s) + fwm (fwdA s) + lcm (closer s).

Theorem local_close_measure nw cap s a s' :
  linternal a = true -> lstep nw cap s a = Some s' -> lmeas s' < lmeas s.
Proof.
  intros Ia H. unfold lmeas.
  destruct a as [ | | | | | |t|t|t| | | | | | | | | | ]; try discriminate; cbn [lstep] in H.
  - destruct (nth_error (lsenders s) t) as [[| |r]|] eqn:Et; try discriminate.
    destruct (mlock s); [discriminate|]. inversion H; subst; cbn.
    pose proof (lsum_upd lsm _ _ _ (if present s then LSRoom else LSDone Err) Et) as Q.
    destruct (present s); cbn in Q; lia.
  - destruct (nth_error (lsenders s) t) as [[| |r]|] eqn:Et; try discriminate.
    destruct (inq s <? cap); [|discriminate]. inversion H; subst; cbn.
    pose proof (lsum_upd lsm _ _ _ (LSDone Ok) Et) as Q. cbn in Q. lia.
  - destruct (nth_error (lsenders s) t) as [[| |r]|] eqn:Et; try discriminate.
    destruct (chB s); [|discriminate]. inversion H; subst; cbn.
    pose proof (lsum_upd lsm _ _ _ (LSDone Err) Et) as Q. cbn in Q. lia.
  - destruct (fwdB s) eqn:Ef; try discriminate. destruct (0 <? inq s) eqn:E0; [|discriminate].
    apply Nat.ltb_lt in E0. inversion H; subst; cbn. lia.
  - destruct (fwdB s) eqn:Ef; try discriminate. destruct (outq s <? cap); [|discriminate].
    inversion H; subst; cbn. lia.
  - destruct (chB s); [|discriminate]. destruct (fwdB s) eqn:Ef; try discriminate.
    + inversion H; subst; cbn. lia.
    + destruct nw; [discriminate|]. inversion H; subst; cbn. lia.
  - destruct (chA s); [|discriminate]. destruct (fwdA s) eqn:Ef; try discriminate.
    inversion H; subst; cbn. lia.
  - destruct (closer s) eqn:Ec; try discriminate. destruct (mlock s); [discriminate|].
    destruct (present s); inversion H; subst; cbn; lia.
  - destruct (closer s) eqn:Ec; try discriminate. inversion H; subst; cbn. lia.
  - destruct (closer s) eqn:Ec; try discriminate. destruct (fwdA s) eqn:Ef; try discriminate.
    inversion H; subst; cbn. lia.
  - destruct (closer s) eqn:Ec; try discriminate. inversion H; subst; cbn. lia.
  - destruct (closer s) eqn:Ec; try discriminate. destruct (fwdB s) eqn:Ef; try discriminate.
    inversion H; subst; cbn. lia.
  - destruct (closer s) eqn:Ec; try discriminate. inversion H; subst; cbn. lia.
Qed.

(* while Close holds the manager's lock nobody else on this manager gets anywhere *)
Theorem local_close_blocks_others nw cap acts s :
  lrun nw cap linit acts = Some s -> holds_lock (closer s) = true ->
  lstep nw cap s LOther = None /\ forall t, nth_error (lsenders s) t = Some LSLookup -> lstep nw cap s (LSendLookup t) = None.
Proof.
  intros R Hh. pose proof (lrun_inv _ _ _ _ _ LInv_init R) as [Lk _ _ _ _ _ _]. rewrite Hh in Lk.
  split; cbn; rewrite Lk; auto. intros t Ht. rewrite Ht. reflexivity.
Qed.

Lemma senders_done_disabled nw cap s t :
  forallb ldone (lsenders s) = true ->
  lstep nw cap s (LSendLookup t) = None /\ lstep nw cap s (LSendPut t) = None /\ lstep nw cap s (LSendClosed t) = None.
Proof.
  intros Hd. cbn. destruct (nth_error (lsenders s) t) as [p|] eqn:Et; auto.
  assert (Hp : ldone p = true).
  { apply nth_error_In in Et. rewrite forallb_forall in Hd. auto. }
  destruct p; try discriminate. auto.
Qed.

(* the variant hangs: with more unread packets than the reader's queue holds + 1, the peer's
   forwarder is parked on its push when Close comes; Close waits for its confirmation for ever,
   holding the manager's lock: no internal action is enabled and no other user of the manager
   gets its lock (LocalMaxBuffer = 200; 2 packets read, 260 unread) *)
Definition nw_witness : list laction := backlog_sends 200 2 260 ++ close_prefix.

Theorem plain_push_refuted :
  exists s, lrun true 200 linit nw_witness = Some s /\
            closer s = LCWaitB /\ mlock s = true /\ fwdB s = FPush /\ outq s = 200 /\ inq s = 59 /\
            (forall a, linternal a = true -> lstep true 200 s a = None) /\
            lstep true 200 s LOther = None.
Proof.
  eexists. split; [vm_compute; reflexivity|].
  set (s := mkL _ _ _ _ _ _ _ _ _ _ _ _ _ _).
  assert (Hd : forallb ldone (lsenders s) = true) by (vm_compute; reflexivity).
  repeat split.
  intros a Ia. destruct a as [ | | | | | |t|t|t| | | | | | | | | | ]; try discriminate; try reflexivity;
    apply (senders_done_disabled true 200 s t Hd).
Qed.

(* the same schedule on the code as it is goes on: the parked forwarder sees closeCh, Close
   returns, the lock is free again (another user gets it), every Send had returned Ok *)
Example backlog_schedule_ok :
  exists s, lrun false 200 linit (backlog_schedule 200 2 260) = Some s /\
            closer s = LCRet Ok /\ mlock s = false /\ others s = 1 /\ fwdB s = FDone /\
            forallb (fun p => match p with LSDone Ok => true | _ => false end) (lsenders s) = true /\
            length (lsenders s) = 262.
Proof. eexists. split; [vm_compute; reflexivity|]. repeat split. Qed.
