(* C09 -- proofs about the survivor-side router transition system of Net/C09Router.v *)
From Coq Require Import List Arith Bool Lia.
Import ListNotations.
From Onet Require Import Net.C09Router.

(* ---- classifier ------------------------------------------------------------- *)

Lemma classify_drop_iff c :
  classify c = Drop <-> c = ETimeout \/ c = EClosed \/ c = EEOF \/ c = EUnknown.
Proof. destruct c; cbn; split; intros H; try discriminate; auto; intuition discriminate. Qed.

Lemma classify_continue_iff c : classify c = Continue <-> c = ECanceled \/ c = EOther.
Proof. destruct c; cbn; split; intros H; try discriminate; auto; intuition discriminate. Qed.

Lemma classify_total c : classify c = Drop \/ classify c = Continue.
Proof. destruct c; cbn; auto. Qed.

Lemma handle_error_never_other e : handle_error e <> EOther.
Proof.
  unfold handle_error.
  destruct (has_use_of_closed e || has_broken_pipe e), (has_canceled e), (is_eof e),
    (negb (is_neterr e)), (is_timeout e); discriminate.
Qed.

(* the raw errors that keep the receive loop running are exactly the "canceled" ones *)
Lemma raw_continue_iff e :
  classify (handle_error e) = Continue <->
  has_use_of_closed e = false /\ has_broken_pipe e = false /\ has_canceled e = true.
Proof.
  unfold handle_error.
  destruct (has_use_of_closed e), (has_broken_pipe e), (has_canceled e), (is_eof e),
    (is_neterr e), (is_timeout e); cbn; split; intros H; try discriminate; auto;
    destruct H as (?&?&?); discriminate.
Qed.

Lemma raw_lost_drops e :
  (is_eof e = true \/ has_use_of_closed e = true \/ has_broken_pipe e = true \/
   (is_neterr e = true /\ has_canceled e = false) \/ (is_neterr e = false /\ has_canceled e = false)) ->
  has_canceled e = false \/ has_use_of_closed e = true \/ has_broken_pipe e = true ->
  classify (handle_error e) = Drop.
Proof.
  unfold handle_error.
  destruct (has_use_of_closed e), (has_broken_pipe e), (has_canceled e), (is_eof e),
    (is_neterr e), (is_timeout e); cbn; intros H1 H2; auto; intuition discriminate.
Qed.

(* ---- lists ------------------------------------------------------------------- *)

Lemma split_last_some l i z : split_last l = Some (i, z) -> l = i ++ [z].
Proof.
  revert i z; induction l as [|x r IH]; intros i z H; cbn in H; [discriminate|].
  destruct (split_last r) as [[i' z']|] eqn:E.
  - inversion H; subst. cbn. f_equal. now apply IH.
  - inversion H; subst. destruct r; [reflexivity|]. cbn in E. destruct (split_last r) as [[? ?]|]; discriminate.
Qed.

Lemma split_last_none l : split_last l = None -> l = [].
Proof. destruct l as [|x r]; cbn; auto. destruct (split_last r) as [[? ?]|]; discriminate. Qed.

Lemma swap_remove_in y c l : In y (swap_remove c l) -> In y l.
Proof.
  induction l as [|x r IH]; cbn; auto.
  destruct (x =? c) eqn:E.
  - destruct (split_last r) as [[i z]|] eqn:Es; [|intros []].
    apply split_last_some in Es. subst r. intros [<-|H]; right; apply in_or_app; cbn; auto.
  - intros [<-|H]; auto.
Qed.

Lemma swap_remove_notin c l : NoDup l -> ~ In c (swap_remove c l).
Proof.
  induction l as [|x r IH]; cbn; auto. intros Hn. inversion Hn as [|? ? Hx Hr]; subst.
  destruct (x =? c) eqn:E.
  - apply Nat.eqb_eq in E. subst x.
    destruct (split_last r) as [[i z]|] eqn:Es; [|intros []].
    apply split_last_some in Es. subst r. intros [<-|H]; apply Hx, in_or_app; cbn; auto.
  - apply Nat.eqb_neq in E. intros [H|H]; [congruence|]. now apply IH.
Qed.

Lemma swap_remove_nodup c l : NoDup l -> NoDup (swap_remove c l).
Proof.
  induction l as [|x r IH]; cbn; auto. intros Hn. inversion Hn as [|? ? Hx Hr]; subst.
  destruct (x =? c) eqn:E.
  - destruct (split_last r) as [[i z]|] eqn:Es; [|constructor].
    apply split_last_some in Es. subst r.
    apply NoDup_remove in Hr. rewrite app_nil_r in Hr. destruct Hr as [Hi Hz]. now constructor.
  - constructor; auto. intros H. apply Hx. eapply swap_remove_in; eauto.
Qed.

Lemma swap_remove_keeps y c l : y <> c -> In y l -> In y (swap_remove c l).
Proof.
  intros Hy. induction l as [|x r IH]; cbn; auto.
  destruct (x =? c) eqn:E.
  - apply Nat.eqb_eq in E. subst x. intros [H|H]; [congruence|].
    destruct (split_last r) as [[i z]|] eqn:Es.
    + apply split_last_some in Es. subst r. apply in_app_or in H. cbn in H. cbn. intuition.
    + apply split_last_none in Es. subst r. destruct H.
  - intros [<-|H]; cbn; auto.
Qed.

Lemma NoDup_snoc (l : list nat) c : NoDup l -> ~ In c l -> NoDup (l ++ [c]).
Proof.
  induction l as [|a l IH]; cbn; intros N H.
  - constructor; auto; constructor.
  - inversion N; subst. constructor.
    + intros H'. apply in_app_or in H'. cbn in H'. destruct H' as [H'|[H'|[]]]; auto.
    + apply IH; auto.
Qed.

Lemma mem_in c l : mem c l = true <-> In c l.
Proof.
  unfold mem. rewrite existsb_exists. split.
  - intros (x & Hx & E). apply Nat.eqb_eq in E. now subst.
  - intros H. exists c. split; auto. apply Nat.eqb_refl.
Qed.

(* ---- handler calls of one connection ------------------------------------------ *)

Definition calls_of (c : nat) (l : list (nat * nat * nat)) : list (nat * nat * nat) :=
  filter (fun x => snd x =? c) l.

Arguments calls_of : simpl never.

Definition ncalled (l : lstate) (n : nat) : nat :=
  match l with
  | LTrig k => k
  | LExited true => n
  | _ => 0
  end.

Definition expected_calls (s : state) (c : nat) : list (nat * nat * nat) :=
  match conns s c with
  | Some x => map (fun k => (k, cpeer x, c)) (seq 0 (ncalled (loop x) (nh s)))
  | None => []
  end.

Definition pc_ok (s : state) (t : nat) (th : thread) : Prop :=
  match tpc th with
  | PIdent c _ | PReg c _ =>
      exists x, conns s c = Some x /\ loop x = LFresh t /\ cpeer x = tpeer th /\ ~ In c (table s (tpeer th))
  | PLaunch c _ =>
      exists x, conns s c = Some x /\ loop x = LFresh t /\ cpeer x = tpeer th
  | _ => True
  end.

Record Inv (s : state) : Prop := {
  i_fresh : forall c, nextc s <= c -> conns s c = None;
  i_tfresh : forall t, nextt s <= t -> threads s t = None;
  i_tabc : forall p c, In c (table s p) ->
           exists x, conns s c = Some x /\ cpeer x = p /\ forall e, loop x <> LExited e;
  i_nodup : forall p, NoDup (table s p);
  i_exitc : forall c x e, conns s c = Some x -> loop x = LExited e -> lclosed x = true;
  i_calls : forall c, calls_of c (calls s) = expected_calls s c;
  i_trig : forall c x k, conns s c = Some x -> loop x = LTrig k -> k <= nh s;
  i_thr : forall t th, threads s t = Some th -> pc_ok s t th;
  i_env : forall c x, conns s c = Some x -> alive x = true -> sink x = false ->
          cinc x = incn s (cpeer x) /\ listening s (cpeer x) = true }.

Lemma Inv_init b n : Inv (init b n).
Proof.
  constructor; cbn; intros; try discriminate; try contradiction; auto; constructor.
Qed.

Lemma upd_same {A} (f : nat -> A) k v : upd f k v k = v.
Proof. unfold upd. now rewrite Nat.eqb_refl. Qed.

Lemma upd_other {A} (f : nat -> A) k v x : x <> k -> upd f k v x = f x.
Proof. unfold upd. intros H. apply Nat.eqb_neq in H. now rewrite H. Qed.

Arguments upd : simpl never.

Lemma calls_of_app c l1 l2 : calls_of c (l1 ++ l2) = calls_of c l1 ++ calls_of c l2.
Proof. unfold calls_of. apply filter_app. Qed.

Lemma seq_S_end n : seq 0 (S n) = seq 0 n ++ [n].
Proof. rewrite seq_S. reflexivity. Qed.

Ltac upd_cases :=
  repeat match goal with
  | |- context [upd _ ?k _ ?x] =>
      destruct (Nat.eq_dec x k); [subst; rewrite ?upd_same|rewrite ?(upd_other _ k _ x) by assumption]
  | H : context [upd _ ?k _ ?x] |- _ =>
      destruct (Nat.eq_dec x k); [subst; rewrite ?upd_same in H|rewrite ?(upd_other _ k _ x) in H by assumption]
  end.

Ltac inv_some :=
  repeat match goal with
  | H : Some _ = Some _ |- _ => inversion H; subst; clear H
  | H : None = Some _ |- _ => discriminate
  | H : Some _ = None |- _ => discriminate
  end.

Ltac break_if H :=
  match type of H with
  | context [match ?x with _ => _ end] => destruct x eqn:?
  end.

Ltac crush :=
  cbn in *; intros; upd_cases; inv_some; subst; cbn in *; eauto; try lia; try congruence.

(* ---- generic preservation lemmas ------------------------------------------------- *)

Lemma pc_ok_upd_conn_gen s s' c x' t th :
  pc_ok s t th -> (forall p c0, In c0 (table s' p) -> In c0 (table s p)) ->
  conns s' = upd (conns s) c (Some x') ->
  (forall x, conns s c = Some x -> loop x = LFresh t -> loop x' = LFresh t /\ cpeer x' = cpeer x) ->
  pc_ok s' t th.
Proof.
  unfold pc_ok. intros H Ht Hc Hx. rewrite Hc.
  destruct (tpc th); auto.
  all: destruct H as (x & H1 & H2 & H3).
  all: upd_cases; [destruct (Hx x H1 H2) as [Ha Hb]; exists x'; rewrite Ha, Hb|exists x]; intuition eauto.
Qed.

Lemma pc_ok_upd_conn s s' c x' t th :
  pc_ok s t th -> table s' = table s -> conns s' = upd (conns s) c (Some x') ->
  (forall x, conns s c = Some x -> loop x = LFresh t -> loop x' = LFresh t /\ cpeer x' = cpeer x) ->
  pc_ok s' t th.
Proof.
  intros H Ht. eapply pc_ok_upd_conn_gen; eauto. intros p c0. now rewrite Ht.
Qed.

Lemma Inv_upd_conn s s' c x x' :
  Inv s -> conns s c = Some x ->
  nh s' = nh s -> table s' = table s -> nextc s' = nextc s -> nextt s' = nextt s ->
  listening s' = listening s -> incn s' = incn s -> calls s' = calls s ->
  conns s' = upd (conns s) c (Some x') ->
  cpeer x' = cpeer x -> cinc x' = cinc x -> sink x' = sink x -> (alive x' = true -> alive x = true) ->
  ncalled (loop x') (nh s) = ncalled (loop x) (nh s) ->
  (forall e, loop x' <> LExited e) ->
  (forall k, loop x' = LTrig k -> k <= nh s) ->
  (forall t, nextt s <= t -> threads s' t = None) ->
  (forall t th, threads s' t = Some th -> pc_ok s' t th) ->
  Inv s'.
Proof.
  intros [F TF T N E C G R V] Hx Hn Ht Hnc Hnt Hl Hi Hca Hc Hp Hci Hs Ha Hnc' Hne Hk Htf Hth.
  constructor; unfold expected_calls; rewrite ?Hn, ?Ht, ?Hnc, ?Hnt, ?Hl, ?Hi, ?Hca, ?Hc; auto.
  - intros c0 H. upd_cases; auto. rewrite F in Hx by assumption. discriminate.
  - intros p c0 H. destruct (T p c0 H) as (y & Hy & Hp' & Hl'). upd_cases.
    + exists x'. rewrite Hx in Hy. inv_some. repeat split; auto; congruence.
    + exists y. auto.
  - intros c0 y e H Hl'. upd_cases.
    + inv_some. exfalso. eapply Hne; eauto.
    + eapply E; eauto.
  - intros c0. rewrite C. unfold expected_calls. upd_cases; auto. rewrite Hx, Hp, Hnc'. reflexivity.
  - intros c0 y k H Hl'. upd_cases.
    + inv_some. auto.
    + eapply G; eauto.
  - intros c0 y H Hal Hsk. upd_cases.
    + inv_some. rewrite Hci, Hp. eapply V; eauto; congruence.
    + eapply V; eauto.
Qed.

(* only the threads (and possibly delivered / dispatched) change *)
Lemma Inv_upd_threads s s' :
  Inv s ->
  nh s' = nh s -> table s' = table s -> conns s' = conns s -> nextc s' = nextc s ->
  listening s' = listening s -> incn s' = incn s -> calls s' = calls s ->
  (forall t, nextt s' <= t -> threads s' t = None) ->
  (forall t th, threads s' t = Some th -> pc_ok s t th) ->
  Inv s'.
Proof.
  intros [F TF T N E C G R V] Hn Ht Hc Hx Hl Hi Hca Htf Hth.
  constructor; unfold expected_calls, pc_ok in *; rewrite ?Hn, ?Ht, ?Hc, ?Hx, ?Hl, ?Hi, ?Hca in *; auto.
Qed.

Lemma pc_ok_same_conns s s' t th :
  pc_ok s t th -> table s' = table s -> conns s' = conns s -> pc_ok s' t th.
Proof. unfold pc_ok. intros H Ht Hc. now rewrite Ht, Hc. Qed.

(* a new connection number *)
Lemma Inv_new_conn s s' x0 :
  Inv s ->
  nh s' = nh s -> table s' = table s -> nextc s' = S (nextc s) ->
  listening s' = listening s -> incn s' = incn s -> calls s' = calls s ->
  conns s' = upd (conns s) (nextc s) (Some x0) ->
  ncalled (loop x0) (nh s) = 0 ->
  (forall e, loop x0 = LExited e -> lclosed x0 = true) ->
  (forall k, loop x0 <> LTrig k) ->
  (alive x0 = true -> sink x0 = false -> cinc x0 = incn s (cpeer x0) /\ listening s (cpeer x0) = true) ->
  (forall t, nextt s' <= t -> threads s' t = None) ->
  (forall t th, threads s' t = Some th -> pc_ok s' t th) ->
  Inv s'.
Proof.
  intros [F TF T N E C G R V] Hn Ht Hnc Hl Hi Hca Hc Hcalls Hex Htr Henv Htf Hth.
  constructor; unfold expected_calls; rewrite ?Hn, ?Ht, ?Hnc, ?Hl, ?Hi, ?Hca, ?Hc; auto.
  - intros c0 H. upd_cases; [lia|apply F; lia].
  - intros p c0 H. destruct (T p c0 H) as (y & Hy & Hp' & Hl'). upd_cases.
    + rewrite F in Hy by lia. discriminate.
    + exists y. auto.
  - intros c0 y e H Hl'. upd_cases; [inv_some; eauto|eapply E; eauto].
  - intros c0. rewrite C. unfold expected_calls. upd_cases; auto.
    rewrite F by lia. rewrite Hcalls. reflexivity.
  - intros c0 y k H Hl'. upd_cases; [inv_some; exfalso; eapply Htr; eauto|eapply G; eauto].
  - intros c0 y H Hal Hsk. upd_cases; [inv_some; auto|eapply V; eauto].
Qed.

Lemma pc_ok_new_conn s s' x0 t th :
  pc_ok s t th -> Inv s -> table s' = table s -> conns s' = upd (conns s) (nextc s) (Some x0) ->
  pc_ok s' t th.
Proof.
  unfold pc_ok. intros H I Ht Hc. rewrite Ht, Hc.
  destruct (tpc th); auto.
  all: destruct H as (x & H1 & H2); upd_cases; [rewrite (i_fresh _ I) in H1 by lia; discriminate|exists x; auto].
Qed.

(* one more entry in the slice of p *)
Lemma Inv_tab_append s s' p c x :
  Inv s -> conns s c = Some x -> cpeer x = p -> (forall e, loop x <> LExited e) -> ~ In c (table s p) ->
  nh s' = nh s -> table s' = upd (table s) p (table s p ++ [c]) -> conns s' = conns s -> nextc s' = nextc s ->
  listening s' = listening s -> incn s' = incn s -> calls s' = calls s ->
  (forall t, nextt s' <= t -> threads s' t = None) ->
  (forall t th, threads s' t = Some th -> pc_ok s' t th) ->
  Inv s'.
Proof.
  intros [F TF T N E C G R V] Hx Hp Hl Hni Hn Ht Hc Hnc Hli Hi Hca Htf Hth.
  constructor; unfold expected_calls; rewrite ?Hn, ?Ht, ?Hc, ?Hnc, ?Hli, ?Hi, ?Hca; auto.
  - intros p0 c0 H. upd_cases; [|auto]. apply in_app_or in H. destruct H as [H|[<-|[]]]; auto.
    exists x. auto.
  - intros p0. upd_cases; auto. apply NoDup_snoc; auto.
Qed.

(* ---- one lemma per action --------------------------------------------------------- *)

Ltac thr_unchanged I Hx Hl :=
  let t := fresh "t" in let th := fresh "th" in let Ht := fresh "Ht" in
  let x0 := fresh "x0" in let Hx0 := fresh "Hx0" in let Hf := fresh "Hf" in
  intros t th Ht; eapply pc_ok_upd_conn;
  [apply (i_thr _ I _ _ Ht)|reflexivity|reflexivity|
   intros x0 Hx0 Hf; rewrite Hx in Hx0; inversion Hx0; subst; rewrite Hl in Hf; discriminate].

Ltac upd_conn_side I Hx Hl :=
  cbn; try reflexivity; try congruence; try (rewrite Hl; reflexivity);
  try (intros; discriminate); try (apply (i_tfresh _ I)); try (thr_unchanged I Hx Hl).

Lemma step_recverr s c e s' : Inv s -> step s (ARecvErr c e) = Some s' -> Inv s'.
Proof.
  intros I H. cbv beta iota zeta delta [step] in H.
  destruct (conns s c) as [x|] eqn:Hx; [|discriminate].
  destruct (loop x) eqn:Hl; try discriminate.
  destruct (closed s).
  - inv_some. eapply (Inv_upd_conn s _ c x (set_loop x LQuit)); eauto; upd_conn_side I Hx Hl.
  - destruct (classify e); inv_some; auto.
    eapply (Inv_upd_conn s _ c x (set_loop x (LTrig 0))); eauto; upd_conn_side I Hx Hl.
    intros k Hk. inversion Hk. lia.
Qed.

Lemma Inv_dispatched s v : Inv s -> Inv (set_dispatched s v).
Proof.
  intros I. eapply Inv_upd_threads; eauto; try reflexivity; cbn.
  - apply (i_tfresh _ I).
  - apply (i_thr _ I).
Qed.

Lemma Inv_delivered s v : Inv s -> Inv (set_delivered s v).
Proof.
  intros I. eapply Inv_upd_threads; eauto; try reflexivity; cbn.
  - apply (i_tfresh _ I).
  - apply (i_thr _ I).
Qed.

Lemma step_recvmsg s c m s' : Inv s -> step s (ARecvMsg c m) = Some s' -> Inv s'.
Proof.
  intros I H. cbv beta iota zeta delta [step] in H.
  destruct (conns s c) as [x|] eqn:Hx; [|discriminate].
  destruct (loop x) eqn:Hl; try discriminate.
  destruct (closed s); inv_some.
  - eapply (Inv_upd_conn s _ c x (set_loop x LQuit)); eauto; upd_conn_side I Hx Hl.
  - now apply Inv_dispatched.
Qed.

Lemma step_launchinc s c s' : Inv s -> step s (ALaunchInc c) = Some s' -> Inv s'.
Proof.
  intros I H. cbv beta iota zeta delta [step] in H.
  destruct (conns s c) as [x|] eqn:Hx; [|discriminate].
  destruct (loop x) eqn:Hl; try discriminate.
  destruct (mem c (table s (cpeer x))); [|discriminate].
  destruct (closed s); inv_some; auto.
  eapply (Inv_upd_conn s _ c x (set_loop x LRun)); eauto; upd_conn_side I Hx Hl.
Qed.

Lemma step_trigger s c s' : Inv s -> step s (ATrigger c) = Some s' -> Inv s'.
Proof.
  intros I H. cbv beta iota zeta delta [step] in H.
  destruct (conns s c) as [x|] eqn:Hx; [|discriminate].
  destruct (loop x) eqn:Hl; try discriminate.
  destruct (k <? nh s) eqn:Hk; [|discriminate]. apply Nat.ltb_lt in Hk. inv_some.
  destruct I as [F TF T N E C G R V].
  constructor; unfold expected_calls; cbn; auto.
  - intros c0 H. upd_cases; auto. rewrite F in Hx by assumption. discriminate.
  - intros p c0 H. destruct (T p c0 H) as (y & Hy & Hp' & Hl'). upd_cases.
    + rewrite Hx in Hy. inv_some. eexists. split; [reflexivity|]. cbn. split; auto. intros; discriminate.
    + exists y. auto.
  - intros c0 y e H Hl'. upd_cases; [inv_some; discriminate|eapply E; eauto].
  - intros c0. rewrite calls_of_app, C. unfold expected_calls. cbn. upd_cases.
    + rewrite Hx, Hl. unfold set_loop. cbn [loop cpeer ncalled]. rewrite seq_S_end, map_app.
      unfold calls_of. cbn [filter snd map]. now rewrite Nat.eqb_refl.
    + unfold calls_of. cbn [filter snd]. apply Nat.eqb_neq in n. rewrite Nat.eqb_sym, n. now rewrite app_nil_r.
  - intros c0 y k0 H Hl'. upd_cases; [inv_some; cbn in Hl'; inversion Hl'; lia|eapply G; eauto].
  - intros t th Ht. eapply pc_ok_upd_conn; [apply (R _ _ Ht)|reflexivity|reflexivity|].
    intros x0 Hx0 Hf. rewrite Hx in Hx0. inv_some. rewrite Hl in Hf. discriminate.
  - intros c0 y H Hal Hsk. upd_cases; [inv_some; cbn in *; eapply V; eauto|eapply V; eauto].
Qed.

Lemma step_exit s c s' : Inv s -> step s (AExit c) = Some s' -> Inv s'.
Proof.
  intros I H. cbv beta iota zeta delta [step] in H.
  destruct (conns s c) as [x|] eqn:Hx; [|discriminate].
  assert (Hcase : exists err, (loop x = LQuit /\ err = false \/ exists k, loop x = LTrig k /\ nh s <= k /\ err = true) /\
            s' = set_table (set_conn s c (set_loop (set_lclosed x true) (LExited err)))
                           (upd (table s) (cpeer x) (swap_remove c (table s (cpeer x))))).
  { destruct (loop x) eqn:Hl; try discriminate.
    - destruct (nh s <=? k) eqn:Hk; [|discriminate]. apply Nat.leb_le in Hk. inv_some.
      exists true. split; auto. right. eauto.
    - inv_some. exists false. split; auto. }
  clear H. destruct Hcase as (err & Hloop & ->).
  assert (Hnf : forall t, loop x <> LFresh t).
  { intros t Hf. destruct Hloop as [[H _]|(k & H & _)]; congruence. }
  assert (Hsub : forall p c0, In c0 (upd (table s) (cpeer x) (swap_remove c (table s (cpeer x))) p) -> In c0 (table s p)).
  { intros p c0. upd_cases; auto. apply swap_remove_in. }
  destruct I as [F TF T N E C G R V].
  constructor; unfold expected_calls; cbn; auto.
  - intros c0 H. upd_cases; auto. rewrite F in Hx by assumption. discriminate.
  - intros p c0 H. pose proof (Hsub _ _ H) as H0. destruct (T _ _ H0) as (y & Hy & Hp & Hl).
    destruct (Nat.eq_dec c0 c) as [->|Hne].
    + exfalso. rewrite Hx in Hy. inv_some. rewrite upd_same in H. eapply swap_remove_notin; eauto.
    + rewrite upd_other by auto. exists y; auto.
  - intros p. upd_cases; auto. now apply swap_remove_nodup.
  - intros c0 y e H Hl'. upd_cases; [inv_some; reflexivity|eapply E; eauto].
  - intros c0. rewrite C. unfold expected_calls. upd_cases; auto. rewrite Hx. cbn.
    destruct Hloop as [[Hl ->]|(k & Hl & Hk & ->)]; rewrite Hl; cbn; auto.
    specialize (G _ _ _ Hx Hl). replace k with (nh s) by lia. reflexivity.
  - intros c0 y k0 H Hl'. upd_cases; [inv_some; discriminate|eapply G; eauto].
  - intros t th Ht. eapply pc_ok_upd_conn_gen; [apply (R _ _ Ht)|exact Hsub|reflexivity|].
    intros x0 Hx0 Hf. rewrite Hx in Hx0. inv_some. exfalso. eapply Hnf; eauto.
  - intros c0 y H Hal Hsk. upd_cases; [inv_some; cbn in *; eapply V; eauto|eapply V; eauto].
Qed.

(* a new connection, possibly appended to the slice of its peer *)
Lemma Inv_accept s x0 (reg : bool) :
  Inv s ->
  ncalled (loop x0) (nh s) = 0 ->
  (forall e, loop x0 = LExited e -> lclosed x0 = true /\ reg = false) ->
  (forall k, loop x0 <> LTrig k) -> (forall t, loop x0 <> LFresh t) ->
  (alive x0 = true -> sink x0 = false -> cinc x0 = incn s (cpeer x0) /\ listening s (cpeer x0) = true) ->
  let s1 := set_nextc (set_conn s (nextc s) x0) (S (nextc s)) in
  Inv (if reg then set_table s1 (upd (table s1) (cpeer x0) (table s1 (cpeer x0) ++ [nextc s])) else s1).
Proof.
  intros I Hc He Hk Hf Henv s1.
  assert (I1 : Inv s1).
  { eapply (Inv_new_conn s s1 x0); eauto; try reflexivity.
    - intros e H. apply (He e H).
    - apply (i_tfresh _ I).
    - intros t th Ht. eapply pc_ok_new_conn; [apply (i_thr _ I _ _ Ht)|auto|reflexivity|reflexivity]. }
  destruct reg; auto.
  eapply (Inv_tab_append s1 _ (cpeer x0) (nextc s) x0); eauto; try reflexivity.
  - subst s1. cbn. now rewrite upd_same.
  - intros e H. destruct (He e H). discriminate.
  - subst s1. cbn. intros H. destruct (i_tabc _ I _ _ H) as (y & Hy & _).
    rewrite (i_fresh _ I) in Hy by lia. discriminate.
  - apply (i_tfresh _ I1).
  - intros t th Ht. cbn in Ht. pose proof (i_thr _ I1 _ _ Ht) as P.
    unfold pc_ok in *. destruct (tpc th); auto.
    all: destruct P as (x & P1 & P2 & P3 & P4); exists x; repeat split; auto.
    all: cbn; intros H; upd_cases; auto.
    all: apply in_app_or in H; destruct H as [H|[H|[]]]; auto.
    all: subst c; subst s1; cbn in P1; rewrite upd_same in P1; inv_some; eapply Hf; eauto.
Qed.

Lemma step_accept s p s' : Inv s -> step s (AAccept p) = Some s' -> Inv s'.
Proof.
  intros I H. cbv beta iota zeta delta [step new_conn] in H.
  destruct (listening s p) eqn:Hl; [|discriminate].
  pose proof (Inv_accept s (mkConn p (incn s p) true false false LNone) (negb (closed s)) I) as A.
  cbn in A. destruct (closed s); cbn in *; inv_some; apply A; auto; intros; try discriminate.
Qed.

Lemma step_acceptfail s p s' : Inv s -> step s (AAcceptFail p) = Some s' -> Inv s'.
Proof.
  intros I H. cbv beta iota zeta delta [step] in H. inv_some.
  pose proof (Inv_accept s (mkConn p (incn s p) false true false (LExited false)) false I) as A.
  cbn in A. apply A; auto; intros; try discriminate.
Qed.

Lemma step_acceptclosing s b p s' : Inv s -> step s (AAcceptClosing b p) = Some s' -> Inv s'.
Proof.
  intros I H. cbv beta iota zeta delta [step] in H.
  destruct (listening s p) eqn:Hl; [discriminate|].
  pose proof (Inv_accept s (mkConn p (incn s p) (negb b) false (negb b) LNone) (negb (closed s)) I) as A.
  cbn in A. destruct (closed s); cbn in *; inv_some; apply A; auto; intros; try discriminate.
  all: destruct b; discriminate.
Qed.

(* environment and close: every connection record is mapped, loops untouched *)
Lemma Inv_map_conns s s' (f : nat -> conn -> conn) :
  Inv s ->
  nh s' = nh s -> table s' = table s -> nextc s' = nextc s -> calls s' = calls s ->
  threads s' = threads s -> nextt s' = nextt s ->
  conns s' = (fun c => match conns s c with Some x => Some (f c x) | None => None end) ->
  (forall c x, cpeer (f c x) = cpeer x /\ loop (f c x) = loop x /\ (lclosed x = true -> lclosed (f c x) = true)) ->
  (forall c x, conns s c = Some x -> alive (f c x) = true -> sink (f c x) = false ->
               cinc (f c x) = incn s' (cpeer x) /\ listening s' (cpeer x) = true) ->
  Inv s'.
Proof.
  intros [F TF T N E C G R V] Hn Ht Hnc Hca Hth Hnt Hc Hf Henv.
  constructor; unfold expected_calls, pc_ok; rewrite ?Hn, ?Ht, ?Hnc, ?Hca, ?Hth, ?Hnt, ?Hc; auto.
  - intros c H. now rewrite F.
  - intros p c H. destruct (T p c H) as (y & Hy & Hp & Hl). rewrite Hy. exists (f c y).
    destruct (Hf c y) as (A & B & _). rewrite A, B. auto.
  - intros c x e H Hl. destruct (conns s c) as [y|] eqn:Hy; inv_some.
    destruct (Hf c y) as (A & B & D). apply D. eapply E; eauto. congruence.
  - intros c. rewrite C. unfold expected_calls. destruct (conns s c) as [y|]; auto.
    destruct (Hf c y) as (A & B & _). now rewrite A, B.
  - intros c x k H Hl. destruct (conns s c) as [y|] eqn:Hy; inv_some.
    destruct (Hf c y) as (A & B & D). eapply G; eauto. congruence.
  - intros t th H. specialize (R t th H). unfold pc_ok in R. destruct (tpc th); auto.
    all: destruct R as (x & R1 & R2 & R3); rewrite R1; exists (f c x).
    all: destruct (Hf c x) as (A & B & _); rewrite A, B; auto.
  - intros c x H Hal Hsk. destruct (conns s c) as [y|] eqn:Hy; inv_some.
    destruct (Hf c y) as (A & _). rewrite A. now apply Henv.
Qed.

Lemma step_crash s p s' : Inv s -> step s (ACrash p) = Some s' -> Inv s'.
Proof.
  intros I H. cbv beta iota zeta delta [step] in H. inv_some.
  eapply (Inv_map_conns s _ (fun _ x => if (cpeer x =? p) && negb (sink x) then set_alive x false else x));
    eauto; try reflexivity.
  - cbn. apply FunctionalExtensionality_free.
  - intros c x. destruct ((cpeer x =? p) && negb (sink x)); cbn; auto.
  - cbn. intros c x Hx Hal Hsk.
    destruct ((cpeer x =? p) && negb (sink x)) eqn:Hb; cbn in *; [discriminate|].
    destruct (i_env _ I _ _ Hx Hal Hsk) as [A B]. split; auto.
    upd_cases; auto. rewrite Nat.eqb_refl, Hsk in Hb. discriminate.
Qed.
