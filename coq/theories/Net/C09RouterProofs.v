(* C09 -- proofs about the survivor-side router transition system of Net/C09Router.v *)
From Coq Require Import List Arith Bool Lia.
Import ListNotations.
From Onet Require Import Net.C09Router.

(* ---- classifier ------------------------------------------------------------- *)

Lemma classify_drop_iff c :
  classify c = Drop <-> c = ETimeout \/ c = EClosed \/ c = EEOF \/ c = EUnknown \/ c = ETooBig.
Proof. destruct c; cbn; split; intros H; try discriminate; auto 6; intuition discriminate. Qed.

Lemma classify_continue_iff c : classify c = Continue <-> c = ECanceled \/ c = EOther.
Proof. destruct c; cbn; split; intros H; try discriminate; auto; intuition discriminate. Qed.

Lemma classify_total c : classify c = Drop \/ classify c = Continue.
Proof. destruct c; cbn; auto. Qed.

Lemma handle_error_never_other e : handle_error e <> EOther /\ handle_error e <> ETooBig.
Proof.
  unfold handle_error.
  destruct (has_use_of_closed e || has_broken_pipe e), (has_canceled e), (is_eof e),
    (negb (is_neterr e)), (is_timeout e); split; discriminate.
Qed.

(* the raw errors that keep the receive loop running are exactly the "canceled" ones *)
Lemma raw_continue_iff e :
  classify (handle_error e) = Continue <->
  has_use_of_closed e = false /\ has_broken_pipe e = false /\ has_canceled e = true.
Proof.
  unfold handle_error.
  destruct (has_use_of_closed e), (has_broken_pipe e), (has_canceled e), (is_eof e),
    (is_neterr e), (is_timeout e); cbn; split; intros H; try discriminate; auto;
    destruct H as (?&?&?); discriminate.
Qed.

Lemma raw_lost_drops e :
  (is_eof e = true \/ has_use_of_closed e = true \/ has_broken_pipe e = true \/
   (is_neterr e = true /\ has_canceled e = false) \/ (is_neterr e = false /\ has_canceled e = false)) ->
  has_canceled e = false \/ has_use_of_closed e = true \/ has_broken_pipe e = true ->
  classify (handle_error e) = Drop.
Proof.
  unfold handle_error.
  destruct (has_use_of_closed e), (has_broken_pipe e), (has_canceled e), (is_eof e),
    (is_neterr e), (is_timeout e); cbn; intros H1 H2; auto; intuition discriminate.
Qed.

(* ---- lists ------------------------------------------------------------------- *)

Lemma split_last_some l i z : split_last l = Some (i, z) -> l = i ++ [z].
Proof.
  revert i z; induction l as [|x r IH]; intros i z H; cbn in H; [discriminate|].
  destruct (split_last r) as [[i' z']|] eqn:E.
  - inversion H; subst. cbn. f_equal. now apply IH.
  - inversion H; subst. destruct r; [reflexivity|]. cbn in E. destruct (split_last r) as [[? ?]|]; discriminate.
Qed.

Lemma split_last_none l : split_last l = None -> l = [].
Proof. destruct l as [|x r]; cbn; auto. destruct (split_last r) as [[? ?]|]; discriminate. Qed.

Lemma swap_remove_in y c l : In y (swap_remove c l) -> In y l.
Proof.
  induction l as [|x r IH]; cbn; auto.
  destruct (x =? c) eqn:E.
  - destruct (split_last r) as [[i z]|] eqn:Es; [|intros []].
    apply split_last_some in Es. subst r. intros [<-|H]; right; apply in_or_app; cbn; auto.
  - intros [<-|H]; auto.
Qed.

Lemma swap_remove_notin c l : NoDup l -> ~ In c (swap_remove c l).
Proof.
  induction l as [|x r IH]; cbn; auto. intros Hn. inversion Hn as [|? ? Hx Hr]; subst.
  destruct (x =? c) eqn:E.
  - apply Nat.eqb_eq in E. subst x.
    destruct (split_last r) as [[i z]|] eqn:Es; [|intros []].
    apply split_last_some in Es. subst r. intros [<-|H]; apply Hx, in_or_app; cbn; auto.
  - apply Nat.eqb_neq in E. intros [H|H]; [congruence|]. now apply IH.
Qed.

Lemma swap_remove_nodup c l : NoDup l -> NoDup (swap_remove c l).
Proof.
  induction l as [|x r IH]; cbn; auto. intros Hn. inversion Hn as [|? ? Hx Hr]; subst.
  destruct (x =? c) eqn:E.
  - destruct (split_last r) as [[i z]|] eqn:Es; [|constructor].
    apply split_last_some in Es. subst r.
    apply NoDup_remove in Hr. rewrite app_nil_r in Hr. destruct Hr as [Hi Hz]. now constructor.
  - constructor; auto. intros H. apply Hx. eapply swap_remove_in; eauto.
Qed.

Lemma swap_remove_keeps y c l : y <> c -> In y l -> In y (swap_remove c l).
Proof.
  intros Hy. induction l as [|x r IH]; cbn; auto.
  destruct (x =? c) eqn:E.
  - apply Nat.eqb_eq in E. subst x. intros [H|H]; [congruence|].
    destruct (split_last r) as [[i z]|] eqn:Es.
    + apply split_last_some in Es. subst r. apply in_app_or in H. cbn in H. cbn. intuition.
    + apply split_last_none in Es. subst r. destruct H.
  - intros [<-|H]; cbn; auto.
Qed.

Lemma NoDup_snoc (l : list nat) c : NoDup l -> ~ In c l -> NoDup (l ++ [c]).
Proof.
  induction l as [|a l IH]; cbn; intros N H.
  - constructor; auto; constructor.
  - inversion N; subst. constructor.
    + intros H'. apply in_app_or in H'. cbn in H'. destruct H' as [H'|[H'|[]]]; auto.
    + apply IH; auto.
Qed.

Lemma mem_in c l : mem c l = true <-> In c l.
Proof.
  unfold mem. rewrite existsb_exists. split.
  - intros (x & Hx & E). apply Nat.eqb_eq in E. now subst.
  - intros H. exists c. split; auto. apply Nat.eqb_refl.
Qed.

(* ---- handler calls of one connection ------------------------------------------ *)

Definition calls_of (c : nat) (l : list (nat * nat * nat)) : list (nat * nat * nat) :=
  filter (fun x => snd x =? c) l.

Arguments calls_of : simpl never.

Definition ncalled (l : lstate) (n : nat) : nat :=
  match l with
  | LTrig k => k
  | LExited true => n
  | _ => 0
  end.

Definition expected_calls (s : state) (c : nat) : list (nat * nat * nat) :=
  match conns s c with
  | Some x => map (fun k => (k, cpeer x, c)) (seq 0 (ncalled (loop x) (nh s)))
  | None => []
  end.

Definition pc_ok (s : state) (t : nat) (th : thread) : Prop :=
  match tpc th with
  | PIdent c _ | PReg c _ =>
      exists x, conns s c = Some x /\ loop x = LFresh t /\ cpeer x = tpeer th /\ ~ In c (table s (tpeer th))
  | PLaunch c _ =>
      exists x, conns s c = Some x /\ loop x = LFresh t /\ cpeer x = tpeer th
  | _ => True
  end.

Record Inv (s : state) : Prop := {
  i_fresh : forall c, nextc s <= c -> conns s c = None;
  i_tfresh : forall t, nextt s <= t -> threads s t = None;
  i_tabc : forall p c, In c (table s p) ->
           exists x, conns s c = Some x /\ cpeer x = p /\ forall e, loop x <> LExited e;
  i_nodup : forall p, NoDup (table s p);
  i_exitc : forall c x e, conns s c = Some x -> loop x = LExited e -> lclosed x = true;
  i_calls : forall c, calls_of c (calls s) = expected_calls s c;
  i_trig : forall c x k, conns s c = Some x -> loop x = LTrig k -> k <= nh s;
  i_thr : forall t th, threads s t = Some th -> pc_ok s t th;
  i_env : forall c x, conns s c = Some x -> alive x = true -> sink x = false ->
          cinc x = incn s (cpeer x) /\ listening s (cpeer x) = true }.

Lemma Inv_init f b n : Inv (init f b n).
Proof.
  constructor; cbn; intros; try discriminate; try contradiction; auto; constructor.
Qed.

Lemma upd_same {A} (f : nat -> A) k v : upd f k v k = v.
Proof. unfold upd. now rewrite Nat.eqb_refl. Qed.

Lemma upd_other {A} (f : nat -> A) k v x : x <> k -> upd f k v x = f x.
Proof. unfold upd. intros H. apply Nat.eqb_neq in H. now rewrite H. Qed.

Arguments upd : simpl never.

Lemma calls_of_app c l1 l2 : calls_of c (l1 ++ l2) = calls_of c l1 ++ calls_of c l2.
Proof. unfold calls_of. apply filter_app. Qed.

Lemma seq_S_end n : seq 0 (S n) = seq 0 n ++ [n].
Proof. rewrite seq_S. reflexivity. Qed.

Ltac upd_cases :=
  repeat match goal with
  | |- context [upd ?f ?k ?v ?x] =>
      let e := fresh "e" in
      destruct (Nat.eq_dec x k) as [e|];
      [first [subst x|subst k|rewrite e in *]; rewrite !upd_same|rewrite !(upd_other f k v x) by assumption]
  | H : context [upd ?f ?k ?v ?x] |- _ =>
      let e := fresh "e" in
      destruct (Nat.eq_dec x k) as [e|];
      [first [subst x|subst k|rewrite e in *]; rewrite !upd_same in H|rewrite !(upd_other f k v x) in H by assumption]
  end.

Ltac inv_some :=
  repeat match goal with
  | H : Some _ = Some _ |- _ => inversion H; subst; clear H
  | H : None = Some _ |- _ => discriminate
  | H : Some _ = None |- _ => discriminate
  end.

Ltac break_if H :=
  match type of H with
  | context [match ?x with _ => _ end] => destruct x eqn:?
  end.

Ltac crush :=
  cbn in *; intros; upd_cases; inv_some; subst; cbn in *; eauto; try lia; try congruence.

(* ---- generic preservation lemmas ------------------------------------------------- *)

Lemma pc_ok_upd_conn_gen s s' c x' t th :
  pc_ok s t th -> (forall p c0, In c0 (table s' p) -> In c0 (table s p)) ->
  conns s' = upd (conns s) c (Some x') ->
  (forall x, conns s c = Some x -> loop x = LFresh t -> loop x' = LFresh t /\ cpeer x' = cpeer x) ->
  pc_ok s' t th.
Proof.
  unfold pc_ok. intros H Ht Hc Hx. rewrite Hc.
  destruct (tpc th); auto.
  all: destruct H as (x & H1 & H2 & H3).
  all: upd_cases; [destruct (Hx x H1 H2) as [Ha Hb]; exists x'; rewrite Ha, Hb|exists x]; intuition eauto.
Qed.

Lemma pc_ok_upd_conn s s' c x' t th :
  pc_ok s t th -> table s' = table s -> conns s' = upd (conns s) c (Some x') ->
  (forall x, conns s c = Some x -> loop x = LFresh t -> loop x' = LFresh t /\ cpeer x' = cpeer x) ->
  pc_ok s' t th.
Proof.
  intros H Ht. eapply pc_ok_upd_conn_gen; eauto. intros p c0. now rewrite Ht.
Qed.

Lemma Inv_upd_conn s s' c x x' :
  Inv s -> conns s c = Some x ->
  nh s' = nh s -> table s' = table s -> nextc s' = nextc s -> nextt s' = nextt s ->
  listening s' = listening s -> incn s' = incn s -> calls s' = calls s ->
  conns s' = upd (conns s) c (Some x') ->
  cpeer x' = cpeer x -> cinc x' = cinc x -> sink x' = sink x -> (alive x' = true -> alive x = true) ->
  ncalled (loop x') (nh s) = ncalled (loop x) (nh s) ->
  (forall e, loop x' <> LExited e) ->
  (forall k, loop x' = LTrig k -> k <= nh s) ->
  (forall t, nextt s <= t -> threads s' t = None) ->
  (forall t th, threads s' t = Some th -> pc_ok s' t th) ->
  Inv s'.
Proof.
  intros [F TF T N E C G R V] Hx Hn Ht Hnc Hnt Hl Hi Hca Hc Hp Hci Hs Ha Hnc' Hne Hk Htf Hth.
  constructor; unfold expected_calls; rewrite ?Hn, ?Ht, ?Hnc, ?Hnt, ?Hl, ?Hi, ?Hca, ?Hc; auto.
  - intros c0 H. upd_cases; auto. rewrite F in Hx by assumption. discriminate.
  - intros p c0 H. destruct (T p c0 H) as (y & Hy & Hp' & Hl'). upd_cases.
    + exists x'. rewrite Hx in Hy. inv_some. repeat split; auto; congruence.
    + exists y. auto.
  - intros c0 y e H Hl'. upd_cases.
    + inv_some. exfalso. eapply Hne; eauto.
    + eapply E; eauto.
  - intros c0. rewrite C. unfold expected_calls. upd_cases; auto. rewrite Hx, Hp, Hnc'. reflexivity.
  - intros c0 y k H Hl'. upd_cases.
    + inv_some. auto.
    + eapply G; eauto.
  - intros c0 y H Hal Hsk. upd_cases.
    + inv_some. rewrite Hci, Hp. eapply V; eauto; congruence.
    + eapply V; eauto.
Qed.

(* only the threads (and possibly delivered / dispatched) change *)
Lemma Inv_upd_threads s s' :
  Inv s ->
  nh s' = nh s -> table s' = table s -> conns s' = conns s -> nextc s' = nextc s ->
  listening s' = listening s -> incn s' = incn s -> calls s' = calls s ->
  (forall t, nextt s' <= t -> threads s' t = None) ->
  (forall t th, threads s' t = Some th -> pc_ok s t th) ->
  Inv s'.
Proof.
  intros [F TF T N E C G R V] Hn Ht Hc Hx Hl Hi Hca Htf Hth.
  constructor; unfold expected_calls, pc_ok in *; rewrite ?Hn, ?Ht, ?Hc, ?Hx, ?Hl, ?Hi, ?Hca in *; auto.
Qed.

Lemma pc_ok_same_conns s s' t th :
  pc_ok s t th -> table s' = table s -> conns s' = conns s -> pc_ok s' t th.
Proof. unfold pc_ok. intros H Ht Hc. now rewrite Ht, Hc. Qed.

(* a new connection number *)
Lemma Inv_new_conn s s' x0 :
  Inv s ->
  nh s' = nh s -> table s' = table s -> nextc s' = S (nextc s) ->
  listening s' = listening s -> incn s' = incn s -> calls s' = calls s ->
  conns s' = upd (conns s) (nextc s) (Some x0) ->
  ncalled (loop x0) (nh s) = 0 ->
  (forall e, loop x0 = LExited e -> lclosed x0 = true) ->
  (forall k, loop x0 <> LTrig k) ->
  (alive x0 = true -> sink x0 = false -> cinc x0 = incn s (cpeer x0) /\ listening s (cpeer x0) = true) ->
  (forall t, nextt s' <= t -> threads s' t = None) ->
  (forall t th, threads s' t = Some th -> pc_ok s' t th) ->
  Inv s'.
Proof.
  intros [F TF T N E C G R V] Hn Ht Hnc Hl Hi Hca Hc Hcalls Hex Htr Henv Htf Hth.
  constructor; unfold expected_calls; rewrite ?Hn, ?Ht, ?Hnc, ?Hl, ?Hi, ?Hca, ?Hc; auto.
  - intros c0 H. upd_cases; [lia|apply F; lia].
  - intros p c0 H. destruct (T p c0 H) as (y & Hy & Hp' & Hl'). upd_cases.
    + rewrite F in Hy by lia. discriminate.
    + exists y. auto.
  - intros c0 y e H Hl'. upd_cases; [inv_some; eauto|eapply E; eauto].
  - intros c0. rewrite C. unfold expected_calls. upd_cases; auto.
    rewrite F by lia. rewrite Hcalls. reflexivity.
  - intros c0 y k H Hl'. upd_cases; [inv_some; exfalso; eapply Htr; eauto|eapply G; eauto].
  - intros c0 y H Hal Hsk. upd_cases; [inv_some; auto|eapply V; eauto].
Qed.

Lemma pc_ok_new_conn s s' x0 t th :
  pc_ok s t th -> Inv s -> table s' = table s -> conns s' = upd (conns s) (nextc s) (Some x0) ->
  pc_ok s' t th.
Proof.
  unfold pc_ok. intros H I Ht Hc. rewrite Ht, Hc.
  destruct (tpc th); auto.
  all: destruct H as (x & H1 & H2); upd_cases; [rewrite (i_fresh _ I) in H1 by lia; discriminate|exists x; auto].
Qed.

(* one more entry in the slice of p *)
Lemma Inv_tab_append s s' p c x :
  Inv s -> conns s c = Some x -> cpeer x = p -> (forall e, loop x <> LExited e) -> ~ In c (table s p) ->
  nh s' = nh s -> table s' = upd (table s) p (table s p ++ [c]) -> conns s' = conns s -> nextc s' = nextc s ->
  listening s' = listening s -> incn s' = incn s -> calls s' = calls s ->
  (forall t, nextt s' <= t -> threads s' t = None) ->
  (forall t th, threads s' t = Some th -> pc_ok s' t th) ->
  Inv s'.
Proof.
  intros [F TF T N E C G R V] Hx Hp Hl Hni Hn Ht Hc Hnc Hli Hi Hca Htf Hth.
  constructor; unfold expected_calls; rewrite ?Hn, ?Ht, ?Hc, ?Hnc, ?Hli, ?Hi, ?Hca; auto.
  - intros p0 c0 H. upd_cases; [|auto]. apply in_app_or in H. destruct H as [H|[<-|[]]]; auto.
    exists x. auto.
  - intros p0. upd_cases; auto. apply NoDup_snoc; auto.
Qed.

Lemma close_refused_frame s c :
  nh (close_refused s c) = nh s /\ table (close_refused s c) = table s /\ nextc (close_refused s c) = nextc s /\
  nextt (close_refused s c) = nextt s /\ listening (close_refused s c) = listening s /\
  incn (close_refused s c) = incn s /\ calls (close_refused s c) = calls s /\
  threads (close_refused s c) = threads s /\ closed (close_refused s c) = closed s /\
  tcp (close_refused s c) = tcp s /\ delivered (close_refused s c) = delivered s /\
  f11 (close_refused s c) = f11 s.
Proof.
  unfold close_refused. destruct (f11 s) eqn:E; [destruct (conns s c)|]; repeat split; cbn; auto.
Qed.

Lemma close_refused_conns s c c0 x0 :
  conns s c0 = Some x0 ->
  exists x', conns (close_refused s c) c0 = Some x' /\ cpeer x' = cpeer x0 /\ cinc x' = cinc x0 /\
             sink x' = sink x0 /\ alive x' = alive x0 /\ loop x' = loop x0 /\
             (lclosed x0 = true -> lclosed x' = true) /\ (c0 <> c -> x' = x0).
Proof.
  intros H. unfold close_refused. destruct (f11 s); [|exists x0; repeat split; auto].
  destruct (conns s c) as [x|] eqn:Hx; [|exists x0; repeat split; auto].
  cbn. upd_cases.
  - rewrite Hx in H. inv_some. eexists. split; [reflexivity|]. repeat split; auto. congruence.
  - exists x0. repeat split; auto.
Qed.

Lemma Inv_close_refused s c x :
  Inv s -> conns s c = Some x -> (forall e, loop x <> LExited e) -> Inv (close_refused s c).
Proof.
  intros I Hx Hl. unfold close_refused. destruct (f11 s); auto. rewrite Hx.
  eapply (Inv_upd_conn s _ c x (set_lclosed x true)); eauto; try reflexivity; cbn; auto.
  - intros k Hk. eapply (i_trig _ I); eauto.
  - apply (i_tfresh _ I).
  - intros t th Ht. eapply pc_ok_upd_conn; [apply (i_thr _ I _ _ Ht)|reflexivity|reflexivity|].
    intros x0 Hx0 Hf. rewrite Hx in Hx0. inv_some. auto.
Qed.

(* ---- one lemma per action --------------------------------------------------------- *)

Ltac thr_unchanged I Hx Hl :=
  let t := fresh "t" in let th := fresh "th" in let Ht := fresh "Ht" in
  let x0 := fresh "x0" in let Hx0 := fresh "Hx0" in let Hf := fresh "Hf" in
  intros t th Ht; eapply pc_ok_upd_conn;
  [apply (i_thr _ I _ _ Ht)|reflexivity|reflexivity|
   intros x0 Hx0 Hf; rewrite Hx in Hx0; inversion Hx0; subst; rewrite Hl in Hf; discriminate].

Ltac upd_conn_side I Hx Hl :=
  cbn; try reflexivity; try congruence; try (rewrite Hl; reflexivity);
  try (intros; discriminate); try (apply (i_tfresh _ I)); try (thr_unchanged I Hx Hl).

Lemma step_recverr s c e s' : Inv s -> step s (ARecvErr c e) = Some s' -> Inv s'.
Proof.
  intros I H. cbv beta iota zeta delta [step] in H.
  destruct (conns s c) as [x|] eqn:Hx; [|discriminate].
  destruct (loop x) eqn:Hl; try discriminate.
  destruct (closed s).
  - inv_some. eapply (Inv_upd_conn s _ c x (set_loop x LQuit)); eauto; upd_conn_side I Hx Hl.
  - destruct (classify e); inv_some; auto.
    eapply (Inv_upd_conn s _ c x (set_loop x (LTrig 0))); eauto; upd_conn_side I Hx Hl.
    intros k Hk. inversion Hk. lia.
Qed.

Lemma Inv_dispatched s v : Inv s -> Inv (set_dispatched s v).
Proof.
  intros I. eapply Inv_upd_threads; eauto; try reflexivity; cbn.
  - apply (i_tfresh _ I).
  - apply (i_thr _ I).
Qed.

Lemma Inv_delivered s v : Inv s -> Inv (set_delivered s v).
Proof.
  intros I. eapply Inv_upd_threads; eauto; try reflexivity; cbn.
  - apply (i_tfresh _ I).
  - apply (i_thr _ I).
Qed.

Lemma step_recvmsg s c m s' : Inv s -> step s (ARecvMsg c m) = Some s' -> Inv s'.
Proof.
  intros I H. cbv beta iota zeta delta [step] in H.
  destruct (conns s c) as [x|] eqn:Hx; [|discriminate].
  destruct (loop x) eqn:Hl; try discriminate.
  destruct (closed s); inv_some.
  - eapply (Inv_upd_conn s _ c x (set_loop x LQuit)); eauto; upd_conn_side I Hx Hl.
  - now apply Inv_dispatched.
Qed.

Lemma step_launchinc s c s' : Inv s -> step s (ALaunchInc c) = Some s' -> Inv s'.
Proof.
  intros I H. cbv beta iota zeta delta [step] in H.
  destruct (conns s c) as [x|] eqn:Hx; [|discriminate].
  destruct (loop x) eqn:Hl; try discriminate.
  destruct (mem c (table s (cpeer x))); [|discriminate].
  destruct (closed s); inv_some.
  - eapply Inv_close_refused; eauto. intros e He. rewrite Hl in He. discriminate.
  - eapply (Inv_upd_conn s _ c x (set_loop x LRun)); eauto; upd_conn_side I Hx Hl.
Qed.

Lemma step_trigger s c s' : Inv s -> step s (ATrigger c) = Some s' -> Inv s'.
Proof.
  intros I H. cbv beta iota zeta delta [step] in H.
  destruct (conns s c) as [x|] eqn:Hx; [|discriminate].
  destruct (loop x) eqn:Hl; try discriminate.
  destruct (k <? nh s) eqn:Hk; [|discriminate]. apply Nat.ltb_lt in Hk. inv_some.
  destruct I as [F TF T N E C G R V].
  constructor; unfold expected_calls; cbn; auto.
  - intros c0 H. upd_cases; auto. rewrite F in Hx by assumption. discriminate.
  - intros p c0 H. destruct (T p c0 H) as (y & Hy & Hp' & Hl'). upd_cases.
    + rewrite Hx in Hy. inv_some. eexists. split; [reflexivity|]. cbn. split; auto. intros; discriminate.
    + exists y. auto.
  - intros c0 y e H Hl'. upd_cases; [inv_some; discriminate|eapply E; eauto].
  - intros c0. rewrite calls_of_app, C. unfold expected_calls. cbn. upd_cases.
    + rewrite Hx, Hl. unfold set_loop. cbn [loop cpeer ncalled]. rewrite seq_S_end, map_app.
      unfold calls_of. cbn [filter snd map]. now rewrite Nat.eqb_refl.
    + unfold calls_of. cbn [filter snd]. apply Nat.eqb_neq in n. rewrite Nat.eqb_sym, n. now rewrite app_nil_r.
  - intros c0 y k0 H Hl'. upd_cases; [inv_some; cbn in Hl'; inversion Hl'; lia|eapply G; eauto].
  - intros t th Ht. eapply pc_ok_upd_conn; [apply (R _ _ Ht)|reflexivity|reflexivity|].
    intros x0 Hx0 Hf. rewrite Hx in Hx0. inv_some. rewrite Hl in Hf. discriminate.
  - intros c0 y H Hal Hsk. upd_cases; [inv_some; cbn in *; eapply V; eauto|eapply V; eauto].
Qed.

Lemma step_exit s c s' : Inv s -> step s (AExit c) = Some s' -> Inv s'.
Proof.
  intros I H. cbv beta iota zeta delta [step] in H.
  destruct (conns s c) as [x|] eqn:Hx; [|discriminate].
  assert (Hcase : exists err, (loop x = LQuit /\ err = false \/ exists k, loop x = LTrig k /\ nh s <= k /\ err = true) /\
            s' = set_table (set_conn s c (set_loop (set_lclosed x true) (LExited err)))
                           (upd (table s) (cpeer x) (swap_remove c (table s (cpeer x))))).
  { destruct (loop x) eqn:Hl; try discriminate.
    - destruct (nh s <=? k) eqn:Hk; [|discriminate]. apply Nat.leb_le in Hk. inv_some.
      exists true. split; auto. right. eauto.
    - inv_some. exists false. split; auto. }
  clear H. destruct Hcase as (err & Hloop & ->).
  assert (Hnf : forall t, loop x <> LFresh t).
  { intros t Hf. destruct Hloop as [[H _]|(k & H & _)]; congruence. }
  assert (Hsub : forall p c0, In c0 (upd (table s) (cpeer x) (swap_remove c (table s (cpeer x))) p) -> In c0 (table s p)).
  { intros p c0. upd_cases; auto. apply swap_remove_in. }
  destruct I as [F TF T N E C G R V].
  constructor; unfold expected_calls; cbn; auto.
  - intros c0 H. upd_cases; auto. rewrite F in Hx by assumption. discriminate.
  - intros p c0 H. pose proof (Hsub _ _ H) as H0. destruct (T _ _ H0) as (y & Hy & Hp & Hl).
    destruct (Nat.eq_dec c0 c) as [->|Hne].
    + exfalso. rewrite Hx in Hy. inv_some. rewrite upd_same in H. eapply swap_remove_notin; eauto.
    + rewrite upd_other by auto. exists y; auto.
  - intros p. upd_cases; auto. now apply swap_remove_nodup.
  - intros c0 y e H Hl'. upd_cases; [inv_some; reflexivity|eapply E; eauto].
  - intros c0. rewrite C. unfold expected_calls. upd_cases; auto. rewrite Hx. cbn.
    destruct Hloop as [[Hl ->]|(k & Hl & Hk & ->)]; rewrite Hl; cbn; auto.
    specialize (G _ _ _ Hx Hl). replace k with (nh s) by lia. reflexivity.
  - intros c0 y k0 H Hl'. upd_cases; [inv_some; discriminate|eapply G; eauto].
  - intros t th Ht. eapply pc_ok_upd_conn_gen; [apply (R _ _ Ht)|exact Hsub|reflexivity|].
    intros x0 Hx0 Hf. rewrite Hx in Hx0. inv_some. exfalso. eapply Hnf; eauto.
  - intros c0 y H Hal Hsk. upd_cases; [inv_some; cbn in *; eapply V; eauto|eapply V; eauto].
Qed.

(* a new connection, possibly appended to the slice of its peer *)
Lemma Inv_accept s x0 (reg : bool) :
  Inv s ->
  ncalled (loop x0) (nh s) = 0 ->
  (forall e, loop x0 = LExited e -> lclosed x0 = true /\ reg = false) ->
  (forall k, loop x0 <> LTrig k) -> (reg = true -> forall t, loop x0 <> LFresh t) ->
  (alive x0 = true -> sink x0 = false -> cinc x0 = incn s (cpeer x0) /\ listening s (cpeer x0) = true) ->
  let s1 := set_nextc (set_conn s (nextc s) x0) (S (nextc s)) in
  Inv (if reg then set_table s1 (upd (table s1) (cpeer x0) (table s1 (cpeer x0) ++ [nextc s])) else s1).
Proof.
  intros I Hc He Hk Hf Henv s1.
  assert (I1 : Inv s1).
  { eapply (Inv_new_conn s s1 x0); eauto; try reflexivity.
    - intros e H. apply (He e H).
    - apply (i_tfresh _ I).
    - intros t th Ht. eapply pc_ok_new_conn; [apply (i_thr _ I _ _ Ht)|auto|reflexivity|reflexivity]. }
  destruct reg; auto.
  eapply (Inv_tab_append s1 _ (cpeer x0) (nextc s) x0); eauto; try reflexivity.
  - subst s1. cbn. now rewrite upd_same.
  - intros e H. destruct (He e H). discriminate.
  - subst s1. cbn. intros H. destruct (i_tabc _ I _ _ H) as (y & Hy & _).
    rewrite (i_fresh _ I) in Hy by lia. discriminate.
  - apply (i_tfresh _ I1).
  - intros t th Ht. cbn in Ht. pose proof (i_thr _ I1 _ _ Ht) as P.
    unfold pc_ok in *. destruct (tpc th); auto.
    all: destruct P as (x & P1 & P2 & P3 & P4); exists x; repeat split; auto.
    all: cbn; intros H; upd_cases; auto.
    all: apply in_app_or in H; destruct H as [H|[H|[]]]; auto.
    all: subst c; subst s1; cbn in P1; rewrite upd_same in P1; inv_some; eapply (Hf eq_refl); eauto.
Qed.

Lemma step_accept s p s' : Inv s -> step s (AAccept p) = Some s' -> Inv s'.
Proof.
  intros I H. cbv beta iota zeta delta [step new_conn] in H.
  destruct (listening s p) eqn:Hl; [|discriminate].
  pose proof (fun reg => Inv_accept s (mkConn p (incn s p) true false false LNone) reg I) as A. cbn in A.
  destruct (closed s) eqn:Hc; inv_some.
  - eapply (Inv_close_refused _ (nextc s) (mkConn p (incn s p) true false false LNone)).
    + apply (A false); auto; intros; discriminate.
    + cbn. now rewrite upd_same.
    + intros; discriminate.
  - apply (A true); auto; intros; discriminate.
Qed.

Lemma step_acceptfail s p s' : Inv s -> step s (AAcceptFail p) = Some s' -> Inv s'.
Proof.
  intros I H. cbv beta iota zeta delta [step] in H. inv_some.
  pose proof (Inv_accept s (mkConn p (incn s p) false true false (LExited false)) false I) as A.
  cbn in A. apply A; auto; intros; try discriminate.
Qed.

Lemma step_acceptclosing s b p s' : Inv s -> step s (AAcceptClosing b p) = Some s' -> Inv s'.
Proof.
  intros I H. cbv beta iota zeta delta [step] in H.
  destruct (listening s p) eqn:Hl; [discriminate|].
  pose proof (fun reg => Inv_accept s (mkConn p (incn s p) (negb b) false (negb b) LNone) reg I) as A. cbn in A.
  destruct (closed s) eqn:Hc; inv_some.
  - eapply (Inv_close_refused _ (nextc s) (mkConn p (incn s p) (negb b) false (negb b) LNone)).
    + apply (A false); auto; intros; try discriminate. destruct b; discriminate.
    + cbn. now rewrite upd_same.
    + intros; discriminate.
  - apply (A true); auto; intros; try discriminate. destruct b; discriminate.
Qed.

(* environment and close: every connection record is mapped, loops untouched *)
Lemma Inv_map_conns s s' (f : nat -> conn -> conn) :
  Inv s ->
  nh s' = nh s -> table s' = table s -> nextc s' = nextc s -> calls s' = calls s ->
  threads s' = threads s -> nextt s' = nextt s ->
  (forall c, conns s' c = match conns s c with Some x => Some (f c x) | None => None end) ->
  (forall c x, cpeer (f c x) = cpeer x /\ loop (f c x) = loop x /\ (lclosed x = true -> lclosed (f c x) = true)) ->
  (forall c x, conns s c = Some x -> alive (f c x) = true -> sink (f c x) = false ->
               cinc (f c x) = incn s' (cpeer x) /\ listening s' (cpeer x) = true) ->
  Inv s'.
Proof.
  intros [F TF T N E C G R V] Hn Ht Hnc Hca Hth Hnt Hc Hf Henv.
  constructor; unfold expected_calls, pc_ok; rewrite ?Hn, ?Ht, ?Hnc, ?Hca, ?Hth, ?Hnt; auto.
  - intros c H. rewrite Hc. now rewrite F.
  - intros p c H. destruct (T p c H) as (y & Hy & Hp & Hl). rewrite Hc, Hy. exists (f c y).
    destruct (Hf c y) as (A & B & _). rewrite A, B. auto.
  - intros c x e H Hl. rewrite Hc in H. destruct (conns s c) as [y|] eqn:Hy; inv_some.
    destruct (Hf c y) as (A & B & D). apply D. apply (E c y e); auto. congruence.
  - intros c. rewrite C, Hc. unfold expected_calls. destruct (conns s c) as [y|]; auto.
    destruct (Hf c y) as (A & B & _). now rewrite A, B.
  - intros c x k H Hl. rewrite Hc in H. destruct (conns s c) as [y|] eqn:Hy; inv_some.
    destruct (Hf c y) as (A & B & D). apply (G c y k); auto. congruence.
  - intros t th H. specialize (R t th H). unfold pc_ok in R. destruct (tpc th); auto.
    all: destruct R as (x & R1 & R2 & R3); rewrite Hc, R1; exists (f c x).
    all: destruct (Hf c x) as (A & B & _); rewrite A, B; auto.
  - intros c x H Hal Hsk. rewrite Hc in H. destruct (conns s c) as [y|] eqn:Hy; inv_some.
    destruct (Hf c y) as (A & _). rewrite A. now apply Henv.
Qed.

Lemma step_crash s p s' : Inv s -> step s (ACrash p) = Some s' -> Inv s'.
Proof.
  intros I H. cbv beta iota zeta delta [step] in H. inv_some.
  eapply (Inv_map_conns s _ (fun _ x => if (cpeer x =? p) && negb (sink x) then set_alive x false else x));
    eauto; try reflexivity.
  - intros c x. destruct ((cpeer x =? p) && negb (sink x)); cbn; auto.
  - cbn. intros c x Hx Hal Hsk.
    destruct ((cpeer x =? p) && negb (sink x)) eqn:Hb; cbn in *; [discriminate|].
    destruct (i_env _ I _ _ Hx Hal Hsk) as [A B]. split; auto.
    upd_cases; auto. rewrite Nat.eqb_refl, Hsk in Hb. discriminate.
Qed.

Lemma step_restart s p s' : Inv s -> step s (ARestart p) = Some s' -> Inv s'.
Proof.
  intros I H. cbv beta iota zeta delta [step] in H.
  destruct (listening s p) eqn:Hl; [discriminate|]. inv_some.
  eapply (Inv_map_conns s _ (fun _ x => x)); eauto; try reflexivity.
  - intros c. cbn. destruct (conns s c); auto.
  - cbn. intros c x Hx Hal Hsk. destruct (i_env _ I _ _ Hx Hal Hsk) as [A B].
    upd_cases; auto; congruence.
Qed.

Lemma step_close s s' : Inv s -> step s AClose = Some s' -> Inv s'.
Proof.
  intros I H. cbv beta iota zeta delta [step] in H. inv_some.
  eapply (Inv_map_conns s _ (fun c x => if mem c (table s (cpeer x)) then set_lclosed x true else x));
    eauto; try reflexivity.
  - intros c x. destruct (mem c (table s (cpeer x))); cbn; auto.
  - cbn. intros c x Hx Hal Hsk.
    destruct (mem c (table s (cpeer x))); cbn in *; apply (i_env _ I _ _ Hx Hal Hsk).
Qed.

Lemma step_spawn s p msgs s' : Inv s -> step s (ASpawn p msgs) = Some s' -> Inv s'.
Proof.
  intros I H. cbv beta iota zeta delta [step] in H. inv_some.
  eapply Inv_upd_threads; eauto; try reflexivity; cbn.
  - intros t Ht. upd_cases; [lia|]. apply (i_tfresh _ I). lia.
  - intros t th Ht. upd_cases.
    + inv_some. unfold pc_ok. cbn. destruct msgs; exact Logic.I.
    + apply (i_thr _ I _ _ Ht).
Qed.

(* ---- Send threads --------------------------------------------------------------------- *)

Lemma conn_send_frame s c m o s' ok :
  conn_send s c m o = (s', ok) ->
  tcp s' = tcp s /\ closed s' = closed s /\ nh s' = nh s /\ table s' = table s /\ conns s' = conns s /\
  nextc s' = nextc s /\ listening s' = listening s /\ incn s' = incn s /\ calls s' = calls s /\
  threads s' = threads s /\ nextt s' = nextt s /\ dispatched s' = dispatched s.
Proof.
  unfold conn_send. intros H.
  destruct (conns s c) as [x|]; [|inversion H; subst; repeat split; reflexivity].
  destruct (lclosed x); [inversion H; subst; repeat split; reflexivity|].
  destruct (alive x).
  - destruct (sink x); inversion H; subst; repeat split; reflexivity.
  - destruct (tcp s && o); inversion H; subst; repeat split; reflexivity.
Qed.

Lemma Inv_conn_send s c m o s' ok : conn_send s c m o = (s', ok) -> Inv s -> Inv s'.
Proof.
  intros H I. destruct (conn_send_frame _ _ _ _ _ _ H) as (_&_&A&B&C&D&E&F&G&Ht&Hn&_).
  eapply Inv_upd_threads; eauto.
  - rewrite Hn, Ht. apply (i_tfresh _ I).
  - rewrite Ht. apply (i_thr _ I).
Qed.

Lemma thread_lt s t th : Inv s -> threads s t = Some th -> t < nextt s.
Proof.
  intros I H. destruct (le_lt_dec (nextt s) t) as [L|L]; auto.
  rewrite (i_tfresh _ I) in H by assumption. discriminate.
Qed.

Lemma Inv_set_thread s t th' : Inv s -> t < nextt s -> pc_ok s t th' -> Inv (set_thread s t th').
Proof.
  intros I L P. eapply Inv_upd_threads; eauto; try reflexivity; cbn.
  - intros t0 H. upd_cases; [lia|]. now apply (i_tfresh _ I).
  - intros t0 th0 H. upd_cases; [inv_some; auto|]. now apply (i_thr _ I).
Qed.

Lemma pc_ok_true s t th : (forall c o, tpc th <> PIdent c o /\ tpc th <> PReg c o /\ tpc th <> PLaunch c o) -> pc_ok s t th.
Proof.
  unfold pc_ok. intros H. destruct (tpc th) eqn:E; auto.
  all: destruct (H c outer) as (A & B & C); congruence.
Qed.

Ltac pc_triv := apply pc_ok_true; cbn; intros; repeat split; discriminate.

Lemma step_thread s t o s' : Inv s -> thread_step s t o = Some s' -> Inv s'.
Proof.
  intros I H. unfold thread_step in H.
  destruct (threads s t) as [th|] eqn:Hth; [|discriminate].
  pose proof (thread_lt _ _ _ I Hth) as L.
  pose proof (i_thr _ I _ _ Hth) as P. unfold pc_ok in P.
  destruct (tpc th) eqn:Hpc.
  - (* PLookup *) destruct (table s (tpeer th)); inv_some; apply Inv_set_thread; auto; pc_triv.
  - (* PDial *)
    destruct (listening s (tpeer th)) eqn:Hl.
    + unfold new_conn in H. inv_some.
      pose proof (Inv_accept s (mkConn (tpeer th) (incn s (tpeer th)) true false false (LFresh t)) false I) as A.
      cbn in A. assert (I1 : Inv (set_nextc (set_conn s (nextc s) (mkConn (tpeer th) (incn s (tpeer th)) true false false (LFresh t))) (S (nextc s)))).
      { apply A; auto; intros; discriminate. }
      apply Inv_set_thread; auto. unfold pc_ok. cbn. eexists. rewrite upd_same. repeat split; eauto.
      intros Hin. destruct (i_tabc _ I _ _ Hin) as (y & Hy & _). rewrite (i_fresh _ I) in Hy by lia. discriminate.
    + inv_some. apply Inv_set_thread; auto; pc_triv.
  - (* PIdent *)
    destruct (ident_send s c o); inv_some.
    + apply Inv_set_thread; auto; unfold pc_ok; cbn; exact P.
    + destruct P as (x & Hx & Hlx & _).
      apply Inv_set_thread; [eapply Inv_close_refused; eauto; intros e He; rewrite Hlx in He; discriminate| |pc_triv].
      destruct (close_refused_frame s c) as (_&_&_&Hn&_). now rewrite Hn.
  - (* PReg *)
    destruct P as (x & Hx & Hlx & Hpx & Hni).
    destruct (closed s); inv_some.
    { apply Inv_set_thread; [eapply Inv_close_refused; eauto; intros e He; rewrite Hlx in He; discriminate| |pc_triv].
      destruct (close_refused_frame s c) as (_&_&_&Hn&_). now rewrite Hn. }
    eapply (Inv_tab_append s _ (tpeer th) c x); eauto; try reflexivity.
    + intros e He. rewrite Hlx in He. discriminate.
    + cbn. intros t0 H0. upd_cases; [lia|]. now apply (i_tfresh _ I).
    + cbn. intros t0 th0 H0. upd_cases.
      * inv_some. unfold pc_ok. cbn. exists x. auto.
      * pose proof (i_thr _ I _ _ H0) as P0. unfold pc_ok in *. cbn. destruct (tpc th0); auto.
        all: destruct P0 as (y & Y1 & Y2 & Y3 & Y4); exists y; repeat split; auto.
        all: intros Hin; upd_cases; auto.
        all: apply in_app_or in Hin; destruct Hin as [Hin|[Hin|[]]]; auto.
        all: subst; rewrite Hx in Y1; inv_some; congruence.
  - (* PLaunch *)
    destruct P as (x & Hx & Hlx & Hpx).
    destruct (closed s); inv_some.
    { apply Inv_set_thread; [eapply Inv_close_refused; eauto; intros e He; rewrite Hlx in He; discriminate| |pc_triv].
      destruct (close_refused_frame s c) as (_&_&_&Hn&_). now rewrite Hn. }
    rewrite Hx, Hlx, Nat.eqb_refl in H. inv_some.
    eapply (Inv_upd_conn s _ c x (set_loop x LRun)); eauto; cbn; try reflexivity; try congruence;
      try solve [rewrite Hlx; reflexivity]; try solve [intros; discriminate].
    + intros t0 H0. upd_cases; [lia|]. now apply (i_tfresh _ I).
    + intros t0 th0 H0. upd_cases.
      * inv_some. destruct outer; pc_triv.
      * eapply pc_ok_upd_conn; [apply (i_thr _ I _ _ H0)|reflexivity|reflexivity|].
        intros x0 Hx0 Hf. rewrite Hx in Hx0. inv_some. congruence.
  - (* PMsg *)
    destruct (tmsgs th) as [|m rest]; inv_some; [apply Inv_set_thread; auto; pc_triv|].
    destruct (conn_send s c m o) as [s1 ok] eqn:Hs.
    pose proof (Inv_conn_send _ _ _ _ _ _ Hs I) as I1.
    destruct (conn_send_frame _ _ _ _ _ _ Hs) as (_&_&_&_&_&_&_&_&_&_&Hn&_).
    destruct ok; inv_some; apply Inv_set_thread; auto; try lia; try pc_triv.
    destruct rest; pc_triv.
  - (* PRetry *)
    destruct (tmsgs th) as [|m rest]; inv_some; [apply Inv_set_thread; auto; pc_triv|].
    destruct (conn_send s c' m o) as [s1 ok] eqn:Hs.
    pose proof (Inv_conn_send _ _ _ _ _ _ Hs I) as I1.
    destruct (conn_send_frame _ _ _ _ _ _ Hs) as (_&_&_&_&_&_&_&_&_&_&Hn&_).
    destruct ok; inv_some; apply Inv_set_thread; auto; try lia; try pc_triv.
    destruct rest; pc_triv.
  - discriminate.
Qed.

Theorem step_inv s a s' : Inv s -> step s a = Some s' -> Inv s'.
Proof.
  destruct a; intros I H.
  - eapply step_spawn; eauto.
  - eapply step_thread; eauto.
  - eapply step_recverr; eauto.
  - eapply step_recvmsg; eauto.
  - eapply step_trigger; eauto.
  - eapply step_exit; eauto.
  - eapply step_accept; eauto.
  - eapply step_acceptfail; eauto.
  - eapply step_acceptclosing; eauto.
  - eapply step_launchinc; eauto.
  - eapply step_crash; eauto.
  - eapply step_restart; eauto.
  - eapply step_close; eauto.
Qed.

Theorem run_inv acts : forall s s', Inv s -> run s acts = Some s' -> Inv s'.
Proof.
  induction acts as [|a r IH]; cbn; intros s s' I H.
  - now inv_some.
  - destruct (step s a) as [s1|] eqn:E; [|discriminate]. apply (IH s1 s'); auto. eapply step_inv; eauto.
Qed.

Corollary reachable_inv f b n acts s : run (init f b n) acts = Some s -> Inv s.
Proof. apply run_inv, Inv_init. Qed.

(* ---- the table is clean: exits, notifications ------------------------------------------ *)

Lemma filter_calls_seq h p c a n :
  filter (fun y : nat * nat * nat => fst (fst y) =? h) (map (fun k => (k, p, c)) (seq a n)) =
  if (a <=? h) && (h <? a + n) then [(h, p, c)] else [].
Proof.
  revert a; induction n as [|n IH]; intros a; cbn [seq map filter fst].
  - destruct (Nat.leb_spec a h), (Nat.ltb_spec h (a + 0)); cbn; auto; lia.
  - rewrite IH.
    destruct (Nat.eqb_spec a h), (Nat.leb_spec (S a) h), (Nat.ltb_spec h (S a + n)),
      (Nat.leb_spec a h), (Nat.ltb_spec h (a + S n)); cbn; try lia; auto.
    subst; reflexivity.
Qed.

(* when a receive loop has exited, its connection is out of the table and closed, and --
   if it left because of an error -- every registered handler was called exactly once,
   in order, with the peer of that connection; a loop that left because the router
   closed called nobody *)
Theorem table_clean f b n acts s c x err :
  run (init f b n) acts = Some s -> conns s c = Some x -> loop x = LExited err ->
  ~ In c (table s (cpeer x)) /\ lclosed x = true /\
  calls_of c (calls s) = (if err then map (fun k => (k, cpeer x, c)) (seq 0 (nh s)) else []).
Proof.
  intros R Hx Hl. pose proof (reachable_inv _ _ _ _ _ R) as I. repeat split.
  - intros H. destruct (i_tabc _ I _ _ H) as (y & Hy & _ & Hn). rewrite Hx in Hy. inv_some.
    eapply Hn; eauto.
  - eapply (i_exitc _ I); eauto.
  - rewrite (i_calls _ I). unfold expected_calls. rewrite Hx, Hl. destruct err; reflexivity.
Qed.

Corollary handlers_exactly_once f b n acts s c x h :
  run (init f b n) acts = Some s -> conns s c = Some x -> loop x = LExited true -> h < nh s ->
  filter (fun y => fst (fst y) =? h) (calls_of c (calls s)) = [(h, cpeer x, c)].
Proof.
  intros R Hx Hl Hh. destruct (table_clean _ _ _ _ _ _ _ _ R Hx Hl) as (_ & _ & ->).
  rewrite filter_calls_seq. cbn [Nat.leb andb Nat.add].
  replace (h <? nh s) with true by (symmetry; apply Nat.ltb_lt; lia). reflexivity.
Qed.

(* every table entry is a connection under that peer whose loop has not exited *)
Theorem table_live f b n acts s p c :
  run (init f b n) acts = Some s -> In c (table s p) ->
  exists x, conns s c = Some x /\ cpeer x = p /\ forall e, loop x <> LExited e.
Proof. intros R. apply (i_tabc _ (reachable_inv _ _ _ _ _ R)). Qed.

(* no handler is ever told a peer other than the one of the connection that failed, and
   the number of calls of a connection never exceeds the number of handlers *)
Theorem calls_name_the_peer f b n acts s h p c :
  run (init f b n) acts = Some s -> In (h, p, c) (calls s) ->
  exists x, conns s c = Some x /\ cpeer x = p /\ h < nh s.
Proof.
  intros R H. pose proof (reachable_inv _ _ _ _ _ R) as I.
  assert (H' : In (h, p, c) (calls_of c (calls s))).
  { unfold calls_of. apply filter_In. split; auto. cbn. apply Nat.eqb_refl. }
  rewrite (i_calls _ I) in H'. unfold expected_calls in H'.
  destruct (conns s c) as [x|] eqn:Hx; [|destruct H'].
  apply in_map_iff in H'. destruct H' as (k & E & Hk). inversion E; subst.
  exists x. repeat split; auto. apply in_seq in Hk.
  destruct (loop x) eqn:Hl; cbn in Hk; try lia.
  - pose proof (i_trig _ I _ _ _ Hx Hl). lia.
  - destruct err; cbn in Hk; lia.
Qed.

(* ---- stale entries can always be cleaned: the loop's own steps suffice ------------------- *)

Lemma run_app s a1 a2 s1 : run s a1 = Some s1 -> run s (a1 ++ a2) = run s1 a2.
Proof.
  revert s; induction a1 as [|a r IH]; cbn; intros s H; [now inv_some|].
  destruct (step s a); [|discriminate]. now apply IH.
Qed.

Lemma triggers s c x j k :
  conns s c = Some x -> loop x = LTrig j -> j + k = nh s ->
  exists s' x', run s (repeat (ATrigger c) k) = Some s' /\ conns s' c = Some x' /\
                loop x' = LTrig (nh s) /\ cpeer x' = cpeer x /\ table s' = table s /\ nh s' = nh s /\
                closed s' = closed s /\ listening s' = listening s.
Proof.
  revert s x j; induction k as [|k IH]; intros s x j Hx Hl Hk.
  - exists s, x. cbn. replace (nh s) with j by lia. repeat split; auto.
  - cbn [repeat run]. cbv beta iota zeta delta [step]. rewrite Hx, Hl.
    replace (j <? nh s) with true by (symmetry; apply Nat.ltb_lt; lia).
    edestruct (IH (set_calls (set_conn s c (set_loop x (LTrig (S j)))) (calls s ++ [(j, cpeer x, c)]))
                 (set_loop x (LTrig (S j))) (S j)) as (s' & x' & A & B & C & D & E & F & G & H).
    + cbn. now rewrite upd_same.
    + reflexivity.
    + cbn. lia.
    + exists s', x'. cbn in *. repeat split; auto.
Qed.

Theorem stale_entry_can_leave f b n acts s p c x :
  run (init f b n) acts = Some s -> In c (table s p) -> conns s c = Some x -> loop x = LRun ->
  exists s',
    run s (ARecvErr c EClosed :: repeat (ATrigger c) (if closed s then 0 else nh s) ++ [AExit c]) = Some s' /\
    ~ In c (table s' p) /\ (forall q, q <> p -> table s' q = table s q) /\
    listening s' = listening s /\ closed s' = closed s.
Proof.
  intros R Hin Hx Hl. pose proof (reachable_inv _ _ _ _ _ R) as I.
  destruct (i_tabc _ I _ _ Hin) as (y & Hy & Hp & _). rewrite Hx in Hy. inv_some.
  cbn [run]. cbv beta iota zeta delta [step]. rewrite Hx, Hl.
  destruct (closed s) eqn:Hc.
  - (* closed: straight to the deferred part *)
    cbn [classify repeat app run]. cbv beta iota zeta delta [step]. cbn. rewrite upd_same. cbn.
    eexists. split; [reflexivity|]. cbn. rewrite upd_same. repeat split; auto.
    + apply swap_remove_notin. apply (i_nodup _ I).
    + intros q Hq. now rewrite upd_other.
  - cbn [classify].
    set (s1 := set_conn s c (set_loop y (LTrig 0))).
    assert (I1 : Inv s1).
    { eapply (step_recverr s c EClosed); eauto. cbv beta iota zeta delta [step]. now rewrite Hx, Hl, Hc. }
    destruct (triggers s1 c (set_loop y (LTrig 0)) 0 (nh s)) as (s2 & x2 & A & B & C & D & E & F & G & H); auto.
    { subst s1. cbn. now rewrite upd_same. }
    rewrite (run_app _ _ _ _ A). cbn [run]. cbv beta iota zeta delta [step]. rewrite B, C.
    change (nh s1) with (nh s) in *. rewrite F, Nat.leb_refl.
    eexists. split; [reflexivity|]. cbn. rewrite E, D. subst s1. cbn. rewrite upd_same.
    assert (I2 : Inv s2) by (eapply run_inv; eauto).
    repeat split; auto.
    + apply swap_remove_notin. apply (i_nodup _ I).
    + intros q Hq. now rewrite upd_other.
    + rewrite G. cbn. exact Hc.
Qed.

(* ---- a Send never blocks and returns within a bound of its own steps ---------------------- *)

Definition is_done (p : pc) : bool := match p with PDone _ => true | _ => false end.

Theorem send_never_blocks s t th o :
  Inv s -> threads s t = Some th -> is_done (tpc th) = false -> exists s', thread_step s t o = Some s'.
Proof.
  intros I Hth Hd. unfold thread_step. rewrite Hth.
  pose proof (i_thr _ I _ _ Hth) as P. unfold pc_ok in P.
  destruct (tpc th) eqn:Hpc; try discriminate.
  - destruct (table s (tpeer th)); eauto.
  - destruct (listening s (tpeer th)); [unfold new_conn|]; eauto.
  - destruct (ident_send s c o); eauto.
  - destruct (closed s); eauto.
  - destruct P as (x & Hx & Hl & _). destruct (closed s); eauto.
    rewrite Hx, Hl, Nat.eqb_refl. eauto.
  - destruct (tmsgs th); eauto. destruct (conn_send s c n o) as [s1 ok]. destruct ok; eauto.
  - destruct (tmsgs th); eauto. destruct (conn_send s c' n o) as [s1 ok]. destruct ok; eauto.
Qed.

Definition mu (th : thread) : nat :=
  let l := 6 * length (tmsgs th) in
  match tpc th with
  | PDone _ => 0
  | PLookup => l + 11
  | PDial None => l + 10
  | PIdent _ None => l + 9
  | PReg _ None => l + 8
  | PLaunch _ None => l + 7
  | PMsg _ => l + 6
  | PDial (Some _) => l + 5
  | PIdent _ (Some _) => l + 4
  | PReg _ (Some _) => l + 3
  | PLaunch _ (Some _) => l + 2
  | PRetry _ _ => l + 1
  end.

Lemma step_decreases s t th o s' :
  threads s t = Some th -> thread_step s t o = Some s' ->
  exists th', threads s' t = Some th' /\ mu th' < mu th.
Proof.
  intros Hth H. unfold thread_step in H. rewrite Hth in H.
  assert (G : forall s0 q, threads (set_thread s0 t (set_pc th q)) t = Some (set_pc th q)).
  { intros. cbn. now rewrite upd_same. }
  destruct (tpc th) eqn:Hpc; try discriminate.
  - destruct (table s (tpeer th)); inv_some; eexists; (split; [apply G|]); unfold mu; cbn; rewrite Hpc; lia.
  - destruct (listening s (tpeer th)); [unfold new_conn in H|]; inv_some; eexists; (split; [apply G|]);
      unfold mu; cbn; rewrite Hpc; destruct outer; lia.
  - destruct (ident_send s c o); inv_some; eexists; (split; [apply G|]); unfold mu; cbn; rewrite Hpc; destruct outer; lia.
  - destruct (closed s); inv_some; eexists; (split; [apply G|]); unfold mu; cbn; rewrite Hpc; destruct outer; lia.
  - destruct (closed s); inv_some; [eexists; (split; [apply G|]); unfold mu; cbn; rewrite Hpc; destruct outer; lia|].
    destruct (conns s c) as [x|]; [|discriminate]. destruct (loop x); try discriminate.
    destruct (t0 =? t); inv_some. eexists; (split; [apply G|]). unfold mu; cbn; rewrite Hpc; destruct outer; lia.
  - destruct (tmsgs th) as [|m rest] eqn:Hm; inv_some.
    + eexists; (split; [apply G|]); unfold mu; cbn; rewrite Hpc; lia.
    + destruct (conn_send s c m o) as [s1 ok]. destruct ok; inv_some.
      * eexists. split; [cbn; now rewrite upd_same|]. unfold mu. cbn. rewrite Hpc, Hm. cbn. destruct rest; cbn; lia.
      * eexists; (split; [apply G|]); unfold mu; cbn; rewrite Hpc; lia.
  - destruct (tmsgs th) as [|m rest] eqn:Hm; inv_some.
    + eexists; (split; [apply G|]); unfold mu; cbn; rewrite Hpc; lia.
    + destruct (conn_send s c' m o) as [s1 ok]. destruct ok; inv_some.
      * eexists. split; [cbn; now rewrite upd_same|]. unfold mu. cbn. rewrite Hpc, Hm. cbn. destruct rest; cbn; lia.
      * eexists; (split; [apply G|]); unfold mu; cbn; rewrite Hpc; lia.
Qed.

Lemma mu_zero th : mu th = 0 -> is_done (tpc th) = true.
Proof. unfold mu. destruct (tpc th) as [|[]|? []|? []|? []| | |]; cbn; intros; auto; lia. Qed.

Theorem send_returns fuel : forall s t th o,
  Inv s -> threads s t = Some th -> mu th <= fuel ->
  exists r, result (run_thread fuel s t o) t = Some r /\ Inv (run_thread fuel s t o).
Proof.
  induction fuel as [|f IH]; intros s t th o I Hth Hm.
  - assert (D : is_done (tpc th) = true) by (apply mu_zero; lia).
    cbn. unfold result. rewrite Hth. destruct (tpc th); try discriminate. eauto.
  - cbn [run_thread]. destruct (is_done (tpc th)) eqn:D.
    + unfold thread_step. rewrite Hth. destruct (tpc th) eqn:E; try discriminate.
      unfold result. rewrite Hth, E. eauto.
    + destruct (send_never_blocks s t th o I Hth D) as (s' & Hs). rewrite Hs.
      destruct (step_decreases _ _ _ _ _ Hth Hs) as (th' & Hth' & Hlt).
      apply (IH s' t th' o); auto; [eapply step_thread; eauto|lia].
Qed.

(* Router.Send as one call, from any reachable state, whatever the peers did and whatever
   the kernel does with writes to dead peers: it returns *)
Theorem send_call_returns f b n acts s p msgs o :
  run (init f b n) acts = Some s -> exists r, snd (send_call s p msgs o) = Some r.
Proof.
  intros R. pose proof (reachable_inv _ _ _ _ _ R) as I.
  unfold send_call. cbv beta iota zeta delta [step].
  set (th := mkThread p msgs (match msgs with [] => PDone RErr | _ => PLookup end)).
  set (s1 := set_threads s (upd (threads s) (nextt s) (Some th)) (S (nextt s))).
  assert (I1 : Inv s1) by (eapply (step_spawn s p msgs); eauto).
  destruct (send_returns (send_fuel msgs) s1 (nextt s) th o I1) as (r & Hr & _).
  - subst s1. cbn. now rewrite upd_same.
  - unfold mu, send_fuel, th. cbn. destruct msgs; cbn; lia.
  - exists r. cbn. exact Hr.
Qed.

(* ---- what a Send thread leaves alone ---------------------------------------------------- *)

Definition same_conn (x x' : conn) : Prop :=
  cpeer x' = cpeer x /\ cinc x' = cinc x /\ sink x' = sink x /\ alive x' = alive x /\
  (lclosed x = true -> lclosed x' = true).

Lemma same_conn_refl x : same_conn x x.
Proof. repeat split; auto. Qed.

Lemma frame_refused s c t th0 :
  let s' := set_thread (close_refused s c) t th0 in
  closed s' = closed s /\ listening s' = listening s /\ incn s' = incn s /\ tcp s' = tcp s /\ nh s' = nh s /\
  calls s' = calls s /\
  (forall c0 x, conns s c0 = Some x -> exists x', conns s' c0 = Some x' /\ same_conn x x') /\
  (forall q c0, In c0 (table s q) -> In c0 (table s' q)) /\
  (forall t0, t0 <> t -> threads s' t0 = threads s t0).
Proof.
  destruct (close_refused_frame s c) as (A1&A2&A3&A4&A5&A6&A7&A8&A9&A10&A11&A12).
  cbn. rewrite A1, A2, A5, A6, A7, A8, A9, A10. repeat split; auto.
  - intros c0 x Hx. destruct (close_refused_conns s c c0 x Hx) as (x' & B1 & B2 & B3 & B4 & B5 & B6 & B7 & _).
    exists x'. repeat split; auto.
  - intros t0 Ht. now rewrite upd_other.
Qed.

Lemma thread_step_frame s t o s' :
  Inv s -> thread_step s t o = Some s' ->
  closed s' = closed s /\ listening s' = listening s /\ incn s' = incn s /\ tcp s' = tcp s /\ nh s' = nh s /\
  calls s' = calls s /\
  (forall c x, conns s c = Some x -> exists x', conns s' c = Some x' /\ same_conn x x') /\
  (forall q c, In c (table s q) -> In c (table s' q)) /\
  (forall t0, t0 <> t -> threads s' t0 = threads s t0).
Proof.
  intros I H. unfold thread_step in H.
  destruct (threads s t) as [th|] eqn:Hth; [|discriminate].
  assert (K : forall s0 th0, (forall t0, t0 <> t -> threads (set_thread s0 t th0) t0 = threads s0 t0)).
  { intros s0 th0 t0 Ht. cbn. now rewrite upd_other. }
  assert (Same : forall c x, conns s c = Some x -> exists x', conns s c = Some x' /\ same_conn x x').
  { intros c x Hx. exists x. split; auto. apply same_conn_refl. }
  destruct (tpc th) eqn:Hpc; try discriminate.
  - destruct (table s (tpeer th)); inv_some; cbn; repeat split; auto; intros; now rewrite upd_other.
  - destruct (listening s (tpeer th)); [unfold new_conn in H|]; inv_some; cbn; repeat split; auto;
      try (intros; now rewrite upd_other).
    intros c x Hx. assert (c <> nextc s).
    { intros ->. rewrite (i_fresh _ I) in Hx by lia. discriminate. }
    rewrite upd_other by auto. apply Same; auto.
  - destruct (ident_send s c o); inv_some; [cbn; repeat split; auto; intros; now rewrite upd_other|apply frame_refused].
  - pose proof (frame_refused s c t (set_pc th (PDone RErr))) as FR.
    destruct (closed s) eqn:Hcl; inv_some; [exact FR|]. cbn; repeat split; auto; try (intros; now rewrite upd_other).
    intros q c0 Hin. upd_cases; auto. apply in_or_app. auto.
  - pose proof (frame_refused s c t (set_pc th (PDone RErr))) as FR.
    destruct (closed s) eqn:Hcl; inv_some; [exact FR|].
    destruct (conns s c) as [x|] eqn:Hx; [|discriminate]. destruct (loop x); try discriminate.
    destruct (t0 =? t); inv_some. cbn. repeat split; auto; try (intros; now rewrite upd_other).
    intros c0 x0 Hx0. upd_cases.
    + rewrite Hx in Hx0. inv_some. eexists. split; [reflexivity|]. repeat split; auto.
    + apply Same; auto.
  - destruct (tmsgs th) as [|m rest]; inv_some; [cbn; repeat split; auto; intros; now rewrite upd_other|].
    destruct (conn_send s c m o) as [s1 ok] eqn:Hs.
    destruct (conn_send_frame _ _ _ _ _ _ Hs) as (A1&A2&A3&A4&A5&A6&A7&A8&A9&A10&A11&A12).
    destruct ok; inv_some; cbn; rewrite ?A1, ?A2, ?A3, ?A4, ?A5, ?A6, ?A7, ?A8, ?A9, ?A10; repeat split; auto;
      intros; now rewrite upd_other.
  - destruct (tmsgs th) as [|m rest]; inv_some; [cbn; repeat split; auto; intros; now rewrite upd_other|].
    destruct (conn_send s c' m o) as [s1 ok] eqn:Hs.
    destruct (conn_send_frame _ _ _ _ _ _ Hs) as (A1&A2&A3&A4&A5&A6&A7&A8&A9&A10&A11&A12).
    destruct ok; inv_some; cbn; rewrite ?A1, ?A2, ?A3, ?A4, ?A5, ?A6, ?A7, ?A8, ?A9, ?A10; repeat split; auto;
      intros; now rewrite upd_other.
Qed.

(* ---- after the peer is back: a Send run alone reconnects and delivers ----------------------- *)

Section Resend.
Variables (t p : nat) (o : bool) (d0 : list (nat * nat)) (msgs0 : list nat).

Definition to_current (s : state) (c : nat) : Prop :=
  exists x, conns s c = Some x /\ cpeer x = p /\ cinc x = incn s p /\ sink x = false.

Definition usable (s : state) (c : nat) : Prop :=
  exists x, conns s c = Some x /\ cpeer x = p /\ alive x = true /\ lclosed x = false /\ sink x = false.

Definition known (s : state) (c : nat) : Prop :=
  exists x, conns s c = Some x /\ cpeer x = p /\ sink x = false.

Definition ext (s s' : state) : Prop :=
  incn s' = incn s /\ forall c x, conns s c = Some x -> exists x', conns s' c = Some x' /\ same_conn x x'.

Lemma known_ext s s' c : ext s s' -> known s c -> known s' c.
Proof.
  intros [_ E] (x & Hx & A & B). destruct (E _ _ Hx) as (x' & Hx' & S1 & S2 & S3 & S4 & S5).
  exists x'. repeat split; congruence.
Qed.

Lemma usable_set_loop s c x l th' :
  conns s c = Some x -> usable s c -> usable (set_thread (set_conn s c (set_loop x l)) t th') c.
Proof.
  intros Hx (x0 & Hx0 & A & B & C & D). rewrite Hx in Hx0. inv_some.
  exists (set_loop x0 l). cbn. rewrite upd_same. repeat split; auto.
Qed.

Lemma to_current_ext s s' c : ext s s' -> to_current s c -> to_current s' c.
Proof.
  intros [Hi E] (x & Hx & A & B & C). destruct (E _ _ Hx) as (x' & Hx' & S1 & S2 & S3 & S4 & S5).
  exists x'. rewrite Hi. repeat split; congruence.
Qed.

Lemma usable_known s c : usable s c -> known s c.
Proof. intros (x & Hx & A & B & C & D). exists x. auto. Qed.

Definition pcJ (s : state) (th : thread) : Prop :=
  match tpc th with
  | PLookup => tmsgs th <> []
  | PDial None => tmsgs th <> []
  | PDial (Some c0) => tmsgs th <> [] /\ known s c0
  | PIdent c None | PReg c None | PLaunch c None => tmsgs th <> [] /\ usable s c
  | PIdent c (Some c0) | PReg c (Some c0) | PLaunch c (Some c0) => tmsgs th <> [] /\ usable s c /\ known s c0
  | PMsg c => tmsgs th <> [] /\ known s c
  | PRetry c c0 => tmsgs th <> [] /\ usable s c /\ known s c0
  | PDone r => r = ROk /\ tmsgs th = []
  end.

Record J (s : state) : Prop := {
  j_inv : Inv s;
  j_open : closed s = false;
  j_up : listening s p = true;
  j_nosink : forall c x, In c (table s p) -> conns s c = Some x -> sink x = false;
  j_quiet : tcp s = false \/ o = false;
  j_thr : exists th, threads s t = Some th /\ tpeer th = p /\ pcJ s th /\
          exists D, delivered s = d0 ++ D /\ map fst D ++ tmsgs th = msgs0 /\
                    Forall (fun mc => to_current s (snd mc)) D }.

Lemma conn_send_cases s c m x :
  conns s c = Some x -> (tcp s = false \/ o = false) ->
  (alive x = true /\ lclosed x = false /\
   conn_send s c m o = (if sink x then s else set_delivered s (delivered s ++ [(m, c)]), true)) \/
  ((alive x = false \/ lclosed x = true) /\ conn_send s c m o = (s, false)).
Proof.
  intros Hx Hq. unfold conn_send. rewrite Hx.
  destruct (lclosed x); [right; auto|].
  destruct (alive x); [left; auto|].
  right. split; auto. destruct Hq as [-> | ->]; cbn; auto. now rewrite andb_false_r.
Qed.

Lemma ext_set_thread s s' th : ext s s' -> ext s (set_thread s' t th).
Proof. intros [A B]. split; cbn; auto. Qed.

Lemma ext_refl s : ext s s.
Proof. split; auto. intros c x H. exists x. split; auto. apply same_conn_refl. Qed.

Lemma ext_delivered s v : ext s (set_delivered s v).
Proof. split; cbn; auto. intros c x H. exists x. split; auto. apply same_conn_refl. Qed.

Lemma ext_of_frame s s' :
  incn s' = incn s -> (forall c x, conns s c = Some x -> exists x', conns s' c = Some x' /\ same_conn x x') -> ext s s'.
Proof. intros A B. split; auto. Qed.

Lemma Forall_current_ext s s' (D : list (nat * nat)) :
  ext s s' -> Forall (fun mc => to_current s (snd mc)) D -> Forall (fun mc => to_current s' (snd mc)) D.
Proof. intros E H. eapply Forall_impl; [|exact H]. intros a. apply to_current_ext; auto. Qed.

(* the invariant is kept by every step of the thread *)
Lemma J_step s s' : J s -> thread_step s t o = Some s' -> J s'.
Proof.
  intros [I Ho Hu Hns Hq (th & Hth & Hp & Hpc & D & HD & Hm & HF)] H.
  pose proof (step_thread _ _ _ _ I H) as I'.
  destruct (thread_step_frame _ _ _ _ I H) as (F1 & F2 & F3 & F4 & F5 & F6 & F7 & F8 & F9).
  pose proof (ext_of_frame _ _ F3 F7) as E.
  assert (Q' : tcp s' = false \/ o = false) by (rewrite F4; exact Hq).
  unfold thread_step in H. rewrite Hth in H. unfold pcJ in Hpc. rewrite Hp in H.
  destruct (tpc th) eqn:Epc.
  - (* PLookup *)
    destruct (table s p) as [|c rest] eqn:Et; inv_some.
    + constructor; cbn; auto; try congruence; try (rewrite Et; exact Hns).
      eexists. split; [cbn; now rewrite upd_same|]. cbn. split; auto. split; [exact Hpc|]. eauto.
    + constructor; cbn; auto; try congruence; try (rewrite Et; exact Hns).
      eexists. split; [cbn; now rewrite upd_same|]. cbn. split; auto. split.
      * split; auto. assert (Hin : In c (table s p)) by (rewrite Et; now left).
        destruct (i_tabc _ I _ _ Hin) as (x & Hx & Hpx & _). exists x. repeat split; auto. eapply Hns; eauto. now left.
      * eauto.
  - (* PDial *)
    rewrite Hu in H. unfold new_conn in H. inv_some.
    constructor; cbn; auto.
    + cbn. intros c x Hin Hx. upd_cases.
      * exfalso. destruct (i_tabc _ I _ _ Hin) as (y & Hy & _). rewrite (i_fresh _ I) in Hy by lia. discriminate.
      * eapply Hns; eauto.
    + eexists. split; [cbn; now rewrite upd_same|]. cbn. split; auto. split.
      * assert (U : usable (set_thread (set_nextc (set_conn s (nextc s) (mkConn p (incn s p) true false false (LFresh t))) (S (nextc s))) t (set_pc th (PIdent (nextc s) outer))) (nextc s)).
        { eexists. cbn. rewrite upd_same. repeat split. }
        unfold pcJ. cbn. destruct outer as [c0|].
        -- destruct Hpc as [A B]. repeat split; auto. eapply known_ext; eauto.
        -- repeat split; auto.
      * exists D. cbn. repeat split; auto. eapply Forall_current_ext; eauto.
  - (* PIdent *)
    assert (Hid : ident_send s c o = true).
    { assert (U : usable s c) by (destruct outer; tauto).
      destruct U as (x & Hx & _ & Ha & Hl & _). unfold ident_send. now rewrite Hx, Hl, Ha. }
    rewrite Hid in H. inv_some.
    constructor; cbn; auto.
    eexists. split; [cbn; now rewrite upd_same|]. cbn. split; auto. split; [exact Hpc|eauto].
  - (* PReg *)
    rewrite Ho in H. inv_some.
    assert (U : usable s c) by (destruct outer; tauto).
    constructor; cbn; auto.
    + cbn. intros c0 x Hin Hx. rewrite upd_same in Hin. apply in_app_or in Hin. destruct Hin as [Hin|[<-|[]]].
      * eapply Hns; eauto.
      * destruct U as (y & Hy & _ & _ & _ & Hs). congruence.
    + eexists. split; [cbn; now rewrite upd_same|]. cbn. split; auto. split; [exact Hpc|eauto].
  - (* PLaunch *)
    rewrite Ho in H.
    destruct (conns s c) as [x|] eqn:Hx; [|discriminate]. destruct (loop x) eqn:Hl; try discriminate.
    destruct (t0 =? t); [|discriminate]. inv_some.
    assert (U : usable s c) by (destruct outer; tauto).
    constructor; cbn; auto.
    + cbn. intros c0 y Hin Hy. upd_cases.
      * inv_some. cbn. eapply Hns; eauto.
      * eapply Hns; eauto.
    + eexists. split; [cbn; now rewrite upd_same|]. cbn. split; auto. split.
      * unfold pcJ. cbn. destruct outer as [c0|]; cbn.
        -- destruct Hpc as (A & B & C). repeat split; auto; [eapply usable_set_loop|eapply known_ext]; eauto.
        -- destruct Hpc as (A & B). split; auto. apply usable_known. eapply usable_set_loop; eauto.
      * exists D. cbn. repeat split; auto. eapply Forall_current_ext; eauto.
  - (* PMsg *)
    destruct Hpc as (Hne & (x & Hx & Hpx & Hsx)).
    destruct (tmsgs th) as [|m rest] eqn:Em; [congruence|].
    destruct (conn_send_cases s c m x Hx Hq) as [(Ha & Hl & Hs)|(Hd & Hs)]; rewrite Hs in H; try rewrite Hsx in H; inv_some.
    + (* delivered *)
      constructor; cbn; auto.
      eexists. split; [cbn; now rewrite upd_same|]. cbn. split; auto. split.
      * unfold pcJ. cbn. destruct rest; cbn; [auto|]. split; [discriminate|]. exists x. auto.
      * exists (D ++ [(m, c)]). cbn. rewrite HD, <- app_assoc. split; auto. split.
        -- rewrite map_app, <- app_assoc. exact Hm.
        -- apply Forall_app. split; [eapply Forall_current_ext; eauto|].
           constructor; auto. cbn. exists x. cbn. destruct (i_env _ I _ _ Hx Ha Hsx) as [Hc _].
           repeat split; auto. congruence.
    + constructor; auto.
      eexists. split; [cbn; now rewrite upd_same|]. cbn. split; auto. split.
      * unfold pcJ. cbn. rewrite Em. split; [discriminate|]. exists x. auto.
      * exists D. cbn. rewrite Em. auto.
  - (* PRetry *)
    destruct Hpc as (Hne & (x & Hx & Hpx & Ha & Hl & Hsx) & K0).
    destruct (tmsgs th) as [|m rest] eqn:Em; [congruence|].
    destruct (conn_send_cases s c' m x Hx Hq) as [(_ & _ & Hs)|([Hd|Hd] & _)]; try congruence.
    rewrite Hs, Hsx in H. inv_some.
    constructor; cbn; auto.
    eexists. split; [cbn; now rewrite upd_same|]. cbn. split; auto. split.
    + unfold pcJ. cbn. destruct rest; cbn; [auto|]. split; [discriminate|]. exact K0.
    + exists (D ++ [(m, c')]). cbn. rewrite HD, <- app_assoc. split; auto. split.
      * rewrite map_app, <- app_assoc. exact Hm.
      * apply Forall_app. split; [eapply Forall_current_ext; eauto|].
        constructor; auto. cbn. exists x. cbn. destruct (i_env _ I _ _ Hx Ha Hsx) as [Hc _].
        repeat split; auto. congruence.
  - discriminate.
Qed.

End Resend.

Lemma J_run t p o d0 msgs0 fuel : forall s, J t p o d0 msgs0 s -> J t p o d0 msgs0 (run_thread fuel s t o).
Proof.
  induction fuel as [|f IH]; intros s HJ; cbn; auto.
  destruct (thread_step s t o) as [s'|] eqn:E; auto. apply IH. eapply J_step; eauto.
Qed.

(* Once the peer listens again, a Send (run as one call, from ANY reachable state of the router:
   stale entries first in the slice, loops in the middle of notifying, half set-up connections of
   other Sends ...) reconnects where needed, returns nil and hands every message to the CURRENT
   incarnation -- provided the router is not closed, no connection registered for the peer was
   abandoned unclosed by its previous incarnation (F11), and the transport does not swallow
   writes to dead peers (in-memory transport, or a kernel that refuses: [o = false]). *)
Theorem resend_after_restart f b n acts s p msgs o :
  run (init f b n) acts = Some s ->
  closed s = false -> listening s p = true ->
  (forall c x, In c (table s p) -> conns s c = Some x -> sink x = false) ->
  (tcp s = false \/ o = false) -> msgs <> [] ->
  exists s' D, send_call s p msgs o = (s', Some ROk) /\
    delivered s' = delivered s ++ D /\ map fst D = msgs /\
    Forall (fun mc => exists x, conns s' (snd mc) = Some x /\ cpeer x = p /\ cinc x = incn s' p /\ sink x = false) D.
Proof.
  intros R Hc Hl Hns Hq Hne. pose proof (reachable_inv _ _ _ _ _ R) as I.
  unfold send_call. cbv beta iota zeta delta [step].
  set (th := mkThread p msgs (match msgs with [] => PDone RErr | _ => PLookup end)).
  set (s1 := set_threads s (upd (threads s) (nextt s) (Some th)) (S (nextt s))).
  assert (I1 : Inv s1) by (eapply (step_spawn s p msgs); eauto).
  assert (Hth1 : threads s1 (nextt s) = Some th) by (subst s1; cbn; now rewrite upd_same).
  assert (J1 : J (nextt s) p o (delivered s) msgs s1).
  { constructor; auto. exists th. split; auto. split; auto. split.
    - unfold pcJ, th. cbn. destruct msgs; [congruence|]. cbn. discriminate.
    - exists []. cbn. rewrite app_nil_r. auto. }
  pose proof (J_run _ _ _ _ _ (send_fuel msgs) _ J1) as J2.
  destruct (send_returns (send_fuel msgs) s1 (nextt s) th o I1 Hth1) as (r & Hr & _).
  { unfold mu, send_fuel, th. cbn. destruct msgs; cbn; lia. }
  set (s2 := run_thread (send_fuel msgs) s1 (nextt s) o) in *.
  destruct J2 as [_ _ _ _ _ (th2 & Hth2 & _ & Hpc & D & HD & Hm & HF)].
  unfold result in Hr. rewrite Hth2 in Hr. unfold pcJ in Hpc.
  destruct (tpc th2) eqn:Epc; try discriminate. destruct Hpc as [Hr0 Hnil].
  exists s2, D. rewrite Hnil, app_nil_r in Hm. split; [|split; [|split]]; auto.
  unfold result. rewrite Hth2, Epc, Hr0. reflexivity.
Qed.


(* ---- nothing listens: the Send fails ------------------------------------------------------ *)

Section Failing.
Variables (t p : nat) (o : bool) (d0 : list (nat * nat)).

Definition pcK (s : state) (th : thread) : Prop :=
  match tpc th with
  | PLookup => tmsgs th <> []
  | PDial _ => True
  | PMsg c => tmsgs th <> [] /\ In c (table s p)
  | PDone r => r = RErr
  | _ => False
  end.

Record K (s : state) : Prop := {
  k_inv : Inv s;
  k_down : listening s p = false;
  k_nosink : forall c x, In c (table s p) -> conns s c = Some x -> sink x = false;
  k_quiet : table s p = [] \/ tcp s = false \/ o = false;
  k_deliv : delivered s = d0;
  k_thr : exists th, threads s t = Some th /\ tpeer th = p /\ pcK s th }.

Lemma K_step s s' : K s -> thread_step s t o = Some s' -> K s'.
Proof.
  intros [I Hd Hns Hq Hdel (th & Hth & Hp & Hpc)] H.
  pose proof (step_thread _ _ _ _ I H) as I'.
  unfold thread_step in H. rewrite Hth in H. unfold pcK in Hpc. rewrite Hp in H.
  destruct (tpc th) eqn:Epc; try contradiction.
  - destruct (table s p) as [|c rest] eqn:Et; inv_some.
    + constructor; cbn; auto; try (rewrite Et; auto).
      eexists. split; [now rewrite upd_same|]. split; auto. unfold pcK. cbn. auto.
    + constructor; cbn; auto; try (rewrite Et; auto).
      eexists. split; [now rewrite upd_same|]. split; auto. unfold pcK. cbn. rewrite Et. split; auto. now left.
  - rewrite Hd in H. inv_some. constructor; cbn; auto.
    eexists. split; [now rewrite upd_same|]. split; auto. unfold pcK. cbn. auto.
  - destruct Hpc as [Hne Hin].
    destruct (tmsgs th) as [|m rest] eqn:Em; [congruence|].
    destruct (i_tabc _ I _ _ Hin) as (x & Hx & Hpx & _).
    assert (Hsk : sink x = false) by (eapply Hns; eauto).
    assert (Hal : alive x = false).
    { destruct (alive x) eqn:Ha; auto. destruct (i_env _ I _ _ Hx Ha Hsk) as [_ L]. congruence. }
    assert (Hq' : tcp s = false \/ o = false).
    { destruct Hq as [Hq|Hq]; auto. rewrite Hq in Hin. destruct Hin. }
    destruct (conn_send_cases o s c m x Hx Hq') as [(Ha & _)|(_ & Hs)]; [congruence|].
    rewrite Hs in H. inv_some. constructor; cbn; auto.
    eexists. split; [now rewrite upd_same|]. split; auto. unfold pcK. cbn. auto.
  - discriminate.
Qed.

Lemma K_run fuel : forall s, K s -> K (run_thread fuel s t o).
Proof.
  induction fuel as [|f IH]; intros s HK; cbn; auto.
  destruct (thread_step s t o) as [s'|] eqn:E; auto. apply IH. eapply K_step; eauto.
Qed.

End Failing.

(* A Send (as one call, from any reachable state) towards a peer where nothing listens returns an
   error and delivers nothing, as long as no registered connection was abandoned unclosed (F11) and
   either no connection to that peer is registered, or the transport refuses writes to dead
   peers (in-memory transport / the kernel does not buffer: [o = false]). *)
Theorem send_fails_when_nothing_listens f b n acts s p msgs o :
  run (init f b n) acts = Some s -> listening s p = false ->
  (forall c x, In c (table s p) -> conns s c = Some x -> sink x = false) ->
  (table s p = [] \/ tcp s = false \/ o = false) ->
  exists s', send_call s p msgs o = (s', Some RErr) /\ delivered s' = delivered s.
Proof.
  intros R Hl Hns Hq. pose proof (reachable_inv _ _ _ _ _ R) as I.
  unfold send_call. cbv beta iota zeta delta [step].
  set (th := mkThread p msgs (match msgs with [] => PDone RErr | _ => PLookup end)).
  set (s1 := set_threads s (upd (threads s) (nextt s) (Some th)) (S (nextt s))).
  assert (I1 : Inv s1) by (eapply (step_spawn s p msgs); eauto).
  assert (Hth1 : threads s1 (nextt s) = Some th) by (subst s1; cbn; now rewrite upd_same).
  assert (K1 : K (nextt s) p o (delivered s) s1).
  { constructor; auto. exists th. split; auto. split; auto.
    unfold pcK, th. cbn. destruct msgs; cbn; auto. discriminate. }
  pose proof (K_run _ _ _ _ (send_fuel msgs) _ K1) as K2.
  destruct (send_returns (send_fuel msgs) s1 (nextt s) th o I1 Hth1) as (r & Hr & _).
  { unfold mu, send_fuel, th. cbn. destruct msgs; cbn; lia. }
  set (s2 := run_thread (send_fuel msgs) s1 (nextt s) o) in *.
  destruct K2 as [_ _ _ _ Hdel (th2 & Hth2 & _ & Hpc)].
  unfold result in Hr. rewrite Hth2 in Hr. unfold pcK in Hpc.
  destruct (tpc th2) eqn:Epc; try discriminate.
  exists s2. split; auto. unfold result. now rewrite Hth2, Epc, Hpc.
Qed.

(* ---- the entry points ----------------------------------------------------------------------- *)

Lemma send_raw_fixed_propagates r : send_raw true r = r.
Proof. reflexivity. Qed.

Lemma send_raw_pinned_drops : send_raw false RErr = ROk.
Proof. reflexivity. Qed.

Lemma tree_node_send_propagates r : send_to_tree_node r = r.
Proof. reflexivity. Qed.

Lemma tn_send_to_propagates a b : tn_send_to a b RErr = RErr.
Proof. destruct a, b; reflexivity. Qed.

Section Wrappers.
Variable St : Type.
Variable snd_ : St -> nat -> St * res.

(* the state in which the k-th destination is tried, for the all-destinations wrappers *)
Fixpoint state_before (s : St) (dests : list nat) (k : nat) : St :=
  match k, dests with
  | S k', d :: r => state_before (fst (snd_ s d)) r k'
  | _, _ => s
  end.

Lemma multicast_reports s dests k d :
  nth_error dests k = Some d -> snd (snd_ (state_before s dests k) d) = RErr ->
  In d (snd (multicast St snd_ s dests)).
Proof.
  revert s k; induction dests as [|d0 r IH]; intros s [|k] Hn He; cbn in *; try discriminate.
  - inv_some. destruct (snd_ s d) as [s' x] eqn:E. cbn in He. subst x.
    destruct (multicast St snd_ s' r). cbn. now left.
  - destruct (snd_ s d0) as [s' x] eqn:E. cbn in He.
    specialize (IH s' k Hn He). destruct (multicast St snd_ s' r) as [s'' errs]. cbn in *.
    destruct x; auto. now right.
Qed.

Lemma multicast_only_failures s dests d :
  In d (snd (multicast St snd_ s dests)) ->
  exists k, nth_error dests k = Some d /\ snd (snd_ (state_before s dests k) d) = RErr.
Proof.
  revert s; induction dests as [|d0 r IH]; intros s H; [destruct H|].
  cbn [multicast] in H. destruct (snd_ s d0) as [s' x] eqn:E.
  destruct (multicast St snd_ s' r) as [s'' errs] eqn:Em. cbn [snd] in H.
  assert (Hr : In d errs -> exists k, nth_error (d0 :: r) k = Some d /\ snd (snd_ (state_before s (d0 :: r) k) d) = RErr).
  { intros Hin. destruct (IH s') as (k & A & B); [now rewrite Em|]. exists (S k). cbn [nth_error state_before].
    rewrite E. auto. }
  destruct x; [apply Hr; exact H|].
  destruct H as [<-|H]; [|apply Hr; exact H]. exists 0. cbn [nth_error state_before]. rewrite E. auto.
Qed.

Lemma send_to_children_reports s dests k d :
  nth_error dests k = Some d -> snd (snd_ (state_before s dests k) d) = RErr ->
  (forall j d', j < k -> nth_error dests j = Some d' -> snd (snd_ (state_before s dests j) d') = ROk) ->
  snd (send_to_children St snd_ s dests) = RErr.
Proof.
  revert s k; induction dests as [|d0 r IH]; intros s [|k] Hn He Hok; cbn in *; try discriminate.
  - inv_some. destruct (snd_ s d) as [s' x]. cbn in He. now subst.
  - destruct (snd_ s d0) as [s' x] eqn:E. destruct x; auto.
    apply (IH s' k); auto. intros j d' Hj Hd'. specialize (Hok (S j) d' ltac:(lia) Hd'). cbn in Hok.
    rewrite ?E in Hok. exact Hok.
Qed.

Lemma send_to_children_ok_all s dests :
  snd (send_to_children St snd_ s dests) = ROk ->
  forall k d, nth_error dests k = Some d -> snd (snd_ (state_before s dests k) d) = ROk.
Proof.
  revert s; induction dests as [|d0 r IH]; intros s H [|k] d Hn; cbn in *; try discriminate.
  - inv_some. destruct (snd_ s d) as [s' x]. destruct x; auto.
  - destruct (snd_ s d0) as [s' x] eqn:E. destruct x; [|discriminate]. now apply IH.
Qed.

Lemma send_to_parent_propagates s q : send_to_parent St snd_ s (Some q) = snd_ s q.
Proof. reflexivity. Qed.

Lemma broadcast_reports s self nodes k d :
  nth_error (filter (fun d => negb (d =? self)) nodes) k = Some d ->
  snd (snd_ (state_before s (filter (fun d => negb (d =? self)) nodes) k) d) = RErr ->
  In d (snd (broadcast St snd_ s self nodes)).
Proof. apply multicast_reports. Qed.

End Wrappers.

(* ---- a crash of one peer does not touch anything that concerns another peer ------------------- *)

Theorem crash_footprint s p s' :
  step s (ACrash p) = Some s' ->
  table s' = table s /\ threads s' = threads s /\ closed s' = closed s /\ calls s' = calls s /\
  delivered s' = delivered s /\ dispatched s' = dispatched s /\
  (forall q, q <> p -> listening s' q = listening s q) /\ incn s' = incn s /\
  (forall c x, conns s c = Some x -> cpeer x <> p -> conns s' c = Some x).
Proof.
  intros H. cbv beta iota zeta delta [step] in H. inv_some. cbn. repeat split; auto.
  - intros q Hq. now rewrite upd_other.
  - intros c x Hx Hp. rewrite Hx. apply Nat.eqb_neq in Hp. now rewrite Hp.
Qed.

(* ---- refutations for the pinned code ------------------------------------------------------------ *)

(* F11 seen from the survivor: peer 0 is talked to, is shut down while one of its goroutines still
   dials us (the connection is accepted here and dropped, not closed, there), the death of the
   first connection is noticed and notified, the peer comes back -- and a Send returns nil
   without delivering anything to anybody. *)
Definition abandoned_history : list action :=
  [ASpawn 0 [1]; AStep 0 false; AStep 0 false; AStep 0 false; AStep 0 false; AStep 0 false; AStep 0 false;
   ACrash 0; AAcceptClosing false 0; ALaunchInc 1;
   ARecvErr 0 EEOF; ATrigger 0; AExit 0; ARestart 0].

Definition st_of (o : option state) : state := match o with Some s => s | None => init false false 0 end.

Theorem resend_abandoned_refuted :
  exists s s', run (init false false 1) abandoned_history = Some s /\
    closed s = false /\ listening s 0 = true /\ table s 0 = [1] /\
    send_call s 0 [2] false = (s', Some ROk) /\ delivered s' = delivered s.
Proof.
  exists (st_of (run (init false false 1) abandoned_history)).
  exists (fst (send_call (st_of (run (init false false 1) abandoned_history)) 0 [2] false)).
  split; [vm_compute; reflexivity|].
  split; [vm_compute; reflexivity|].
  split; [vm_compute; reflexivity|].
  split; [vm_compute; reflexivity|].
  split; [|vm_compute; reflexivity].
  rewrite (surjective_pairing (send_call _ 0 [2] false)) at 1. f_equal; vm_compute; reflexivity.
Qed.

(* the same history with the repaired peer (it closes the refused connection): the Send reconnects
   and delivers to the new incarnation *)
Example resend_repaired_example :
  exists s s', run (init true false 1)
                 [ASpawn 0 [1]; AStep 0 false; AStep 0 false; AStep 0 false; AStep 0 false; AStep 0 false; AStep 0 false;
                  ACrash 0; AAcceptClosing true 0; ALaunchInc 1;
                  ARecvErr 0 EEOF; ATrigger 0; AExit 0; ARestart 0] = Some s /\
    send_call s 0 [2] false = (s', Some ROk) /\ delivered s' = delivered s ++ [(2, 2)].
Proof.
  eexists. eexists. split; [vm_compute; reflexivity|]. split; vm_compute; reflexivity.
Qed.

(* ---- every entry point over the router's result ------------------------------------------------- *)

Definition opt_res (r : option res) : res := match r with Some x => x | None => RErr end.

Theorem entry_points_report f b n acts s p msgs o :
  run (init f b n) acts = Some s -> listening s p = false ->
  (forall c x, In c (table s p) -> conns s c = Some x -> sink x = false) ->
  (table s p = [] \/ tcp s = false \/ o = false) ->
  let r := opt_res (snd (send_call s p msgs o)) in
  let snd_ := fun (st : unit) (q : nat) => (st, r) in
  r = RErr /\
  send_raw true r = RErr /\
  send_to_tree_node r = RErr /\
  tn_send_to false false r = RErr /\
  snd (send_to_parent unit snd_ tt (Some p)) = RErr /\
  snd (send_to_children unit snd_ tt [p]) = RErr /\
  snd (multicast unit snd_ tt [p]) = [p] /\
  (forall self, self <> p -> snd (broadcast unit snd_ tt self [self; p]) = [p]).
Proof.
  intros R Hl Hns Hq r snd_.
  destruct (send_fails_when_nothing_listens _ _ _ _ _ _ msgs o R Hl Hns Hq) as (s' & Hs & _).
  assert (Hr : r = RErr) by (unfold r; rewrite Hs; reflexivity).
  unfold snd_. rewrite Hr. cbn. repeat split; auto.
  intros self Hne. unfold broadcast. cbn. rewrite Nat.eqb_refl. cbn.
  apply Nat.eqb_neq in Hne. rewrite Nat.eqb_sym, Hne. reflexivity.
Qed.

(* F10: the pinned Context.SendRaw reports success where the router reported the failure *)
Theorem sendraw_refuted :
  exists s r, run (init false false 0) [ACrash 0] = Some s /\ listening s 0 = false /\ table s 0 = [] /\
              snd (send_call s 0 [1] false) = Some r /\ r = RErr /\ send_raw false r = ROk.
Proof.
  exists (st_of (run (init false false 0) [ACrash 0])), RErr.
  repeat split; vm_compute; reflexivity.
Qed.

(* ---- the hypotheses of the implications are satisfiable ------------------------------------------- *)

Definition repaired_history : list action :=
  [ASpawn 0 [1]; AStep 0 false; AStep 0 false; AStep 0 false; AStep 0 false; AStep 0 false; AStep 0 false;
   ACrash 0; AAcceptClosing true 0; ALaunchInc 1;
   ARecvErr 0 EEOF; ATrigger 0; AExit 0; ARestart 0].

Example resend_hypotheses_example :
  exists s, run (init true false 1) repaired_history = Some s /\ closed s = false /\ listening s 0 = true /\
            (forall c x, In c (table s 0) -> conns s c = Some x -> sink x = false) /\ tcp s = false.
Proof.
  exists (st_of (run (init true false 1) repaired_history)).
  split; [vm_compute; reflexivity|]. split; [vm_compute; reflexivity|]. split; [vm_compute; reflexivity|].
  split; [|vm_compute; reflexivity].
  intros c x Hin Hx. assert (Ht : table (st_of (run (init true false 1) repaired_history)) 0 = [1]) by (vm_compute; reflexivity).
  rewrite Ht in Hin. destruct Hin as [<-|[]]. vm_compute in Hx. inversion Hx. reflexivity.
Qed.

Example table_clean_example :
  exists s x, run (init true false 1) repaired_history = Some s /\ conns s 0 = Some x /\ loop x = LExited true /\ nh s = 1.
Proof.
  exists (st_of (run (init true false 1) repaired_history)). eexists.
  split; [vm_compute; reflexivity|]. split; [vm_compute; reflexivity|]. split; vm_compute; reflexivity.
Qed.

Definition crashed_history : list action :=
  [ASpawn 0 [1]; AStep 0 false; AStep 0 false; AStep 0 false; AStep 0 false; AStep 0 false; AStep 0 false; ACrash 0].

Example send_fails_hypotheses_example :
  exists s, run (init true false 1) crashed_history = Some s /\
            listening s 0 = false /\ table s 0 = [0] /\ tcp s = false /\
            (forall c x, In c (table s 0) -> conns s c = Some x -> sink x = false).
Proof.
  exists (st_of (run (init true false 1) crashed_history)). split; [vm_compute; reflexivity|].
  split; [vm_compute; reflexivity|]. split; [vm_compute; reflexivity|]. split; [vm_compute; reflexivity|].
  intros c x Hin Hx.
  assert (Ht : table (st_of (run (init true false 1) crashed_history)) 0 = [0]) by (vm_compute; reflexivity).
  rewrite Ht in Hin. destruct Hin as [<-|[]]. vm_compute in Hx. inversion Hx. reflexivity.
Qed.

Definition stale_history : list action := [AAccept 3; ALaunchInc 0; ACrash 3].

Example stale_entry_example :
  exists s x, run (init true true 2) stale_history = Some s /\
              In 0 (table s 3) /\ conns s 0 = Some x /\ loop x = LRun /\ alive x = false.
Proof.
  exists (st_of (run (init true true 2) stale_history)). eexists. split; [vm_compute; reflexivity|].
  split; [vm_compute; auto|]. split; [vm_compute; reflexivity|]. split; vm_compute; reflexivity.
Qed.

Theorem classifier_total_all c :
  (classify c = Drop <-> c = ETimeout \/ c = EClosed \/ c = EEOF \/ c = EUnknown \/ c = ETooBig) /\
  (classify c = Continue <-> c = ECanceled \/ c = EOther) /\
  (classify c = Drop \/ classify c = Continue).
Proof. exact (conj (classify_drop_iff c) (conj (classify_continue_iff c) (classify_total c))). Qed.

Theorem raw_recoverable_iff e :
  (handle_error e <> EOther /\ handle_error e <> ETooBig) /\
  (classify (handle_error e) = Continue <->
   has_use_of_closed e = false /\ has_broken_pipe e = false /\ has_canceled e = true).
Proof. exact (conj (handle_error_never_other e) (raw_continue_iff e)). Qed.

(* ---- the configuration that goes with the first message ------------------------------------------- *)

(* repaired SendTo: the first send that succeeds carries the configuration *)
Theorem config_reaches_fixed : forall earlier,
  Forall (fun r => r = RErr) earlier -> carries_config true earlier = true.
Proof.
  intros earlier H. destruct earlier as [|r l]; auto. cbn [carries_config andb].
  apply forallb_forall. intros x Hx. rewrite Forall_forall in H. now rewrite (H x Hx).
Qed.

(* pinned SendTo: one failed send is enough to lose it *)
Theorem config_lost_refuted : carries_config false [RErr] = false.
Proof. reflexivity. Qed.

(* ---- the in-memory transport under back-pressure (C09-N3) ------------------------------------------- *)

Definition lstuck (fx : bool) (s : lconn) : Prop := forall a, lstep fx s a = None.

Definition lall : list laction :=
  [LSend; LSendRoom; LFwdTake; LFwdPush; LFwdClose; LRead; LReaderStop; LCloseBegin; LCloseEnd; LOther].

Lemma lstuck_dec fx s :
  forallb (fun a => match lstep fx s a with None => true | Some _ => false end) lall = true -> lstuck fx s.
Proof.
  intros H a. rewrite forallb_forall in H.
  assert (Hin : In a lall) by (destruct a; cbn; tauto).
  specialize (H a Hin). destruct (lstep fx s a); [discriminate|reflexivity].
Qed.

Definition lst_of (o : option lconn) : lconn := match o with Some s => s | None => linit 0 end.

(* pinned code: the reader has stopped with the outgoing queue full, the forwarder holds a packet,
   the peer is closed: lm.close waits for closeConfirm for ever WITH the manager's lock -- nothing
   in the whole manager can move any more *)
Definition close_deadlock_history : list laction :=
  [LSend; LFwdTake; LFwdPush; LReaderStop; LSend; LFwdTake; LCloseBegin].

Theorem local_close_deadlock_refuted :
  exists s, lrun false (linit 1) close_deadlock_history = Some s /\ closer s = CWait /\ lstuck false s.
Proof.
  exists (lst_of (lrun false (linit 1) close_deadlock_history)).
  split; [reflexivity|]. split; [reflexivity|]. apply lstuck_dec. reflexivity.
Qed.

(* pinned code, second form: a Send that finds the incoming queue full waits with the manager's lock *)
Definition send_deadlock_history : list laction :=
  [LSend; LFwdTake; LFwdPush; LReaderStop; LSend; LFwdTake; LSend; LSend].

Theorem local_send_deadlock_refuted :
  exists s, lrun false (linit 1) send_deadlock_history = Some s /\ lock_s s = true /\ closer s = CIdle /\ lstuck false s.
Proof.
  exists (lst_of (lrun false (linit 1) send_deadlock_history)).
  split; [reflexivity|]. split; [reflexivity|]. split; [reflexivity|]. apply lstuck_dec. reflexivity.
Qed.

(* the same histories are harmless with the repair *)
Example local_close_repaired_example :
  exists s, lrun true (linit 1) (close_deadlock_history ++ [LFwdClose; LCloseEnd; LOther]) = Some s /\ closer s = CDone.
Proof.
  exists (lst_of (lrun true (linit 1) (close_deadlock_history ++ [LFwdClose; LCloseEnd; LOther]))).
  split; vm_compute; reflexivity.
Qed.

Record LInv (s : lconn) : Prop := {
  li_lock : lock_s s = false;
  li_sig : closer s <> CIdle -> closesig s = true }.

Lemma lstep_inv s a s' : LInv s -> lstep true s a = Some s' -> LInv s'.
Proof.
  intros [L G] H. destruct a; cbv beta iota zeta delta [lstep] in H.
  all: repeat (break_if H; try discriminate); inv_some.
  all: constructor; cbn in *; auto; try congruence.
  all: try (intros; apply G; congruence).
Qed.

Lemma lrun_inv acts : forall s s', LInv s -> lrun true s acts = Some s' -> LInv s'.
Proof.
  induction acts as [|a r IH]; cbn; intros s s' I H; [now inv_some|].
  destruct (lstep true s a) as [s1|] eqn:E; [|discriminate]. apply (IH s1 s'); auto. eapply lstep_inv; eauto.
Qed.

(* repaired code, every queue size, every history: no Send ever waits with the manager's lock, and
   whenever a close is waiting for its confirmation the forwarding goroutine can give it at once --
   closing a connection always gets through, however full its queues are and whether or not
   anybody still reads *)
Theorem local_close_completes cap acts s :
  lrun true (linit cap) acts = Some s ->
  lock_s s = false /\
  (closer s = CWait ->
   exists s', (lrun true s [LFwdClose; LCloseEnd] = Some s' \/ lrun true s [LCloseEnd] = Some s') /\
              closer s' = CDone /\ lock_free s' = true).
Proof.
  intros R. assert (I : LInv s).
  { eapply lrun_inv; [|exact R]. constructor; cbn; auto; intros H; congruence. }
  destruct I as [L G]. split; auto. intros Hc.
  assert (Hs : closesig s = true) by (apply G; congruence).
  destruct (fwd s) eqn:Ef.
  - eexists. split; [left; cbn; rewrite Hs, Ef; cbn; rewrite Hc; reflexivity|]. cbn. unfold lock_free. cbn. now rewrite L.
  - eexists. split; [left; cbn; rewrite Hs, Ef; cbn; rewrite Hc; reflexivity|]. cbn. unfold lock_free. cbn. now rewrite L.
  - eexists. split; [right; cbn; rewrite Hc, Ef; reflexivity|]. cbn. unfold lock_free. cbn. now rewrite L.
Qed.

(* the flood scenario of the harness, for the real queue size *)
Theorem flood_outcome_repaired : forall k, In k [50; 150; 250; 300; 380; 430; 450; 500] ->
  flood_outcome true 200 k = (true, true, true, true).
Proof. intros k H. cbn in H. repeat (destruct H as [<-|H]; [vm_compute; reflexivity|]). destruct H. Qed.

Theorem flood_outcome_pinned :
  flood_outcome false 200 150 = (true, true, true, true) /\
  flood_outcome false 200 300 = (false, true, false, false) /\
  flood_outcome false 200 450 = (false, false, false, false).
Proof. repeat split; vm_compute; reflexivity. Qed.

(* ---- the router's mutex: no thread ever waits for ever ------------------------------------------------- *)

(* a program is well bracketed: sections do not nest and are closed *)
Fixpoint wfp (held : bool) (p : lockprog) : Prop :=
  match p with
  | [] => held = false
  | ILock :: r => held = false /\ wfp true r
  | IUnlock :: r => held = true /\ wfp false r
  | IWork :: r => wfp held r
  end.

Definition holds (s : msys) (t : nat) : bool := match mtx s with Some h => h =? t | None => false end.

Definition MInv (s : msys) : Prop :=
  (forall t p, nth_error (progs s) t = Some p -> wfp (holds s t) p) /\
  (forall h, mtx s = Some h -> h < length (progs s)).

Lemma set_nth_length {A} (l : list A) i x : length (set_nth l i x) = length l.
Proof. revert i; induction l as [|y r IH]; intros [|i]; cbn; auto. Qed.

Lemma nth_set_nth_same {A} (l : list A) i x : i < length l -> nth_error (set_nth l i x) i = Some x.
Proof. revert i; induction l as [|y r IH]; intros [|i] H; cbn in *; try lia; auto. apply IH. lia. Qed.

Lemma nth_set_nth_other {A} (l : list A) i j x : i <> j -> nth_error (set_nth l i x) j = nth_error l j.
Proof. revert i j; induction l as [|y r IH]; intros [|i] [|j] H; cbn; auto; congruence. Qed.

Lemma mstep_inv s t s' : MInv s -> mstep s t = Some s' -> MInv s'.
Proof.
  intros [W B] H. unfold mstep in H.
  destruct (nth_error (progs s) t) as [p|] eqn:Ep; [|discriminate].
  assert (Lt : t < length (progs s)) by (apply nth_error_Some; congruence).
  pose proof (W t p Ep) as Wt.
  destruct p as [|i r]; [discriminate|]. destruct i.
  - destruct (mtx s) eqn:Em; [discriminate|]. inv_some. cbn in Wt. destruct Wt as [_ Wr].
    split; cbn; [|intros h Hh; inv_some; now rewrite set_nth_length].
    intros t0 p0 Hp. unfold holds. cbn. destruct (Nat.eq_dec t0 t) as [->|Hne].
    + rewrite nth_set_nth_same in Hp by auto. inv_some. now rewrite Nat.eqb_refl.
    + rewrite nth_set_nth_other in Hp by auto. specialize (W t0 p0 Hp). unfold holds in W. rewrite Em in W.
      apply Nat.eqb_neq in Hne. rewrite Nat.eqb_sym, Hne. exact W.
  - destruct (mtx s) as [h|] eqn:Em; [|discriminate]. destruct (h =? t) eqn:Eh; [|discriminate].
    apply Nat.eqb_eq in Eh. subst h. inv_some. cbn in Wt. destruct Wt as [_ Wr].
    split; cbn; [|intros h Hh; discriminate].
    intros t0 p0 Hp. unfold holds. cbn. destruct (Nat.eq_dec t0 t) as [->|Hne].
    + rewrite nth_set_nth_same in Hp by auto. now inv_some.
    + rewrite nth_set_nth_other in Hp by auto. specialize (W t0 p0 Hp). unfold holds in W. rewrite Em in W.
      apply Nat.eqb_neq in Hne. rewrite Nat.eqb_sym, Hne in W. exact W.
  - inv_some. cbn in Wt. split; cbn; [|intros h Hh; rewrite set_nth_length; auto].
    intros t0 p0 Hp. unfold holds. cbn. destruct (Nat.eq_dec t0 t) as [->|Hne].
    + rewrite nth_set_nth_same in Hp by auto. inv_some. exact Wt.
    + rewrite nth_set_nth_other in Hp by auto. exact (W t0 p0 Hp).
Qed.

Lemma mrun_inv ts : forall s s', MInv s -> mrun s ts = Some s' -> MInv s'.
Proof.
  induction ts as [|t r IH]; cbn; intros s s' I H; [now inv_some|].
  destruct (mstep s t) as [s1|] eqn:E; [|discriminate]. apply (IH s1 s'); auto. eapply mstep_inv; eauto.
Qed.

Lemma MInv_init ps : Forall (wfp false) ps -> MInv (mkM None ps).
Proof.
  intros F. split; cbn; [|intros h H; discriminate].
  intros t p Hp. unfold holds. cbn. rewrite Forall_forall in F. apply F. eapply nth_error_In; eauto.
Qed.

(* With well-bracketed programs (the pinned router: nothing is called with the mutex held except the
   closing of connections in Stop), in every reachable state: the holder of the mutex can take its
   next step, and if nobody holds it every unfinished thread can take its next step. Hence no thread
   waits for ever: whoever waits for the mutex waits for a holder that can always run on to its Unlock. *)
Theorem mutex_never_stuck ps ts s :
  Forall (wfp false) ps -> mrun (mkM None ps) ts = Some s ->
  (forall h, mtx s = Some h -> exists s', mstep s h = Some s') /\
  (mtx s = None -> forall t p, nth_error (progs s) t = Some p -> p <> [] -> exists s', mstep s t = Some s').
Proof.
  intros F R. pose proof (mrun_inv _ _ _ (MInv_init _ F) R) as [W B]. split.
  - intros h Hh. pose proof (B h Hh) as Lt. destruct (nth_error (progs s) h) as [p|] eqn:Ep;
      [|apply nth_error_None in Ep; lia].
    pose proof (W h p Ep) as Wp. unfold holds in Wp. rewrite Hh, Nat.eqb_refl in Wp.
    unfold mstep. rewrite Ep. destruct p as [|i r]; [cbn in Wp; discriminate|]. destruct i; cbn in Wp.
    + destruct Wp; discriminate.
    + rewrite Hh, Nat.eqb_refl. eauto.
    + eauto.
  - intros Hm t p Ep Hne. pose proof (W t p Ep) as Wp. unfold holds in Wp. rewrite Hm in Wp.
    unfold mstep. rewrite Ep. destruct p as [|i r]; [congruence|]. destruct i; cbn in Wp.
    + rewrite Hm. eauto.
    + destruct Wp; discriminate.
    + eauto.
Qed.

(* the programs of the pinned router are well bracketed, whatever the handlers do *)
Lemma wfp_app p q : wfp false p -> wfp false q -> wfp false (p ++ q).
Proof.
  assert (G : forall b, wfp b p -> wfp false q -> wfp b (p ++ q)).
  { induction p as [|i r IH]; intros b Hp Hq; cbn in *.
    - subst. exact Hq.
    - destruct i; cbn in *; intuition. }
  apply G.
Qed.

Lemma wfp_handlers hs : wfp false (concat (map handler_prog hs)).
Proof.
  induction hs as [|h r IH]; cbn; auto. apply wfp_app; auto. destruct h; cbn; auto.
Qed.

Theorem router_programs_well_bracketed hs :
  wfp false (loop_exit_prog false hs) /\ wfp false send_prog /\ wfp false stop_prog.
Proof.
  split; [|split; cbn; auto 10].
  unfold loop_exit_prog. cbn [app].
  apply wfp_app; [cbn; auto|]. apply wfp_app; [cbn; auto|].
  apply wfp_app; [apply wfp_handlers|]. cbn. auto.
Qed.

(* seeded change C09-A (handlers called with the mutex held), one re-entrant handler, one Send: after the
   receive loop has entered the handler nothing can move any more -- the loop waits for the mutex it
   holds, the Send waits for the loop *)
Theorem handlers_under_mutex_refuted :
  exists s, mrun (mkM None [loop_exit_prog true [true]; send_prog]) [0; 0; 0; 0; 0] = Some s /\
            mstep s 0 = None /\ mstep s 1 = None /\
            nth_error (progs s) 0 <> Some [] /\ nth_error (progs s) 1 <> Some [].
Proof.
  eexists. split; [vm_compute; reflexivity|]. repeat split; vm_compute; congruence.
Qed.

(* ---- the entry points over the REAL router state ---------------------------------------------------------
   The wrappers of treenode.go / overlay.go / context.go are folds over Router.Send; here the fold runs
   over the router transition system itself: every SendTo of a multi-destination entry point is a
   [send_call] in the state the previous ones left behind. *)

Lemma thread_step_peer s t o s' th :
  threads s t = Some th -> thread_step s t o = Some s' ->
  (exists th', threads s' t = Some th' /\ tpeer th' = tpeer th) /\
  (forall p, p <> tpeer th -> table s' p = table s p).
Proof.
  intros Hth H. unfold thread_step in H. rewrite Hth in H.
  assert (G : forall s0 th0, tpeer th0 = tpeer th ->
              exists th', threads (set_thread s0 t th0) t = Some th' /\ tpeer th' = tpeer th).
  { intros s0 th0 E. exists th0. cbn. now rewrite upd_same. }
  destruct (tpc th) eqn:Hpc; try discriminate.
  - destruct (table s (tpeer th)); inv_some; split; [apply G; reflexivity|auto| apply G; reflexivity|auto].
  - destruct (listening s (tpeer th)); [unfold new_conn in H|]; inv_some; (split; [apply G; reflexivity|auto]).
  - destruct (ident_send s c o); inv_some; (split; [apply G; reflexivity|]); auto.
    intros p _. cbn. now destruct (close_refused_frame s c) as (_ & -> & _).
  - destruct (closed s); inv_some; (split; [apply G; reflexivity|]).
    + intros p _. cbn. now destruct (close_refused_frame s c) as (_ & -> & _).
    + intros p Hp. cbn. now rewrite upd_other.
  - destruct (closed s); inv_some; [split; [apply G; reflexivity|]|].
    + intros p _. cbn. now destruct (close_refused_frame s c) as (_ & -> & _).
    + destruct (conns s c) as [x|]; [|discriminate]. destruct (loop x); try discriminate.
      destruct (t0 =? t); inv_some. split; [apply G; reflexivity|auto].
  - destruct (tmsgs th) as [|m rest]; inv_some; [split; [apply G; reflexivity|auto]|].
    destruct (conn_send s c m o) as [s1 ok] eqn:Hs.
    destruct (conn_send_frame _ _ _ _ _ _ Hs) as (_&_&_&A4&_).
    destruct ok; inv_some; (split; [apply G; reflexivity|]); cbn; intros; now rewrite A4.
  - destruct (tmsgs th) as [|m rest]; inv_some; [split; [apply G; reflexivity|auto]|].
    destruct (conn_send s c' m o) as [s1 ok] eqn:Hs.
    destruct (conn_send_frame _ _ _ _ _ _ Hs) as (_&_&_&A4&_).
    destruct ok; inv_some; (split; [apply G; reflexivity|]); cbn; intros; now rewrite A4.
Qed.

Lemma run_thread_frame fuel : forall s t o th,
  Inv s -> threads s t = Some th ->
  Inv (run_thread fuel s t o) /\ listening (run_thread fuel s t o) = listening s /\
  closed (run_thread fuel s t o) = closed s /\
  (forall p, p <> tpeer th -> table (run_thread fuel s t o) p = table s p).
Proof.
  induction fuel as [|f IH]; intros s t o th I Hth; cbn; [auto|].
  destruct (thread_step s t o) as [s1|] eqn:E; [|auto].
  destruct (thread_step_peer _ _ _ _ _ Hth E) as ((th1 & Hth1 & Hp1) & Ht).
  destruct (thread_step_frame _ _ _ _ I E) as (F1 & F2 & _).
  destruct (IH s1 t o th1 (step_thread _ _ _ _ I E) Hth1) as (A & B & C & D).
  split; [exact A|]. split; [congruence|]. split; [congruence|].
  intros p Hp. rewrite D by congruence. now apply Ht.
Qed.

Lemma send_call_frame s q msgs o :
  Inv s ->
  Inv (fst (send_call s q msgs o)) /\ listening (fst (send_call s q msgs o)) = listening s /\
  closed (fst (send_call s q msgs o)) = closed s /\
  (forall p, p <> q -> table (fst (send_call s q msgs o)) p = table s p).
Proof.
  intros I. unfold send_call. cbv beta iota zeta delta [step].
  set (th := mkThread q msgs (match msgs with [] => PDone RErr | _ => PLookup end)).
  set (s1 := set_threads s (upd (threads s) (nextt s) (Some th)) (S (nextt s))).
  assert (I1 : Inv s1) by (eapply (step_spawn s q msgs); eauto).
  assert (Hth1 : threads s1 (nextt s) = Some th) by (subst s1; cbn; now rewrite upd_same).
  destruct (run_thread_frame (send_fuel msgs) s1 (nextt s) o th I1 Hth1) as (A & B & C & D).
  cbn [fst]. split; [exact A|]. split; [exact B|]. split; [exact C|exact D].
Qed.

Lemma send_fails_inv s p msgs o :
  Inv s -> listening s p = false -> table s p = [] ->
  snd (send_call s p msgs o) = Some RErr.
Proof.
  intros I Hl Ht. unfold send_call. cbv beta iota zeta delta [step].
  set (th := mkThread p msgs (match msgs with [] => PDone RErr | _ => PLookup end)).
  set (s1 := set_threads s (upd (threads s) (nextt s) (Some th)) (S (nextt s))).
  assert (I1 : Inv s1) by (eapply (step_spawn s p msgs); eauto).
  assert (Hth1 : threads s1 (nextt s) = Some th) by (subst s1; cbn; now rewrite upd_same).
  assert (K1 : K (nextt s) p o (delivered s) s1).
  { constructor; auto.
    - cbn. rewrite Ht. intros c x [].
    - exists th. split; auto. split; auto. unfold pcK, th. cbn. destruct msgs; cbn; auto. discriminate. }
  pose proof (K_run _ _ _ _ (send_fuel msgs) _ K1) as K2.
  destruct (send_returns (send_fuel msgs) s1 (nextt s) th o I1 Hth1) as (r & Hr & _).
  { unfold mu, send_fuel, th. cbn. destruct msgs; cbn; lia. }
  destruct K2 as [_ _ _ _ _ (th2 & Hth2 & _ & Hpc)]. cbn [snd].
  unfold result in *. rewrite Hth2 in *. unfold pcK in Hpc.
  destruct (tpc th2); try discriminate. now rewrite Hpc.
Qed.

Arguments send_call : simpl never.

(* one SendTo of an instance = one Router.Send of the same messages *)
Definition rsend (msgs : list nat) (o : bool) (s : state) (q : nat) : state * res :=
  (fst (send_call s q msgs o), opt_res (snd (send_call s q msgs o))).

Section DeadPeer.
Variables (msgs : list nat) (o : bool) (p : nat).

Definition dead (s : state) : Prop := Inv s /\ listening s p = false /\ table s p = [].

Lemma dead_fails s : dead s -> snd (rsend msgs o s p) = RErr.
Proof. intros (I & L & T). unfold rsend. cbn. now rewrite (send_fails_inv s p msgs o I L T). Qed.

Lemma dead_kept s q : dead s -> q <> p -> dead (fst (rsend msgs o s q)).
Proof.
  intros (I & L & T) Hq. destruct (send_call_frame s q msgs o I) as (A & B & _ & D).
  unfold rsend. cbn [fst]. split; [exact A|]. split; [now rewrite B|]. rewrite D; auto.
Qed.

(* SendToChildren: a dead child makes the call fail (at that child or earlier) *)
Theorem send_to_children_dead_child dests : forall s,
  dead s -> In p dests -> snd (send_to_children state (rsend msgs o) s dests) = RErr.
Proof.
  induction dests as [|d r IH]; intros s D Hin; [destruct Hin|]. cbn [send_to_children].
  destruct (Nat.eq_dec d p) as [->|Hd].
  - pose proof (dead_fails s D) as F. destruct (rsend msgs o s p) as [s' x]. cbn in F. now subst.
  - destruct Hin as [E|Hin]; [congruence|].
    pose proof (dead_kept s d D Hd) as D'. destruct (rsend msgs o s d) as [s' x]. cbn in D'.
    destruct x; auto.
Qed.

(* Multicast / Broadcast / SendToChildrenInParallel: a dead destination is among the reported ones *)
Theorem multicast_reports_dead_peer dests : forall s,
  dead s -> In p dests -> In p (snd (multicast state (rsend msgs o) s dests)).
Proof.
  induction dests as [|d r IH]; intros s D Hin; [destruct Hin|]. cbn [multicast].
  destruct (Nat.eq_dec d p) as [->|Hd].
  - pose proof (dead_fails s D) as F. destruct (rsend msgs o s p) as [s' x]. cbn in F. subst x.
    destruct (multicast state (rsend msgs o) s' r). cbn. now left.
  - destruct Hin as [E|Hin]; [congruence|].
    pose proof (dead_kept s d D Hd) as D'. destruct (rsend msgs o s d) as [s' x]. cbn in D'.
    specialize (IH s' D' Hin). destruct (multicast state (rsend msgs o) s' r) as [s'' errs]. cbn in *.
    destruct x; auto. now right.
Qed.

Theorem broadcast_reports_dead_peer self nodes s :
  dead s -> In p nodes -> p <> self -> In p (snd (broadcast state (rsend msgs o) s self nodes)).
Proof.
  intros D Hin Hne. unfold broadcast. apply multicast_reports_dead_peer; auto.
  apply filter_In. split; auto. apply Nat.eqb_neq in Hne. now rewrite Hne.
Qed.

(* the single-destination entry points: SendToParent, SendTo, SendToTreeNode, the repaired SendRaw *)
Theorem single_entry_points_dead_peer s :
  dead s ->
  snd (send_to_parent state (rsend msgs o) s (Some p)) = RErr /\
  tn_send_to false false (snd (rsend msgs o s p)) = RErr /\
  send_to_tree_node (snd (rsend msgs o s p)) = RErr /\
  send_raw true (snd (rsend msgs o s p)) = RErr /\
  send_raw false (snd (rsend msgs o s p)) = ROk.
Proof.
  intros D. pose proof (dead_fails s D) as F. cbn [send_to_parent]. rewrite F. repeat split.
Qed.

End DeadPeer.

(* a reachable state in which the peer is dead in the sense above *)
Example dead_example : dead 0 (st_of (run (init true false 0) [ACrash 0])).
Proof.
  split; [|split; vm_compute; reflexivity].
  apply (reachable_inv true false 0 [ACrash 0]). vm_compute. reflexivity.
Qed.

(* ---- no connection is ever abandoned unclosed when the PEERS run the repaired code ------------------------- *)

Definition NoSink (s : state) : Prop := forall c x, conns s c = Some x -> sink x = false.

(* the peers close a connection whose registration they refuse (b122dd3 on their side too) *)
Definition peer_closes (a : action) : Prop := match a with AAcceptClosing false _ => False | _ => True end.

Lemma nosink_set_conn s c x : NoSink s -> sink x = false -> NoSink (set_conn s c x).
Proof. intros N Hx c0 x0 H. cbn in H. upd_cases; [now inv_some|eauto]. Qed.

Lemma nosink_close_refused s c : NoSink s -> NoSink (close_refused s c).
Proof.
  intros N. unfold close_refused. destruct (f11 s); auto. destruct (conns s c) as [x|] eqn:E; auto.
  apply nosink_set_conn; auto. cbn. eapply N; eauto.
Qed.

Lemma nosink_same_conns s s' : conns s' = conns s -> NoSink s -> NoSink s'.
Proof. intros E N c x H. rewrite E in H. eauto. Qed.

Lemma thread_step_nosink s t o s' : NoSink s -> thread_step s t o = Some s' -> NoSink s'.
Proof.
  intros N H. unfold thread_step in H.
  destruct (threads s t) as [th|]; [|discriminate].
  destruct (tpc th); try discriminate.
  - destruct (table s (tpeer th)); inv_some; eapply nosink_same_conns; eauto.
  - destruct (listening s (tpeer th)); [unfold new_conn in H|]; inv_some; [|eapply nosink_same_conns; eauto].
    intros c0 x0 H0. cbn in H0. upd_cases; [now inv_some|eauto].
  - destruct (ident_send s c o); inv_some; [eapply nosink_same_conns; eauto|].
    intros c0 x0 H0. cbn in H0. eapply (nosink_close_refused s c N); eauto.
  - destruct (closed s); inv_some; [|eapply nosink_same_conns; eauto].
    intros c0 x0 H0. cbn in H0. eapply (nosink_close_refused s c N); eauto.
  - destruct (closed s); inv_some.
    + intros c0 x0 H0. cbn in H0. eapply (nosink_close_refused s c N); eauto.
    + destruct (conns s c) as [x|] eqn:E; [|discriminate]. destruct (loop x); try discriminate.
      destruct (t0 =? t); inv_some. intros c0 x0 H0. cbn in H0. upd_cases; [inv_some; cbn; eauto|eauto].
  - destruct (tmsgs th) as [|m rest]; inv_some; [eapply nosink_same_conns; eauto|].
    destruct (conn_send s c m o) as [s1 ok] eqn:Hs.
    destruct (conn_send_frame _ _ _ _ _ _ Hs) as (_&_&_&_&A5&_).
    destruct ok; inv_some; intros c0 x0 H0; cbn in H0; rewrite A5 in H0; eauto.
  - destruct (tmsgs th) as [|m rest]; inv_some; [eapply nosink_same_conns; eauto|].
    destruct (conn_send s c' m o) as [s1 ok] eqn:Hs.
    destruct (conn_send_frame _ _ _ _ _ _ Hs) as (_&_&_&_&A5&_).
    destruct ok; inv_some; intros c0 x0 H0; cbn in H0; rewrite A5 in H0; eauto.
Qed.

Ltac nsk :=
  let cc := fresh "cc" in let xx := fresh "xx" in let hh := fresh "hh" in
  intros cc xx hh; cbn in hh; upd_cases; try (inv_some; cbn; eauto; fail); eauto.

Lemma step_nosink s a s' : NoSink s -> peer_closes a -> step s a = Some s' -> NoSink s'.
Proof.
  intros N P H. destruct a; cbv beta iota zeta delta [step] in H.
  - inv_some. eapply nosink_same_conns; eauto.
  - eapply thread_step_nosink; eauto.
  - repeat (break_if H; try discriminate); inv_some; auto; apply nosink_set_conn; auto; cbn; eauto.
  - repeat (break_if H; try discriminate); inv_some; try (apply nosink_set_conn; auto; cbn; eauto).
    eapply nosink_same_conns; eauto.
  - repeat (break_if H; try discriminate); inv_some. nsk.
  - repeat (break_if H; try discriminate); inv_some; nsk.
  - unfold new_conn in H. repeat (break_if H; try discriminate); inv_some.
    + apply nosink_close_refused. nsk.
    + nsk.
  - inv_some. nsk.
  - destruct closes; [|destruct P]. repeat (break_if H; try discriminate); inv_some.
    + apply nosink_close_refused. nsk.
    + nsk.
  - repeat (break_if H; try discriminate); inv_some; auto; try (apply nosink_close_refused; auto).
    apply nosink_set_conn; auto. cbn. eauto.
  - inv_some. intros cc xx hh. cbn in hh. destruct (conns s cc) as [y|] eqn:E; inv_some.
    destruct ((cpeer y =? p) && negb (sink y)); cbn; eauto.
  - repeat (break_if H; try discriminate); inv_some. eapply nosink_same_conns; eauto.
  - inv_some. intros cc xx hh. cbn in hh. destruct (conns s cc) as [y|] eqn:E; inv_some.
    destruct (mem cc (table s (cpeer y))); cbn; eauto.
Qed.

Lemma run_nosink acts : forall s s', NoSink s -> Forall peer_closes acts -> run s acts = Some s' -> NoSink s'.
Proof.
  induction acts as [|a r IH]; cbn; intros s s' N F H; [now inv_some|].
  inversion F; subst. destruct (step s a) as [s1|] eqn:E; [|discriminate].
  apply (IH s1 s'); auto. eapply step_nosink; eauto.
Qed.

(* resend after restart with the hypothesis discharged: when the peers close what they refuse, no
   registered connection is a sink, in any reachable state *)
Theorem resend_after_restart_closing_peers f b n acts s p msgs o :
  run (init f b n) acts = Some s -> Forall peer_closes acts ->
  closed s = false -> listening s p = true -> (tcp s = false \/ o = false) -> msgs <> [] ->
  exists s' D, send_call s p msgs o = (s', Some ROk) /\
    delivered s' = delivered s ++ D /\ map fst D = msgs /\
    Forall (fun mc => exists x, conns s' (snd mc) = Some x /\ cpeer x = p /\ cinc x = incn s' p /\ sink x = false) D.
Proof.
  intros R F Hc Hl Hq Hm. eapply resend_after_restart; eauto.
  intros c x _ Hx. eapply (run_nosink acts (init f b n)); eauto. intros c0 x0 H0. discriminate.
Qed.

Theorem errors_propagate_all msgs o p s dests self :
  dead p s -> In p dests ->
  snd (send_to_children state (rsend msgs o) s dests) = RErr /\
  In p (snd (multicast state (rsend msgs o) s dests)) /\
  (p <> self -> In p (snd (broadcast state (rsend msgs o) s self dests))) /\
  snd (send_to_parent state (rsend msgs o) s (Some p)) = RErr /\
  tn_send_to false false (snd (rsend msgs o s p)) = RErr /\
  send_to_tree_node (snd (rsend msgs o s p)) = RErr /\
  send_raw true (snd (rsend msgs o s p)) = RErr.
Proof.
  intros D Hin.
  destruct (single_entry_points_dead_peer msgs o p s D) as (A & B & C & E & _).
  split; [now apply (send_to_children_dead_child msgs o p)|]. split; [now apply (multicast_reports_dead_peer msgs o p)|].
  split; [intros Hne; now apply (broadcast_reports_dead_peer msgs o p)|]. auto.
Qed.

(* ---- a silently dead peer is noticed within one time-out -------------------------------------------------- *)

(* the code that arms the deadline before the header read: every Receive on a silent connection returns
   ErrTimeout at most one time-out after it started, whatever the connection has seen before; handleConn
   classifies ErrTimeout as unrecoverable, so (table_clean) the handlers are told and the entry leaves *)
Theorem silent_peer_detected now timeout leftover :
  exists t, receive_silent true now timeout leftover = Some t /\ t <= now + timeout /\ classify ETimeout = Drop.
Proof. exists (now + timeout). repeat split; auto. Qed.

(* the variant that arms it only before body reads: on a connection that received a frame at t0 <= now the
   left-over deadline still ends the wait within one time-out of [now] (which is why that variant passes
   every test with traffic) ... *)
Theorem leftover_deadline_covers now timeout t0 :
  t0 <= now ->
  exists t, receive_silent false now timeout (after_body t0 timeout) = Some t /\ t <= now + timeout.
Proof. intros H. eexists. split; [reflexivity|]. cbn. lia. Qed.

(* ... but on a fresh connection the Receive never returns: the dead peer is never noticed *)
Theorem silent_peer_undetected_refuted : forall now timeout, receive_silent false now timeout None = None.
Proof. reflexivity. Qed.

Theorem mute_detected_spec :
  mute_detected true true = true /\ mute_detected true false = true /\
  mute_detected false false = true /\ mute_detected false true = false.
Proof. repeat split. Qed.

(* ---- the in-memory listening table (C09-G) ------------------------------------------------------------------ *)

(* a Stop of a listener that does not listen (any more) changes nothing: in particular not the
   registration of whoever listens at that address now *)
Theorem stale_stop_harmless tb l : ll_on l = false -> ll_stop false tb l = (tb, l).
Proof. intros H. unfold ll_stop. now rewrite H. Qed.

Theorem restart_survives_old_stop addr : restart_then_stop_old false addr = Some 2.
Proof. unfold restart_then_stop_old. cbn. now rewrite !upd_same. Qed.

(* the variant that releases the address first deletes the successor's registration *)
Theorem old_stop_unregisters_successor_refuted addr : restart_then_stop_old true addr = None.
Proof. unfold restart_then_stop_old. cbn. now rewrite !upd_same. Qed.

(* ---- TCPConn.Send's mutex (C09-H) ----------------------------------------------------------------------------- *)

Theorem conn_send_well_bracketed ok : wfp false (conn_send_prog ok false).
Proof. destruct ok; cbn; auto. Qed.

(* a failed write with the leaking variant, then any other Send on the same connection object (the next
   message of a multi-message Router.Send, or another goroutine): the second Send waits for ever *)
Theorem send_mutex_leak_refuted :
  exists s, mrun (mkM None [conn_send_prog false true; conn_send_prog true true]) [0; 0] = Some s /\
            nth_error (progs s) 0 = Some [] /\ mtx s = Some 0 /\
            mstep s 1 = None /\ nth_error (progs s) 1 <> Some [].
Proof. eexists. split; [vm_compute; reflexivity|]. repeat split; vm_compute; congruence. Qed.
