(* C10 -- protocol starts racing with Overlay.Close: the code as it is leaves nothing
   behind, the variant that ranges over the bound instances only does. *)
From Coq Require Import List Arith Bool Lia.
Import ListNotations.
From Onet Require Import Net.RouterClose Net.RouterCloseProofs Net.StartClose.

Lemma count_pp_upd f l i x y :
  nth_error l i = Some x ->
  count_pp f (upd l i y) + (if f x then 1 else 0) = count_pp f l + (if f y then 1 else 0).
Proof.
  revert i; induction l as [|z r IH]; intros [|i] H; cbn in *; try discriminate.
  - inversion H; subst. lia.
  - specialize (IH _ H). lia.
Qed.

Lemma count_pp_app f l x : count_pp f (l ++ [x]) = count_pp f l + (if f x then 1 else 0).
Proof. induction l as [|z r IH]; cbn; lia. Qed.

Lemma count_pp_zero f l i x : count_pp f l = 0 -> nth_error l i = Some x -> f x = false.
Proof.
  revert i; induction l as [|z r IH]; intros [|i] Z H; cbn in *; try discriminate.
  - inversion H; subst. destruct (f x); auto; lia.
  - apply (IH i); auto. destruct (f z); lia.
Qed.

Lemma count_pp_pos f l : count_pp f l <> 0 -> exists i x, nth_error l i = Some x /\ f x = true.
Proof.
  induction l as [|z r IH]; cbn; [congruence|]. destruct (f z) eqn:E.
  - intros _. exists 0, z. auto.
  - intros H. destruct IH as (i & x & Hi & Hx); [lia|]. exists (S i), x. auto.
Qed.

Record OInv (s : ostate) : Prop := {
  oi_regs : regs s = count_pp is_ctor (starts s) + count_pp is_bound (starts s);
  oi_bounds : bounds s = count_pp is_bound (starts s);
  oi_readers : readers s = regs s;
  oi_flag : ocloser s <> OIdle -> oclosed s = true;
  oi_closed : ocloser s = OClosed -> count_pp is_ctor (starts s) = 0 /\ count_pp is_bound (starts s) = 0 }.

Lemma OInv_init : OInv oinit.
Proof. constructor; cbn; auto; try congruence; discriminate. Qed.

(* the code as it is (bo = false) *)
Lemma ostep_inv s a s' : OInv s -> ostep false s a = Some s' -> OInv s'.
Proof.
  intros [Rg Bd Rd Fl Cl] H. destruct a as [ |i|i| |i|i| ]; cbn [ostep] in H.
  - inversion H; subst. constructor; cbn; auto. + rewrite !count_pp_app. cbn. lia. + rewrite count_pp_app. cbn. lia.
    + intros E. rewrite !count_pp_app. cbn. destruct (Cl E). lia.
  - destruct (nth_error (starts s) i) as [[| | | |]|] eqn:Ei; try discriminate.
    destruct (ounlocked s) eqn:Eu; [|discriminate].
    pose proof (count_pp_upd is_ctor _ _ _ PGone Ei) as Q1. pose proof (count_pp_upd is_bound _ _ _ PGone Ei) as Q2.
    pose proof (count_pp_upd is_ctor _ _ _ PCtor Ei) as Q3. pose proof (count_pp_upd is_bound _ _ _ PCtor Ei) as Q4.
    cbn in Q1, Q2, Q3, Q4.
    destruct (oclosed s) eqn:Ec; inversion H; subst; constructor; cbn; auto; try lia.
    + intros E. destruct (Cl E). lia.
    + intros E. assert (N : ocloser s <> OIdle) by congruence. specialize (Fl N). congruence.
  - destruct (ounlocked s) eqn:Eu; [|discriminate].
    destruct (nth_error (starts s) i) as [[| | | |]|] eqn:Ei; try discriminate; inversion H; subst.
    + pose proof (count_pp_upd is_ctor _ _ _ PBound Ei) as Q1. pose proof (count_pp_upd is_bound _ _ _ PBound Ei) as Q2.
      cbn in Q1, Q2. constructor; cbn; auto; try lia.
      intros E. destruct (Cl E) as [C1 C2]. pose proof (count_pp_zero _ _ _ _ C1 Ei). discriminate.
    + pose proof (count_pp_upd is_ctor _ _ _ PErr Ei) as Q1. pose proof (count_pp_upd is_bound _ _ _ PErr Ei) as Q2.
      cbn in Q1, Q2. constructor; cbn; auto; try lia. intros E. destruct (Cl E). lia.
  - destruct (ocloser s) eqn:Eo; try discriminate. inversion H; subst. constructor; cbn; auto. discriminate.
  - destruct (ocloser s) eqn:Eo; try discriminate.
    destruct (nth_error (starts s) i) as [[| | | |]|] eqn:Ei; try discriminate. inversion H; subst.
    pose proof (count_pp_upd is_ctor _ _ _ PGone Ei) as Q1. pose proof (count_pp_upd is_bound _ _ _ PGone Ei) as Q2.
    cbn in Q1, Q2. constructor; cbn; auto; try lia; try discriminate.
  - destruct (ocloser s) eqn:Eo; try discriminate.
    destruct (nth_error (starts s) i) as [[| | | |]|] eqn:Ei; try discriminate. inversion H; subst.
    pose proof (count_pp_upd is_ctor _ _ _ PGone Ei) as Q1. pose proof (count_pp_upd is_bound _ _ _ PGone Ei) as Q2.
    cbn in Q1, Q2. constructor; cbn; auto; try lia; try discriminate.
  - destruct (ocloser s) eqn:Eo; try discriminate.
    destruct ((count_pp is_bound (starts s) =? 0) && (count_pp is_ctor (starts s) =? 0)) eqn:Ez; [|discriminate].
    apply andb_true_iff in Ez as [Z1 Z2]. apply Nat.eqb_eq in Z1, Z2. inversion H; subst.
    constructor; cbn; auto. intros _. apply Fl. congruence.
Qed.

Lemma orun_inv acts : forall s s', OInv s -> orun false s acts = Some s' -> OInv s'.
Proof.
  induction acts as [|a r IH]; intros s s' I H; cbn in H; [inversion H; subst; auto|].
  destruct (ostep false s a) as [s1|] eqn:E; [|discriminate]. apply (IH s1); auto. eapply ostep_inv; eauto.
Qed.

(* when Overlay.Close has returned nothing is registered, nothing is bound and no dispatch
   goroutine is alive, whatever starts were racing with it and wherever they were *)
Theorem start_close_clean acts s :
  orun false oinit acts = Some s -> ocloser s = OClosed ->
  regs s = 0 /\ bounds s = 0 /\ readers s = 0 /\
  forall i p, nth_error (starts s) i = Some p -> p <> PCtor /\ p <> PBound.
Proof.
  intros R Hc. pose proof (orun_inv _ _ _ OInv_init R) as [Rg Bd Rd Fl Cl]. destruct (Cl Hc) as [C1 C2].
  repeat split; try lia.
  - intros ->. pose proof (count_pp_zero _ _ _ _ C1 H). discriminate.
  - intros ->. pose proof (count_pp_zero _ _ _ _ C2 H). discriminate.
Qed.

(* ... and every start that has not finished by then fails with an error: a start that has
   not registered is refused, one whose constructor was running finds its instance gone *)
Theorem start_after_close_fails acts s i p :
  orun false oinit acts = Some s -> ocloser s = OClosed -> nth_error (starts s) i = Some p ->
  match p with
  | PNew => exists s', ostep false s (PReg i) = Some s' /\ nth_error (starts s') i = Some PGone /\ regs s' = 0 /\ readers s' = 0
  | PGone => exists s', ostep false s (PBind i) = Some s' /\ nth_error (starts s') i = Some PErr /\ regs s' = 0 /\ readers s' = 0
  | PCtor | PBound => False
  | PErr => True
  end.
Proof.
  intros R Hc Hp. destruct (start_close_clean _ _ R Hc) as (Z1 & Z2 & Z3 & NoC).
  pose proof (orun_inv _ _ _ OInv_init R) as I. pose proof (oi_flag _ I) as Fl.
  assert (Hcl : oclosed s = true) by (apply Fl; congruence).
  assert (Lt : i < length (starts s)) by (eapply nth_error_lt; eauto).
  destruct p; auto.
  - eexists. cbn. unfold ounlocked. rewrite Hp, Hc, Hcl. split; [reflexivity|]. cbn.
    rewrite nth_error_upd_eq by auto. auto.
  - destruct (NoC _ _ Hp). congruence.
  - eexists. cbn. unfold ounlocked. rewrite Hp, Hc. split; [reflexivity|]. cbn.
    rewrite nth_error_upd_eq by auto. auto.
  - destruct (NoC _ _ Hp). congruence.
Qed.

(* Close itself is never blocked by a start: some step of it is enabled while it is closing,
   and each one removes an entry *)
Theorem close_loop_progress acts s :
  orun false oinit acts = Some s -> ocloser s = OClosing ->
  exists a s', ostep false s a = Some s' /\
               match a with ODelBound _ | ODelCtor _ | OFinish => True | _ => False end /\
               (ocloser s' = OClosed \/
                count_pp is_ctor (starts s') + count_pp is_bound (starts s') <
                count_pp is_ctor (starts s) + count_pp is_bound (starts s)).
Proof.
  intros R Hc.
  destruct (Nat.eq_dec (count_pp is_bound (starts s)) 0) as [Zb|Nb].
  - destruct (Nat.eq_dec (count_pp is_ctor (starts s)) 0) as [Zc|Nc].
    + exists OFinish. eexists. cbn. rewrite Hc, Zb, Zc. cbn. split; [reflexivity|]. split; auto.
    + destruct (count_pp_pos _ _ Nc) as (i & x & Hi & Hx). destruct x; try discriminate.
      exists (ODelCtor i). eexists. cbn. rewrite Hc, Hi. split; [reflexivity|]. split; auto. right. cbn.
      pose proof (count_pp_upd is_ctor _ _ _ PGone Hi) as Q1. pose proof (count_pp_upd is_bound _ _ _ PGone Hi) as Q2.
      cbn in Q1, Q2. lia.
  - destruct (count_pp_pos _ _ Nb) as (i & x & Hi & Hx). destruct x; try discriminate.
    exists (ODelBound i). eexists. cbn. rewrite Hc, Hi. split; [reflexivity|]. split; auto. right. cbn.
    pose proof (count_pp_upd is_ctor _ _ _ PGone Hi) as Q1. pose proof (count_pp_upd is_bound _ _ _ PGone Hi) as Q2.
    cbn in Q1, Q2. lia.
Qed.

(* the variant that ranges over the bound instances: an instance whose constructor was
   running is skipped; its start then SUCCEEDS on the closed overlay and its table entry
   and dispatch goroutine outlive the close *)
Theorem close_ranges_bound_refuted :
  exists s, orun true oinit (ctor_held_schedule false) = Some s /\
            ocloser s = OClosed /\ starts s = [PBound] /\ regs s = 1 /\ bounds s = 1 /\ readers s = 1.
Proof. eexists. split; [vm_compute; reflexivity|]. repeat split. Qed.

Example ctor_held_code :
  exists s, orun false oinit (ctor_held_schedule true) = Some s /\
            ocloser s = OClosed /\ starts s = [PErr] /\ regs s = 0 /\ readers s = 0.
Proof. eexists. split; [vm_compute; reflexivity|]. repeat split. Qed.

Lemma count_pp_ge f l i x : nth_error l i = Some x -> f x = true -> 1 <= count_pp f l.
Proof.
  revert i; induction l as [|z r IH]; intros [|i] H Hf; cbn in *; try discriminate.
  - inversion H; subst. rewrite Hf. lia.
  - specialize (IH _ H Hf). lia.
Qed.

(* the [pred]s of nodeDelete never meet a zero counter *)
Theorem start_close_no_underflow acts s i p :
  orun false oinit acts = Some s -> nth_error (starts s) i = Some p ->
  match p with
  | PBound => 1 <= regs s /\ 1 <= bounds s /\ 1 <= readers s
  | PCtor => 1 <= regs s /\ 1 <= readers s
  | _ => True
  end.
Proof.
  intros R Hp. pose proof (orun_inv _ _ _ OInv_init R) as [Rg Bd Rd _ _].
  destruct p; auto.
  - pose proof (count_pp_ge is_ctor _ _ _ Hp eq_refl). lia.
  - pose proof (count_pp_ge is_bound _ _ _ Hp eq_refl). lia.
Qed.

(* the schedule compared when the start had completed before Close was called: the instance
   is bound, Overlay.Close deletes it, nothing is left *)
Example ctor_unheld_code :
  exists s, orun false oinit ctor_unheld_schedule = Some s /\
            ocloser s = OClosed /\ regs s = 0 /\ bounds s = 0 /\ readers s = 0 /\ starts s = [PGone].
Proof. eexists. split; [vm_compute; reflexivity|]. repeat split. Qed.
