(* C03 MODEL: the bounded in-memory connection of network/local.go as a
   small-step system.

   A LocalConn is two buffered channels of capacity LocalMaxBuffer and a pump
   goroutine between them (LocalConn.start):

     LocalManager.send   q.incomingQueue <- msg     blocks while the queue is full   -> PSend
     LocalConn.start     buff := <-incomingQueue; outgoingQueue <- buff               -> PPump
     LocalConn.Receive   buff := <-outgoingQueue                                      -> PRecv

   One action = one channel operation that succeeds; a blocked operation is an
   action that is not enabled.  The sender is ONE goroutine sending [p_todo] in
   order (Router.Send / LocalConn.Send return before the next call starts).

   [nonblocking = false] is the code as it is.  [nonblocking = true] is a
   variant in which send, finding the queue full, hands the message to a
   goroutine of its own and returns nil at once ([PPark]); the parked goroutines
   compete for free slots ([PUnpark k]: the k-th of them gets one).
   Executable Gallina only; proofs are in Net/LocalPipeProofs.v. *)
From Coq Require Import List Arith Bool.
Import ListNotations.

Section Pipe.
  Variable A : Type.

  Record pst := {
    p_todo : list A;      (* not yet sent *)
    p_parked : list A;    (* nonblocking only: messages held by goroutines waiting for room *)
    p_in : list A;        (* incomingQueue of the receiving LocalConn *)
    p_out : list A;       (* its outgoingQueue *)
    p_got : list A        (* what Receive has returned, in order *)
  }.

  Inductive pact := PSend | PPark | PUnpark (k : nat) | PPump | PRecv.

  Fixpoint remove_nth (k : nat) (l : list A) : list A :=
    match l, k with
    | [], _ => []
    | _ :: r, O => r
    | x :: r, S j => x :: remove_nth j r
    end.

  Definition pstep (cap : nat) (nonblocking : bool) (s : pst) (a : pact) : option pst :=
    match a with
    | PSend =>
        match p_todo s with
        | m :: r =>
            if length (p_in s) <? cap
            then Some {| p_todo := r; p_parked := p_parked s; p_in := p_in s ++ [m];
                         p_out := p_out s; p_got := p_got s |}
            else None
        | [] => None
        end
    | PPark =>
        match p_todo s with
        | m :: r =>
            if nonblocking && negb (length (p_in s) <? cap)
            then Some {| p_todo := r; p_parked := p_parked s ++ [m]; p_in := p_in s;
                         p_out := p_out s; p_got := p_got s |}
            else None
        | [] => None
        end
    | PUnpark k =>
        match nth_error (p_parked s) k with
        | Some m =>
            if length (p_in s) <? cap
            then Some {| p_todo := p_todo s; p_parked := remove_nth k (p_parked s);
                         p_in := p_in s ++ [m]; p_out := p_out s; p_got := p_got s |}
            else None
        | None => None
        end
    | PPump =>
        match p_in s with
        | m :: r =>
            if length (p_out s) <? cap
            then Some {| p_todo := p_todo s; p_parked := p_parked s; p_in := r;
                         p_out := p_out s ++ [m]; p_got := p_got s |}
            else None
        | [] => None
        end
    | PRecv =>
        match p_out s with
        | m :: r => Some {| p_todo := p_todo s; p_parked := p_parked s; p_in := p_in s;
                            p_out := r; p_got := p_got s ++ [m] |}
        | [] => None
        end
    end.

  Fixpoint prun (cap : nat) (nonblocking : bool) (acts : list pact) (s : pst) : option pst :=
    match acts with
    | [] => Some s
    | a :: r => match pstep cap nonblocking s a with
                | Some s' => prun cap nonblocking r s'
                | None => None
                end
    end.

  Definition pinit (msgs : list A) : pst :=
    {| p_todo := msgs; p_parked := []; p_in := []; p_out := []; p_got := [] |}.
End Pipe.

Arguments p_todo {A}.
Arguments p_parked {A}.
Arguments p_in {A}.
Arguments p_out {A}.
Arguments p_got {A}.
Arguments pstep {A}.
Arguments prun {A}.
Arguments pinit {A}.
