(* C17 MODEL -- valid-peer sets of the router (network/router.go:62-164), the
   acceptance step of the listener callback (router.go:208-245), the dialling
   side of a peer's router (Send/connect, router.go:286-381) and the
   service-facing wrappers with the set-id derivation (context.go:311-337).

   Executable Gallina only; proofs are in Net/PeersProofs.v.

   Identifiers.  A public key is a [nat]; [idk k] is the ServerIdentityID that
   GetID() derives from key [k] (uuid-SHA1 of the key's string; uninterpreted
   here: every definition takes [idk] as a parameter).  An identity message is
   [{ikey; idecl}]: the key and the SELF-DECLARED deprecated field
   ServerIdentity.ID, which the sender is free to fill with anything.  The
   code as originally pinned consulted the declared field both when a set is stored
   (validPeers.set: newPeers[peer.ID]) and when a peer is looked up
   (validPeers.isValid: peers[peer.ID]); defect F25, repaired in /repo by commit
   ff36148 "fix: valid peers are filtered on the id derived from the public key",
   which consults GetID().  [fix_f25 = false] is the behaviour before that commit
   (kept so that the refutation witnesses stay regression cases), [true] the
   behaviour of /repo now; Corr/C17.v selects [true]. *)
From Coq Require Import List Arith Bool.
Import ListNotations.

(* ---- set identifiers --------------------------------------------------- *)

(* PeerSetID is [32]byte.  network.NewPeerSetID(data) copies data into it:
   longer data is truncated, shorter data is zero-padded (router.go:74-79).
   Context.NewPeerSetID(data) = NewPeerSetID(sha256(serviceID | data))
   (context.go:330-337); SHA-256 is not interpreted: its output is the free
   constructor [SHash svc data] (collision-freedom is an assumption of this
   representation; the harness cross-checks on every case that equality of the
   real 32-byte ids coincides with equality of these terms). *)
Inductive sid :=
| SRaw (bytes32 : list nat)
| SHash (svc : nat) (data : list nat).

Fixpoint pad (n : nat) (l : list nat) : list nat :=
  match n with
  | 0 => []
  | S n' => match l with
            | [] => 0 :: pad n' []
            | x :: r => x :: pad n' r
            end
  end.

(* how a caller obtained the id it passes to Set/GetValidPeers *)
Inductive sidsrc :=
| DRaw (data : list nat)               (* network.NewPeerSetID(data)      *)
| DCtx (svc : nat) (data : list nat).  (* context.NewPeerSetID(data) of service svc *)

Definition src_sid (d : sidsrc) : sid :=
  match d with
  | DRaw data => SRaw (pad 32 data)
  | DCtx svc data => SHash svc data
  end.

(* What the free constructor [SHash svc data] stands for (context.go:330-337):
     h := sha256.New(); h.Write(serviceID[:]); h.Write(data)
     return network.NewPeerSetID(h.Sum(nil))
   i.e. the first 32 bytes of H(serviceID ++ data), the service id being a 16-byte
   uuid and ALL of data entering the hash.  [H] is not interpreted. *)
Definition ctx_preimage (svcid data : list nat) : list nat := svcid ++ data.
Definition ctx_id (H : list nat -> list nat) (svcid data : list nat) : list nat :=
  pad 32 (H (ctx_preimage svcid data)).

Fixpoint natlist_eqb (a b : list nat) : bool :=
  match a, b with
  | [], [] => true
  | x :: a', y :: b' => (x =? y) && natlist_eqb a' b'
  | _, _ => false
  end.

Definition sid_eqb (a b : sid) : bool :=
  match a, b with
  | SRaw x, SRaw y => natlist_eqb x y
  | SHash s x, SHash t y => (s =? t) && natlist_eqb x y
  | _, _ => false
  end.

(* ---- identities --------------------------------------------------------- *)

Record ident := mkIdent { ikey : nat; idecl : nat }.

Definition mem (x : nat) (l : list nat) : bool := existsb (Nat.eqb x) l.

(* Go map semantics: a set; kept as a duplicate-free list in first-insertion order *)
Fixpoint mkset (l : list nat) : list nat :=
  match l with
  | [] => []
  | x :: r => if mem x r then mkset r else x :: mkset r
  end.

Section Model.
  Variable idk : nat -> nat.       (* GetID(): id derived from the public key *)
  Variable fix_f25 : bool.

  (* the id the filter works with *)
  Definition fid (i : ident) : nat := if fix_f25 then idk (ikey i) else idecl i.

  Definition honest (i : ident) : bool := idecl i =? idk (ikey i).
  Definition honest_ident (k : nat) : ident := mkIdent k (idk k).

  (* ---- validPeers: nil map = None -------------------------------------- *)
  Definition vpmap := list (sid * list nat).
  Definition vp := option vpmap.

  Fixpoint upd (m : vpmap) (s : sid) (v : list nat) : vpmap :=
    match m with
    | [] => [(s, v)]
    | (s', v') :: r => if sid_eqb s s' then (s, v) :: r else (s', v') :: upd r s v
    end.

  Fixpoint lookup (m : vpmap) (s : sid) : option (list nat) :=
    match m with
    | [] => None
    | (s', v') :: r => if sid_eqb s s' then Some v' else lookup r s
    end.

  (* validPeers.set, router.go:92-107 *)
  Definition vp_set (v : vp) (s : sid) (peers : list ident) : vp :=
    Some (upd (match v with None => [] | Some m => m end) s (mkset (map fid peers))).

  (* validPeers.get, router.go:110-125: nil while the map is nil, otherwise the
     members (the empty list for an identifier that was never set) *)
  Definition vp_get (v : vp) (s : sid) : option (list nat) :=
    match v with
    | None => None
    | Some m => Some (match lookup m s with Some l => l | None => [] end)
    end.

  (* validPeers.isValid, router.go:128-146 *)
  Definition vp_valid (v : vp) (i : ident) : bool :=
    match v with
    | None => true
    | Some m => existsb (fun e => mem (fid i) (snd e)) m
    end.

  (* ---- histories --------------------------------------------------------- *)

  (* entry point of a set / read call: the router's method or the wrapper of
     the context of service [svc] (context.go:313-325) *)
  Inductive entry := ERouter | EContext (svc : nat).

  Inductive op :=
  | OSet (e : entry) (d : sidsrc) (peers : list ident)
  | OGet (e : entry) (d : sidsrc)
  | OOffer (i : ident)          (* a peer opens a connection and sends identity message i;
                                   the connection is named by the POSITION of this op *)
  | OOfferJunk                  (* a connection whose first message is not an identity *)
  | OMsg (c : nat) (m : nat)    (* message m written by the peer on connection c *)
  | OClose (c : nat)            (* the peer closes connection c *)
  | OPeerSend (p : nat) (m : nat) (* the real router of peer p (key p) sends m to the
                                     filtering server: Router.Send -> connect if it has
                                     no open connection *)
  | OPeerDrop (p : nat).        (* the router of peer p is stopped (its connections close) *)

  Inductive out :=
  | XUnit
  | XGot (o : option (list nat))
  | XAccept                     (* registered; handling routine started *)
  | XRefuse                     (* closed by the server, never registered *)
  | XDisp (key decl : nat)      (* dispatched, attributed to identity {key; decl} *)
  | XNone                       (* not dispatched *)
  | XBroken.                    (* observation only, never produced by the model: the operation
                                   made the implementation panic, or a connection attempt / send
                                   was neither served nor closed by the server within the
                                   harness's deadline, or the listener could not be reached *)

  Record state := mkState {
    st_vp : vp;
    st_n : nat;                       (* number of ops executed = next position *)
    st_conns : list (nat * ident);    (* registered raw connections still open *)
    st_pconn : list nat               (* peers whose router holds an accepted open connection *)
  }.

  Definition init : state := mkState None 0 [] [].

  Fixpoint find_conn (l : list (nat * ident)) (c : nat) : option ident :=
    match l with
    | [] => None
    | (c', i) :: r => if c =? c' then Some i else find_conn r c
    end.

  Definition del_conn (l : list (nat * ident)) (c : nat) : list (nat * ident) :=
    filter (fun e => negb (fst e =? c)) l.

  Definition del_peer (l : list nat) (p : nat) : list nat :=
    filter (fun q => negb (q =? p)) l.

  Definition step (s : state) (o : op) : state * out :=
    let n := st_n s in
    match o with
    | OSet _ d peers =>
        (mkState (vp_set (st_vp s) (src_sid d) peers) (S n) (st_conns s) (st_pconn s), XUnit)
    | OGet _ d =>
        (mkState (st_vp s) (S n) (st_conns s) (st_pconn s), XGot (vp_get (st_vp s) (src_sid d)))
    | OOffer i =>
        if vp_valid (st_vp s) i
        then (mkState (st_vp s) (S n) ((n, i) :: st_conns s) (st_pconn s), XAccept)
        else (mkState (st_vp s) (S n) (st_conns s) (st_pconn s), XRefuse)
    | OOfferJunk =>
        (mkState (st_vp s) (S n) (st_conns s) (st_pconn s), XRefuse)
    | OMsg c m =>
        (mkState (st_vp s) (S n) (st_conns s) (st_pconn s),
         match find_conn (st_conns s) c with
         | Some i => XDisp (ikey i) (idecl i)
         | None => XNone
         end)
    | OClose c =>
        (mkState (st_vp s) (S n) (del_conn (st_conns s) c) (st_pconn s), XUnit)
    | OPeerSend p m =>
        let i := honest_ident p in
        if mem p (st_pconn s)
        then (mkState (st_vp s) (S n) (st_conns s) (st_pconn s), XDisp (ikey i) (idecl i))
        else if vp_valid (st_vp s) i
        then (mkState (st_vp s) (S n) (st_conns s) (p :: st_pconn s), XDisp (ikey i) (idecl i))
        else (mkState (st_vp s) (S n) (st_conns s) (st_pconn s), XNone)
    | OPeerDrop p =>
        (mkState (st_vp s) (S n) (st_conns s) (del_peer (st_pconn s) p), XUnit)
    end.

  Fixpoint exec (s : state) (ops : list op) : state * list out :=
    match ops with
    | [] => (s, [])
    | o :: r => let (s1, x) := step s o in
                let (s2, xs) := exec s1 r in (s2, x :: xs)
    end.

  Definition run (ops : list op) : state := fst (exec init ops).
  Definition outs (ops : list op) : list out := snd (exec init ops).
End Model.
