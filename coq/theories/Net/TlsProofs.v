(* C08 -- theorems about the TLS link rule of Net/Tls.v.

   1. the verifier, characterised: accept <-> conjunction of its clauses; every
      clause necessary and independent; what is NOT a clause (who signed the
      certificate)
   2. proof of possession, syntactically: an accepted certificate carries a
      signature by the key its CN names over this handshake's nonce
   3. the dialler reaches the key it dialled: refuted for the pinned rule (F09),
      proved for the repaired rule and for the pinned rule on consistent
      certificates
   4. the router's identity check and the identity stamped on dispatched messages
   5. symbolic (Dolev-Yao) layer: what a peer that lacks a private key can
      present; possession refuted for the pinned rule (relay), proved once the
      signature binds the TLS key; freshness of the proof in any event trace
   6. the boolean property checker used on observations = the property
   7. end to end: the repaired model satisfies the property for every input *)
From Coq Require Import List Bool Arith ZArith Lia.
Import ListNotations.
From Onet Require Import Net.Tls.

(* ------------------------------------------------------------------------- *)
(* 0. equalities                                                              *)

Lemma style_eqb_eq a b : style_eqb a b = true <-> a = b.
Proof. destruct a, b; simpl; split; intros H; try reflexivity; try discriminate. Qed.

Lemma cname_eqb_eq a b : cname_eqb a b = true <-> a = b.
Proof.
  destruct a as [sa ka| |], b as [sb kb| |]; simpl; split; intros H;
    try reflexivity; try discriminate.
  - apply andb_true_iff in H as [H1 H2]. apply style_eqb_eq in H1. apply Nat.eqb_eq in H2.
    now subst.
  - injection H as -> ->. apply andb_true_iff. split; [now apply style_eqb_eq|apply Nat.eqb_refl].
Qed.

Lemma cname_eqb_refl a : cname_eqb a a = true.
Proof. now apply cname_eqb_eq. Qed.

Lemma key_of_pub_to_cn s k : key_of_cn s (pub_to_cn k) = Some k.
Proof. reflexivity. Qed.

(* ------------------------------------------------------------------------- *)
(* 1. the verifier characterised                                              *)

Definition clauses_hold (fx : fixes) (s : suite) (now : Z) (n : nonce) (them : option key)
           (c : cert) : Prop :=
  x509_ok now c = true /\ expected_ok fx s them c = true /\
  exists k sg, c_sig c = Some sg /\ key_of_cn s (c_cn c) = Some k /\ sig_ok fx k n c sg = true.

Theorem verify_accept_iff fx s now n them raws :
  verify fx s now n them raws = Accept <->
  exists c, raws = [RawOne c] /\ clauses_hold fx s now n them c.
Proof.
  split.
  - intros H. destruct raws as [|r [|r2 rest]]; try discriminate.
    + destruct r as [c| |]; try discriminate. simpl in H.
      destruct (x509_ok now c) eqn:Ex; simpl in H; try discriminate.
      destruct (expected_ok fx s them c) eqn:Ee; simpl in H; try discriminate.
      destruct (c_sig c) as [sg|] eqn:Es; try discriminate.
      destruct (key_of_cn s (c_cn c)) as [k|] eqn:Ek; try discriminate.
      destruct (sig_ok fx k n c sg) eqn:Eg; try discriminate.
      exists c. split; [reflexivity|]. repeat split; auto. exists k, sg. auto.
    + destruct r; discriminate.
  - intros (c & -> & Hx & He & k & sg & Hs & Hk & Hg). simpl.
    rewrite Hx, He, Hs, Hk, Hg. reflexivity.
Qed.

(* the clauses one by one, as booleans, in the order of the Go code *)
Definition clause_list (fx : fixes) (s : suite) (now : Z) (n : nonce) (them : option key)
           (c : cert) : list bool :=
  [ negb (c_crit c);                                   (* 0 no unknown critical extension *)
    (c_nb c <=? now)%Z;                                (* 1 already valid *)
    (now <=? c_na c)%Z;                                (* 2 not expired *)
    c_eku_server c;                                    (* 3 usable for server authentication *)
    expected_ok fx s them c;                           (* 4 names the key the dialler expects *)
    match c_sig c with Some _ => true | None => false end;              (* 5 extension present *)
    match key_of_cn s (c_cn c) with Some _ => true | None => false end; (* 6 CN decodes to a key *)
    match c_sig c, key_of_cn s (c_cn c) with                            (* 7 a signature by that key *)
    | Some (SigBy k' _ _ _), Some k => k' =? k
    | Some SigGarbage, _ | Some SigEmpty, _ => false
    | _, _ => true end;
    match c_sig c with Some (SigBy _ n' _ _) => n' =? n | _ => true end;  (* 8 over our nonce *)
    match c_sig c with Some (SigBy _ _ over _) => cname_eqb over (c_cn c) | _ => true end; (* 9 and this CN *)
    match c_sig c with Some (SigBy _ _ _ tk) => opt_tkey_ok fx c tk | _ => true end ].     (* 10 format *)

Theorem verify_accept_clauses fx s now n them c :
  verify fx s now n them [RawOne c] = Accept <->
  forallb (fun b => b) (clause_list fx s now n them c) = true.
Proof.
  rewrite verify_accept_iff. unfold clauses_hold, clause_list, x509_ok. cbn [forallb]. split.
  - intros (c' & Heq & Hx & He & k & sg & Hs & Hk & Hg). injection Heq as <-.
    rewrite Hs, Hk, He. destruct sg as [k' n' over tk| |]; simpl in Hg; try discriminate.
    repeat (apply andb_true_iff in Hg as [Hg ?]).
    repeat (apply andb_true_iff in Hx as [Hx ?]).
    rewrite Hx. repeat (apply andb_true_iff; split); auto.
  - intros H. repeat (apply andb_true_iff in H as [? H]).
    exists c. split; [reflexivity|]. split.
    + repeat (apply andb_true_iff; split); auto.
    + split; [assumption|].
      destruct (c_sig c) as [[k' n' over tk| |]|]; try discriminate.
      destruct (key_of_cn s (c_cn c)) as [k|]; try discriminate.
      exists k, (SigBy k' n' over tk). repeat split; auto. simpl.
      repeat (apply andb_true_iff; split); auto.
Qed.

(* each check is necessary: a certificate failing any one clause is refused,
   whatever the others say *)
Theorem each_check_necessary fx s now n them c i :
  nth_error (clause_list fx s now n them c) i = Some false ->
  verify fx s now n them [RawOne c] <> Accept.
Proof.
  intros Hi Hv. apply verify_accept_clauses in Hv. rewrite forallb_forall in Hv.
  apply nth_error_In in Hi. specialize (Hv _ Hi). discriminate.
Qed.

(* ... and independent: for every clause there is a certificate that passes all
   the others and fails exactly that one (so no clause is implied by the rest;
   dropping it from the code would accept that certificate) *)
Definition honest_cert (k : key) (t : tkey) : cert :=
  mkcert (pub_to_cn k) [URI true true (pub_to_cn k)] (Some (SigBy k 0 (pub_to_cn k) None))
         t SgSelf (-300) 7200 true false.

Definition fails_only (i : nat) (l : list bool) : bool :=
  forallb (fun p => Bool.eqb (snd p) (negb (fst p =? i))) (combine (seq 0 (length l)) l).

Definition independence_witnesses : list cert :=
  let h := honest_cert 2 0 in
  [ mkcert (c_cn h) (c_uris h) (c_sig h) 0 SgSelf (-300) 7200 true true;
    mkcert (c_cn h) (c_uris h) (c_sig h) 0 SgSelf 600 7200 true false;
    mkcert (c_cn h) (c_uris h) (c_sig h) 0 SgSelf (-7200) (-60) true false;
    mkcert (c_cn h) (c_uris h) (c_sig h) 0 SgSelf (-300) 7200 false false;
    mkcert (c_cn h) [URI true true (pub_to_cn 3)] (c_sig h) 0 SgSelf (-300) 7200 true false;
    mkcert (c_cn h) (c_uris h) None 0 SgSelf (-300) 7200 true false;
    mkcert CNJunk (c_uris h) (Some (SigBy 2 0 CNJunk None)) 0 SgSelf (-300) 7200 true false;
    mkcert (c_cn h) (c_uris h) (Some (SigBy 3 0 (pub_to_cn 2) None)) 0 SgSelf (-300) 7200 true false;
    mkcert (c_cn h) (c_uris h) (Some (SigBy 2 1 (pub_to_cn 2) None)) 0 SgSelf (-300) 7200 true false;
    mkcert (c_cn h) (c_uris h) (Some (SigBy 2 0 (CNKey SUpper 2) None)) 0 SgSelf (-300) 7200 true false;
    mkcert (c_cn h) (c_uris h) (Some (SigBy 2 0 (pub_to_cn 2) (Some 0))) 0 SgSelf (-300) 7200 true false ].

Theorem each_check_independent :
  forall i c, nth_error independence_witnesses i = Some c ->
    fails_only i (clause_list pinned Ed25519 0 0 (Some 2) c) = true /\
    verify pinned Ed25519 0 0 (Some 2) [RawOne c] <> Accept.
Proof.
  intros i c H.
  do 11 (destruct i as [|i]; [injection H as <-; split; [vm_compute; reflexivity|vm_compute; discriminate]|]).
  destruct i; discriminate.
Qed.

Example each_check_independent_nonvacuous : length independence_witnesses = 11 /\
  verify pinned Ed25519 0 0 (Some 2) [RawOne (honest_cert 2 0)] = Accept.
Proof. split; reflexivity. Qed.

(* what is NOT checked: the comment in tls.go says "self-signed as expected",
   but a certificate is its own trust root and x509 never looks at who signed
   it -- the verdict is independent of [c_signer] *)
Definition with_signer (c : cert) (g : csigner) : cert :=
  mkcert (c_cn c) (c_uris c) (c_sig c) (c_tlskey c) g (c_nb c) (c_na c) (c_eku_server c) (c_crit c).

Theorem certificate_signer_not_checked fx s now n them c g :
  verify fx s now n them [RawOne (with_signer c g)] = verify fx s now n them [RawOne c].
Proof. reflexivity. Qed.

(* exactly one certificate *)
Theorem exactly_one_certificate fx s now n them raws :
  verify fx s now n them raws = Accept -> length raws = 1.
Proof. intros H. apply verify_accept_iff in H as (c & -> & _). reflexivity. Qed.

(* ------------------------------------------------------------------------- *)
(* 2. proof of possession (syntactic)                                         *)

Theorem proof_of_possession fx s now n them raws :
  verify fx s now n them raws = Accept ->
  exists c k tk, raws = [RawOne c] /\ key_of_cn s (c_cn c) = Some k /\
    c_sig c = Some (SigBy k n (c_cn c) tk) /\
    (c_nb c <= now <= c_na c)%Z /\
    tk = (if fix_bind fx then Some (c_tlskey c) else None).
Proof.
  intros H. apply verify_accept_iff in H as (c & -> & Hx & _ & k & sg & Hs & Hk & Hg).
  destruct sg as [k' n' over tk| |]; simpl in Hg; try discriminate.
  repeat (apply andb_true_iff in Hg as [Hg ?]).
  apply Nat.eqb_eq in Hg. match goal with H : (n' =? n) = true |- _ => apply Nat.eqb_eq in H end.
  match goal with H : cname_eqb over _ = true |- _ => apply cname_eqb_eq in H end. subst.
  exists c, k, tk. repeat split; auto.
  - unfold x509_ok in Hx. repeat (apply andb_true_iff in Hx as [Hx ?]). lia.
  - unfold x509_ok in Hx. repeat (apply andb_true_iff in Hx as [Hx ?]). lia.
  - unfold opt_tkey_ok in *. destruct (fix_bind fx), tk as [t|]; try discriminate; auto.
    match goal with H : (t =? _) = true |- _ => apply Nat.eqb_eq in H; now subst end.
Qed.

Example proof_of_possession_nonvacuous :
  verify pinned Bn256G2 0 0 None [RawOne (honest_cert 2 0)] = Accept.
Proof. reflexivity. Qed.

Theorem tls_handshake_accept fx s now n them h :
  tls_handshake fx s now n them h = Accept ->
  exists c hk, h = Hello [RawOne c] hk /\ c_tlskey c = hk /\ verify fx s now n them [RawOne c] = Accept.
Proof.
  destruct h as [chain hk]. unfold tls_handshake. destruct chain as [|[c| |] rest]; try discriminate.
  destruct (forallb is_one (RawOne c :: rest)) eqn:Ef; cbn [negb]; try discriminate.
  destruct (c_tlskey c =? hk) eqn:Et; cbn [negb]; try discriminate.
  intros H. pose proof (exactly_one_certificate _ _ _ _ _ _ H) as Hl.
  destruct rest; try discriminate. apply Nat.eqb_eq in Et. exists c, hk. auto.
Qed.

(* ------------------------------------------------------------------------- *)
(* 3. the dialler reaches the key it dialled                                  *)

(* F09 (pinned rule): the expected key is compared with the URI only, the
   signature with the CN only *)
Definition f09_witness : cert :=
  mkcert (pub_to_cn 2) [URI true true (pub_to_cn 1)] (Some (SigBy 2 0 (pub_to_cn 2) None))
         0 SgSelf (-300) 7200 true false.

Theorem dial_reaches_expected_refuted :
  exists s now n e c,
    verify pinned s now n (Some e) [RawOne c] = Accept /\ key_of_cn s (c_cn c) <> Some e.
Proof. exists Ed25519, 0%Z, 0, 1, f09_witness. split; [reflexivity|discriminate]. Qed.

Theorem dial_reaches_expected_fixed fx s now n e raws :
  fix_f09 fx = true ->
  verify fx s now n (Some e) raws = Accept ->
  exists c tk, raws = [RawOne c] /\ key_of_cn s (c_cn c) = Some e /\
               c_sig c = Some (SigBy e n (c_cn c) tk).
Proof.
  intros Hf H. destruct (proof_of_possession _ _ _ _ _ _ H) as (c & k & tk & -> & Hk & Hs & _ & _).
  apply verify_accept_iff in H as (c' & Heq & _ & He & _). injection Heq as <-.
  unfold expected_ok in He. rewrite Hf, Hk in He. apply andb_true_iff in He as [_ He].
  apply Nat.eqb_eq in He. subst k. exists c, tk. auto.
Qed.

Example dial_reaches_expected_fixed_nonvacuous :
  verify (mkfixes true true true true) Ed25519 0 0 (Some 2)
         [RawOne (mkcert (pub_to_cn 2) [URI true true (pub_to_cn 2)] (Some (SigBy 2 0 (pub_to_cn 2) (Some 5)))
                         5 SgSelf (-300) 7200 true false)] = Accept.
Proof. reflexivity. Qed.

(* the pinned rule outside the defect: certificates whose URIs (if any) name the
   same key as the CN -- what every honest certificate maker produces *)
Definition uris_consistent (s : suite) (c : cert) : Prop :=
  forall sch svc name, In (URI sch svc name) (c_uris c) -> key_of_cn s name = key_of_cn s (c_cn c).

Theorem dial_reaches_expected_pinned_consistent fx s now n e c :
  uris_consistent s c ->
  verify fx s now n (Some e) [RawOne c] = Accept ->
  key_of_cn s (c_cn c) = Some e.
Proof.
  intros Hc H. apply verify_accept_iff in H as (c' & Heq & _ & He & _). injection Heq as <-.
  unfold expected_ok in He. apply andb_true_iff in He as [He _].
  destruct (c_uris c) as [|u us] eqn:Eu.
  - apply cname_eqb_eq in He. rewrite He. reflexivity.
  - apply existsb_exists in He as ([sch svc name] & Hin & Hm). simpl in Hm.
    repeat (apply andb_true_iff in Hm as [Hm ?]).
    match goal with H : cname_eqb name _ = true |- _ => apply cname_eqb_eq in H; subst name end.
    rewrite <- (Hc sch svc (pub_to_cn e)); [reflexivity|]. rewrite Eu. exact Hin.
Qed.

(* old-style certificates (no URI) are not affected either *)
Corollary dial_reaches_expected_no_uri fx s now n e c :
  c_uris c = [] -> verify fx s now n (Some e) [RawOne c] = Accept -> key_of_cn s (c_cn c) = Some e.
Proof.
  intros Hu. apply dial_reaches_expected_pinned_consistent.
  intros sch svc name Hin. rewrite Hu in Hin. destruct Hin.
Qed.

(* ------------------------------------------------------------------------- *)
(* 4. identity check of the router, identity stamped on dispatched messages  *)

Theorem identity_matches s c id :
  router_accepts s c id = true ->
  exists k, key_of_cn s (c_cn c) = Some k /\ declared s c id = Some k.
Proof.
  unfold router_accepts. destruct (declared s c id) as [d|]; try discriminate.
  destruct (key_of_cn s (c_cn c)) as [k|]; try discriminate.
  intros H. apply Nat.eqb_eq in H. subst. eauto.
Qed.

Lemma nokey_fixed fx s c id : fix_nokey fx = true -> nokey_crashes fx s c id = false.
Proof. intros H. unfold nokey_crashes. rewrite H. destruct id; reflexivity. Qed.

(* the honest process survives every peer once an identity without a key is refused *)
Theorem no_crash_fixed fx lv r s h id msgs :
  fix_nokey fx = true -> out_crash (link fx lv r s h id msgs) = false.
Proof.
  intros Hf. unfold link. destruct lv; [reflexivity|].
  destruct (accepted _); [|reflexivity].
  destruct r; [reflexivity|].
  destruct (leaf h) as [c|]; [|reflexivity].
  rewrite (nokey_fixed _ _ _ _ Hf).
  destruct (router_accepts s c id); [|reflexivity].
  destruct (declared s c id); reflexivity.
Qed.

(* ... and does not survive in the pinned code: a peer that proves its OWN key and
   then sends an identity message without the public-key field *)
Theorem crash_refuted :
  exists h msgs, out_crash (link pinned LTls RAccept Ed25519 h IdNoKey msgs) = true /\
                 tls_handshake pinned Ed25519 0 0 None h = Accept.
Proof. exists (Hello [RawOne (honest_cert 2 0)] 0), 0. split; reflexivity. Qed.

(* and only there: any other first message never crashes, whatever the fixes *)
Theorem crash_only_without_key fx lv r s h id msgs :
  out_crash (link fx lv r s h id msgs) = true -> id = IdNoKey /\ r = RAccept /\ fix_nokey fx = false.
Proof.
  unfold link. destruct lv; [discriminate|].
  destruct (accepted _); [|discriminate].
  destruct r; [discriminate|].
  destruct (leaf h) as [c|]; [|discriminate].
  destruct (nokey_crashes fx s c id) eqn:En.
  - intros _. unfold nokey_crashes in En. destruct id; try discriminate.
    apply andb_true_iff in En as [En _]. apply negb_true_iff in En. auto.
  - destruct (router_accepts s c id); [|discriminate]. destruct (declared s c id); discriminate.
Qed.

Theorem identity_mismatch_dropped fx s h id msgs c :
  leaf h = Some c -> router_accepts s c id = false ->
  out_disp (link fx LTls RAccept s h id msgs) = 0 /\ out_stamp (link fx LTls RAccept s h id msgs) = [].
Proof.
  intros Hl Hr. unfold link. destruct (accepted _); [|split; reflexivity].
  rewrite Hl. destruct (nokey_crashes fx s c id); [split; reflexivity|].
  rewrite Hr. split; reflexivity.
Qed.

Theorem wrong_first_message_dropped fx s h msgs :
  out_disp (link fx LTls RAccept s h IdWrongType msgs) = 0.
Proof.
  unfold link. destruct (accepted _); [|reflexivity].
  destruct (leaf h) as [c|]; [|reflexivity].
  unfold router_accepts, nokey_crashes. simpl. reflexivity.
Qed.

Lemma in_repeat {A} (x y : A) n : In x (repeat y n) -> x = y.
Proof. intros H. exact (repeat_spec n y x H). Qed.

(* accepting side: every dispatched message carries the proven key *)
Theorem stamped_identity_is_proven_accept fx s h id msgs k :
  In k (out_stamp (link fx LTls RAccept s h id msgs)) ->
  exists c tk, h = Hello [RawOne c] (c_tlskey c) /\ key_of_cn s (c_cn c) = Some k /\
    c_sig c = Some (SigBy k 0 (c_cn c) tk) /\ declared s c id = Some k.
Proof.
  unfold link. destruct (accepted (tls_handshake fx s 0 0 (them_of RAccept) h)) eqn:Ea; [|intros []].
  destruct (tls_handshake fx s 0 0 (them_of RAccept) h) eqn:Et; try discriminate.
  apply tls_handshake_accept in Et as (c & hk & -> & Htk & Hv). simpl.
  destruct (nokey_crashes fx s c id); [intros []|].
  destruct (router_accepts s c id) eqn:Er; [|intros []].
  apply identity_matches in Er as (k0 & Hk0 & Hd). rewrite Hd.
  intros Hin. apply in_repeat in Hin. subst k0.
  destruct (proof_of_possession _ _ _ _ _ _ Hv) as (c' & k' & tk & Heq & Hk' & Hs & _ & _).
  injection Heq as <-. rewrite Hk0 in Hk'. injection Hk' as <-.
  exists c, tk. subst hk. auto.
Qed.

(* dialling side: the stamped identity is the dialled one; it is the proven one
   only for the repaired rule *)
Theorem stamped_identity_is_proven_dial fx s h id msgs e k :
  fix_f09 fx = true ->
  In k (out_stamp (link fx LTls (RDial e) s h id msgs)) ->
  k = e /\ proven_key s h = Some e.
Proof.
  intros Hf. unfold link.
  destruct (tls_handshake fx s 0 0 (them_of (RDial e)) h) eqn:Et; simpl; [|intros []].
  intros Hin. apply in_repeat in Hin. split; [assumption|].
  apply tls_handshake_accept in Et as (c & hk & -> & _ & Hv).
  apply dial_reaches_expected_fixed in Hv as (c' & tk & Heq & Hk & _); [|assumption].
  injection Heq as <-. unfold proven_key. simpl. exact Hk.
Qed.

Theorem stamped_identity_dial_refuted :
  exists h msgs k, In k (out_stamp (link pinned LTls (RDial 1) Ed25519 h IdMatch msgs)) /\
                   proven_key Ed25519 h <> Some k.
Proof. exists (Hello [RawOne f09_witness] 0), 1, 1. split; [vm_compute; auto|vm_compute; discriminate]. Qed.

Theorem no_dispatch_without_handshake fx lv r s h id msgs :
  out_hs (link fx lv r s h id msgs) = false -> out_disp (link fx lv r s h id msgs) = 0.
Proof.
  unfold link. destruct lv; [reflexivity|].
  destruct (accepted _); [|reflexivity].
  destruct r; simpl; [discriminate|].
  destruct (leaf h) as [c|]; [|discriminate].
  destruct (nokey_crashes fx s c id); [discriminate|].
  destruct (router_accepts s c id); [|discriminate].
  destruct (declared s c id); discriminate.
Qed.

(* ------------------------------------------------------------------------- *)
(* 5. symbolic layer                                                          *)

Inductive term :=
| TPriv (k : key)                                   (* a server private key *)
| TTlsPriv (t : tkey)                               (* a TLS private key *)
| TSig (k : key) (n : nonce) (over : cname) (tk : option tkey).

Section Peer.
  (* a (possibly malicious) peer: the server private keys and the TLS private
     keys it holds; every other server key k belongs to an honest server whose
     TLS key is [htls k].  Honest servers run certMaker.get for ANY nonce they are
     handed (ServerName / AcceptableCAs), so they are signing oracles for
     (nonce, own new-style name [, own TLS key]). *)
  Variable fx : fixes.
  Variable holds : list key.
  Variable own_tls : tkey -> bool.
  Variable htls : key -> tkey.
  Hypothesis honest_tls_private : forall k, ~ In k holds -> own_tls (htls k) = false.

  Inductive knows : term -> Prop :=
  | kn_priv k : In k holds -> knows (TPriv k)
  | kn_tpriv t : own_tls t = true -> knows (TTlsPriv t)
  | kn_oracle k n : ~ In k holds ->
      knows (TSig k n (pub_to_cn k) (if fix_bind fx then Some (htls k) else None))
  | kn_sign k n over tk : knows (TPriv k) -> knows (TSig k n over tk).   (* Schnorr: only with the private key *)

  Lemma knows_priv_inv k : knows (TPriv k) -> In k holds.
  Proof. intros H. inversion H. assumption. Qed.

  Lemma knows_tpriv_inv t : knows (TTlsPriv t) -> own_tls t = true.
  Proof. intros H. inversion H. assumption. Qed.

  (* unforgeability: a signature is either made with the key or is one of the
     honest holder's own proofs *)
  Lemma knows_sig_inv k n over tk :
    knows (TSig k n over tk) ->
    In k holds \/ (~ In k holds /\ over = pub_to_cn k /\
                   tk = if fix_bind fx then Some (htls k) else None).
  Proof.
    intros H. inversion H; subst.
    - right. auto.
    - left. now apply knows_priv_inv.
  Qed.

  (* the peer can run a handshake presenting [h] iff it can sign with the
     handshake key and knows every signature inside the certificates *)
  Definition presentable (h : hello) : Prop :=
    match h with
    | Hello chain hk =>
        knows (TTlsPriv hk) /\
        forall c k n over tk, In (RawOne c) chain -> c_sig c = Some (SigBy k n over tk) ->
                              knows (TSig k n over tk)
    end.

  (* pinned format: accepted => the peer holds the named key, OR the accepted
     proof is the honest holder's own proof for this very nonce, carried over
     by a peer that does not hold the key (relay) *)
  Theorem possession_or_relay s now n them h :
    presentable h -> tls_handshake fx s now n them h = Accept ->
    exists c k, leaf h = Some c /\ key_of_cn s (c_cn c) = Some k /\
      (In k holds \/
       (fix_bind fx = false /\ ~ In k holds /\ c_cn c = pub_to_cn k /\
        c_sig c = Some (SigBy k n (pub_to_cn k) None))).
  Proof.
    intros Hp Ha. apply tls_handshake_accept in Ha as (c & hk & -> & Htk & Hv).
    destruct (proof_of_possession _ _ _ _ _ _ Hv) as (c' & k & tk & Heq & Hk & Hs & _ & Htkf).
    injection Heq as <-. destruct Hp as [Hhk Hsig].
    specialize (Hsig c k n (c_cn c) tk (or_introl eq_refl) Hs).
    apply knows_sig_inv in Hsig as [Hin|(Hnin & Hover & Htk2)].
    - exists c, k. simpl. auto.
    - exists c, k. simpl. split; [reflexivity|]. split; [assumption|].
      destruct (fix_bind fx) eqn:Eb.
      + (* bound format: the certificate would carry the honest TLS key, which the
           peer cannot use in the handshake *)
        exfalso. rewrite Htkf in Htk2. injection Htk2 as Ht.
        apply knows_tpriv_inv in Hhk. rewrite <- Htk, Ht in Hhk.
        rewrite (honest_tls_private k Hnin) in Hhk. discriminate.
      + right. repeat split; auto. rewrite Hs, Hover, Htkf. reflexivity.
  Qed.

  (* once the signature binds the TLS key: accepted => the peer holds the key *)
  Theorem possession_bound s now n them h :
    fix_bind fx = true ->
    presentable h -> tls_handshake fx s now n them h = Accept ->
    exists c k, leaf h = Some c /\ key_of_cn s (c_cn c) = Some k /\ In k holds.
  Proof.
    intros Hb Hp Ha. destruct (possession_or_relay _ _ _ _ _ Hp Ha) as (c & k & Hl & Hk & [Hin|(Hf & _)]).
    - eauto.
    - congruence.
  Qed.

  (* the relay: whatever honest key and whatever nonce, a peer that holds some
     TLS key can present an accepted certificate naming that key (pinned format) *)
  Theorem relay_presentable s now n k t :
    fix_bind fx = false -> ~ In k holds -> own_tls t = true ->
    let c := mkcert (pub_to_cn k) [URI true true (pub_to_cn k)] (Some (SigBy k n (pub_to_cn k) None))
                    t SgSelf (now - 300) (now + 7200) true false in
    presentable (Hello [RawOne c] t) /\
    tls_handshake fx s now n (Some k) (Hello [RawOne c] t) = Accept /\
    tls_handshake fx s now n None (Hello [RawOne c] t) = Accept.
  Proof.
    intros Hb Hnin Ht c. split; [|split].
    - split; [now constructor|].
      intros c0 k0 n0 over tk [Heq|[]] Hs. injection Heq as <-. simpl in Hs.
      injection Hs as <- <- <- <-. pose proof (kn_oracle k n Hnin) as H. rewrite Hb in H. exact H.
    - unfold tls_handshake, verify, c, x509_ok, expected_ok, sig_ok, opt_tkey_ok; simpl.
      rewrite !Nat.eqb_refl, Hb. simpl.
      replace (now - 300 <=? now)%Z with true by (symmetry; apply Z.leb_le; lia).
      replace (now <=? now + 7200)%Z with true by (symmetry; apply Z.leb_le; lia).
      simpl. destruct (fix_f09 fx); rewrite ?Nat.eqb_refl; reflexivity.
    - unfold tls_handshake, verify, c, x509_ok, expected_ok, sig_ok, opt_tkey_ok; simpl.
      rewrite !Nat.eqb_refl, Hb. simpl.
      replace (now - 300 <=? now)%Z with true by (symmetry; apply Z.leb_le; lia).
      replace (now <=? now + 7200)%Z with true by (symmetry; apply Z.leb_le; lia).
      reflexivity.
  Qed.
End Peer.

(* possession refuted for the pinned rule, in closed form *)
Theorem possession_refuted :
  exists holds own_tls htls h s,
    (forall k, ~ In k holds -> own_tls (htls k) = false) /\
    presentable pinned holds own_tls htls h /\
    tls_handshake pinned s 0 0 None h = Accept /\
    exists k, proven_key s h = Some k /\ ~ In k holds.
Proof.
  exists [2; 3], (fun t => t <? 2), (fun _ => 9),
         (Hello [RawOne (mkcert (pub_to_cn 1) [URI true true (pub_to_cn 1)]
                                (Some (SigBy 1 0 (pub_to_cn 1) None)) 0 SgSelf (0 - 300) (0 + 7200) true false)] 0),
         Ed25519.
  assert (Hn : ~ In 1 [2; 3]) by (simpl; lia).
  split; [reflexivity|].
  destruct (relay_presentable pinned [2; 3] (fun t => t <? 2) (fun _ => 9) Ed25519 0 0 1 0 eq_refl Hn eq_refl)
    as (Hp & _ & Ha).
  split; [exact Hp|]. split; [exact Ha|]. exists 1. split; [reflexivity|exact Hn].
Qed.

(* --- freshness: event traces ------------------------------------------------ *)

(* newest event first *)
Inductive event :=
| EChallenge (n : nonce)                 (* an honest verifier starts a handshake and draws n *)
| EOracle (k : key) (n : nonce)          (* the honest holder of k signs n (someone asked) *)
| EAccepted (n : nonce) (c : cert).      (* the verifier of handshake n accepts c *)

Definition mentions (n : nonce) (e : event) : Prop :=
  match e with
  | EChallenge m => m = n
  | EOracle _ m => m = n
  | EAccepted m c => m = n \/ exists k over tk, c_sig c = Some (SigBy k n over tk)
  end.

Section Trace.
  Variable fx : fixes.
  Variable s : suite.
  Variable holds : list key.    (* private keys of the adversary; all other keys are honest *)

  Inductive wf_trace : list event -> Prop :=
  | wf_nil : wf_trace []
  | wf_challenge tr n :
      wf_trace tr ->
      (forall e, In e tr -> ~ mentions n e) ->       (* 32 fresh random bytes *)
      wf_trace (EChallenge n :: tr)
  | wf_oracle tr k n :
      wf_trace tr -> ~ In k holds -> wf_trace (EOracle k n :: tr)
  | wf_accepted tr n c now them :
      wf_trace tr ->
      In (EChallenge n) tr ->
      verify fx s now n them [RawOne c] = Accept ->
      (* unforgeability: the signature inside was made with a key the adversary
         holds, or was produced by the honest holder earlier in this trace *)
      (forall k m over tk, c_sig c = Some (SigBy k m over tk) ->
                           In k holds \/ (In (EOracle k m) tr /\ over = pub_to_cn k)) ->
      wf_trace (EAccepted n c :: tr).

  Lemma wf_tail e tr : wf_trace (e :: tr) -> wf_trace tr.
  Proof. intros H. inversion H; assumption. Qed.

  Lemma wf_suffix t2 t1 : wf_trace (t2 ++ t1) -> wf_trace t1.
  Proof. induction t2 as [|e t2 IH]; simpl; intros H; [assumption|]. apply IH. eapply wf_tail; eauto. Qed.

  (* in a well-formed trace nothing mentioning n precedes the challenge n *)
  Lemma challenge_fresh ta tb n :
    wf_trace (ta ++ EChallenge n :: tb) -> forall e, In e tb -> ~ mentions n e.
  Proof. intros H. apply wf_suffix in H. inversion H; subst. assumption. Qed.

  (* freshness: if a certificate naming an honest key is accepted in handshake
     n, the holder of that key signed n AFTER the verifier drew n and BEFORE
     the acceptance -- a proof recorded earlier (stale) or made for another
     verifier's nonce (foreign) is never accepted *)
  Theorem proof_is_fresh t2 t1 n c k :
    wf_trace (t2 ++ EAccepted n c :: t1) ->
    key_of_cn s (c_cn c) = Some k -> ~ In k holds ->
    exists ta tb, t1 = ta ++ EOracle k n :: tb /\ In (EChallenge n) tb.
  Proof.
    intros Hwf Hk Hnin. apply wf_suffix in Hwf. inversion Hwf as [| | |tr n' c' now them Htr Hch Hv Hsig]; subst.
    destruct (proof_of_possession _ _ _ _ _ _ Hv) as (c0 & k0 & tk & Heq & Hk0 & Hs & _ & _).
    injection Heq as <-. rewrite Hk in Hk0. injection Hk0 as <-.
    destruct (Hsig _ _ _ _ Hs) as [Hin|[Hor _]]; [contradiction|].
    apply in_split in Hor as (ta & tb & ->). exists ta, tb. split; [reflexivity|].
    apply in_app_or in Hch as [Hch|[Hch|Hch]]; [|discriminate|assumption].
    (* the challenge cannot be newer than the oracle event: n would not have been fresh *)
    exfalso. apply in_split in Hch as (u1 & u2 & ->).
    rewrite <- app_assoc in Htr. simpl in Htr.
    eapply (challenge_fresh u1 (u2 ++ EOracle k n :: tb) n Htr (EOracle k n)).
    - apply in_or_app. right. left. reflexivity.
    - reflexivity.
  Qed.

  (* adversary-held keys: nothing to prove beyond possession *)
  Theorem accepted_key_held_or_honest_signed tr n c k :
    wf_trace (EAccepted n c :: tr) -> key_of_cn s (c_cn c) = Some k ->
    In k holds \/ In (EOracle k n) tr.
  Proof.
    intros Hwf Hk. inversion Hwf as [| | |tr' n' c' now them Htr Hch Hv Hsig]; subst.
    destruct (proof_of_possession _ _ _ _ _ _ Hv) as (c0 & k0 & tk & Heq & Hk0 & Hs & _ & _).
    injection Heq as <-. rewrite Hk in Hk0. injection Hk0 as <-.
    destruct (Hsig _ _ _ _ Hs) as [Hin|[Hor _]]; auto.
  Qed.
End Trace.

Example proof_is_fresh_nonvacuous :
  wf_trace pinned Ed25519 [2]
    [EAccepted 7 (mkcert (pub_to_cn 1) [] (Some (SigBy 1 7 (pub_to_cn 1) None)) 0 SgSelf (-300) 7200 true false);
     EOracle 1 7; EChallenge 7].
Proof.
  eapply (wf_accepted _ _ _ _ _ _ 0%Z None).
  - apply wf_oracle; [|simpl; lia]. apply wf_challenge; [constructor|]. intros e [].
  - simpl. auto.
  - reflexivity.
  - intros k m over tk H. injection H as <- <- <- <-. right. simpl. auto.
Qed.

(* a replayed proof (signed before the challenge) cannot be in a well-formed trace *)
Theorem replay_never_accepted fx s holds tr n c k t2 :
  wf_trace fx s holds (t2 ++ EAccepted n c :: tr) ->
  key_of_cn s (c_cn c) = Some k -> ~ In k holds ->
  forall ta tb, tr = ta ++ EChallenge n :: tb -> ~ In (EOracle k n) ta -> False.
Proof.
  intros Hwf Hk Hnin ta tb -> Hno.
  destruct (proof_is_fresh _ _ _ _ _ _ _ _ Hwf Hk Hnin) as (ua & ub & Heq & Hch).
  pose proof (wf_suffix _ _ _ _ _ Hwf) as Hwf1. apply wf_tail in Hwf1.
  (* the oracle event is in ta or in tb; tb is excluded by freshness *)
  assert (Hin : In (EOracle k n) (ta ++ EChallenge n :: tb)) by (rewrite Heq; apply in_or_app; right; left; reflexivity).
  apply in_app_or in Hin as [Hin|[Hin|Hin]]; [contradiction|discriminate|].
  eapply (challenge_fresh _ _ _ ta tb n Hwf1 _ Hin). reflexivity.
Qed.

(* ------------------------------------------------------------------------- *)
(* 6. the property as a Prop, and the boolean checker                         *)

Record link_property (lv : level) (r : role) (s : suite) (holds : list key) (h : hello) (id : ident)
       (o_hs : bool) (o_disp : nat) (o_stamp : list key) (o_crash : bool) : Prop := {
  lp_possession : o_hs = true -> exists k, proven_key s h = Some k /\ In k holds;
  lp_fresh : o_hs = true ->
             exists c k tk, leaf h = Some c /\ key_of_cn s (c_cn c) = Some k /\
                            c_sig c = Some (SigBy k 0 (c_cn c) tk);
  lp_reaches : o_hs = true -> forall e, r = RDial e -> proven_key s h = Some e;
  lp_stamp : forall k, In k o_stamp -> In k holds;
  lp_dispatch : o_disp <> 0 ->
                o_hs = true /\
                (r = RAccept -> exists c k, leaf h = Some c /\ key_of_cn s (c_cn c) = Some k /\
                                            declared s c id = Some k);
  lp_nocrash : o_crash = false;
  lp_valid : o_hs = true -> exists c, leaf h = Some c /\ (c_nb c <= 0 <= c_na c)%Z;
  lp_stamp_all : length o_stamp = o_disp    (* an identity was recorded for every dispatched message *)
}.

Lemma valid_now_b_spec h :
  valid_now_b h = true <-> exists c, leaf h = Some c /\ (c_nb c <= 0 <= c_na c)%Z.
Proof.
  unfold valid_now_b. split.
  - destruct (leaf h) as [c|]; try discriminate. intros H. apply andb_true_iff in H as [H1 H2].
    apply Z.leb_le in H1. apply Z.leb_le in H2. exists c. split; [reflexivity|lia].
  - intros (c & -> & H1 & H2). apply andb_true_iff. split; apply Z.leb_le; assumption.
Qed.

Lemma holds_b_in holds k : holds_b holds k = true <-> In k holds.
Proof.
  unfold holds_b. rewrite existsb_exists. split.
  - intros (x & Hx & He). apply Nat.eqb_eq in He. now subst.
  - intros H. exists k. split; [assumption|apply Nat.eqb_refl].
Qed.

Lemma clause_if_nil n b : clause_if n b = [] <-> b = true.
Proof. destruct b; simpl; split; intros H; try reflexivity; discriminate. Qed.

Lemma app_nil_intro {A} (a b : list A) : a = [] -> b = [] -> a ++ b = [].
Proof. intros -> ->. reflexivity. Qed.

Lemma fresh_proof_b_spec s h :
  fresh_proof_b s h = true <->
  exists c k tk, leaf h = Some c /\ key_of_cn s (c_cn c) = Some k /\ c_sig c = Some (SigBy k 0 (c_cn c) tk).
Proof.
  unfold fresh_proof_b. split.
  - destruct (leaf h) as [c|]; try discriminate.
    destruct (key_of_cn s (c_cn c)) as [k|] eqn:Ek; try discriminate.
    destruct (c_sig c) as [[k' n over tk| |]|] eqn:Es; try discriminate.
    intros H. repeat (apply andb_true_iff in H as [H ?]).
    apply Nat.eqb_eq in H. match goal with H : (n =? 0) = true |- _ => apply Nat.eqb_eq in H end.
    match goal with H : cname_eqb over _ = true |- _ => apply cname_eqb_eq in H end. subst.
    exists c, k, tk. auto.
  - intros (c & k & tk & -> & -> & ->). rewrite Nat.eqb_refl, cname_eqb_refl. reflexivity.
Qed.

Theorem prop_check_sound lv r s holds h id o_hs o_disp o_stamp o_crash :
  prop_check lv r s holds h id o_hs o_disp o_stamp o_crash = [] <->
  link_property lv r s holds h id o_hs o_disp o_stamp o_crash.
Proof.
  unfold prop_check. split.
  - intros H. repeat (apply app_eq_nil in H as [?H H]).
    repeat match goal with H : clause_if _ _ = [] |- _ => apply clause_if_nil in H end.
    constructor.
    + intros ->. simpl in *. destruct (proven_key s h) as [k|]; try discriminate.
      exists k. split; [reflexivity|]. now apply holds_b_in.
    + intros ->. simpl in *. now apply fresh_proof_b_spec.
    + intros -> e ->. simpl in *. unfold opt_key_eqb in *.
      destruct (proven_key s h) as [k|]; try discriminate.
      match goal with H : (k =? e) = true |- _ => apply Nat.eqb_eq in H; now subst end.
    + intros k Hin. match goal with H : _ && forallb _ o_stamp = true |- _ => apply andb_true_iff in H as [_ H]; rewrite forallb_forall in H; specialize (H _ Hin) end.
      now apply holds_b_in.
    + intros Hd. match goal with H : (_ =? 0) || _ = true |- _ => apply orb_true_iff in H as [Hz|Hz] end.
      * apply Nat.eqb_eq in Hz. contradiction.
      * apply andb_true_iff in Hz as [-> Hz]. split; [reflexivity|]. intros ->.
        destruct (leaf h) as [c|]; try discriminate.
        apply identity_matches in Hz as (k & Hk & Hdc). exists c, k. auto.
    + now apply negb_true_iff.
    + intros ->. simpl in *. now apply valid_now_b_spec.
    + match goal with H : _ && forallb _ o_stamp = true |- _ => apply andb_true_iff in H as [H _]; now apply Nat.eqb_eq in H end.
  - intros [H1 H2 H3 H4 H5 H6 H7 H8].
    repeat (apply app_nil_intro); apply clause_if_nil.
    + destruct o_hs; [|reflexivity]. simpl. destruct (H1 eq_refl) as (k & -> & Hin). now apply holds_b_in.
    + destruct o_hs; [|reflexivity]. simpl. apply fresh_proof_b_spec. now apply H2.
    + destruct o_hs; [|reflexivity]. simpl. destruct r as [e|]; [|reflexivity].
      rewrite (H3 eq_refl e eq_refl). simpl. apply Nat.eqb_refl.
    + apply andb_true_iff. split; [now apply Nat.eqb_eq|].
      apply forallb_forall. intros k Hin. apply holds_b_in. now apply H4.
    + destruct (o_disp =? 0) eqn:E; [reflexivity|]. simpl. apply Nat.eqb_neq in E.
      destruct (H5 E) as [-> Hr]. simpl. destruct r as [e|]; [reflexivity|].
      destruct (Hr eq_refl) as (c & k & -> & Hk & Hd). unfold router_accepts. rewrite Hd, Hk. apply Nat.eqb_refl.
    + now apply negb_true_iff.
    + destruct o_hs; [|reflexivity]. simpl. apply valid_now_b_spec. now apply H7.
Qed.

(* ------------------------------------------------------------------------- *)
(* 7. end to end                                                              *)

(* the pinned model violates the property: F09 (clauses 3, 4) and relay (1, 4) *)
Theorem pinned_link_violates_property_f09 :
  let h := Hello [RawOne f09_witness] 0 in
  let o := link pinned LTls (RDial 1) Ed25519 h IdMatch 2 in
  prop_check LTls (RDial 1) Ed25519 [2; 3] h IdMatch (out_hs o) (out_disp o) (out_stamp o) (out_crash o) = [3; 4].
Proof. reflexivity. Qed.

Definition relay_witness : cert :=
  mkcert (pub_to_cn 1) [URI true true (pub_to_cn 1)] (Some (SigBy 1 0 (pub_to_cn 1) None))
         0 SgSelf (-300) 7200 true false.

Theorem pinned_link_violates_property_relay :
  let h := Hello [RawOne relay_witness] 0 in
  (let o := link pinned LTls (RDial 1) Ed25519 h IdMatch 2 in
   prop_check LTls (RDial 1) Ed25519 [2; 3] h IdMatch (out_hs o) (out_disp o) (out_stamp o) (out_crash o) = [1; 4]) /\
  (let o := link pinned LTls RAccept Ed25519 h IdMatch 2 in
   prop_check LTls RAccept Ed25519 [2; 3] h IdMatch (out_hs o) (out_disp o) (out_stamp o) (out_crash o) = [1; 4]).
Proof. split; reflexivity. Qed.

Theorem pinned_link_violates_property_nokey :
  let h := Hello [RawOne (honest_cert 2 0)] 0 in
  let o := link pinned LTls RAccept Ed25519 h IdNoKey 2 in
  prop_check LTls RAccept Ed25519 [2; 3] h IdNoKey (out_hs o) (out_disp o) (out_stamp o) (out_crash o) = [6].
Proof. reflexivity. Qed.

(* ... and the relay witness is presentable by a peer holding only keys 2 and 3 *)
Theorem relay_witness_presentable :
  presentable pinned [2; 3] (fun t => t <? 2) (fun _ => 9) (Hello [RawOne relay_witness] 0).
Proof.
  split; [now constructor|].
  intros c k n over tk [Heq|[]] Hs. injection Heq as <-. simpl in Hs. injection Hs as <- <- <- <-.
  apply (kn_oracle pinned [2; 3] (fun t => t <? 2) (fun _ => 9) 1 0). simpl. lia.
Qed.

(* the repaired model (both repairs) satisfies the property for EVERY peer that
   is bound by unforgeability, every presented chain, identity message, role,
   suite and message count *)
Theorem repaired_link_satisfies_property holds own_tls htls r s h id msgs :
  (forall k, ~ In k holds -> own_tls (htls k) = false) ->
  let fx := mkfixes true true true true in
  presentable fx holds own_tls htls h ->
  let o := link fx LTls r s h id msgs in
  link_property LTls r s holds h id (out_hs o) (out_disp o) (out_stamp o) (out_crash o).
Proof.
  intros Hh fx Hp o. subst o. unfold link.
  destruct (tls_handshake fx s 0 0 (them_of r) h) eqn:Et; simpl.
  2:{ constructor; simpl; try discriminate; try (intros k []); try reflexivity. intros H; contradiction. }
  pose proof (possession_bound fx holds own_tls htls Hh s 0%Z 0 (them_of r) h eq_refl Hp Et)
    as (c & k & Hl & Hk & Hin).
  pose proof Et as Et'. apply tls_handshake_accept in Et' as (c' & hk & -> & Htk & Hv).
  simpl in Hl. injection Hl as <-.
  destruct (proof_of_possession _ _ _ _ _ _ Hv) as (c0 & k0 & tk & Heq & Hk0 & Hs & Hval & _).
  injection Heq as <-. rewrite Hk in Hk0. injection Hk0 as <-.
  assert (Hpk : proven_key s (Hello [RawOne c'] hk) = Some k) by (unfold proven_key; simpl; exact Hk).
  assert (Hfresh : exists c k tk, leaf (Hello [RawOne c'] hk) = Some c /\ key_of_cn s (c_cn c) = Some k /\
                                  c_sig c = Some (SigBy k 0 (c_cn c) tk)) by (exists c', k, tk; auto).
  assert (Hvalid : exists c, leaf (Hello [RawOne c'] hk) = Some c /\ (c_nb c <= 0 <= c_na c)%Z)
    by (exists c'; split; [reflexivity|assumption]).
  destruct r as [e|].
  - (* dial *)
    apply dial_reaches_expected_fixed in Hv as (c1 & tk1 & Heq & Hke & _); [|reflexivity].
    injection Heq as <-. rewrite Hk in Hke. injection Hke as <-.
    constructor; simpl; auto using repeat_length.
    + intros _. exists k. auto.
    + intros _ e [= <-]. exact Hpk.
    + intros k1 Hin1. apply in_repeat in Hin1. now subst.
    + intros _. split; [reflexivity|discriminate].
  - (* accept *)
    simpl. rewrite (nokey_fixed fx s c' id eq_refl). destruct (router_accepts s c' id) eqn:Er.
    + destruct (identity_matches _ _ _ Er) as (k1 & Hk1 & Hd). rewrite Hd.
      rewrite Hk in Hk1. injection Hk1 as <-.
      constructor; simpl; auto using repeat_length.
      * intros _. exists k. auto.
      * intros _ e H. discriminate.
      * intros k1 Hin1. apply in_repeat in Hin1. now subst.
      * intros _. split; [reflexivity|]. intros _. exists c', k. auto.
    + constructor; simpl; auto using repeat_length.
      * intros _. exists k. auto.
      * intros _ e H. discriminate.
      * intros k1 [].
      * intros H; contradiction.
Qed.

Example repaired_link_nonvacuous :
  let fx := mkfixes true true true true in
  let c := mkcert (pub_to_cn 2) [URI true true (pub_to_cn 2)] (Some (SigBy 2 0 (pub_to_cn 2) (Some 0)))
                  0 SgSelf (-300) 7200 true false in
  presentable fx [2; 3] (fun t => t <? 2) (fun _ => 9) (Hello [RawOne c] 0) /\
  link fx LTls (RDial 2) Ed25519 (Hello [RawOne c] 0) IdMatch 2 = mkout true 2 [2; 2] false /\
  link fx LTls RAccept Ed25519 (Hello [RawOne c] 0) IdMatch 2 = mkout true 2 [2; 2] false.
Proof.
  split; [|split; reflexivity].
  split; [now constructor|].
  intros c k n over tk [Heq|[]] Hs. injection Heq as <-. simpl in Hs. injection Hs as <- <- <- <-.
  apply kn_sign, kn_priv. simpl. auto.
Qed.

(* the variant /repo carries (everything repaired but the relay, F28) satisfies every clause but
   possession against a relaying peer: for peers that do not relay (every
   signature they present is made with a key they hold) the property holds *)
Definition signs_only_with_own_keys (holds : list key) (h : hello) : Prop :=
  forall c k n over tk, In (RawOne c) (chain_of h) -> c_sig c = Some (SigBy k n over tk) -> In k holds.

Theorem f09_repaired_link_satisfies_property_without_relay holds r s h id msgs :
  let fx := mkfixes true false true true in
  signs_only_with_own_keys holds h ->
  let o := link fx LTls r s h id msgs in
  link_property LTls r s holds h id (out_hs o) (out_disp o) (out_stamp o) (out_crash o).
Proof.
  intros fx Hown o. subst o. unfold link.
  destruct (tls_handshake fx s 0 0 (them_of r) h) eqn:Et; simpl.
  2:{ constructor; simpl; try discriminate; try (intros k []); try reflexivity. intros H; contradiction. }
  pose proof Et as Et'. apply tls_handshake_accept in Et' as (c' & hk & -> & Htk & Hv).
  destruct (proof_of_possession _ _ _ _ _ _ Hv) as (c0 & k & tk & Heq & Hk & Hs & Hval & _).
  injection Heq as <-.
  assert (Hin : In k holds) by (eapply (Hown c' k 0 (c_cn c') tk); [simpl; auto|exact Hs]).
  assert (Hpk : proven_key s (Hello [RawOne c'] hk) = Some k) by (unfold proven_key; simpl; exact Hk).
  assert (Hfresh : exists c k tk, leaf (Hello [RawOne c'] hk) = Some c /\ key_of_cn s (c_cn c) = Some k /\
                                  c_sig c = Some (SigBy k 0 (c_cn c) tk)) by (exists c', k, tk; auto).
  assert (Hvalid : exists c, leaf (Hello [RawOne c'] hk) = Some c /\ (c_nb c <= 0 <= c_na c)%Z)
    by (exists c'; split; [reflexivity|assumption]).
  destruct r as [e|].
  - apply dial_reaches_expected_fixed in Hv as (c1 & tk1 & Heq & Hke & _); [|reflexivity].
    injection Heq as <-. rewrite Hk in Hke. injection Hke as <-.
    constructor; simpl; auto using repeat_length.
    + intros _. exists k. auto.
    + intros _ e [= <-]. exact Hpk.
    + intros k1 Hin1. apply in_repeat in Hin1. now subst.
    + intros _. split; [reflexivity|discriminate].
  - simpl. rewrite (nokey_fixed fx s c' id eq_refl). destruct (router_accepts s c' id) eqn:Er.
    + destruct (identity_matches _ _ _ Er) as (k1 & Hk1 & Hd). rewrite Hd.
      rewrite Hk in Hk1. injection Hk1 as <-.
      constructor; simpl; auto using repeat_length.
      * intros _. exists k. auto.
      * intros _ e H. discriminate.
      * intros k1 Hin1. apply in_repeat in Hin1. now subst.
      * intros _. split; [reflexivity|]. intros _. exists c', k. auto.
    + constructor; simpl; auto using repeat_length.
      * intros _. exists k. auto.
      * intros _ e H. discriminate.
      * intros k1 [].
      * intros H; contradiction.
Qed.

(* ------------------------------------------------------------------------- *)
(* 8. TLS session resumption                                                  *)

Lemma link_accepted_conn fx s h id msgs c :
  tls_handshake fx s 0 0 None h = Accept -> leaf h = Some c ->
  link fx LTls RAccept s h id msgs = accepted_conn fx s c id msgs.
Proof. intros Ha Hl. unfold link, accepted_conn. simpl. rewrite Ha, Hl. reflexivity. Qed.

(* a certificate accepted in an earlier handshake (earlier nonce: 1) *)
Definition earlier_cert (k : key) (t : tkey) : cert :=
  mkcert (pub_to_cn k) [URI true true (pub_to_cn k)] (Some (SigBy k 1 (pub_to_cn k) None))
         t SgSelf (-300) 7200 true false.

(* unrepaired: a peer that once completed an honest handshake with its own key
   reconnects with the ticket alone -- no certificate, nothing signed over the
   new nonce -- and is served; the property's freshness clause (2) fails *)
Theorem resumption_refuted :
  let t := Some (earlier_cert 2 0, true) in
  let h := Hello [] 0 in
  let '(o, resumed) := link_r pinned LTls RAccept Ed25519 t h IdMatch 2 in
  resumed = true /\ o = mkout true 2 [2; 2] false /\
  prop_check LTls RAccept Ed25519 [2; 3] (effective resumed t h) IdMatch
             (out_hs o) (out_disp o) (out_stamp o) (out_crash o) = [2].
Proof. vm_compute. auto. Qed.

(* the same for the variant /repo carried before the C08-N1 repair landed (F09 and
   F29 repaired, tickets still on): kept as the regression witness of that repair *)
Theorem previous_variant_resumption_refuted :
  let fx := mkfixes true false true false in
  let t := Some (earlier_cert 2 0, true) in
  let h := Hello [] 0 in
  let '(o, resumed) := link_r fx LTls RAccept Ed25519 t h IdMatch 2 in
  resumed = true /\ o = mkout true 2 [2; 2] false /\
  prop_check LTls RAccept Ed25519 [2; 3] (effective resumed t h) IdMatch
             (out_hs o) (out_disp o) (out_stamp o) (out_crash o) = [2].
Proof. vm_compute. auto. Qed.

(* repaired (tickets disabled): an offered session changes nothing *)
Theorem no_resumption_when_repaired fx lv r s t h id msgs :
  fix_resume fx = true -> link_r fx lv r s t h id msgs = (link fx lv r s h id msgs, false).
Proof.
  intros Hf. unfold link_r, resumes. destruct lv, r, t as [[c0 []]|]; try reflexivity.
  rewrite Hf. reflexivity.
Qed.

(* resumption needs a ticket of the same listener incarnation, on the listening side *)
Theorem resumption_only_same_incarnation fx lv r s t h id msgs :
  snd (link_r fx lv r s t h id msgs) = true ->
  lv = LTls /\ r = RAccept /\ fix_resume fx = false /\ exists c0, t = Some (c0, true).
Proof.
  unfold link_r, resumes. destruct lv, r, t as [[c0 []]|]; simpl; try discriminate.
  destruct (fix_resume fx) eqn:E; simpl; try discriminate. intros _. eauto.
Qed.

(* the identity clause survives a resumption: whatever is dispatched carries the
   key of the ORIGINAL handshake's certificate, which the peer declared again *)
Theorem resumed_identity_is_ticket_key fx s c0 id msgs k :
  In k (out_stamp (accepted_conn fx s c0 id msgs)) ->
  key_of_cn s (c_cn c0) = Some k /\ declared s c0 id = Some k.
Proof.
  unfold accepted_conn. destruct (nokey_crashes fx s c0 id); [intros []|].
  destruct (router_accepts s c0 id) eqn:Er; [|intros []].
  apply identity_matches in Er as (k0 & Hk0 & Hd). rewrite Hd.
  intros Hin. apply in_repeat in Hin. subst. auto.
Qed.

(* all four repairs: the property holds also for peers that offer tickets *)
Theorem repaired_link_r_satisfies_property holds own_tls htls r s t h id msgs :
  (forall k, ~ In k holds -> own_tls (htls k) = false) ->
  let fx := mkfixes true true true true in
  presentable fx holds own_tls htls h ->
  let '(o, resumed) := link_r fx LTls r s t h id msgs in
  link_property LTls r s holds (effective resumed t h) id (out_hs o) (out_disp o) (out_stamp o) (out_crash o).
Proof.
  intros Hh fx Hp. rewrite (no_resumption_when_repaired fx LTls r s t h id msgs eq_refl).
  simpl effective. exact (repaired_link_satisfies_property holds own_tls htls r s h id msgs Hh Hp).
Qed.

(* ------------------------------------------------------------------------- *)
(* 9. what a PARTLY repaired variant guarantees (used for the code's variant) *)

(* the proof inside c is the honest holder's own proof for nonce n, presented
   by a peer that does not hold k *)
Definition relay_pattern (holds : list key) (n : nonce) (c : cert) (k : key) : Prop :=
  ~ In k holds /\ c_cn c = pub_to_cn k /\ c_sig c = Some (SigBy k n (pub_to_cn k) None).

Record guarantee (holds : list key) (r : role) (s : suite) (id : ident)
       (resumed : bool) (h' : hello) (o : outcome) : Prop := {
  g_nocrash : out_crash o = false;
  g_accept : out_hs o = true ->
    exists c k, leaf h' = Some c /\ key_of_cn s (c_cn c) = Some k /\
      (* possession, the relay being the only other way *)
      (In k holds \/ relay_pattern holds (if resumed then 1 else 0) c k) /\
      (* freshness and validity, a resumption being the only other way *)
      (resumed = false ->
       exists tk, c_sig c = Some (SigBy k 0 (c_cn c) tk) /\ (c_nb c <= 0 <= c_na c)%Z) /\
      (* the dialler reaches the key it dialled *)
      (forall e, r = RDial e -> k = e) /\
      (* every dispatched message carries the proven key; the peer declared it *)
      (forall k', In k' (out_stamp o) -> k' = k) /\
      (out_disp o <> 0 -> r = RAccept -> declared s c id = Some k);
  g_refused : out_hs o = false -> out_disp o = 0 /\ out_stamp o = []
}.

(* the ticket, if any, stems from an earlier handshake that was accepted under
   the same rule: its certificate names a key the peer holds or relayed then *)
Definition ticket_ok (holds : list key) (s : suite) (t : ticket) : Prop :=
  forall c0 b, t = Some (c0, b) ->
    exists k, key_of_cn s (c_cn c0) = Some k /\ (In k holds \/ relay_pattern holds 1 c0 k).

Theorem partly_repaired_guarantee fx holds own_tls htls r s t h id msgs :
  fix_f09 fx = true -> fix_nokey fx = true ->
  (forall k, ~ In k holds -> own_tls (htls k) = false) ->
  presentable fx holds own_tls htls h ->
  ticket_ok holds s t ->
  guarantee holds r s id (snd (link_r fx LTls r s t h id msgs))
            (effective (snd (link_r fx LTls r s t h id msgs)) t h)
            (fst (link_r fx LTls r s t h id msgs)).
Proof.
  intros Hf09 Hnk Hh Hp Ht. unfold link_r. destruct (resumes fx LTls r t) as [c0|] eqn:Er.
  - (* resumed *)
    unfold resumes in Er. destruct r as [e|]; [discriminate|].
    destruct t as [[c1 []]|]; try discriminate. destruct (fix_resume fx); [discriminate|].
    injection Er as ->. simpl. destruct (Ht c0 true eq_refl) as (k & Hk & Hpos).
    unfold accepted_conn. rewrite (nokey_fixed fx s c0 id Hnk).
    destruct (router_accepts s c0 id) eqn:Era.
    + destruct (identity_matches _ _ _ Era) as (k1 & Hk1 & Hd). rewrite Hd.
      rewrite Hk in Hk1. injection Hk1 as <-.
      constructor; simpl; [reflexivity| |discriminate].
      intros _. exists c0, k. repeat split; auto; try discriminate.
      intros k' Hin. now apply in_repeat in Hin.
    + constructor; simpl; [reflexivity| |discriminate].
      intros _. exists c0, k. repeat split; auto; try discriminate.
      * intros k' [].
      * intros H; contradiction.
  - (* full handshake *)
    simpl. unfold link.
    destruct (tls_handshake fx s 0 0 (them_of r) h) eqn:Et; simpl.
    2:{ constructor; simpl; [reflexivity|discriminate|auto]. }
    destruct (possession_or_relay fx holds own_tls htls Hh s 0%Z 0 (them_of r) h Hp Et)
      as (c & k & Hl & Hk & Hpos).
    pose proof Et as Et'. apply tls_handshake_accept in Et' as (c' & hk & -> & Htk & Hv).
    simpl in Hl. injection Hl as <-.
    destruct (proof_of_possession _ _ _ _ _ _ Hv) as (c1 & k1 & tk & Heq & Hk1 & Hs & Hval & _).
    injection Heq as <-. rewrite Hk in Hk1. injection Hk1 as <-.
    assert (Hpos' : In k holds \/ relay_pattern holds 0 c' k).
    { destruct Hpos as [Hin|(_ & Hn & Hcn & Hsg)]; [left; assumption|right; repeat split; assumption]. }
    assert (Hfr : false = false -> exists tk, c_sig c' = Some (SigBy k 0 (c_cn c') tk) /\ (c_nb c' <= 0 <= c_na c')%Z)
      by (intros _; exists tk; split; assumption).
    destruct r as [e|].
    + apply dial_reaches_expected_fixed in Hv as (c2 & tk2 & Heq & Hke & _); [|assumption].
      injection Heq as <-. rewrite Hk in Hke. injection Hke as <-.
      constructor; simpl; [reflexivity| |discriminate].
      intros _. exists c', k. repeat split; auto; try discriminate.
      * intros e [= <-]. reflexivity.
      * intros k' Hin. now apply in_repeat in Hin.
    + simpl. rewrite (nokey_fixed fx s c' id Hnk). destruct (router_accepts s c' id) eqn:Era.
      * destruct (identity_matches _ _ _ Era) as (k2 & Hk2 & Hd). rewrite Hd.
        rewrite Hk in Hk2. injection Hk2 as <-.
        constructor; simpl; [reflexivity| |discriminate].
        intros _. exists c', k. repeat split; auto; try discriminate.
        intros k' Hin. now apply in_repeat in Hin.
      * constructor; simpl; [reflexivity| |discriminate].
        intros _. exists c', k. repeat split; auto; try discriminate.
        -- intros k' [].
        -- intros H; contradiction.
Qed.

(* ------------------------------------------------------------------------- *)
(* 10. independence of the clauses for the F09-repaired rule                  *)

(* On the listening side (nothing expected) every clause but the expected-key one
   (4, vacuous there) is independent; on the dialling side the repaired
   expected-key check needs the CN to decode, so clause 6 (CN decodes to a key)
   is implied by clause 4 there -- witness 6 fails both -- and every other
   clause, 4 included, still has a certificate failing it alone. *)
Theorem each_check_independent_f09_repaired :
  let fx := mkfixes true false true true in
  forall i c, nth_error independence_witnesses i = Some c ->
    (i <> 4 -> fails_only i (clause_list fx Ed25519 0 0 None c) = true) /\
    (i <> 6 -> fails_only i (clause_list fx Ed25519 0 0 (Some 2) c) = true) /\
    (i = 6 -> clause_list fx Ed25519 0 0 (Some 2) c =
              [true; true; true; true; false; true; false; true; true; true; true]) /\
    (i = 4 \/ verify fx Ed25519 0 0 None [RawOne c] <> Accept) /\
    verify fx Ed25519 0 0 (Some 2) [RawOne c] <> Accept.
Proof.
  intros fx i c H.
  do 11 (destruct i as [|i];
         [injection H as <-;
          repeat split; try (intros _; vm_compute; reflexivity); try (intros Hc; exfalso; now apply Hc);
          try discriminate; try (vm_compute; discriminate);
          try (right; vm_compute; discriminate); try (left; reflexivity)|]).
  destruct i; discriminate.
Qed.

(* ------------------------------------------------------------------------- *)
(* 11. several outgoing dials of one host: the verifier of a dial is private   *)

Definition restarts (id : nat) (ev : hev) : Prop :=
  match ev with HStart i _ _ => i = id | HCert _ _ => False end.

Lemma host_run_keeps_dial fx s id evs : forall st,
  (forall ev, In ev evs -> ~ restarts id ev) ->
  dial_lookup id (h_dials (host_run false fx s st evs)) = dial_lookup id (h_dials st).
Proof.
  induction evs as [|ev evs IH]; intros st Hno; [reflexivity|].
  simpl. rewrite IH by (intros ev' Hin; apply Hno; right; exact Hin).
  destruct ev as [i e n|i h]; simpl; [|reflexivity].
  destruct (i =? id) eqn:E; [|reflexivity].
  apply Nat.eqb_eq in E. exfalso. apply (Hno (HStart i e n)); [left; reflexivity|exact E].
Qed.

(* whatever other dials the host starts and whatever certificates arrive on them
   in between, the certificate arriving on dial [id] is judged with the expected
   key and the nonce of dial [id] *)
Theorem dial_verifier_private fx s st id e n evs h :
  dial_lookup id (h_dials st) = Some (e, n) ->
  (forall ev, In ev evs -> ~ restarts id ev) ->
  snd (host_step false fx s (host_run false fx s st evs) (HCert id h)) =
  Some (tls_handshake fx s 0 n (Some e) h).
Proof.
  intros Hl Hno. simpl. unfold host_verifier. rewrite (host_run_keeps_dial fx s id evs st Hno), Hl.
  reflexivity.
Qed.

(* hence (F09 repaired): a dial accepts only a certificate proving ITS intended
   key over ITS nonce, whatever the other dials of the same host do *)
Theorem dial_accepts_only_own_proof fx s st id e n evs h :
  fix_f09 fx = true ->
  dial_lookup id (h_dials st) = Some (e, n) ->
  (forall ev, In ev evs -> ~ restarts id ev) ->
  snd (host_step false fx s (host_run false fx s st evs) (HCert id h)) = Some Accept ->
  exists c tk, h = Hello [RawOne c] (c_tlskey c) /\ key_of_cn s (c_cn c) = Some e /\
               c_sig c = Some (SigBy e n (c_cn c) tk).
Proof.
  intros Hf Hl Hno Ha. rewrite (dial_verifier_private fx s st id e n evs h Hl Hno) in Ha.
  injection Ha as Ha. apply tls_handshake_accept in Ha as (c & hk & -> & Htk & Hv).
  apply dial_reaches_expected_fixed in Hv as (c' & tk & Heq & Hk & Hs); [|assumption].
  injection Heq as <-. exists c, tk. subst hk. auto.
Qed.

Example dial_accepts_only_own_proof_nonvacuous :
  snd (host_step false (mkfixes true false true true) Ed25519
         (host_run false (mkfixes true false true true) Ed25519 host0
                   [HStart 0 1 0; HStart 1 2 4; HCert 1 (Hello [] 0)])
         (HCert 0 (Hello [RawOne (mkcert (pub_to_cn 1) [URI true true (pub_to_cn 1)]
                                        (Some (SigBy 1 0 (pub_to_cn 1) None)) 0 SgSelf (-300) 7200 true false)] 0)))
  = Some Accept.
Proof. reflexivity. Qed.

(* the forced scenario: the concurrent dial is without influence on the observed one *)
Theorem conc_dial_private fx s e other h msgs :
  conc_dial false fx s e other h msgs = link fx LTls (RDial e) s h IdMatch msgs.
Proof.
  unfold conc_dial, link. simpl. unfold host_verifier. simpl.
  destruct (tls_handshake fx s 0 0 (Some e) h); reflexivity.
Qed.

Theorem conc_other_up_private fx s e other tk : conc_other_up false fx s e other tk = true.
Proof.
  unfold conc_other_up. simpl. unfold host_verifier. simpl.
  unfold x509_ok, expected_ok, sig_ok, opt_tkey_ok, cname_eqb, pub_to_cn, conc_nonce. simpl.
  rewrite !Nat.eqb_refl. simpl.
  destruct (fix_f09 fx), (fix_bind fx); simpl; rewrite ?Nat.eqb_refl; reflexivity.
Qed.

(* NOT /repo: if the dials of a host shared one verifier slot, the peer on the
   first link could answer with a proof made for the second dial (another key,
   another nonce) and be accepted as the first dial's target: clauses 2 (not this
   handshake's nonce), 3 (not the dialled key), 4 (stamped key not owned) *)
Theorem shared_verifier_refuted :
  let fx := mkfixes true false true true in
  let c := mkcert (pub_to_cn 2) [URI true true (pub_to_cn 2)] (Some (SigBy 2 conc_nonce (pub_to_cn 2) None))
                  0 SgSelf (-300) 7200 true false in
  let h := Hello [RawOne c] 0 in
  conc_dial false fx Ed25519 1 2 h 2 = mkout false 0 [] false /\
  (let o := conc_dial true fx Ed25519 1 2 h 2 in
   o = mkout true 2 [1; 1] false /\
   prop_check LTls (RDial 1) Ed25519 [2; 3] h IdMatch (out_hs o) (out_disp o) (out_stamp o) (out_crash o)
   = [2; 3; 4]).
Proof. vm_compute. auto. Qed.

(* ------------------------------------------------------------------------- *)
(* 12. earlier connections do not matter                                      *)

(* the identity check of a connection depends on that connection's certificate
   and announcement only, whoever connected before *)
Theorem router_history_irrelevant prior s c id :
  router_accepts_h false prior s c id = router_accepts s c id.
Proof. reflexivity. Qed.

Theorem router_history_irrelevant_proven prior s c id :
  router_accepts_h false prior s c id = true ->
  exists k, key_of_cn s (c_cn c) = Some k /\ declared s c id = Some k.
Proof. rewrite router_history_irrelevant. apply identity_matches. Qed.

(* NOT /repo: remembering the decoded key per ANNOUNCED identity lets a peer that
   proves key 2 be taken for key 1 once key 1 has connected genuinely *)
Theorem key_cache_refuted :
  let c := honest_cert 2 0 in
  router_accepts_h true [1] Ed25519 c (IdKey 1) = true /\
  router_accepts_h false [1] Ed25519 c (IdKey 1) = false /\
  key_of_cn Ed25519 (c_cn c) = Some 2.
Proof. vm_compute. auto. Qed.
