(* C10 -- k concurrent callers of Server.Close() and the Start() goroutine.

   Go code mirrored (server.go; c.Lock() is the embedded router's mutex):
     Start : ...; Lock; IsStarted = true; Unlock; <-closeitChannel          (unbuffered)
     Close : Lock
             if IsStarted { closeitChannel <- true      -- rendez-vous with Start's receive,
                            IsStarted = false }         --   the lock is held meanwhile
             Unlock
             Router.Stop(); WebSocket.stop(); overlay.Close(); closeDatabase(); return err
     closeDatabase : db.Close(); if delDb { os.Remove(file) -> "removing file" error when
                     the file is already gone }

   One action = one critical section / one channel operation.  Router.Stop of caller i is a
   Stop thread of the router transition system of Net/RouterClose.v, which is embedded
   whole: its state is a field, and the router actions a closing server takes by itself
   (the Stop threads' steps and the handler goroutines' own steps) are actions here.
   WebSocket.stop, Overlay.Close (with the landed repair of F41 it returns, see
   Net/CloseSeq.v) and closeDatabase are opaque idempotent steps.

   [cta] ("check then act") is the variant in which the lock is released between reading
   IsStarted and the send / the clearing of the flag:
     Lock; started := IsStarted; Unlock
     if started { closeitChannel <- true; Lock; IsStarted = false; Unlock }

   The only panic this code can reach is the router's negative WaitGroup counter, carried
   by the embedded state ([crashed]); closeitChannel is never closed. *)
From Coq Require Import List Arith Bool Lia.
Import ListNotations.
From Onet Require Import Net.RouterClose.

(* Start() *)
Inductive startpc :=
| StNone          (* the server was never started: no Start goroutine, IsStarted = false *)
| StRunning       (* IsStarted has been set, the receive not yet reached (schedule point server.started) *)
| StWaiting       (* blocked in <-closeitChannel *)
| StReturned.

(* one caller of Close() *)
Inductive kpc :=
| KEnter                 (* about to Lock and read IsStarted *)
| KSendPc                (* blocked in closeitChannel <- true *)
| KClearPc               (* about to clear IsStarted (and unlock) *)
| KStopCall              (* about to call Router.Stop *)
| KStopRun (t : nat)     (* inside Router.Stop, which is Stop thread t of the router *)
| KWsPc | KOvPc | KDbPc  (* WebSocket.stop, overlay.Close, closeDatabase *)
| KRet (r : res).

Record kstate := mkK {
  flag : bool;                 (* IsStarted *)
  klock : bool;                (* the lock is held across the blocking send (original code only) *)
  start : startpc;
  sent : nat;                  (* values ever sent on closeitChannel *)
  callers : list kpc;
  router : state;
  ws_started : bool;
  instances_k : nat;           (* instances registered in the overlay *)
  ov_closed_k : bool;
  db_open : bool;
  db_file : bool }.            (* the database file exists *)

Inductive kaction :=
| KStartArrive                 (* Start reaches its receive *)
| KLockRead (i : nat)          (* Lock; read IsStarted (original: keeps the lock if it is set) *)
| KSend (i : nat)              (* the rendez-vous: caller i sends, Start receives and returns *)
| KClear (i : nat)             (* IsStarted = false; Unlock   (cta: Lock; clear; Unlock) *)
| KStopCall_ (i : nat)         (* caller i enters Router.Stop *)
| KR (a : action)              (* a step of a Stop thread or of a handler goroutine *)
| KStopRet (i : nat)           (* Router.Stop returns to caller i *)
| KWs (i : nat) | KOv (i : nat) | KDb (i : nat).

(* router actions of a closing server: the Stop threads, the handler goroutines and the
   connection set-ups that are under way; no new call, connection or message *)
Definition allowed (a : action) : bool :=
  match a with
  | AHostStop _ | ACloseAll _ | AWait _
  | AHRecvErr _ | AHCheck _ | AHDispatch _ | AHExitClose _ | AHExitDone _ | AHExitRemove _
  | ABegin _ | AEnd _ | ARecvIdFail _ | ACheckPeer _ _ | ARegister _ | ALaunch _ => true
  | _ => false
  end.

Definition set_callers (s : kstate) (l : list kpc) : kstate :=
  mkK (flag s) (klock s) (start s) (sent s) l (router s) (ws_started s) (instances_k s)
      (ov_closed_k s) (db_open s) (db_file s).

Definition kstep (cta del_db : bool) (fx : fixes) (s : kstate) (a : kaction) : option kstate :=
  match a with
  | KStartArrive =>
      match start s with
      | StRunning => Some (mkK (flag s) (klock s) StWaiting (sent s) (callers s) (router s) (ws_started s)
                               (instances_k s) (ov_closed_k s) (db_open s) (db_file s))
      | _ => None
      end
  | KLockRead i =>
      match nth_error (callers s) i with
      | Some KEnter =>
          if klock s then None                                   (* blocked in Lock() *)
          else if flag s
               then Some (mkK (flag s) (negb cta) (start s) (sent s) (upd (callers s) i KSendPc) (router s)
                              (ws_started s) (instances_k s) (ov_closed_k s) (db_open s) (db_file s))
               else Some (set_callers s (upd (callers s) i KStopCall))
      | _ => None
      end
  | KSend i =>
      match nth_error (callers s) i with
      | Some KSendPc =>
          match start s with
          | StWaiting => Some (mkK (flag s) (klock s) StReturned (S (sent s)) (upd (callers s) i KClearPc) (router s)
                                   (ws_started s) (instances_k s) (ov_closed_k s) (db_open s) (db_file s))
          | _ => None                                            (* nobody receives *)
          end
      | _ => None
      end
  | KClear i =>
      match nth_error (callers s) i with
      | Some KClearPc =>
          if cta && klock s then None
          else Some (mkK false false (start s) (sent s) (upd (callers s) i KStopCall) (router s)
                         (ws_started s) (instances_k s) (ov_closed_k s) (db_open s) (db_file s))
      | _ => None
      end
  | KStopCall_ i =>
      match nth_error (callers s) i with
      | Some KStopCall =>
          match step fx (router s) ACallStop with
          | Some r' => Some (mkK (flag s) (klock s) (start s) (sent s)
                                 (upd (callers s) i (KStopRun (length (stops (router s))))) r'
                                 (ws_started s) (instances_k s) (ov_closed_k s) (db_open s) (db_file s))
          | None => None
          end
      | _ => None
      end
  | KR a =>
      (* these steps take (or, for wg.Wait and a failing Receive, are conservatively taken to take)
         the router lock, which the first caller of the unchanged Close holds across its send *)
      if klock s then None else
      if allowed a then
        match step fx (router s) a with
        | Some r' => Some (mkK (flag s) (klock s) (start s) (sent s) (callers s) r' (ws_started s)
                               (instances_k s) (ov_closed_k s) (db_open s) (db_file s))
        | None => None
        end
      else None
  | KStopRet i =>
      match nth_error (callers s) i with
      | Some (KStopRun t) =>
          match nth_error (stops (router s)) t with
          | Some SReturned => Some (set_callers s (upd (callers s) i KWsPc))
          | _ => None
          end
      | _ => None
      end
  | KWs i =>
      match nth_error (callers s) i with
      | Some KWsPc => Some (mkK (flag s) (klock s) (start s) (sent s) (upd (callers s) i KOvPc) (router s) false
                                (instances_k s) (ov_closed_k s) (db_open s) (db_file s))
      | _ => None
      end
  | KOv i =>
      match nth_error (callers s) i with
      | Some KOvPc => Some (mkK (flag s) (klock s) (start s) (sent s) (upd (callers s) i KDbPc) (router s)
                                (ws_started s) 0 true (db_open s) (db_file s))
      | _ => None
      end
  | KDb i =>
      match nth_error (callers s) i with
      | Some KDbPc =>
          Some (mkK (flag s) (klock s) (start s) (sent s)
                    (upd (callers s) i (KRet (if del_db then (if db_file s then Ok else Err) else Ok)))
                    (router s) (ws_started s) (instances_k s) (ov_closed_k s) false
                    (if del_db then false else db_file s))
      | _ => None
      end
  end.

Fixpoint krun (cta del_db : bool) (fx : fixes) (s : kstate) (acts : list kaction) : option kstate :=
  match acts with
  | [] => Some s
  | a :: r => match kstep cta del_db fx s a with None => None | Some s' => krun cta del_db fx s' r end
  end.

(* a running server (started or not) with router state r0 and n instances, on which k
   callers are about to call Close() *)
Definition kinit (started : bool) (r0 : state) (n k : nat) : kstate :=
  mkK started false (if started then StRunning else StNone) 0 (repeat KEnter k) r0 true n false true true.

Definition returned (p : kpc) : bool := match p with KRet _ => true | _ => false end.

(* what Close() leaves behind *)
Definition all_closed_k (s : kstate) : Prop :=
  flag s = false /\ klock s = false /\
  closed (router s) = true /\ listening (router s) = false /\ wg (router s) = 0 /\
  (forall c k, In c (table (router s)) -> nth_error (conns (router s)) c = Some k -> lopen k = false) /\
  ws_started s = false /\ instances_k s = 0 /\ ov_closed_k s = true /\ db_open s = false.

(* ---- a deterministic scheduler, used by the correspondence ------------------- *)

Definition candidates (s : kstate) : list kaction :=
  KStartArrive ::
  flat_map (fun i => [KLockRead i; KSend i; KClear i; KStopCall_ i; KStopRet i; KWs i; KOv i; KDb i])
           (seq 0 (length (callers s))) ++
  flat_map (fun t => [KR (AHostStop t); KR (ACloseAll t); KR (AWait t)]) (seq 0 (length (stops (router s)))) ++
  flat_map (fun c => [KR (AHRecvErr c); KR (AHCheck c); KR (AHDispatch c); KR (AHExitClose c);
                      KR (AHExitDone c); KR (AHExitRemove c);
                      KR (ABegin c); KR (ARecvIdFail c); KR (ACheckPeer c true); KR (ARegister c); KR (ALaunch c);
                      KR (AEnd c)]) (seq 0 (length (conns (router s)))).

Fixpoint first_enabled (cta del_db : bool) (fx : fixes) (s : kstate) (l : list kaction) : option kstate :=
  match l with
  | [] => None
  | a :: r => match kstep cta del_db fx s a with Some s' => Some s' | None => first_enabled cta del_db fx s r end
  end.

Fixpoint sched (cta del_db : bool) (fx : fixes) (fuel : nat) (s : kstate) : kstate :=
  match fuel with
  | 0 => s
  | S f => match first_enabled cta del_db fx s (candidates s) with
           | Some s' => sched cta del_db fx f s'
           | None => s
           end
  end.
