(* C03 PROOFS about Net/LocalPipe.v. *)
From Coq Require Import List Arith Bool Lia.
Import ListNotations.
From Onet Require Import Net.LocalPipe.

Section PipeProofs.
  Variable A : Type.

  (* the code as it is: whatever the capacity and the interleaving of sender,
     pump and receiver, the messages are, in order: received, in the outgoing
     queue, in the incoming queue, not yet sent *)
  Definition pipe_inv (msgs : list A) (s : pst A) : Prop :=
    p_parked s = [] /\ p_got s ++ p_out s ++ p_in s ++ p_todo s = msgs.

  Lemma pstep_inv cap msgs s a s' :
    pipe_inv msgs s -> pstep cap false s a = Some s' -> pipe_inv msgs s'.
  Proof.
    intros [Hp Hm] H. unfold pstep in H. destruct a.
    - destruct (p_todo s) as [|m r] eqn:E; [discriminate|].
      destruct (length (p_in s) <? cap); [|discriminate]. injection H as <-.
      split; cbn; [exact Hp|]. rewrite <- Hm. now rewrite <- !app_assoc.
    - destruct (p_todo s); discriminate.
    - rewrite Hp in H. destruct k; discriminate.
    - destruct (p_in s) as [|m r] eqn:E; [discriminate|].
      destruct (length (p_out s) <? cap); [|discriminate]. injection H as <-.
      split; cbn; [exact Hp|]. rewrite <- Hm. now rewrite <- !app_assoc.
    - destruct (p_out s) as [|m r] eqn:E; [discriminate|]. injection H as <-.
      split; cbn; [exact Hp|]. rewrite <- Hm. now rewrite <- !app_assoc.
  Qed.

  Lemma prun_inv cap msgs : forall acts s0 s,
    pipe_inv msgs s0 -> prun cap false acts s0 = Some s -> pipe_inv msgs s.
  Proof.
    induction acts as [|a r IH]; intros s0 s I0 H; cbn in H.
    - now injection H as <-.
    - destruct (pstep cap false s0 a) as [s1|] eqn:E; [|discriminate].
      apply (IH s1); [now apply (pstep_inv cap msgs s0 a)|exact H].
  Qed.

  Theorem pipe_fifo cap msgs : forall acts (s : pst A),
    prun cap false acts (pinit msgs) = Some s ->
    p_got s ++ p_out s ++ p_in s ++ p_todo s = msgs /\
    (p_out s = [] -> p_in s = [] -> p_todo s = [] -> p_got s = msgs).
  Proof.
    intros acts s H.
    destruct (prun_inv cap msgs acts (pinit msgs) s) as [_ I]; [split; reflexivity|exact H|].
    split; [exact I|]. intros H1 H2 H3. rewrite H1, H2, H3 in I. now rewrite !app_nil_r in I.
  Qed.
End PipeProofs.

(* the variant that does not wait for room: three messages, capacity 1, every
   send returns at once -- the second and the third arrive swapped *)
Definition park_witness : list pact :=
  [PSend; PPark; PPark; PPump; PUnpark 1; PRecv; PPump; PUnpark 0; PRecv; PPump; PRecv].

Theorem pipe_nonblocking_refuted :
  exists s, prun 1 true park_witness (pinit [1; 2; 3]) = Some s /\
            p_todo s = [] /\ p_parked s = [] /\ p_in s = [] /\ p_out s = [] /\
            p_got s = [1; 3; 2].
Proof. eexists. split; [vm_compute; reflexivity|]. repeat split. Qed.

Example pipe_blocking_example :
  prun 1 false park_witness (pinit [1; 2; 3]) = None /\
  exists s, prun 1 false [PSend; PPump; PSend; PRecv; PPump; PSend; PRecv; PPump; PRecv] (pinit [1; 2; 3]) = Some s /\
            p_got s = [1; 2; 3].
Proof. split; [reflexivity|]. eexists. split; [vm_compute; reflexivity|reflexivity]. Qed.
