(* C10 -- Router.Stop racing with sends, inbound connections and deliveries:
   network/router.go as a transition system.

   Go code mirrored (network/router.go; r.Lock() = the router mutex):
     Stop               : host.Stop(); lock; isClosed = true; for c in connections: c.Close(); unlock;
                          wg.Wait(); return
     Send(e, msg)       : c := connection(e)            (lock; first registered conn of e; unlock)
                          if c == nil { c, err = connect(e); if err -> return err }
                          if c.Send(msg) fails { c, err = connect(e); if err -> return err;
                                                 if c.Send(msg) fails -> return err }
                          return nil
     connect(e)         : c, err := host.Connect(e); if err -> return err
                          if c.Send(own identity) fails -> return err          (c is NOT closed)
                          if registerConnection(e, c) fails -> return err      (c is NOT closed: F11)
                          if launchHandleRoutine(e, c) fails -> return err     (c is registered, Stop closed it)
                          return c
     Listen callback(c) : dst, err := receiveServerIdentity(c); if err -> c.Close(); return
                          if !isPeerValid(dst) -> c.Close(); return
                          if registerConnection(dst, c) fails -> return        (c is NOT closed: F11, inbound)
                          if launchHandleRoutine(dst, c) fails -> return
     registerConnection : lock; if isClosed -> error; connections[e] += c; unlock
     launchHandleRoutine: lock; if isClosed -> error; wg.Add(1); go handleConn(e, c); unlock
     handleConn(e, c)   : for { pkt, err := c.Receive(); if Closed() -> exit; if err -> exit; Dispatch(pkt) }
                          exit: c.Close(); wg.Done(); removeConnection(e, c)

   One action = one critical section / one blocking call returning / one hook-delimited
   segment.  Every connection carries the program counter of the goroutine that sets it up
   (the dialling Send inside connect(), or the Listen callback) and of its handleConn
   goroutine, so "one set-up thread and at most one handler per connection" is structural.
   [fx : fixes] selects the repairs: f11 - a connection whose set-up fails after it was
   opened (identity not sent, registration or launch refused) is closed by the set-up
   thread; f43 - the Listen callback begins with beginNegotiation (under the lock: refused
   and closed if isClosed, else wg.Add(1) and the connection is put into
   Router.negotiating) and ends with endNegotiation (removed, wg.Done()); Stop, in its
   locked section, also closes every connection under negotiation.

   The table keeps the registration order; r.connection(e) returns the first registered
   connection of e and removeConnection swaps the last one of e into the freed slot, as
   the Go slices do.

   A negative WaitGroup counter (the only panic reachable in this code) is the explicit
   outcome [crashed]. *)
From Coq Require Import List Arith Bool Lia.
Import ListNotations.

Inductive res := Ok | Err.

(* the repairs that the model carries as switches (both have landed in the repository;
   mkFx true true is the code as it is, a false switch is the code before that repair):
   f11  a connection whose set-up fails after it was opened is closed by the set-up thread
   f43  accepted connections are tracked from the start of the Listen callback until it
        returns (Router.negotiating + a wait-group slot); Stop closes them and waits *)
Record fixes := mkFx { f11 : bool; f43 : bool }.

(* set-up of one connection *)
Inductive spc :=
| OSendId | ORegister | OLaunch            (* Router.connect, after host.Connect returned c *)
| IAccept                                  (* callback given to host.Listen called with c (router.accepted) *)
| IRecvId | ICheck | IRegister | ILaunch   (* ... inside receiveServerIdentity, isPeerValid, register, launch *)
| SetupOk                                  (* registered, handler launched *)
| SetupErr.                                (* set-up thread returned an error / gave up *)

(* handleConn of one connection *)
Inductive hpc :=
| HNone                      (* not launched *)
| HRecv                      (* blocked in c.Receive() *)
| HGot (m : option nat)      (* Receive returned (a packet or an error); about to test Closed() *)
| HDisp (m : nat)            (* inside Dispatch(packet) *)
| HExitClose | HExitDone | HExitRemove   (* the deferred c.Close(); wg.Done(); removeConnection *)
| HDead.

Record conn := mkConn {
  lopen : bool;        (* this router's endpoint is open *)
  popen : bool;        (* the peer's endpoint is open *)
  peer : nat;
  setup : spc;
  hd : hpc;
  neg : bool }.        (* in Router.negotiating: its callback holds a wait-group slot (repair f43) *)

(* Router.Send *)
Inductive npc :=
| NLookup (p : nat)
| NDial (p : nat) (retry : bool)          (* about to call host.Connect; retry = after a failed c.Send *)
| NConnect (p c : nat) (retry : bool)     (* inside connect() on connection c *)
| NSend (p c : nat) (retry : bool)        (* about to call c.Send(msg) *)
| NDone (r : res).

(* Router.Stop *)
Inductive stpc := SHost | SCloseAll | SWait | SReturned.

Record state := mkState {
  listening : bool;
  closed : bool;                   (* isClosed *)
  table : list nat;                (* registered connections, in registration order *)
  wg : nat;
  conns : list conn;               (* every connection ever opened or accepted; index = identity *)
  senders : list npc;
  stops : list stpc;
  stop_returned : bool;            (* some call of Stop has returned *)
  dispatched : list (nat * nat);   (* (connection, message) handed to the dispatcher, in order *)
  late : nat;                      (* dispatches started after a Stop had returned *)
  abandoned : list nat;            (* connections dropped open by a failing set-up (ghost) *)
  crashed : bool }.

Definition init : state :=
  mkState true false [] 0 [] [] [] false [] 0 [] false.

Inductive action :=
(* callers and environment *)
| ACallStop | ACallSend (p : nat)
| AIncoming (p : nat)              (* the listener accepts a connection dialled by peer p *)
| APeerClose (c : nat)             (* the peer closes its end of c (TCP) *)
| APeerCloseBoth (c : nat)         (* in-memory transport: closing one end closes both ends *)
(* Stop, thread t *)
| AHostStop (t : nat) | ACloseAll (t : nat) | AWait (t : nat)
(* Send, thread t *)
| ALookup (t : nat) | ADialOk (t : nat) | ADialFail (t : nat) | AConnReturn (t : nat)
| ASendOk (t : nat) | ASendFail (t : nat)
(* set-up of connection c *)
| ASendIdOk (c : nat) | ASendIdFail (c : nat)
| ABegin (c : nat)                 (* beginNegotiation: the first critical section of the Listen callback *)
| AEnd (c : nat)                   (* endNegotiation: the callback returns *)
| ARecvIdOk (c : nat) | ARecvIdFail (c : nat) | ARecvIdTimeout (c : nat) | ACheckPeer (c : nat) (valid : bool)
| ARegister (c : nat) | ALaunch (c : nat)
(* handleConn of connection c *)
| AHRecvMsg (c m : nat) | AHRecvErr (c : nat) | AHTimeout (c : nat) | AHCheck (c : nat)
| AHDispatch (c : nat) | AHExitClose (c : nat) | AHExitDone (c : nat) | AHExitRemove (c : nat).

(* ---- small helpers -------------------------------------------------------- *)

Fixpoint upd {A} (l : list A) (i : nat) (x : A) : list A :=
  match l, i with
  | [], _ => []
  | _ :: r, 0 => x :: r
  | y :: r, S j => y :: upd r j x
  end.

Fixpoint mem (x : nat) (l : list nat) : bool :=
  match l with [] => false | y :: r => (x =? y) || mem x r end.

Fixpoint remove_nat (x : nat) (l : list nat) : list nat :=
  match l with [] => [] | y :: r => if x =? y then remove_nat x r else y :: remove_nat x r end.

(* removeConnection(e, c): within the list of e's connections, the slot of c takes the
   last element and the list shrinks by one ("swap with last"); a connection that is not
   registered leaves the table unchanged *)
Fixpoint last_of (peer_of : nat -> option nat) (tbl : list nat) (p : nat) : option nat :=
  match tbl with
  | [] => None
  | c :: r => match last_of peer_of r p with
              | Some l => Some l
              | None => match peer_of c with
                        | Some q => if q =? p then Some c else None
                        | None => None
                        end
              end
  end.

Definition remove_swap (peer_of : nat -> option nat) (tbl : list nat) (c : nat) : list nat :=
  if mem c tbl then
    match peer_of c with
    | Some p => match last_of peer_of tbl p with
                | Some l => if l =? c then remove_nat c tbl
                            else map (fun x => if x =? c then l else x) (remove_nat l tbl)
                | None => remove_nat c tbl
                end
    | None => remove_nat c tbl
    end
  else tbl.

Definition close_conn (k : conn) : conn := mkConn false (popen k) (peer k) (setup k) (hd k) (neg k).
Definition set_setup (k : conn) (x : spc) : conn := mkConn (lopen k) (popen k) (peer k) x (hd k) (neg k).
Definition set_hd (k : conn) (h : hpc) : conn := mkConn (lopen k) (popen k) (peer k) (setup k) h (neg k).
Definition set_neg (k : conn) (b : bool) : conn := mkConn (lopen k) (popen k) (peer k) (setup k) (hd k) b.

(* Stop's loops: close every registered connection and every connection under negotiation *)
Fixpoint close_listed (tbl : list nat) (i : nat) (cs : list conn) : list conn :=
  match cs with
  | [] => []
  | k :: r => (if mem i tbl || neg k then close_conn k else k) :: close_listed tbl (S i) r
  end.

(* r.connection(e): the first registered connection of peer p *)
Fixpoint lookup (cs : list conn) (tbl : list nat) (p : nat) : option nat :=
  match tbl with
  | [] => None
  | c :: r => match nth_error cs c with
              | Some k => if peer k =? p then Some c else lookup cs r p
              | None => lookup cs r p
              end
  end.

Definition setup_done (x : spc) : bool := match x with SetupOk | SetupErr => true | _ => false end.

Definition live (h : hpc) : bool :=          (* handleConn running, wg.Done() not yet executed *)
  match h with HRecv | HGot _ | HDisp _ | HExitClose | HExitDone => true | _ => false end.

Definition set_conns (s : state) (cs : list conn) : state :=
  mkState (listening s) (closed s) (table s) (wg s) cs (senders s) (stops s)
          (stop_returned s) (dispatched s) (late s) (abandoned s) (crashed s).
Definition set_senders (s : state) (l : list npc) : state :=
  mkState (listening s) (closed s) (table s) (wg s) (conns s) l (stops s)
          (stop_returned s) (dispatched s) (late s) (abandoned s) (crashed s).
Definition set_stops (s : state) (l : list stpc) : state :=
  mkState (listening s) (closed s) (table s) (wg s) (conns s) (senders s) l
          (stop_returned s) (dispatched s) (late s) (abandoned s) (crashed s).
Definition set_table (s : state) (t : list nat) : state :=
  mkState (listening s) (closed s) t (wg s) (conns s) (senders s) (stops s)
          (stop_returned s) (dispatched s) (late s) (abandoned s) (crashed s).
Definition set_wg (s : state) (n : nat) : state :=
  mkState (listening s) (closed s) (table s) n (conns s) (senders s) (stops s)
          (stop_returned s) (dispatched s) (late s) (abandoned s) (crashed s).
Definition set_abandoned (s : state) (l : list nat) : state :=
  mkState (listening s) (closed s) (table s) (wg s) (conns s) (senders s) (stops s)
          (stop_returned s) (dispatched s) (late s) l (crashed s).

(* a set-up thread gives up on the open connection c: with the repair it closes c,
   the pinned code just drops the handle *)
Definition give_up (fx : fixes) (s : state) (c : nat) (k : conn) : state :=
  if f11 fx then set_conns s (upd (conns s) c (set_setup (close_conn k) SetupErr))
  else set_abandoned (set_conns s (upd (conns s) c (set_setup k SetupErr)))
                     (if lopen k then c :: abandoned s else abandoned s).

(* ---- the transition function ---------------------------------------------- *)

Definition step (fx : fixes) (s : state) (a : action) : option state :=
  match a with
  | ACallStop => Some (set_stops s (stops s ++ [SHost]))
  | ACallSend p => Some (set_senders s (senders s ++ [NLookup p]))
  | AIncoming p =>
      if listening s then Some (set_conns s (conns s ++ [mkConn true true p IAccept HNone false])) else None
  | APeerClose c =>
      match nth_error (conns s) c with
      | Some k => Some (set_conns s (upd (conns s) c (mkConn (lopen k) false (peer k) (setup k) (hd k) (neg k))))
      | None => None
      end
  | APeerCloseBoth c =>
      match nth_error (conns s) c with
      | Some k => Some (set_conns s (upd (conns s) c (mkConn false false (peer k) (setup k) (hd k) (neg k))))
      | None => None
      end
  (* ---- Stop *)
  | AHostStop t =>
      match nth_error (stops s) t with
      | Some SHost =>
          Some (mkState false (closed s) (table s) (wg s) (conns s) (senders s) (upd (stops s) t SCloseAll)
                        (stop_returned s) (dispatched s) (late s) (abandoned s) (crashed s))
      | _ => None
      end
  | ACloseAll t =>
      match nth_error (stops s) t with
      | Some SCloseAll =>
          Some (mkState (listening s) true (table s) (wg s) (close_listed (table s) 0 (conns s)) (senders s)
                        (upd (stops s) t SWait)
                        (stop_returned s) (dispatched s) (late s) (abandoned s) (crashed s))
      | _ => None
      end
  | AWait t =>
      match nth_error (stops s) t with
      | Some SWait =>
          if wg s =? 0 then
            Some (mkState (listening s) (closed s) (table s) (wg s) (conns s) (senders s) (upd (stops s) t SReturned)
                          true (dispatched s) (late s) (abandoned s) (crashed s))
          else None                                           (* blocked in wg.Wait() *)
      | _ => None
      end
  (* ---- Send *)
  | ALookup t =>
      match nth_error (senders s) t with
      | Some (NLookup p) =>
          match lookup (conns s) (table s) p with
          | Some c => Some (set_senders s (upd (senders s) t (NSend p c false)))
          | None => Some (set_senders s (upd (senders s) t (NDial p false)))
          end
      | _ => None
      end
  | ADialOk t =>
      match nth_error (senders s) t with
      | Some (NDial p retry) =>
          Some (set_senders (set_conns s (conns s ++ [mkConn true true p OSendId HNone false]))
                            (upd (senders s) t (NConnect p (length (conns s)) retry)))
      | _ => None
      end
  | ADialFail t =>
      match nth_error (senders s) t with
      | Some (NDial p retry) => Some (set_senders s (upd (senders s) t (NDone Err)))
      | _ => None
      end
  | AConnReturn t =>
      match nth_error (senders s) t with
      | Some (NConnect p c retry) =>
          match nth_error (conns s) c with
          | Some k =>
              match setup k with
              | SetupOk => Some (set_senders s (upd (senders s) t (NSend p c retry)))
              | SetupErr => Some (set_senders s (upd (senders s) t (NDone Err)))
              | _ => None                                     (* connect() still running *)
              end
          | None => None
          end
      | _ => None
      end
  | ASendOk t =>
      match nth_error (senders s) t with
      | Some (NSend p c retry) =>
          match nth_error (conns s) c with
          | Some k => if lopen k then Some (set_senders s (upd (senders s) t (NDone Ok))) else None
          | None => None
          end
      | _ => None
      end
  | ASendFail t =>
      match nth_error (senders s) t with
      | Some (NSend p c retry) =>
          match nth_error (conns s) c with
          | Some k =>
              if lopen k && popen k then None
              else (* a Send that fails closes the connection itself (TCPConn.Send since e91db58;
                      in memory a Send fails only on a connection already closed on this side) *)
                   Some (set_senders (set_conns s (upd (conns s) c (close_conn k)))
                                     (upd (senders s) t (if retry then NDone Err else NDial p true)))
          | None => None
          end
      | _ => None
      end
  (* ---- set-up of c *)
  | ASendIdOk c =>
      match nth_error (conns s) c with
      | Some k => match setup k with
                  | OSendId => Some (set_conns s (upd (conns s) c (set_setup k ORegister)))
                  | _ => None
                  end
      | None => None
      end
  | ASendIdFail c =>
      match nth_error (conns s) c with
      | Some k => match setup k with
                  | OSendId => if lopen k && popen k then None else Some (give_up fx s c k)
                  | _ => None
                  end
      | None => None
      end
  | ABegin c =>
      match nth_error (conns s) c with
      | Some k =>
          match setup k with
          | IAccept =>
              if f43 fx then
                if closed s then Some (set_conns s (upd (conns s) c (set_setup (close_conn k) SetupErr)))
                else Some (set_wg (set_conns s (upd (conns s) c (set_neg (set_setup k IRecvId) true))) (S (wg s)))
              else Some (set_conns s (upd (conns s) c (set_setup k IRecvId)))
          | _ => None
          end
      | None => None
      end
  | AEnd c =>
      match nth_error (conns s) c with
      | Some k =>
          if neg k && setup_done (setup k) then
            match wg s with
            | 0 => Some (mkState (listening s) (closed s) (table s) 0 (upd (conns s) c (set_neg k false))
                                 (senders s) (stops s) (stop_returned s) (dispatched s) (late s)
                                 (abandoned s) true)           (* sync: negative WaitGroup counter *)
            | S n => Some (set_wg (set_conns s (upd (conns s) c (set_neg k false))) n)
            end
          else None
      | None => None
      end
  | ARecvIdOk c =>
      match nth_error (conns s) c with
      | Some k => match setup k with
                  | IRecvId => if lopen k then Some (set_conns s (upd (conns s) c (set_setup k ICheck))) else None
                  | _ => None
                  end
      | None => None
      end
  | ARecvIdFail c =>                      (* the read fails because this end or the peer's end is closed *)
      match nth_error (conns s) c with
      | Some k => match setup k with
                  | IRecvId => if lopen k && popen k then None       (* blocked in receiveServerIdentity *)
                               else Some (set_conns s (upd (conns s) c (set_setup (close_conn k) SetupErr)))
                  | _ => None
                  end
      | None => None
      end
  | ARecvIdTimeout c =>                   (* environment: garbage, a wrong type, or the read time-out (TCP only) *)
      match nth_error (conns s) c with
      | Some k => match setup k with
                  | IRecvId => Some (set_conns s (upd (conns s) c (set_setup (close_conn k) SetupErr)))
                  | _ => None
                  end
      | None => None
      end
  | ACheckPeer c valid =>
      match nth_error (conns s) c with
      | Some k => match setup k with
                  | ICheck =>
                      if valid then Some (set_conns s (upd (conns s) c (set_setup k IRegister)))
                      else Some (set_conns s (upd (conns s) c (set_setup (close_conn k) SetupErr)))
                  | _ => None
                  end
      | None => None
      end
  | ARegister c =>
      match nth_error (conns s) c with
      | Some k =>
          match setup k with
          | ORegister | IRegister =>
              if closed s then Some (give_up fx s c k)
              else Some (set_table (set_conns s (upd (conns s) c
                                      (set_setup k (match setup k with ORegister => OLaunch | _ => ILaunch end))))
                                   (table s ++ [c]))
          | _ => None
          end
      | None => None
      end
  | ALaunch c =>
      match nth_error (conns s) c with
      | Some k =>
          match setup k with
          | OLaunch | ILaunch =>
              if closed s then Some (give_up fx s c k)
              else Some (set_wg (set_conns s (upd (conns s) c (set_hd (set_setup k SetupOk) HRecv))) (S (wg s)))
          | _ => None
          end
      | None => None
      end
  (* ---- handleConn of c *)
  | AHRecvMsg c m =>
      match nth_error (conns s) c with
      | Some k => match hd k with
                  | HRecv => if lopen k then Some (set_conns s (upd (conns s) c (set_hd k (HGot (Some m))))) else None
                  | _ => None
                  end
      | None => None
      end
  | AHRecvErr c =>
      match nth_error (conns s) c with
      | Some k => match hd k with
                  | HRecv => if lopen k && popen k then None
                             else Some (set_conns s (upd (conns s) c (set_hd k (HGot None))))
                  | _ => None
                  end
      | None => None
      end
  | AHTimeout c =>
      match nth_error (conns s) c with
      | Some k => match hd k with
                  | HRecv => Some (set_conns s (upd (conns s) c (set_hd k (HGot None))))
                  | _ => None
                  end
      | None => None
      end
  | AHCheck c =>
      match nth_error (conns s) c with
      | Some k => match hd k with
                  | HGot x =>
                      if closed s then Some (set_conns s (upd (conns s) c (set_hd k HExitClose)))
                      else match x with
                           | None => Some (set_conns s (upd (conns s) c (set_hd k HExitClose)))
                           | Some m => Some (set_conns s (upd (conns s) c (set_hd k (HDisp m))))
                           end
                  | _ => None
                  end
      | None => None
      end
  | AHDispatch c =>
      match nth_error (conns s) c with
      | Some k => match hd k with
                  | HDisp m =>
                      Some (mkState (listening s) (closed s) (table s) (wg s) (upd (conns s) c (set_hd k HRecv))
                                    (senders s) (stops s) (stop_returned s) (dispatched s ++ [(c, m)])
                                    (if stop_returned s then S (late s) else late s) (abandoned s) (crashed s))
                  | _ => None
                  end
      | None => None
      end
  | AHExitClose c =>
      match nth_error (conns s) c with
      | Some k => match hd k with
                  | HExitClose => Some (set_conns s (upd (conns s) c (set_hd (close_conn k) HExitDone)))
                  | _ => None
                  end
      | None => None
      end
  | AHExitDone c =>
      match nth_error (conns s) c with
      | Some k => match hd k with
                  | HExitDone =>
                      match wg s with
                      | 0 => Some (mkState (listening s) (closed s) (table s) 0 (upd (conns s) c (set_hd k HExitRemove))
                                           (senders s) (stops s) (stop_returned s) (dispatched s) (late s)
                                           (abandoned s) true)       (* sync: negative WaitGroup counter *)
                      | S n => Some (set_wg (set_conns s (upd (conns s) c (set_hd k HExitRemove))) n)
                      end
                  | _ => None
                  end
      | None => None
      end
  | AHExitRemove c =>
      match nth_error (conns s) c with
      | Some k => match hd k with
                  | HExitRemove =>
                      Some (set_table (set_conns s (upd (conns s) c (set_hd k HDead)))
                                      (remove_swap (fun x => option_map peer (nth_error (conns s) x)) (table s) c))
                  | _ => None
                  end
      | None => None
      end
  end.

Fixpoint run (fx : fixes) (s : state) (acts : list action) : option state :=
  match acts with
  | [] => Some s
  | a :: r => match step fx s a with None => None | Some s' => run fx s' r end
  end.

(* ---- observables ---------------------------------------------------------- *)

Definition sender_done (p : npc) : bool := match p with NDone _ => true | _ => false end.
Definition stop_done (p : stpc) : bool := match p with SReturned => true | _ => false end.
Definition handler_done (h : hpc) : bool := match h with HNone | HDead => true | _ => false end.

(* every call has returned and every goroutine of the router has exited *)
Definition quiescent (s : state) : bool :=
  forallb sender_done (senders s) && forallb stop_done (stops s) &&
  forallb (fun k => setup_done (setup k) && handler_done (hd k) && negb (neg k)) (conns s).

Definition open_conns (s : state) : list nat :=
  map fst (filter (fun ik => lopen (snd ik)) (combine (seq 0 (length (conns s))) (conns s))).
