(* C03: bool/Prop reflection for the stream part of the checker of Corr/C03.v.
   [stream_clauses] (evaluated on every observation of the implementation) returns
   no clause number exactly when [stream_prop] holds.  [stream_prop] is a
   propositional restatement of the same clauses: the theorem rules out slips in
   the boolean code (prefix / split / equality functions); it does NOT tie the
   checker to the model or to the property text. *)
From Coq Require Import List NArith Bool Arith Lia.
Import ListNotations.
From Onet Require Import Net.Frame Net.Marshal Net.WireProofs Corr.C03.

Definition prefix (p l : list nat) : Prop := exists r, l = p ++ r.

Definition fin_of (closed : bool) : fin := if closed then FinClosed else FinEnd false.

Definition has_garbage (cl : list icls) : Prop := Exists (fun c => c = KGarbage) cl.
Definition has_refused (cl : list icls) : Prop := Exists (fun c => c = KRefused) cl.

(* The property on one observed connection, as a proposition.  [cl] classifies
   what was put on the wire (legitimate message with its value / refused frame /
   garbage), [d] is what was dispatched, [closed] whether the receiver dropped
   the connection.
   Without garbage ([clean_prop]):
   - a stream of legitimate messages only: exactly they arrive;
   - with refused frames: the legitimate messages in front of the first refused
     frame arrive first, and then all legitimate messages arrive, or a prefix of
     them and the connection is closed (wire_ok).
   With garbage: [d] splits into a part that satisfies clean_prop for the items
   in front of the first garbage and a part that is a subsequence of the
   legitimate messages behind it. *)
Definition clean_prop (cl : list icls) (d : list nat) (closed : bool) : Prop :=
  (~ has_refused cl -> d = legit_all cl) /\
  (has_refused cl -> prefix (legit_pre cl) d /\ wire_ok (legit_all cl) d (fin_of closed)).

Definition stream_prop (cl : list icls) (d : list nat) (closed : bool) : Prop :=
  (~ has_garbage cl -> clean_prop cl d closed) /\
  (has_garbage cl ->
     exists d1 d2, d = d1 ++ d2 /\
       clean_prop (before_garbage cl) d1 (closed && nilb d2) /\
       subseqb d2 (legit_values (after_garbage cl)) = true).

Lemma nats_eqb_eq a b : nats_eqb a b = true <-> a = b.
Proof. unfold nats_eqb. apply list_eqb_eq. intros x y. apply Nat.eqb_eq. Qed.

Lemma prefixb_prefix p l : prefixb p l = true <-> prefix p l.
Proof.
  unfold prefix. revert l. induction p as [|x p IH]; intros l; cbn [prefixb].
  - split; [intros _; now exists l|reflexivity].
  - destruct l as [|y l].
    + split; [discriminate|]. intros [r H]. discriminate H.
    + rewrite andb_true_iff, Nat.eqb_eq, IH. split.
      * intros [-> [r ->]]. now exists r.
      * intros [r H]. cbn [app] in H. injection H as -> ->. split; [reflexivity|now exists r].
Qed.

Lemma existsb_garbage cl : existsb is_garbage cl = true <-> has_garbage cl.
Proof.
  unfold has_garbage. rewrite existsb_exists, Exists_exists. split; intros [c [Hin Hc]]; exists c; split; auto.
  - destruct c; cbn in Hc; congruence.
  - now subst.
Qed.

Lemma existsb_refused cl : existsb is_refused cl = true <-> has_refused cl.
Proof.
  unfold has_refused. rewrite existsb_exists, Exists_exists. split; intros [c [Hin Hc]]; exists c; split; auto.
  - destruct c; cbn in Hc; congruence.
  - now subst.
Qed.

Lemma wire_okb_ok e d closed : wire_okb e d closed = true <-> wire_ok e d (fin_of closed).
Proof.
  unfold wire_okb, wire_ok. rewrite orb_true_iff, andb_true_iff, nats_eqb_eq, prefixb_prefix.
  unfold prefix, fin_of. split.
  - intros [H|[-> H]]; [now left|right; split; [reflexivity|exact H]].
  - intros [H|[Hc H]]; [now left|]. right. destruct closed; [split; [reflexivity|exact H]|discriminate].
Qed.

Lemma clean_clauses_sound cl d closed :
  clean_clauses cl d closed = [] <-> clean_prop cl d closed.
Proof.
  unfold clean_clauses, clean_prop.
  pose proof (existsb_refused cl) as HR.
  pose proof (prefixb_prefix (legit_pre cl) d) as HP.
  pose proof (nats_eqb_eq d (legit_all cl)) as HE.
  pose proof (wire_okb_ok (legit_all cl) d closed) as HW.
  destruct (existsb is_refused cl) eqn:ER; cbn [negb].
  - assert (has_refused cl) as Rf by now apply HR.
    destruct (prefixb (legit_pre cl) d) eqn:EP; cbn [negb].
    + destruct (wire_okb (legit_all cl) d closed) eqn:EW.
      * split; [|reflexivity]. intros _. split; [intros NR; contradiction|].
        intros _. split; [now apply HP|now apply HW].
      * split.
        -- destruct (subseqb d (legit_all cl)); discriminate.
        -- intros [_ H]. destruct (H Rf) as [_ H2]. apply HW in H2. discriminate.
    + split; [discriminate|]. intros [_ H]. destruct (H Rf) as [H1 _]. apply HP in H1. discriminate.
  - assert (~ has_refused cl) as NR by (intros Rf; apply HR in Rf; discriminate).
    unfold clause. destruct (nats_eqb d (legit_all cl)) eqn:EE.
    + split; [|reflexivity]. intros _. split; [intros _; now apply HE|intros Rf; contradiction].
    + split; [discriminate|]. intros [H _]. specialize (H NR). apply HE in H. discriminate.
Qed.

Lemma in_splits d : forall d1 d2, In (d1, d2) (splits d) <-> d = d1 ++ d2.
Proof.
  induction d as [|x r IH]; intros d1 d2; cbn [splits].
  - split.
    + intros [[= <- <-]|[]]. reflexivity.
    + intros H. symmetry in H. apply app_eq_nil in H as [-> ->]. now left.
  - split.
    + intros [[= <- <-]|H]; [reflexivity|].
      apply in_map_iff in H as [[a b] [[= <- <-] Hin]]. cbn [fst snd]. apply IH in Hin. now rewrite Hin.
    + destruct d1 as [|y d1]; cbn [app]; intros H.
      * subst d2. now left.
      * injection H as <- H. right. apply in_map_iff. exists (d1, d2). split; [reflexivity|now apply IH].
Qed.

Theorem stream_clauses_sound cl d closed :
  stream_clauses cl d closed = [] <-> stream_prop cl d closed.
Proof.
  unfold stream_clauses, stream_prop.
  pose proof (existsb_garbage cl) as HG.
  destruct (existsb is_garbage cl) eqn:EG.
  - assert (has_garbage cl) as G by now apply HG.
    assert (existsb (garbage_split_ok cl closed) (splits d) = true <->
            exists d1 d2, d = d1 ++ d2 /\
              clean_prop (before_garbage cl) d1 (closed && nilb d2) /\
              subseqb d2 (legit_values (after_garbage cl)) = true) as HX.
    { rewrite existsb_exists. split.
      - intros [[d1 d2] [Hin Hok]]. exists d1, d2. apply in_splits in Hin. split; [exact Hin|].
        unfold garbage_split_ok in Hok. cbn [fst snd] in Hok.
        destruct (clean_clauses (before_garbage cl) d1 (closed && nilb d2)) eqn:EC; [|discriminate].
        split; [now apply clean_clauses_sound|exact Hok].
      - intros [d1 [d2 [Hd [Hc Hs]]]]. exists (d1, d2). split; [now apply in_splits|].
        unfold garbage_split_ok. cbn [fst snd]. apply clean_clauses_sound in Hc. now rewrite Hc. }
    destruct (existsb (garbage_split_ok cl closed) (splits d)) eqn:EX.
    + split; [|reflexivity]. intros _. split; [intros NG; contradiction|]. intros _. now apply HX.
    + split.
      * destruct (negb (prefixb (legit_pre cl) d)); [discriminate|].
        destruct (subseqb d (legit_values cl)); discriminate.
      * intros [_ H]. apply HX in H; [discriminate|exact G].
  - assert (~ has_garbage cl) as NG by (intros G; apply HG in G; discriminate).
    rewrite clean_clauses_sound. split.
    + intros H. split; [intros _; exact H|intros G; contradiction].
    + intros [H _]. now apply H.
Qed.
