(* C10 -- invariants of the router transition system of Net/RouterClose.v
   (J1-J4 of DESIGN.md appendix A.4 and what follows from them). *)
From Coq Require Import List Arith Bool Lia.
Import ListNotations.
From Onet Require Import Net.RouterClose.

(* ---- lists ----------------------------------------------------------------- *)

Lemma upd_length {A} (l : list A) i x : length (upd l i x) = length l.
Proof. revert i; induction l as [|y r IH]; intros [|i]; cbn; auto. Qed.

Lemma nth_error_upd_eq {A} (l : list A) i x : i < length l -> nth_error (upd l i x) i = Some x.
Proof. revert i; induction l as [|y r IH]; intros [|i] H; cbn in *; try lia; auto. apply IH; lia. Qed.

Lemma nth_error_upd_neq {A} (l : list A) i j x : i <> j -> nth_error (upd l i x) j = nth_error l j.
Proof. revert i j; induction l as [|y r IH]; intros [|i] [|j] H; cbn; auto; congruence. Qed.

Lemma nth_error_lt {A} (l : list A) i x : nth_error l i = Some x -> i < length l.
Proof. intros H. apply nth_error_Some. congruence. Qed.

Lemma nth_upd_cases {A} (l : list A) i j x y :
  nth_error (upd l i x) j = Some y -> (i = j /\ y = x) \/ (i <> j /\ nth_error l j = Some y).
Proof.
  intros H. destruct (Nat.eq_dec i j) as [->|N].
  - left. split; auto. assert (L : j < length l).
    { apply nth_error_lt in H. now rewrite upd_length in H. }
    rewrite nth_error_upd_eq in H by auto. congruence.
  - right. split; auto. now rewrite nth_error_upd_neq in H.
Qed.

Lemma nth_app_cases {A} (l : list A) x j y :
  nth_error (l ++ [x]) j = Some y -> nth_error l j = Some y \/ (j = length l /\ y = x).
Proof.
  intros H. destruct (Nat.lt_ge_cases j (length l)) as [L|L].
  - left. now rewrite nth_error_app1 in H.
  - right. rewrite nth_error_app2 in H by auto.
    destruct (j - length l) as [|n] eqn:E; cbn in H.
    + split; [lia|congruence].
    + destruct n; discriminate.
Qed.

Lemma mem_In x l : mem x l = true <-> In x l.
Proof.
  induction l as [|y r IH]; cbn; [split; [discriminate|tauto]|].
  rewrite orb_true_iff, IH, Nat.eqb_eq. split; intros [H|H]; auto.
Qed.

Lemma In_remove_nat x y l : In x (remove_nat y l) <-> In x l /\ x <> y.
Proof.
  induction l as [|z r IH]; cbn; [tauto|].
  destruct (y =? z) eqn:E.
  - apply Nat.eqb_eq in E; subst. rewrite IH. split; [tauto|]. intros [[H|H] N]; [congruence|tauto].
  - apply Nat.eqb_neq in E. cbn. rewrite IH. split; [intros [H|H]; [subst; split; auto|tauto]|tauto].
Qed.

Lemma last_of_In f tbl p l : last_of f tbl p = Some l -> In l tbl.
Proof.
  induction tbl as [|c r IH]; cbn; [discriminate|].
  destruct (last_of f r p) as [l'|].
  - intros H; inversion H; subst. right. auto.
  - destruct (f c) as [q|]; [|discriminate]. destruct (q =? p); [|discriminate].
    intros H; inversion H; subst. now left.
Qed.

Lemma In_remove_swap f x c tbl : In x (remove_swap f tbl c) <-> In x tbl /\ x <> c.
Proof.
  unfold remove_swap. destruct (mem c tbl) eqn:M.
  - destruct (f c) as [p|]; [|apply In_remove_nat].
    destruct (last_of f tbl p) as [l|] eqn:L; [|apply In_remove_nat].
    destruct (l =? c) eqn:E; [apply In_remove_nat|].
    apply Nat.eqb_neq in E. apply last_of_In in L. rewrite in_map_iff. split.
    + intros (y & Hy & Hin). apply In_remove_nat in Hin as [Hin Hn].
      destruct (y =? c) eqn:Ey.
      * subst. split; auto.
      * apply Nat.eqb_neq in Ey. subst. split; auto.
    + intros [Hin Hn]. destruct (Nat.eq_dec x l) as [->|Nl].
      * exists c. rewrite Nat.eqb_refl. split; auto. apply In_remove_nat. split; [now apply mem_In|auto].
      * exists x. assert (Ex : x =? c = false) by (now apply Nat.eqb_neq). rewrite Ex. split; auto.
        apply In_remove_nat. auto.
  - split; [|tauto]. intros H. split; auto. intros ->. apply mem_In in H. congruence.
Qed.

Lemma nth_close_listed tbl i cs j :
  nth_error (close_listed tbl i cs) j =
  option_map (fun k => if mem (i + j) tbl || neg k then close_conn k else k) (nth_error cs j).
Proof.
  revert i j; induction cs as [|k r IH]; intros i [|j]; cbn; auto.
  - now rewrite Nat.add_0_r.
  - rewrite IH. now rewrite Nat.add_succ_r.
Qed.

Lemma close_listed_length tbl i cs : length (close_listed tbl i cs) = length cs.
Proof. revert i; induction cs as [|k r IH]; intros i; cbn; auto. Qed.

Lemma close_conn_closed k : lopen k = false -> close_conn k = k.
Proof. destruct k; cbn; intros ->; reflexivity. Qed.

Lemma close_listed_same tbl i cs :
  (forall j k, In (i + j) tbl \/ neg k = true -> nth_error cs j = Some k -> lopen k = false) ->
  close_listed tbl i cs = cs.
Proof.
  revert i; induction cs as [|k r IH]; intros i H; cbn; auto. f_equal.
  - destruct (mem i tbl || neg k) eqn:M; auto. apply close_conn_closed.
    apply (H 0 k); [|reflexivity]. apply orb_true_iff in M as [M|M]; auto.
    left. rewrite Nat.add_0_r. now apply mem_In.
  - apply IH. intros j k' Hin Hn. apply (H (S j) k'); auto. now rewrite Nat.add_succ_r.
Qed.

(* sums over the connection list *)
Fixpoint sumf (f : conn -> nat) (cs : list conn) : nat :=
  match cs with [] => 0 | k :: r => f k + sumf f r end.

Lemma sumf_upd f cs c k k' :
  nth_error cs c = Some k -> sumf f (upd cs c k') + f k = sumf f cs + f k'.
Proof.
  revert c; induction cs as [|y r IH]; intros [|c] H; cbn in *; try discriminate.
  - inversion H; subst. lia.
  - specialize (IH _ H). lia.
Qed.

Lemma sumf_app f cs k : sumf f (cs ++ [k]) = sumf f cs + f k.
Proof. induction cs as [|y r IH]; cbn; lia. Qed.

Lemma sumf_pos f cs c k : nth_error cs c = Some k -> f k <= sumf f cs.
Proof.
  revert c; induction cs as [|y r IH]; intros [|c] H; cbn in *; try discriminate.
  - inversion H; subst. lia.
  - specialize (IH _ H). lia.
Qed.

Lemma sumf_zero_ex f cs : sumf f cs <> 0 -> exists c k, nth_error cs c = Some k /\ f k <> 0.
Proof.
  induction cs as [|y r IH]; cbn; [congruence|]. intros H.
  destruct (f y) eqn:E.
  - destruct IH as (c & k & Hc & Hk); [lia|]. exists (S c), k. auto.
  - exists 0, y. cbn. split; auto. lia.
Qed.

Lemma sumf_close_listed f tbl i cs :
  (forall k, f (close_conn k) = f k) -> sumf f (close_listed tbl i cs) = sumf f cs.
Proof.
  intros Hf. revert i; induction cs as [|k r IH]; intros i; cbn; auto.
  rewrite IH. destruct (mem i tbl || neg k); [rewrite Hf|]; reflexivity.
Qed.

Definition b2n (b : bool) : nat := if b then 1 else 0.
Definition livef (k : conn) : nat := b2n (live (hd k)).
Definition count_live (cs : list conn) : nat := sumf livef cs.
(* wait-group slots: running handlers and callbacks under negotiation *)
Definition wgf (k : conn) : nat := b2n (live (hd k)) + b2n (neg k).
Definition count_busy (cs : list conn) : nat := sumf wgf cs.
Definition negotiating_pc (x : spc) : bool :=
  match x with IRecvId | ICheck | IRegister | ILaunch => true | _ => false end.

(* ---- the invariant --------------------------------------------------------- *)

Definition setting_up (x : spc) : bool := negb (setup_done x).

(* handleConn still owes the deferred c.Close() *)
Definition holding (h : hpc) : bool :=
  match h with HRecv | HGot _ | HDisp _ | HExitClose => true | _ => false end.

Definition dial_side (x : spc) : bool :=
  match x with IAccept | IRecvId | ICheck | IRegister | ILaunch => false | _ => true end.

Record CInv (f4 cl : bool) (tbl ab : list nat) (c : nat) (k : conn) : Prop := {
  (* J1 *) ci_j1 : cl = true -> In c tbl -> lopen k = false;
  (* J2 *) ci_j2 : lopen k = true -> setting_up (setup k) = true \/ holding (hd k) = true \/ In c ab;
  ci_shape : match setup k with SetupOk => hd k <> HNone | _ => hd k = HNone end;
  (* a running handler and a set-up between register and launch are in the table *)
  ci_j6 : live (hd k) = true \/ setup k = OLaunch \/ setup k = ILaunch -> In c tbl;
  (* only a set-up that gave up abandons its connection *)
  ci_ab : In c ab -> setup k = SetupErr;
  (* repair f43: a callback past beginNegotiation is recorded; Stop has closed what is recorded *)
  ci_neg : f4 = true -> negotiating_pc (setup k) = true -> neg k = true;
  ci_negc : cl = true -> neg k = true -> lopen k = false;
  ci_nacc : neg k = true -> negotiating_pc (setup k) = true \/ setup_done (setup k) = true }.

Definition snd_ok (cs : list conn) (p : npc) : Prop :=
  match p with
  | NConnect _ c _ => exists k, nth_error cs c = Some k /\ dial_side (setup k) = true
  | NSend _ c _ => c < length cs
  | _ => True
  end.

Record Inv (fx : fixes) (s : state) : Prop := {
  inv_conn : forall c k, nth_error (conns s) c = Some k -> CInv (f43 fx) (closed s) (table s) (abandoned s) c k;
  inv_tbl : forall c, In c (table s) -> c < length (conns s);
  inv_abl : forall c, In c (abandoned s) -> c < length (conns s);
  (* J3 *) inv_wg : wg s = count_busy (conns s);
  inv_ret : stop_returned s = true -> closed s = true /\ wg s = 0;
  inv_listen : closed s = true -> listening s = false;
  inv_stops : forall t pc, nth_error (stops s) t = Some pc ->
                (pc <> SHost -> listening s = false) /\ (pc = SWait \/ pc = SReturned -> closed s = true);
  inv_late : late s = 0;
  inv_crash : crashed s = false;
  inv_fix : f11 fx = true -> abandoned s = [];
  inv_snd : forall t p, nth_error (senders s) t = Some p -> snd_ok (conns s) p }.

Lemma Inv_init fx : Inv fx init.
Proof.
  constructor; cbn; auto; try discriminate.
  - intros [|c] k H; discriminate.
  - intros c [].
  - intros c [].
  - intros [|t] pc H; discriminate.
  - intros [|t] p H; discriminate.
Qed.

(* monotonicity of the per-connection invariant in the global parts *)
Lemma CInv_ab f4 cl tbl ab c0 c k : c <> c0 -> CInv f4 cl tbl ab c k -> CInv f4 cl tbl (c0 :: ab) c k.
Proof.
  intros N [H1 H2 H3 H4 H5 H6 H7 H8]. constructor; auto.
  - intros L. destruct (H2 L) as [|[|]]; auto. right; right; now right.
  - intros [E|E]; [congruence|auto].
Qed.

Lemma CInv_tbl_add f4 tbl ab c k c0 : CInv f4 false tbl ab c k -> CInv f4 false (tbl ++ [c0]) ab c k.
Proof.
  intros [H1 H2 H3 H4 H5 H6 H7 H8]. constructor; auto; try discriminate.
  intros H. apply in_or_app. left. auto.
Qed.

Lemma CInv_tbl_remove f f4 cl tbl ab c k c0 : c <> c0 -> CInv f4 cl tbl ab c k -> CInv f4 cl (remove_swap f tbl c0) ab c k.
Proof.
  intros N [H1 H2 H3 H4 H5 H6 H7 H8]. constructor; auto.
  - intros Hc Hin. apply In_remove_swap in Hin. tauto.
  - intros H. apply In_remove_swap. auto.
Qed.

Lemma live_count_pos cs c k : nth_error cs c = Some k -> live (hd k) = true -> 1 <= count_busy cs.
Proof. intros H L. pose proof (sumf_pos wgf _ _ _ H) as P. unfold wgf in P at 1. rewrite L in P. cbn in P. unfold count_busy. lia. Qed.

Lemma neg_count_pos cs c k : nth_error cs c = Some k -> neg k = true -> 1 <= count_busy cs.
Proof. intros H L. pose proof (sumf_pos wgf _ _ _ H) as P. unfold wgf in P at 1. rewrite L in P. cbn in P. unfold count_busy. lia. Qed.

Lemma snd_ok_upd cs c k k' p :
  nth_error cs c = Some k -> (dial_side (setup k) = true -> dial_side (setup k') = true) ->
  snd_ok cs p -> snd_ok (upd cs c k') p.
Proof.
  intros Hk Hd. destruct p as [q|q r|q c1 r|q c1 r|r]; cbn; auto.
  - intros (k1 & H1 & D1). destruct (Nat.eq_dec c c1) as [->|N].
    + exists k'. rewrite nth_error_upd_eq by (eapply nth_error_lt; eauto). split; auto.
      apply Hd. congruence.
    + exists k1. now rewrite nth_error_upd_neq.
  - now rewrite upd_length.
Qed.

Lemma snd_ok_app cs k p : snd_ok cs p -> snd_ok (cs ++ [k]) p.
Proof.
  destruct p as [q|q r|q c1 r|q c1 r|r]; cbn; auto.
  - intros (k1 & H1 & D1). exists k1. split; auto. rewrite nth_error_app1; auto. eapply nth_error_lt; eauto.
  - rewrite app_length. cbn. lia.
Qed.

Lemma snd_ok_close tbl cs p : snd_ok cs p -> snd_ok (close_listed tbl 0 cs) p.
Proof.
  destruct p as [q|q r|q c1 r|q c1 r|r]; cbn; auto.
  - intros (k1 & H1 & D1). rewrite nth_close_listed, H1. cbn.
    destruct (mem c1 tbl || neg k1); eexists; split; eauto.
  - now rewrite close_listed_length.
Qed.

Lemma lookup_some cs tbl p c : lookup cs tbl p = Some c -> In c tbl /\ exists k, nth_error cs c = Some k.
Proof.
  induction tbl as [|c0 r IH]; cbn; [discriminate|].
  destruct (nth_error cs c0) as [k|] eqn:E.
  - destruct (peer k =? p).
    + intros H; inversion H; subst. split; auto. eauto.
    + intros H. destruct (IH H). split; auto.
  - intros H. destruct (IH H). split; auto.
Qed.

(* senders / stops untouched by a connection-only action *)
Ltac conn_cases H1 :=
  apply nth_upd_cases in H1 as [(? & ?)|(? & H1)]; subst.

Lemma upd_stops_cases (l : list stpc) t x j y :
  nth_error (upd l t x) j = Some y -> (t = j /\ y = x) \/ nth_error l j = Some y.
Proof. intros H. apply nth_upd_cases in H. tauto. Qed.

Ltac cinv :=
  constructor; cbn; auto;
  try (let Hin := fresh "Hin" in
       intros Hin;
       match goal with H : In _ _ -> setup _ = SetupErr |- _ => specialize (H Hin); congruence end);
  try (intros; congruence);
  try (let Hn := fresh "Hn" in
       intros Hn;
       match goal with
       | H : neg ?k = true -> negotiating_pc (setup ?k) = true \/ setup_done (setup ?k) = true |- _ =>
           let E0 := fresh "E0" in
           destruct (H Hn) as [E0|E0];
           repeat match goal with E : setup k = _ |- _ => rewrite E in E0 end;
           try discriminate; first [left; reflexivity|right; reflexivity|now left|now right]
       end);
  try (let F := fresh "F" in
       intros F _;
       match goal with
       | H : _ -> negotiating_pc (setup ?k) = true -> neg ?k = true, E : setup ?k = _ |- _ =>
           apply H; [exact F|rewrite E; reflexivity]
       end).

(* ---- preservation --------------------------------------------------------- *)


(* the modified connection satisfies its invariant, the others keep theirs *)
Lemma conn_upd_inv fx s c k k' :
  Inv fx s -> nth_error (conns s) c = Some k ->
  CInv (f43 fx) (closed s) (table s) (abandoned s) c k' ->
  forall c1 k1, nth_error (upd (conns s) c k') c1 = Some k1 ->
                CInv (f43 fx) (closed s) (table s) (abandoned s) c1 k1.
Proof.
  intros I Hk Hn c1 k1 H1. conn_cases H1; auto. apply (inv_conn _ _ I); auto.
Qed.

(* a connection-only update that keeps liveness *)
Lemma Inv_conn_step fx s c k k' :
  Inv fx s -> nth_error (conns s) c = Some k ->
  CInv (f43 fx) (closed s) (table s) (abandoned s) c k' ->
  live (hd k') = live (hd k) -> neg k' = neg k ->
  (dial_side (setup k) = true -> dial_side (setup k') = true) ->
  Inv fx (set_conns s (upd (conns s) c k')).
Proof.
  intros I Hk Hn Hl Hng Hd. destruct I as [Ic It Ial Iw Ir Il Is Ila Icr Ifx Isn].
  cinv.
  - intros c1 k1 H1. conn_cases H1; auto.
  - intros c1 H1. rewrite upd_length. auto.
  - intros c1 H1. rewrite upd_length. auto.
  - unfold count_busy in *. pose proof (sumf_upd wgf _ _ _ k' Hk) as E. unfold wgf in E at 2 4.
    rewrite Hl, Hng in E. lia.
  - intros t p H. eapply snd_ok_upd; eauto.
Qed.

Lemma give_up_inv fx s c k :
  Inv fx s -> nth_error (conns s) c = Some k ->
  hd k = HNone -> (closed s = true -> In c (table s) -> lopen k = false) ->
  Inv fx (give_up fx s c k).
Proof.
  intros I Hk Hh Hj1. unfold give_up. destruct (f11 fx) eqn:Efx.
  - apply Inv_conn_step with (k := k); auto.
    cinv; try discriminate. rewrite Hh. intros [H|[H|H]]; discriminate.
  - destruct I as [Ic It Ial Iw Ir Il Is Ila Icr Ifx Isn].
    set (ab' := if lopen k then c :: abandoned s else abandoned s).
    assert (Hinc : incl (abandoned s) ab').
    { unfold ab'. destruct (lopen k); [apply incl_tl|]; apply incl_refl. }
    cinv; try discriminate.
    + intros c1 k1 H1. conn_cases H1.
      * cinv.
        -- intros L. right; right. unfold ab'. rewrite L. now left.
        -- rewrite Hh. intros [H|[H|H]]; discriminate.
        -- apply (ci_negc _ _ _ _ _ _ (Ic _ _ Hk)).
      * unfold ab'. destruct (lopen k); [apply CInv_ab; auto|]; apply Ic; auto.
    + intros c1 H1. rewrite upd_length. auto.
    + intros c1 H1. rewrite upd_length. unfold ab' in H1.
      destruct (lopen k); auto. destruct H1 as [<-|H1]; auto. eapply nth_error_lt; eauto.
    + unfold count_busy in *. pose proof (sumf_upd wgf _ _ _ (set_setup k SetupErr) Hk) as E.
      unfold wgf in E at 2 4. cbn in E. lia.
    + intros t p H. eapply snd_ok_upd; eauto.
Qed.

Lemma step_inv fx s a s' : Inv fx s -> step fx s a = Some s' -> Inv fx s'.
Proof.
  intros I H. pose proof I as [Ic It Ial Iw Ir Il Is Ila Icr Ifx Isn].
  destruct a as [ |p|p|c|c|t|t|t|t|t|t|t|t|t|c|c|c|c|c|c|c|c v|c|c|c m|c|c|c|c|c|c|c]; cbn [step] in H.
  - (* ACallStop *)
    inversion H; subst; clear H. cinv.
    intros t pc Ht. apply nth_app_cases in Ht as [Ht|[_ ->]]; [eauto|].
    split; [congruence|intros [E|E]; discriminate].
  - (* ACallSend *)
    inversion H; subst; clear H. cinv.
    intros t q Ht. apply nth_app_cases in Ht as [Ht|[_ ->]]; [eauto|exact Logic.I].
  - (* AIncoming *)
    destruct (listening s) eqn:El; [|discriminate]. inversion H; subst; clear H.
    assert (Ecl : closed s = false) by (destruct (closed s); auto; specialize (Il eq_refl); congruence).
    cinv.
    + intros c k Hc. apply nth_app_cases in Hc as [Hc|[-> ->]]; auto.
      cinv; try congruence.
      * intros [E|[E|E]]; discriminate.
      * intros Hin. specialize (Ial _ Hin). lia.
    + intros c Hc. rewrite app_length. cbn. specialize (It _ Hc). lia.
    + intros c Hc. rewrite app_length. cbn. specialize (Ial _ Hc). lia.
    + unfold count_busy. rewrite sumf_app. cbn. unfold count_busy in Iw. lia.
    + intros t pc Ht. destruct (Is _ _ Ht) as [A B]. split; auto. intros N. specialize (A N). discriminate.
    + intros t q Ht. apply snd_ok_app. eauto.
  - (* APeerClose *)
    destruct (nth_error (conns s) c) as [k|] eqn:Ek; [|discriminate]. inversion H; subst; clear H.
    apply Inv_conn_step with (k := k); auto.
    destruct (Ic _ _ Ek) as [H1 H2 H3 H4 H5 H6 H7 H8]. cinv.
  - (* APeerCloseBoth *)
    destruct (nth_error (conns s) c) as [k|] eqn:Ek; [|discriminate]. inversion H; subst; clear H.
    apply Inv_conn_step with (k := k); auto.
    destruct (Ic _ _ Ek) as [H1 H2 H3 H4 H5 H6 H7 H8]. cinv; discriminate.
  - (* AHostStop *)
    destruct (nth_error (stops s) t) as [[| | |]|] eqn:Et; try discriminate. inversion H; subst; clear H.
    cinv.
    intros t1 pc H1. apply upd_stops_cases in H1 as [[-> ->]|H1].
    + split; auto. intros [E|E]; discriminate.
    + split; auto. apply (Is _ _ H1).
  - (* ACloseAll *)
    destruct (nth_error (stops s) t) as [[| | |]|] eqn:Et; try discriminate. inversion H; subst; clear H.
    assert (Eli : listening s = false) by (apply (Is _ _ Et); congruence).
    cinv.
    + intros c k Hc. rewrite nth_close_listed in Hc. cbn in Hc.
      destruct (nth_error (conns s) c) as [k0|] eqn:E0; [|discriminate]. cbn in Hc.
      destruct (Ic _ _ E0) as [H1 H2 H3 H4 H5 H6 H7 H8].
      destruct (mem c (table s) || neg k0) eqn:M; inversion Hc; subst; clear Hc.
      * cinv; discriminate.
      * apply orb_false_iff in M as [M Mn]. constructor; auto.
        -- intros _ Hin. apply mem_In in Hin. congruence.
        -- intros _ Hn. congruence.
    + intros c Hc. rewrite close_listed_length. auto.
    + intros c Hc. rewrite close_listed_length. auto.
    + unfold count_busy in *. rewrite sumf_close_listed; auto.
    + intros Hr. split; auto. now apply Ir.
    + intros t1 q H1. apply snd_ok_close. eauto.
  - (* AWait *)
    destruct (nth_error (stops s) t) as [[| | |]|] eqn:Et; try discriminate.
    destruct (wg s =? 0) eqn:Ew; [|discriminate]. inversion H; subst; clear H.
    apply Nat.eqb_eq in Ew.
    assert (Ecl : closed s = true) by (apply (Is _ _ Et); auto).
    cinv.
  - (* ALookup *)
    destruct (nth_error (senders s) t) as [[p| | | |]|] eqn:Et; try discriminate.
    destruct (lookup (conns s) (table s) p) as [c|] eqn:El; inversion H; subst; clear H;
      cinv; intros t1 q H1; apply nth_upd_cases in H1 as [[-> ->]|[_ H1]]; eauto; cbn; auto.
    apply lookup_some in El as [Hin _]. auto.
  - (* ADialOk *)
    destruct (nth_error (senders s) t) as [[|p r| | |]|] eqn:Et; try discriminate. inversion H; subst; clear H.
    cinv.
    + intros c k Hc. apply nth_app_cases in Hc as [Hc|[-> ->]]; auto.
      cinv; try congruence.
      * intros _ Hin. specialize (It _ Hin). lia.
      * intros [E|[E|E]]; discriminate.
      * intros Hin. specialize (Ial _ Hin). lia.
    + intros c Hc. rewrite app_length. cbn. specialize (It _ Hc). lia.
    + intros c Hc. rewrite app_length. cbn. specialize (Ial _ Hc). lia.
    + unfold count_busy. rewrite sumf_app. cbn. unfold count_busy in Iw. lia.
    + intros t1 q H1. apply nth_upd_cases in H1 as [[-> ->]|[_ H1]].
      * cbn. eexists. rewrite nth_error_app2, Nat.sub_diag by lia. cbn. split; eauto.
      * apply snd_ok_app. eauto.
  - (* ADialFail *)
    destruct (nth_error (senders s) t) as [[|p r| | |]|] eqn:Et; try discriminate. inversion H; subst; clear H.
    cinv. intros t1 q H1. apply nth_upd_cases in H1 as [[-> ->]|[_ H1]]; eauto. exact Logic.I.
  - (* AConnReturn *)
    destruct (nth_error (senders s) t) as [[| |p c r| |]|] eqn:Et; try discriminate.
    destruct (nth_error (conns s) c) as [k|] eqn:Ek; [|discriminate].
    destruct (setup k); try discriminate; inversion H; subst; clear H;
      cinv; intros t1 q H1; apply nth_upd_cases in H1 as [[-> ->]|[_ H1]]; eauto; cbn; auto.
    eapply nth_error_lt; eauto.
  - (* ASendOk *)
    destruct (nth_error (senders s) t) as [[| | |p c r|]|] eqn:Et; try discriminate.
    destruct (nth_error (conns s) c) as [k|] eqn:Ek; [|discriminate].
    destruct (lopen k); [|discriminate]. inversion H; subst; clear H.
    cinv. intros t1 q H1. apply nth_upd_cases in H1 as [[-> ->]|[_ H1]]; eauto. exact Logic.I.
  - (* ASendFail *)
    destruct (nth_error (senders s) t) as [[| | |p c r|]|] eqn:Et; try discriminate.
    destruct (nth_error (conns s) c) as [k|] eqn:Ek; [|discriminate].
    destruct (lopen k && popen k); [discriminate|]. inversion H; subst; clear H.
    assert (I2 : Inv fx (set_conns s (upd (conns s) c (close_conn k)))).
    { apply Inv_conn_step with (k := k); auto.
      destruct (Ic _ _ Ek) as [H1 H2 H3 H4 H5 H6 H7 H8]. cinv; discriminate. }
    clear Ic It Ial Iw Ir Il Is Ila Icr Ifx Isn.
    destruct I2 as [Ic It Ial Iw Ir Il Is Ila Icr Ifx Isn]. cbn in *.
    cinv. intros t1 q H1. apply nth_upd_cases in H1 as [[-> ->]|[_ H1]]; eauto.
    destruct r; exact Logic.I.
  - (* ASendIdOk *)
    destruct (nth_error (conns s) c) as [k|] eqn:Ek; [|discriminate].
    destruct (setup k) eqn:Es; try discriminate. inversion H; subst; clear H.
    destruct (Ic _ _ Ek) as [H1 H2 H3 H4 H5 H6 H7 H8]. rewrite Es in H3.
    apply Inv_conn_step with (k := k); auto.
    cinv. rewrite H3. intros [E|[E|E]]; discriminate.
  - (* ASendIdFail *)
    destruct (nth_error (conns s) c) as [k|] eqn:Ek; [|discriminate].
    destruct (setup k) eqn:Es; try discriminate.
    destruct (lopen k && popen k); [discriminate|]. inversion H; subst; clear H.
    destruct (Ic _ _ Ek) as [H1 H2 H3 H4 H5 H6 H7 H8]. rewrite Es in H3.
    apply give_up_inv; auto.
  - (* ABegin *)
    destruct (nth_error (conns s) c) as [k|] eqn:Ek; [|discriminate].
    destruct (setup k) eqn:Es; try discriminate.
    destruct (Ic _ _ Ek) as [H1 H2 H3 H4 H5 H6 H7 H8]. rewrite Es in H3.
    assert (Hng : neg k = false).
    { destruct (neg k) eqn:En; auto. destruct (H8 eq_refl) as [E|E]; rewrite Es in E; discriminate. }
    destruct (f43 fx) eqn:E4; [destruct (closed s) eqn:Ecl|]; inversion H; subst; clear H.
    + (* the router is closed: refused and closed *)
      apply Inv_conn_step with (k := k); auto. cinv; try discriminate.
      rewrite H3. intros [E|[E|E]]; discriminate.
    + (* recorded in Router.negotiating, wait-group slot taken *)
      constructor; cbn; auto.
      * intros c1 k1 Hc. conn_cases Hc; [|apply (inv_conn _ _ I); auto].
        cinv; try discriminate; try (intros E; congruence).
        rewrite H3. intros [E|[E|E]]; discriminate.
      * intros c1 Hc. rewrite upd_length. auto.
      * intros c1 Hc. rewrite upd_length. auto.
      * unfold count_busy in *. pose proof (sumf_upd wgf _ _ _ (set_neg (set_setup k IRecvId) true) Ek) as E.
        unfold wgf in E at 2 4. cbn in E. rewrite Hng in E. cbn in E. lia.
      * intros Hr. destruct (Ir Hr). congruence.
      * apply (inv_listen _ _ I).
      * apply (inv_stops _ _ I).
      * intros t p Ht. eapply snd_ok_upd; eauto. cbn. rewrite Es. discriminate.
    + (* pinned code: nothing is recorded *)
      apply Inv_conn_step with (k := k); auto; [|cbn; rewrite Es; discriminate].
      cinv; try discriminate. rewrite H3. intros [E|[E|E]]; discriminate.
  - (* AEnd *)
    destruct (nth_error (conns s) c) as [k|] eqn:Ek; [|discriminate].
    destruct (neg k && setup_done (setup k)) eqn:En; [|discriminate].
    apply andb_true_iff in En as [Hng Hsd].
    destruct (Ic _ _ Ek) as [H1 H2 H3 H4 H5 H6 H7 H8].
    pose proof (neg_count_pos _ _ _ Ek Hng) as P. rewrite <- Iw in P.
    destruct (wg s) as [|n] eqn:Ew; [lia|]. inversion H; subst; clear H.
    constructor; cbn; auto.
    + intros c1 k1 Hc. conn_cases Hc; auto.
      cinv. intros _ Hn. destruct (setup k); discriminate.
    + intros c1 Hc. rewrite upd_length. auto.
    + intros c1 Hc. rewrite upd_length. auto.
    + unfold count_busy in *. pose proof (sumf_upd wgf _ _ _ (set_neg k false) Ek) as E.
      unfold wgf in E at 2 4. cbn in E. rewrite Hng in E. cbn in E. lia.
    + intros Hr. destruct (Ir Hr). lia.
    + intros t p Ht. eapply snd_ok_upd; eauto.
  - (* ARecvIdOk *)
    destruct (nth_error (conns s) c) as [k|] eqn:Ek; [|discriminate].
    destruct (setup k) eqn:Es; try discriminate.
    destruct (lopen k); [|discriminate]. inversion H; subst; clear H.
    destruct (Ic _ _ Ek) as [H1 H2 H3 H4 H5 H6 H7 H8]. rewrite Es in H3.
    apply Inv_conn_step with (k := k); auto; [|cbn; rewrite Es; discriminate].
    cinv. rewrite H3. intros [E|[E|E]]; discriminate.
  - (* ARecvIdFail *)
    destruct (nth_error (conns s) c) as [k|] eqn:Ek; [|discriminate].
    destruct (setup k) eqn:Es; try discriminate.
    destruct (lopen k && popen k); [discriminate|]. inversion H; subst; clear H.
    destruct (Ic _ _ Ek) as [H1 H2 H3 H4 H5 H6 H7 H8]. rewrite Es in H3.
    apply Inv_conn_step with (k := k); auto.
    cinv; try discriminate. rewrite H3. intros [E|[E|E]]; discriminate.
  - (* ARecvIdTimeout *)
    destruct (nth_error (conns s) c) as [k|] eqn:Ek; [|discriminate].
    destruct (setup k) eqn:Es; try discriminate. inversion H; subst; clear H.
    destruct (Ic _ _ Ek) as [H1 H2 H3 H4 H5 H6 H7 H8]. rewrite Es in H3.
    apply Inv_conn_step with (k := k); auto.
    cinv; try discriminate. rewrite H3. intros [E|[E|E]]; discriminate.
  - (* ACheckPeer *)
    destruct (nth_error (conns s) c) as [k|] eqn:Ek; [|discriminate].
    destruct (setup k) eqn:Es; try discriminate.
    destruct (Ic _ _ Ek) as [H1 H2 H3 H4 H5 H6 H7 H8]. rewrite Es in H3.
    destruct v; inversion H; subst; clear H; apply Inv_conn_step with (k := k); auto;
      try (cbn; rewrite Es; discriminate);
      cinv; try discriminate; rewrite H3; intros [E|[E|E]]; discriminate.
  - (* ARegister *)
    destruct (nth_error (conns s) c) as [k|] eqn:Ek; [|discriminate].
    destruct (Ic _ _ Ek) as [H1 H2 H3 H4 H5 H6 H7 H8].
    assert (Hreg : setup k = ORegister \/ setup k = IRegister).
    { destruct (setup k); try discriminate; auto. }
    assert (Hh : hd k = HNone) by (destruct Hreg as [E|E]; rewrite E in H3; auto).
    assert (H' : (if closed s then Some (give_up fx s c k)
                  else Some (set_table (set_conns s (upd (conns s) c
                         (set_setup k (match setup k with ORegister => OLaunch | _ => ILaunch end))))
                         (table s ++ [c]))) = Some s').
    { destruct Hreg as [E|E]; rewrite E in H; rewrite E; exact H. }
    clear H. destruct (closed s) eqn:Ecl; inversion H'; subst; clear H'.
    + apply give_up_inv; auto.
    + set (x := match setup k with ORegister => OLaunch | _ => ILaunch end).
      assert (Hx : x = OLaunch \/ x = ILaunch) by (unfold x; destruct Hreg as [E|E]; rewrite E; auto).
      cinv.
      * intros c1 k1 Hc. conn_cases Hc.
        -- cinv; try discriminate.
           ++ intros _. left. destruct Hx as [E|E]; rewrite E; reflexivity.
           ++ destruct Hx as [E|E]; rewrite E; auto.
           ++ intros _. apply in_or_app. right. now left.
           ++ intros Hin. specialize (H5 Hin). destruct Hreg as [E|E]; congruence.
           ++ intros F Hn. apply H6; auto. destruct Hreg as [E|E]; rewrite E; [|reflexivity].
              unfold x in Hn. rewrite E in Hn. discriminate.
           ++ intros Hn. destruct (H8 Hn) as [E0|E0]; destruct Hreg as [E|E]; rewrite E in E0; try discriminate.
              left. unfold x. rewrite E. reflexivity.
        -- rewrite Ecl. apply CInv_tbl_add. auto.
      * intros c1 Hc. rewrite upd_length. apply in_app_or in Hc as [Hc|[<-|[]]]; auto.
        eapply nth_error_lt; eauto.
      * intros c1 Hc. rewrite upd_length. auto.
      * unfold count_busy in *. pose proof (sumf_upd wgf _ _ _ (set_setup k x) Ek) as E.
        unfold wgf in E at 2 4. cbn in E. lia.
      * intros Hr. destruct (Ir Hr). congruence.
      * apply (inv_stops _ _ I).
      * intros t p Ht. eapply snd_ok_upd; eauto. cbn. intros D.
        destruct Hreg as [E|E]; rewrite E in D; try discriminate. unfold x. rewrite E. reflexivity.
  - (* ALaunch *)
    destruct (nth_error (conns s) c) as [k|] eqn:Ek; [|discriminate].
    destruct (Ic _ _ Ek) as [H1 H2 H3 H4 H5 H6 H7 H8].
    assert (Hl : setup k = OLaunch \/ setup k = ILaunch).
    { destruct (setup k); try discriminate; auto. }
    assert (Hh : hd k = HNone) by (destruct Hl as [E|E]; rewrite E in H3; auto).
    assert (H' : (if closed s then Some (give_up fx s c k)
                  else Some (set_wg (set_conns s (upd (conns s) c (set_hd (set_setup k SetupOk) HRecv))) (S (wg s))))
                 = Some s').
    { destruct Hl as [E|E]; rewrite E in H; exact H. }
    clear H. destruct (closed s) eqn:Ecl; inversion H'; subst; clear H'.
    + apply give_up_inv; auto.
    + cinv.
      * intros c1 k1 Hc. conn_cases Hc; [|apply (inv_conn _ _ I); auto].
        cinv; try discriminate; try (intros E; congruence).
        intros Hin. specialize (H5 Hin). destruct Hl as [E|E]; congruence.
      * intros c1 Hc. rewrite upd_length. auto.
      * intros c1 Hc. rewrite upd_length. auto.
      * unfold count_busy in *. pose proof (sumf_upd wgf _ _ _ (set_hd (set_setup k SetupOk) HRecv) Ek) as E.
        unfold wgf in E at 2 4. cbn in E. rewrite Hh in E. cbn in E. lia.
      * intros Hr. destruct (Ir Hr). congruence.
      * apply (inv_stops _ _ I).
      * intros t p Ht. eapply snd_ok_upd; eauto.
  - (* AHRecvMsg *)
    destruct (nth_error (conns s) c) as [k|] eqn:Ek; [|discriminate].
    destruct (hd k) eqn:Eh; try discriminate.
    destruct (lopen k); [|discriminate]. inversion H; subst; clear H.
    destruct (Ic _ _ Ek) as [H1 H2 H3 H4 H5 H6 H7 H8]. rewrite Eh in *.
    apply Inv_conn_step with (k := k); auto; [|cbn; now rewrite Eh].
    cinv. destruct (setup k); auto; discriminate.
  - (* AHRecvErr *)
    destruct (nth_error (conns s) c) as [k|] eqn:Ek; [|discriminate].
    destruct (hd k) eqn:Eh; try discriminate.
    destruct (lopen k && popen k); [discriminate|]. inversion H; subst; clear H.
    destruct (Ic _ _ Ek) as [H1 H2 H3 H4 H5 H6 H7 H8]. rewrite Eh in *.
    apply Inv_conn_step with (k := k); auto; [|cbn; now rewrite Eh].
    cinv. destruct (setup k); auto; discriminate.
  - (* AHTimeout *)
    destruct (nth_error (conns s) c) as [k|] eqn:Ek; [|discriminate].
    destruct (hd k) eqn:Eh; try discriminate. inversion H; subst; clear H.
    destruct (Ic _ _ Ek) as [H1 H2 H3 H4 H5 H6 H7 H8]. rewrite Eh in *.
    apply Inv_conn_step with (k := k); auto; [|cbn; now rewrite Eh].
    cinv. destruct (setup k); auto; discriminate.
  - (* AHCheck *)
    destruct (nth_error (conns s) c) as [k|] eqn:Ek; [|discriminate].
    destruct (hd k) as [| |x| | | | |] eqn:Eh; try discriminate.
    destruct (Ic _ _ Ek) as [H1 H2 H3 H4 H5 H6 H7 H8]. rewrite Eh in *.
    assert (Hs : setup k = SetupOk) by (destruct (setup k); auto; discriminate).
    destruct (closed s) eqn:Ecl; [|destruct x as [m|]]; inversion H; subst; clear H;
      (apply Inv_conn_step with (k := k); auto; [|cbn; now rewrite Eh]);
      cinv; try (rewrite Hs; discriminate); try (intros E; congruence).
  - (* AHDispatch *)
    destruct (nth_error (conns s) c) as [k|] eqn:Ek; [|discriminate].
    destruct (hd k) as [| | |m| | | |] eqn:Eh; try discriminate. inversion H; subst; clear H.
    destruct (Ic _ _ Ek) as [H1 H2 H3 H4 H5 H6 H7 H8]. rewrite Eh in *.
    assert (Hs : setup k = SetupOk) by (destruct (setup k); auto; discriminate).
    assert (Hnr : stop_returned s = false).
    { destruct (stop_returned s) eqn:E; auto. destruct (Ir eq_refl) as [_ W].
      pose proof (live_count_pos _ _ _ Ek) as P. rewrite Eh in P. specialize (P eq_refl). lia. }
    rewrite Hnr.
    pose proof (Inv_conn_step fx s c k (set_hd k HRecv) I Ek) as J.
    destruct J as [Jc Jt Jal Jw Jr Jl Js Jla Jcr Jfx Jsn]; auto.
    { cinv. rewrite Hs. discriminate. }
    { cbn. now rewrite Eh. }
    constructor; cbn in *; auto. discriminate.
  - (* AHExitClose *)
    destruct (nth_error (conns s) c) as [k|] eqn:Ek; [|discriminate].
    destruct (hd k) eqn:Eh; try discriminate. inversion H; subst; clear H.
    destruct (Ic _ _ Ek) as [H1 H2 H3 H4 H5 H6 H7 H8]. rewrite Eh in *.
    assert (Hs : setup k = SetupOk) by (destruct (setup k); auto; discriminate).
    apply Inv_conn_step with (k := k); auto; [|cbn; now rewrite Eh].
    cinv; try discriminate. rewrite Hs. discriminate.
  - (* AHExitDone *)
    destruct (nth_error (conns s) c) as [k|] eqn:Ek; [|discriminate].
    destruct (hd k) eqn:Eh; try discriminate.
    destruct (Ic _ _ Ek) as [H1 H2 H3 H4 H5 H6 H7 H8]. rewrite Eh in *.
    assert (Hs : setup k = SetupOk) by (destruct (setup k); auto; discriminate).
    pose proof (live_count_pos _ _ _ Ek) as P. rewrite Eh in P. specialize (P eq_refl).
    destruct (wg s) as [|n] eqn:Ew; [lia|]. inversion H; subst; clear H.
    cinv.
    + intros c1 k1 Hc. conn_cases Hc; auto.
      cinv; try (rewrite Hs; discriminate);
        try (rewrite Hs; intros [E|[E|E]]; discriminate);
        try (intros L; destruct (H2 L) as [E|[E|E]]; auto; try discriminate;
             unfold setting_up in E; rewrite Hs in E; discriminate).
    + intros c1 Hc. rewrite upd_length. auto.
    + intros c1 Hc. rewrite upd_length. auto.
    + unfold count_busy in *. pose proof (sumf_upd wgf _ _ _ (set_hd k HExitRemove) Ek) as E.
      unfold wgf in E at 2 4. cbn in E. rewrite Eh in E. cbn in E. lia.
    + intros Hr. destruct (Ir Hr). lia.
    + intros t p Ht. eapply snd_ok_upd; eauto.
  - (* AHExitRemove *)
    destruct (nth_error (conns s) c) as [k|] eqn:Ek; [|discriminate].
    destruct (hd k) eqn:Eh; try discriminate. inversion H; subst; clear H.
    destruct (Ic _ _ Ek) as [H1 H2 H3 H4 H5 H6 H7 H8]. rewrite Eh in *.
    assert (Hs : setup k = SetupOk) by (destruct (setup k); auto; discriminate).
    cinv.
    + intros c1 k1 Hc. conn_cases Hc.
      * cinv; try (rewrite Hs; discriminate);
          try (rewrite Hs; intros [E|[E|E]]; discriminate);
          try (intros L; destruct (H2 L) as [E|[E|E]]; auto; try discriminate;
               unfold setting_up in E; rewrite Hs in E; discriminate).
        intros _ Hin. apply In_remove_swap in Hin. tauto.
      * apply CInv_tbl_remove; auto.
    + intros c1 Hc. rewrite upd_length. apply In_remove_swap in Hc. apply It. tauto.
    + intros c1 Hc. rewrite upd_length. auto.
    + unfold count_busy in *. pose proof (sumf_upd wgf _ _ _ (set_hd k HDead) Ek) as E.
      unfold wgf in E at 2 4. cbn in E. rewrite Eh in E. cbn in E. lia.
    + intros t p Ht. eapply snd_ok_upd; eauto.
Qed.

Lemma run_inv fx acts : forall s s', Inv fx s -> run fx s acts = Some s' -> Inv fx s'.
Proof.
  induction acts as [|a r IH]; intros s s' I H; cbn in H.
  - inversion H; subst; auto.
  - destruct (step fx s a) as [s1|] eqn:E; [|discriminate]. apply (IH s1 s'); auto. eapply step_inv; eauto.
Qed.

Theorem reachable_inv fx acts s : run fx init acts = Some s -> Inv fx s.
Proof. apply run_inv. apply Inv_init. Qed.


(* ========================================================================== *)
(* The theorems of C10 (router part)                                          *)
(* ========================================================================== *)

Lemma forallb_nth {A} (f : A -> bool) l i x : forallb f l = true -> nth_error l i = Some x -> f x = true.
Proof. intros H Hn. rewrite forallb_forall in H. apply H. eapply nth_error_In; eauto. Qed.

Lemma sumf_all_zero f cs : (forall c k, nth_error cs c = Some k -> f k = 0) -> sumf f cs = 0.
Proof.
  intros H. destruct (Nat.eq_dec (sumf f cs) 0) as [E|N]; auto.
  destruct (sumf_zero_ex _ _ N) as (c & k & Hc & Hk). specialize (H _ _ Hc). congruence.
Qed.

Lemma no_live_when_zero cs c k : count_busy cs = 0 -> nth_error cs c = Some k -> live (hd k) = false.
Proof.
  intros Z H. destruct (live (hd k)) eqn:L; auto. pose proof (live_count_pos _ _ _ H L). lia.
Qed.

Lemma no_neg_when_zero cs c k : count_busy cs = 0 -> nth_error cs c = Some k -> neg k = false.
Proof.
  intros Z H. destruct (neg k) eqn:L; auto. pose proof (neg_count_pos _ _ _ H L). lia.
Qed.

Lemma busy_zero_live cs : count_busy cs = 0 -> count_live cs = 0.
Proof.
  intros Z. apply sumf_all_zero. intros c k H. unfold livef. now rewrite (no_live_when_zero _ _ _ Z H).
Qed.

Lemma holding_live h : holding h = true -> live h = true.
Proof. destruct h; cbn; auto. Qed.

(* ---- everything closed once everybody has returned ------------------------- *)

(* pinned and repaired code alike: at quiescence the only connections still open
   are those a failing set-up dropped *)
Theorem all_closed_except_abandoned fx acts s :
  run fx init acts = Some s -> quiescent s = true ->
  (forall c k, nth_error (conns s) c = Some k -> lopen k = true ->
               In c (abandoned s) /\ setup k = SetupErr) /\
  wg s = 0.
Proof.
  intros R Q. pose proof (reachable_inv _ _ _ R) as I.
  unfold quiescent in Q. apply andb_true_iff in Q as [Q Qc]. 
  assert (D : forall c k, nth_error (conns s) c = Some k ->
                          setup_done (setup k) = true /\ handler_done (hd k) = true /\ neg k = false).
  { intros c k H. pose proof (forallb_nth _ _ _ _ Qc H) as B. apply andb_true_iff in B as [B Bn].
    apply andb_true_iff in B as [B1 B2]. repeat split; auto. now apply negb_true_iff in Bn. }
  split.
  - intros c k H L. destruct (D _ _ H) as (D1 & D2 & D3). destruct (inv_conn _ _ I _ _ H) as [H1 H2 H3 H4 H5 H6 H7 H8].
    destruct (H2 L) as [E|[E|E]].
    + unfold setting_up in E. rewrite D1 in E. discriminate.
    + destruct (hd k); discriminate.
    + auto.
  - rewrite (inv_wg _ _ I). apply sumf_all_zero. intros c k H. destruct (D _ _ H) as (_ & D2 & D3).
    unfold wgf. rewrite D3. destruct (hd k); try discriminate; reflexivity.
Qed.

(* with the repair of F11 nothing is ever abandoned *)
Theorem all_closed f4 acts s :
  run (mkFx true f4) init acts = Some s -> quiescent s = true ->
  (forall c k, nth_error (conns s) c = Some k -> lopen k = false) /\ wg s = 0.
Proof.
  intros R Q. destruct (all_closed_except_abandoned _ _ _ R Q) as [A W]. split; auto.
  intros c k H. destruct (lopen k) eqn:L; auto. destruct (A _ _ H L) as [Hin _].
  rewrite (inv_fix _ _ (reachable_inv _ _ _ R) eq_refl) in Hin. destruct Hin.
Qed.

(* the pinned code leaves a connection open: Stop between host.Connect and
   registerConnection of a first-contact Send (outgoing), between
   receiveServerIdentity and registerConnection of the Listen callback (incoming),
   and simply a Send issued after Stop returned *)
Definition witness_out : list action :=
  [ACallSend 1; ALookup 0; ADialOk 0; ASendIdOk 0;
   ACallStop; AHostStop 0; ACloseAll 0; AWait 0;
   ARegister 0; AConnReturn 0].
Definition witness_in : list action :=
  [AIncoming 1; ABegin 0; ARecvIdOk 0;
   ACallStop; AHostStop 0; ACloseAll 0; AWait 0;
   ACheckPeer 0 true; ARegister 0].
Definition witness_after : list action :=
  [ACallStop; AHostStop 0; ACloseAll 0; AWait 0;
   ACallSend 1; ALookup 0; ADialOk 0; ASendIdOk 0; ARegister 0; AConnReturn 0].

Definition leaks (acts : list action) : Prop :=
  exists s, run (mkFx false false) init acts = Some s /\ stop_returned s = true /\ quiescent s = true /\
            open_conns s = [0] /\ crashed s = false.

Theorem abandoned_conn_refuted : leaks witness_out /\ leaks witness_in /\ leaks witness_after.
Proof. repeat split; eexists; (split; [vm_compute; reflexivity|]); repeat split; vm_compute; reflexivity. Qed.

(* the same schedules with the repair: the connection is closed *)
Theorem witnesses_closed_when_fixed :
  forall acts, In acts [witness_out; witness_in; witness_after] ->
  exists s, run (mkFx true false) init acts = Some s /\ quiescent s = true /\ open_conns s = [].
Proof.
  intros acts [<-|[<-|[<-|[]]]]; eexists; (split; [vm_compute; reflexivity|]); split; vm_compute; reflexivity.
Qed.

(* F43: an accepted connection whose peer has not identified itself survives Stop in the
   code without the negotiating set (even with the repair of F11) ... *)
Definition witness_silent : list action :=
  [AIncoming 1; ABegin 0; ACallStop; AHostStop 0; ACloseAll 0; AWait 0].

Theorem silent_inbound_refuted :
  exists s k, run (mkFx true false) init witness_silent = Some s /\ stop_returned s = true /\
              nth_error (conns s) 0 = Some k /\ lopen k = true /\ setup k = IRecvId.
Proof. eexists. eexists. split; [vm_compute; reflexivity|]. repeat split. Qed.

(* ... with it, that Stop cannot return before the callback has: Stop closes the
   connection, receiveServerIdentity fails, the callback ends, then Stop returns *)
Theorem silent_inbound_fixed :
  run (mkFx true true) init witness_silent = None /\
  exists s, run (mkFx true true) init
              [AIncoming 1; ABegin 0; ACallStop; AHostStop 0; ACloseAll 0; ARecvIdFail 0; AEnd 0; AWait 0] = Some s /\
            stop_returned s = true /\ quiescent s = true /\ open_conns s = [].
Proof. split; [vm_compute; reflexivity|]. eexists. split; [vm_compute; reflexivity|]. repeat split. Qed.

(* ---- at the instant Stop returns ------------------------------------------ *)

Theorem registered_closed_at_return fx acts s :
  run fx init acts = Some s -> stop_returned s = true ->
  closed s = true /\ listening s = false /\ wg s = 0 /\
  (forall c k, In c (table s) -> nth_error (conns s) c = Some k -> lopen k = false) /\
  (forall c k, nth_error (conns s) c = Some k -> setup k = SetupOk -> lopen k = false) /\
  (forall c k, nth_error (conns s) c = Some k -> live (hd k) = false).
Proof.
  intros R Hr. pose proof (reachable_inv _ _ _ R) as I. destruct (inv_ret _ _ I Hr) as [Hc Hw].
  assert (Z : count_busy (conns s) = 0) by (rewrite <- (inv_wg _ _ I); auto).
  repeat split; auto.
  - apply (inv_listen _ _ I); auto.
  - intros c k Hin H. apply (ci_j1 _ _ _ _ _ _ (inv_conn _ _ I _ _ H)); auto.
  - intros c k H Hs. destruct (lopen k) eqn:L; auto.
    destruct (inv_conn _ _ I _ _ H) as [H1 H2 H3 H4 H5 H6 H7 H8]. destruct (H2 L) as [E|[E|E]].
    + unfold setting_up in E. rewrite Hs in E. discriminate.
    + apply holding_live in E. rewrite (no_live_when_zero _ _ _ Z H) in E. discriminate.
    + specialize (H5 E). congruence.
  - intros c k H. eapply no_live_when_zero; eauto.
Qed.

(* ---- no dispatch after Stop returned -------------------------------------- *)

Ltac step_cases H :=
  repeat match type of H with
         | context[match ?x with _ => _ end] => destruct x eqn:?; try discriminate
         | context[if ?x then _ else _] => destruct x eqn:?; try discriminate
         end.

Lemma step_ret_stable fx s a s' : step fx s a = Some s' -> stop_returned s = true -> stop_returned s' = true.
Proof.
  intros H Hr. destruct a; cbn [step] in H; unfold give_up in H; step_cases H;
    inversion H; subst; cbn; auto.
Qed.

Lemma step_dispatched fx s a s' :
  step fx s a = Some s' -> dispatched s' = dispatched s \/ exists c, a = AHDispatch c.
Proof.
  intros H. destruct a; try (right; eexists; reflexivity); left;
    cbn [step] in H; unfold give_up in H; step_cases H; inversion H; subst; cbn; auto.
Qed.

Theorem no_dispatch_enabled_after fx acts s c :
  run fx init acts = Some s -> stop_returned s = true -> step fx s (AHDispatch c) = None.
Proof.
  intros R Hr. destruct (registered_closed_at_return _ _ _ R Hr) as (_ & _ & _ & _ & _ & NL).
  cbn. destruct (nth_error (conns s) c) as [k|] eqn:E; auto.
  specialize (NL _ _ E). destruct (hd k); auto. discriminate.
Qed.

Theorem no_dispatch_after fx acts s : run fx init acts = Some s -> stop_returned s = true ->
  forall acts' s', run fx s acts' = Some s' -> dispatched s' = dispatched s /\ late s' = 0.
Proof.
  intros R Hr acts'. revert acts s R Hr. induction acts' as [|a r IH]; intros acts s R Hr s' H; cbn in H.
  - inversion H; subst. split; auto. apply (inv_late _ _ (reachable_inv _ _ _ R)).
  - destruct (step fx s a) as [s1|] eqn:E; [|discriminate].
    assert (R1 : run fx init (acts ++ [a]) = Some s1).
    { clear - R E. revert R. generalize init. induction acts as [|b l IHl]; intros s0 R; cbn in *.
      - inversion R; subst. now rewrite E.
      - destruct (step fx s0 b); [|discriminate]. auto. }
    destruct (IH _ _ R1 (step_ret_stable _ _ _ _ E Hr) _ H) as [D L]. split; auto.
    rewrite D. destruct (step_dispatched _ _ _ _ E) as [D1|[c ->]]; auto.
    rewrite (no_dispatch_enabled_after _ _ _ c R Hr) in E. discriminate.
Qed.

(* once the router is closed no handler is started any more *)
Lemma wg_noninc fx s a s' : closed s = true -> step fx s a = Some s' -> wg s' <= wg s /\ closed s' = true.
Proof.
  intros Hc H. destruct a; cbn [step] in H; unfold give_up in H; step_cases H;
    inversion H; subst; cbn; auto; try congruence; split; auto; lia.
Qed.

Theorem no_handler_starts_after_close fx acts s a s' :
  run fx init acts = Some s -> closed s = true -> step fx s a = Some s' ->
  count_busy (conns s') <= count_busy (conns s).
Proof.
  intros R Hc H. pose proof (reachable_inv _ _ _ R) as I. pose proof (step_inv _ _ _ _ I H) as I'.
  rewrite <- (inv_wg _ _ I), <- (inv_wg _ _ I'). eapply wg_noninc; eauto.
Qed.

(* ---- nothing panics -------------------------------------------------------- *)

Theorem no_crash fx acts s : run fx init acts = Some s -> crashed s = false.
Proof. intros R. apply (inv_crash _ _ (reachable_inv _ _ _ R)). Qed.

(* ---- Stop does not hang ---------------------------------------------------- *)

Definition hm (h : hpc) : nat :=
  match h with HDisp _ => 5 | HRecv => 4 | HGot _ => 3 | HExitClose => 2 | HExitDone => 1 | _ => 0 end.
Definition nm (x : spc) : nat :=
  match x with IRecvId => 4 | ICheck => 3 | IRegister => 2 | ILaunch => 1 | _ => 0 end.
Definition nmf (k : conn) : nat := if neg k then S (nm (setup k)) else 0.
Definition hmf (k : conn) : nat := hm (hd k) + nmf k.

(* steps the handleConn goroutines and the Listen callbacks under negotiation take by
   themselves once their connection is closed (no message, no peer, no timer is needed:
   receiveServerIdentity fails because Stop closed the connection) *)
Definition handler_action (a : action) : Prop :=
  match a with
  | AHRecvErr _ | AHCheck _ | AHDispatch _ | AHExitClose _ | AHExitDone _
  | ARecvIdFail _ | ACheckPeer _ _ | ARegister _ | ALaunch _ | AEnd _ => True
  | _ => False
  end.

Lemma handler_progress fx s c k :
  Inv fx s -> closed s = true -> nth_error (conns s) c = Some k -> live (hd k) = true ->
  exists a s', handler_action a /\ step fx s a = Some s' /\
               sumf hmf (conns s') < sumf hmf (conns s) /\
               closed s' = true /\ stops s' = stops s /\ senders s' = senders s.
Proof.
  intros I Hc Hk L. destruct (inv_conn _ _ I _ _ Hk) as [H1 H2 H3 H4 H5 H6 H7 H8].
  assert (Hin : In c (table s)) by auto. specialize (H1 Hc Hin).
  assert (M : forall k', sumf hmf (upd (conns s) c k') + hmf k = sumf hmf (conns s) + hmf k').
  { intros k'. apply sumf_upd; auto. }
  unfold hmf in M at 2 4.
  destruct (hd k) as [| |x|m| | | |] eqn:Eh; try discriminate.
  - exists (AHRecvErr c). eexists. split; [exact Logic.I|]. cbn. rewrite Hk, Eh, H1. cbn.
    split; [reflexivity|]. cbn. repeat split; auto.
    specialize (M (set_hd k (HGot None))). unfold nmf in M. cbn in M. lia.
  - exists (AHCheck c). eexists. split; [exact Logic.I|]. cbn. rewrite Hk, Eh, Hc.
    split; [reflexivity|]. cbn. repeat split; auto.
    specialize (M (set_hd k HExitClose)). unfold nmf in M. cbn in M. lia.
  - exists (AHDispatch c). eexists. split; [exact Logic.I|]. cbn. rewrite Hk, Eh.
    split; [reflexivity|]. cbn. repeat split; auto.
    specialize (M (set_hd k HRecv)). unfold nmf in M. cbn in M. lia.
  - exists (AHExitClose c). eexists. split; [exact Logic.I|]. cbn. rewrite Hk, Eh.
    split; [reflexivity|]. cbn. repeat split; auto.
    specialize (M (set_hd (close_conn k) HExitDone)). unfold nmf in M. cbn in M. lia.
  - pose proof (live_count_pos _ _ _ Hk) as P. rewrite Eh in P. specialize (P eq_refl).
    rewrite <- (inv_wg _ _ I) in P. destruct (wg s) as [|n] eqn:Ew; [lia|].
    exists (AHExitDone c). eexists. split; [exact Logic.I|]. cbn. rewrite Hk, Eh, Ew.
    split; [reflexivity|]. cbn. repeat split; auto.
    specialize (M (set_hd k HExitRemove)). unfold nmf in M. cbn in M. lia.
Qed.

(* a callback under negotiation ends by its own steps once the router is closed *)
Lemma neg_progress fx s c k :
  Inv fx s -> closed s = true -> nth_error (conns s) c = Some k -> neg k = true ->
  exists a s', handler_action a /\ step fx s a = Some s' /\
               sumf hmf (conns s') < sumf hmf (conns s) /\
               closed s' = true /\ stops s' = stops s /\ senders s' = senders s.
Proof.
  intros I Hc Hk Hn. destruct (inv_conn _ _ I _ _ Hk) as [H1 H2 H3 H4 H5 H6 H7 H8].
  assert (M : forall k', sumf hmf (upd (conns s) c k') + hmf k = sumf hmf (conns s) + hmf k').
  { intros k'. apply sumf_upd; auto. }
  unfold hmf in M at 2 4. unfold nmf in M. rewrite Hn in M.
  pose proof (nth_error_lt _ _ _ Hk) as Lt.
  destruct (H8 Hn) as [Np|Sd].
  - destruct (setup k) eqn:Es; try discriminate.
    + exists (ARecvIdFail c). eexists. split; [exact Logic.I|]. cbn. rewrite Hk, Es, (H7 Hc Hn). cbn.
      split; [reflexivity|]. cbn. repeat split; auto.
      specialize (M (set_setup (close_conn k) SetupErr)). cbn in M. rewrite Hn in M. cbn in M. lia.
    + exists (ACheckPeer c true). eexists. split; [exact Logic.I|]. cbn. rewrite Hk, Es.
      split; [reflexivity|]. cbn. repeat split; auto.
      specialize (M (set_setup k IRegister)). cbn in M. rewrite Hn in M. cbn in M. lia.
    + exists (ARegister c). eexists. split; [exact Logic.I|]. cbn. rewrite Hk, Es, Hc.
      split; [reflexivity|]. unfold give_up. destruct (f11 fx); cbn; repeat split; auto.
      * specialize (M (set_setup (close_conn k) SetupErr)). cbn in M. rewrite Hn in M. cbn in M. lia.
      * specialize (M (set_setup k SetupErr)). cbn in M. rewrite Hn in M. cbn in M. lia.
    + exists (ALaunch c). eexists. split; [exact Logic.I|]. cbn. rewrite Hk, Es, Hc.
      split; [reflexivity|]. unfold give_up. destruct (f11 fx); cbn; repeat split; auto.
      * specialize (M (set_setup (close_conn k) SetupErr)). cbn in M. rewrite Hn in M. cbn in M. lia.
      * specialize (M (set_setup k SetupErr)). cbn in M. rewrite Hn in M. cbn in M. lia.
  - pose proof (neg_count_pos _ _ _ Hk Hn) as P.
    rewrite <- (inv_wg _ _ I) in P. destruct (wg s) as [|n] eqn:Ew; [lia|].
    exists (AEnd c). eexists. split; [exact Logic.I|]. cbn. rewrite Hk, Hn, Sd, Ew. cbn.
    split; [reflexivity|]. cbn. repeat split; auto.
    specialize (M (set_neg k false)). cbn in M. lia.
Qed.

(* From every reachable state in which the closed flag is set, the handler goroutines and
   the callbacks under negotiation alone - each by finitely many of its own steps, without
   any message, peer action or time-out - bring the wait group to zero: wg.Wait() returns. *)
Theorem handlers_drain fx s :
  Inv fx s -> closed s = true ->
  exists hacts s', Forall handler_action hacts /\ run fx s hacts = Some s' /\
                   wg s' = 0 /\ closed s' = true /\ stops s' = stops s /\ senders s' = senders s /\ Inv fx s'.
Proof.
  remember (sumf hmf (conns s)) as n eqn:En. revert s En.
  induction n as [n IH] using lt_wf_ind. intros s En I Hc.
  destruct (Nat.eq_dec (count_busy (conns s)) 0) as [Z|NZ].
  - exists [], s. cbn. split; [constructor|]. split; [reflexivity|].
    split; [now rewrite (inv_wg _ _ I)|]. split; [auto|]. split; [auto|]. split; [auto|]. exact I.
  - destruct (sumf_zero_ex _ _ NZ) as (c & k & Hk & Hl).
    assert (exists a s1, handler_action a /\ step fx s a = Some s1 /\ sumf hmf (conns s1) < sumf hmf (conns s) /\
                         closed s1 = true /\ stops s1 = stops s /\ senders s1 = senders s)
      as (a & s1 & Ha & Hs & Hm & Hc1 & Hst & Hse).
    { unfold wgf in Hl. destruct (live (hd k)) eqn:L; [eapply handler_progress; eauto|].
      destruct (neg k) eqn:Ng; [eapply neg_progress; eauto|]. cbn in Hl. congruence. }
    pose proof (step_inv _ _ _ _ I Hs) as I1.
    destruct (IH (sumf hmf (conns s1))) with (s := s1) as (hacts & s2 & F & R & W & C2 & St & Se & I2); auto.
    { lia. }
    exists (a :: hacts), s2. split; [constructor; auto|]. split; [cbn; now rewrite Hs|].
    split; [auto|]. split; [auto|]. split; [congruence|]. split; [congruence|]. exact I2.
Qed.

Theorem stop_never_hangs fx acts s t :
  run fx init acts = Some s -> nth_error (stops s) t = Some SWait ->
  exists hacts s' s'', Forall handler_action hacts /\ run fx s hacts = Some s' /\
                       step fx s' (AWait t) = Some s'' /\ nth_error (stops s'') t = Some SReturned /\
                       stop_returned s'' = true.
Proof.
  intros R Ht. pose proof (reachable_inv _ _ _ R) as I.
  assert (Hc : closed s = true) by (apply (inv_stops _ _ I _ _ Ht); auto).
  destruct (handlers_drain _ _ I Hc) as (hacts & s' & F & Rn & W & C & St & Se & I').
  exists hacts, s'. eexists. repeat split; eauto.
  - cbn. rewrite St, Ht, W. cbn. reflexivity.
  - cbn. apply nth_error_upd_eq. eapply nth_error_lt; eauto.
  - reflexivity.
Qed.

(* the first two steps of Stop are never blocked *)
Theorem stop_steps_enabled fx s t pc :
  nth_error (stops s) t = Some pc ->
  match pc with
  | SHost => exists s', step fx s (AHostStop t) = Some s'
  | SCloseAll => exists s', step fx s (ACloseAll t) = Some s'
  | _ => True
  end.
Proof. intros H. destruct pc; auto; cbn; rewrite H; eauto. Qed.

(* ---- racing operations are never blocked and end with Ok or Err ------------ *)

Definition sm (x : spc) : nat :=
  match x with
  | IAccept => 5
  | OSendId | IRecvId => 4 | ICheck => 3 | ORegister | IRegister => 2 | OLaunch | ILaunch => 1
  | SetupOk | SetupErr => 0
  end.

Lemma give_up_conn fx s c k :
  nth_error (conns s) c = Some k ->
  exists k', nth_error (conns (give_up fx s c k)) c = Some k' /\ setup k' = SetupErr /\
             senders (give_up fx s c k) = senders s.
Proof.
  intros H. pose proof (nth_error_lt _ _ _ H) as L. unfold give_up.
  destruct (f11 fx); cbn; rewrite nth_error_upd_eq by auto; eexists; repeat split; reflexivity.
Qed.

(* every connection set-up in progress (dialling side inside connect(), accepting side
   inside the Listen callback) has an enabled step of its own that brings it nearer to its
   end - EXCEPT a callback inside receiveServerIdentity on a connection that is open on both
   sides: that one waits for the peer (its identity, its close) or, on TCP only, for the read
   time-out.  Stop ends this wait by closing the connection (repair f43, see
   closed_at_return_fixed / neg_progress). *)
Theorem setup_progress fx s c k :
  nth_error (conns s) c = Some k -> setting_up (setup k) = true ->
  (setup k = IRecvId -> lopen k && popen k = false) ->
  exists a s' k', step fx s a = Some s' /\ nth_error (conns s') c = Some k' /\
                  sm (setup k') < sm (setup k) /\ senders s' = senders s.
Proof.
  intros H Su Hrd. pose proof (nth_error_lt _ _ _ H) as L.
  destruct (setup k) eqn:Es; try discriminate.
  - exists (ASendIdOk c). eexists. eexists. cbn. rewrite H, Es. split; [reflexivity|]. cbn.
    rewrite nth_error_upd_eq by auto. repeat split. cbn. lia.
  - destruct (closed s) eqn:Ec.
    + destruct (give_up_conn fx s c k H) as (k' & Hk' & Hs' & Hse).
      exists (ARegister c), (give_up fx s c k), k'. cbn. rewrite H, Es, Ec. repeat split; auto. rewrite Hs'. cbn. lia.
    + exists (ARegister c). eexists. eexists. cbn. rewrite H, Es, Ec. split; [reflexivity|]. cbn.
      rewrite nth_error_upd_eq by auto. repeat split. cbn. lia.
  - destruct (closed s) eqn:Ec.
    + destruct (give_up_conn fx s c k H) as (k' & Hk' & Hs' & Hse).
      exists (ALaunch c), (give_up fx s c k), k'. cbn. rewrite H, Es, Ec. repeat split; auto. rewrite Hs'. cbn. lia.
    + exists (ALaunch c). eexists. eexists. cbn. rewrite H, Es, Ec. split; [reflexivity|]. cbn.
      rewrite nth_error_upd_eq by auto. repeat split. cbn. lia.
  - (* IAccept: beginNegotiation, whatever its outcome *)
    exists (ABegin c). cbn. rewrite H, Es.
    destruct (f43 fx); [destruct (closed s)|]; eexists; eexists; (split; [reflexivity|]); cbn;
      rewrite nth_error_upd_eq by auto; repeat split; cbn; lia.
  - exists (ARecvIdFail c). eexists. eexists. cbn. rewrite H, Es, (Hrd eq_refl). split; [reflexivity|]. cbn.
    rewrite nth_error_upd_eq by auto. repeat split. cbn. lia.
  - exists (ACheckPeer c true). eexists. eexists. cbn. rewrite H, Es. split; [reflexivity|]. cbn.
    rewrite nth_error_upd_eq by auto. repeat split. cbn. lia.
  - destruct (closed s) eqn:Ec.
    + destruct (give_up_conn fx s c k H) as (k' & Hk' & Hs' & Hse).
      exists (ARegister c), (give_up fx s c k), k'. cbn. rewrite H, Es, Ec. repeat split; auto. rewrite Hs'. cbn. lia.
    + exists (ARegister c). eexists. eexists. cbn. rewrite H, Es, Ec. split; [reflexivity|]. cbn.
      rewrite nth_error_upd_eq by auto. repeat split. cbn. lia.
  - destruct (closed s) eqn:Ec.
    + destruct (give_up_conn fx s c k H) as (k' & Hk' & Hs' & Hse).
      exists (ALaunch c), (give_up fx s c k), k'. cbn. rewrite H, Es, Ec. repeat split; auto. rewrite Hs'. cbn. lia.
    + exists (ALaunch c). eexists. eexists. cbn. rewrite H, Es, Ec. split; [reflexivity|]. cbn.
      rewrite nth_error_upd_eq by auto. repeat split. cbn. lia.
Qed.

Definition csm (cs : list conn) (c : nat) : nat :=
  match nth_error cs c with Some k => sm (setup k) | None => 0 end.

Definition nmeasure (cs : list conn) (p : npc) : nat :=
  match p with
  | NLookup _ => 30
  | NDial _ false => 28
  | NConnect _ c false => 20 + csm cs c
  | NSend _ _ false => 19
  | NDial _ true => 17
  | NConnect _ c true => 10 + csm cs c
  | NSend _ _ true => 1
  | NDone _ => 0
  end.

(* A Send racing with Stop is never blocked: in every reachable state a step of the
   sending goroutine is enabled and decreases a natural-number measure, so it
   returns after at most 30 of its own steps - with Ok or Err, the only results a
   sender can have. *)
Theorem sender_progress fx acts s t p :
  run fx init acts = Some s -> nth_error (senders s) t = Some p -> sender_done p = false ->
  exists a s' p', step fx s a = Some s' /\ nth_error (senders s') t = Some p' /\
                  nmeasure (conns s') p' < nmeasure (conns s) p.
Proof.
  intros R Ht Nd. pose proof (reachable_inv _ _ _ R) as I.
  pose proof (nth_error_lt _ _ _ Ht) as Lt. pose proof (inv_snd _ _ I _ _ Ht) as Ok.
  destruct p as [q|q r|q c r|q c r|r0]; try discriminate.
  - (* NLookup *)
    exists (ALookup t). cbn. rewrite Ht.
    destruct (lookup (conns s) (table s) q) as [c|]; eexists; eexists;
      (split; [reflexivity|]); cbn; rewrite nth_error_upd_eq by auto; split; try reflexivity; cbn; lia.
  - (* NDial *)
    exists (ADialOk t). eexists. eexists. cbn. rewrite Ht. split; [reflexivity|]. cbn.
    rewrite nth_error_upd_eq by auto. split; [reflexivity|].
    unfold nmeasure, csm. rewrite nth_error_app2, Nat.sub_diag by lia. cbn. destruct r; lia.
  - (* NConnect *)
    cbn in Ok. destruct Ok as (k & Hk & D).
    destruct (setting_up (setup k)) eqn:Su.
    + assert (Hrd : setup k = IRecvId -> lopen k && popen k = false) by (intros E; rewrite E in D; discriminate).
      destruct (setup_progress fx s c k Hk Su Hrd) as (a & s' & k' & Hs & Hk' & M & Se).
      exists a, s', (NConnect q c r). split; auto. split; [congruence|].
      unfold nmeasure, csm. rewrite Hk, Hk'. destruct r; lia.
    + exists (AConnReturn t). cbn. rewrite Ht, Hk.
      destruct (setup k) eqn:Es; try discriminate; eexists; eexists; (split; [reflexivity|]); cbn;
        rewrite nth_error_upd_eq by auto; (split; [reflexivity|]);
        unfold nmeasure, csm; rewrite Hk, Es; cbn; destruct r; lia.
  - (* NSend *)
    cbn in Ok. destruct (nth_error (conns s) c) as [k|] eqn:Hk; [|apply nth_error_None in Hk; lia].
    destruct (lopen k) eqn:Lo.
    + exists (ASendOk t). eexists. eexists. cbn. rewrite Ht, Hk, Lo. split; [reflexivity|]. cbn.
      rewrite nth_error_upd_eq by auto. split; [reflexivity|]. cbn. destruct r; lia.
    + exists (ASendFail t). eexists. eexists. cbn. rewrite Ht, Hk, Lo. cbn. split; [reflexivity|]. cbn.
      rewrite nth_error_upd_eq by auto. split; [reflexivity|]. destruct r; cbn; lia.
Qed.

(* ---- Stop is idempotent ---------------------------------------------------- *)

Lemma upd_app_last {A} (l : list A) x y : upd (l ++ [x]) (length l) y = l ++ [y].
Proof. induction l as [|z r IH]; cbn; auto. now rewrite IH. Qed.

Lemma nth_error_app_last {A} (l : list A) x : nth_error (l ++ [x]) (length l) = Some x.
Proof. rewrite nth_error_app2, Nat.sub_diag by lia. reflexivity. Qed.

(* a further call of Stop after one has returned runs through without blocking
   and changes nothing but its own program counter *)
Theorem stop_idempotent fx acts s :
  run fx init acts = Some s -> stop_returned s = true ->
  let t := length (stops s) in
  run fx s [ACallStop; AHostStop t; ACloseAll t; AWait t] = Some (set_stops s (stops s ++ [SReturned])).
Proof.
  intros R Hr t. destruct (registered_closed_at_return _ _ _ R Hr) as (Hc & Hl & Hw & Ht & _ & _).
  assert (Same : close_listed (table s) 0 (conns s) = conns s).
  { apply close_listed_same. intros j k [Hin|Hn] Hj; cbn in *; [eauto|].
    pose proof (neg_count_pos _ _ _ Hj Hn) as P.
    rewrite <- (inv_wg _ _ (reachable_inv _ _ _ R)) in P. lia. }
  unfold t. destruct s as [li cl tb w cs sn st sr di la ab cr]. cbn in *. subst.
  rewrite nth_error_app_last. cbn. rewrite upd_app_last.
  rewrite nth_error_app_last. cbn. rewrite upd_app_last, Same.
  rewrite nth_error_app_last. cbn. rewrite upd_app_last. reflexivity.
Qed.

(* ---- hypotheses are satisfiable -------------------------------------------- *)

(* a run in which Stop returns, a racing Send ends with Err, an inbound connection is
   refused, an established connection delivers a message before the stop and
   everything is closed at the end *)
Definition example_run : list action :=
  [AIncoming 2; ABegin 0; ARecvIdOk 0; ACheckPeer 0 true; ARegister 0; ALaunch 0; AEnd 0;  (* established inbound *)
   AHRecvMsg 0 7; AHCheck 0; AHDispatch 0;                                   (* one delivery *)
   ACallSend 1; ALookup 0; ADialOk 0; ASendIdOk 1;                           (* first contact, at router.connected *)
   AIncoming 3; ABegin 2; ARecvIdOk 2;                                       (* inbound, at router.identityReceived *)
   ACallStop; AHostStop 0; ACloseAll 0;
   AHRecvErr 0; AHCheck 0; AHExitClose 0; AHExitDone 0; AHExitRemove 0;
   ACheckPeer 2 true; ARegister 2; AEnd 2;                                   (* the callback is refused and ends *)
   AWait 0;
   ARegister 1; AConnReturn 0].

Example example_reachable :
  exists s, run (mkFx true true) init example_run = Some s /\ stop_returned s = true /\ quiescent s = true /\
            dispatched s = [(0, 7)] /\ senders s = [NDone Err] /\ open_conns s = [].
Proof. eexists. split; [vm_compute; reflexivity|]. repeat split; vm_compute; reflexivity. Qed.

(* ---- with both repairs: no hypothesis on pending set-ups -------------------- *)

(* At the instant Stop returns (no quiescence assumed): no handler and no callback under
   negotiation is alive, and the only connections still open are those whose set-up thread
   has not yet reached its first test of the closed flag - a dialling Send before
   registerConnection, a Listen callback before beginNegotiation ... *)
Theorem closed_at_return_fixed acts s :
  run (mkFx true true) init acts = Some s -> stop_returned s = true ->
  (forall c k, nth_error (conns s) c = Some k -> live (hd k) = false /\ neg k = false) /\
  (forall c k, nth_error (conns s) c = Some k -> lopen k = true ->
               setup k = OSendId \/ setup k = ORegister \/ setup k = IAccept).
Proof.
  intros R Hr. pose proof (reachable_inv _ _ _ R) as I. destruct (inv_ret _ _ I Hr) as [Hc Hw].
  assert (Z : count_busy (conns s) = 0) by (rewrite <- (inv_wg _ _ I); auto).
  split.
  - intros c k H. split; [eapply no_live_when_zero|eapply no_neg_when_zero]; eauto.
  - intros c k H L. destruct (inv_conn _ _ I _ _ H) as [H1 H2 H3 H4 H5 H6 H7 H8].
    destruct (H2 L) as [E|[E|E]].
    + destruct (setup k) eqn:Es; try discriminate; auto.
      * rewrite H1 in L; auto; discriminate.
      * rewrite (no_neg_when_zero _ _ _ Z H) in H6. specialize (H6 eq_refl eq_refl). discriminate.
      * rewrite (no_neg_when_zero _ _ _ Z H) in H6. specialize (H6 eq_refl eq_refl). discriminate.
      * rewrite (no_neg_when_zero _ _ _ Z H) in H6. specialize (H6 eq_refl eq_refl). discriminate.
      * rewrite (no_neg_when_zero _ _ _ Z H) in H6. specialize (H6 eq_refl eq_refl). discriminate.
    + apply holding_live in E. rewrite (no_live_when_zero _ _ _ Z H) in E. discriminate.
    + rewrite (inv_fix _ _ I eq_refl) in E. destruct E.
Qed.

(* ... and that first test refuses and closes them *)
Theorem refused_after_close s c k :
  closed s = true -> nth_error (conns s) c = Some k ->
  (setup k = IAccept ->
   exists s' k', step (mkFx true true) s (ABegin c) = Some s' /\ nth_error (conns s') c = Some k' /\
                 lopen k' = false /\ setup k' = SetupErr /\ wg s' = wg s) /\
  (setup k = ORegister \/ setup k = IRegister ->
   exists s' k', step (mkFx true true) s (ARegister c) = Some s' /\ nth_error (conns s') c = Some k' /\
                 lopen k' = false /\ setup k' = SetupErr /\ wg s' = wg s).
Proof.
  intros Hc Hk. pose proof (nth_error_lt _ _ _ Hk) as L. split.
  - intros Es. eexists. eexists. cbn. rewrite Hk, Es, Hc. split; [reflexivity|]. cbn.
    rewrite nth_error_upd_eq by auto. repeat split.
  - intros [Es|Es]; eexists; eexists; cbn; rewrite Hk, Es, Hc; (split; [reflexivity|]); cbn;
      rewrite nth_error_upd_eq by auto; repeat split.
Qed.

(* a connection that arrives exactly during Stop: accepted before host.Stop returned, its
   callback starts after the closed flag is set *)
Example arrival_during_stop :
  exists s, run (mkFx true true) init
              [AIncoming 1; ACallStop; AHostStop 0; ACloseAll 0; AWait 0; ABegin 0] = Some s /\
            stop_returned s = true /\ quiescent s = true /\ open_conns s = [] /\ wg s = 0.
Proof. eexists. split; [vm_compute; reflexivity|]. repeat split. Qed.

(* ---- the progress measures never go up -------------------------------------- *)
(* (sender_progress and handlers_drain say that a decreasing step is enabled; these lemmas
   say that no step of anybody raises the measure, so under a scheduler that is fair to the
   goroutine concerned the measure reaches zero) *)

Lemma sm_upd cs c0 k0 k0' c k :
  nth_error cs c0 = Some k0 -> sm (setup k0') <= sm (setup k0) -> nth_error cs c = Some k ->
  exists k', nth_error (upd cs c0 k0') c = Some k' /\ sm (setup k') <= sm (setup k).
Proof.
  intros H0 Hle Hc. destruct (Nat.eq_dec c0 c) as [->|N].
  - rewrite nth_error_upd_eq by (eapply nth_error_lt; eauto). eexists. split; eauto. congruence.
  - rewrite nth_error_upd_neq by auto. eauto.
Qed.

Lemma sm_noninc fx s a s' c k :
  step fx s a = Some s' -> nth_error (conns s) c = Some k ->
  exists k', nth_error (conns s') c = Some k' /\ sm (setup k') <= sm (setup k).
Proof.
  intros H Hc.
  destruct a; cbn [step] in H; unfold give_up in H; step_cases H; inversion H; subst; cbn [conns set_conns set_senders
    set_stops set_table set_wg set_abandoned];
    try (eexists; split; [eassumption|lia]);
    try (rewrite nth_error_app1 by (eapply nth_error_lt; eauto); eexists; split; [eassumption|lia]);
    try (eapply sm_upd; eauto; cbn;
         repeat match goal with E : setup _ = _ |- _ => rewrite E end; cbn; lia).
  (* ACloseAll *)
  rewrite nth_close_listed, Hc. cbn. eexists. split; [reflexivity|]. destruct (mem c (table s) || neg k); cbn; lia.
Qed.

(* no step of anybody raises the measure of a Send that is under way *)
Theorem sender_measure_noninc fx s a s' t p :
  Inv fx s -> step fx s a = Some s' -> nth_error (senders s) t = Some p ->
  exists p', nth_error (senders s') t = Some p' /\ nmeasure (conns s') p' <= nmeasure (conns s) p.
Proof.
  intros I H Ht. pose proof (inv_snd _ _ I _ _ Ht) as Ok.
  assert (Csm : forall c, c < length (conns s) -> csm (conns s') c <= csm (conns s) c).
  { intros c Lc. destruct (nth_error (conns s) c) as [k|] eqn:E; [|apply nth_error_None in E; lia].
    destruct (sm_noninc _ _ _ _ _ _ H E) as (k' & Hk' & Hle). unfold csm. rewrite E, Hk'. auto. }
  assert (Same : nth_error (senders s') t = Some p ->
                 exists p', nth_error (senders s') t = Some p' /\ nmeasure (conns s') p' <= nmeasure (conns s) p).
  { intros E. exists p. split; auto. destruct p as [q|q r|q c r|q c r|r]; cbn; try lia.
    cbn in Ok. destruct Ok as (k & Hk & _). pose proof (Csm c (nth_error_lt _ _ _ Hk)). destruct r; lia. }
  destruct a; cbn [step] in H; unfold give_up in H; step_cases H; inversion H; subst;
    first
      [ apply Same; cbn; assumption
      | apply Same; cbn; rewrite nth_error_app1 by (eapply nth_error_lt; eauto); assumption
      | match goal with
        | Hs : nth_error (senders s) ?t0 = Some ?x |- _ =>
            lazymatch t0 with t => fail | _ => idtac end;
            destruct (Nat.eq_dec t0 t) as [E0|N];
            [ subst t0; rewrite Hs in Ht; inversion Ht; subst; clear Ht;
              eexists; (split; [cbn; apply nth_error_upd_eq; eapply nth_error_lt; eauto|]);
              cbn; unfold csm; cbn;
              try (rewrite nth_error_app2, Nat.sub_diag by lia; cbn);
              repeat match goal with E2 : nth_error (conns s) _ = Some _ |- _ => rewrite E2 end;
              repeat match goal with E3 : setup _ = _ |- _ => rewrite E3 end;
              cbn; repeat match goal with |- context[if ?b then _ else _] => destruct b end; cbn; lia
            | apply Same; cbn; rewrite nth_error_upd_neq by auto; assumption ]
        end ].
Qed.

Lemma hmf_upd_le cs c k k' :
  nth_error cs c = Some k -> hmf k' <= hmf k -> sumf hmf (upd cs c k') <= sumf hmf cs.
Proof. intros H Hle. pose proof (sumf_upd hmf _ _ _ k' H). lia. Qed.

(* once the closed flag is set, no step of anybody raises the measure that handlers_drain
   brings to zero (a message still arriving, a peer closing, a new Send: none of them adds
   work for Stop to wait for) *)
Theorem drain_measure_noninc fx s a s' :
  Inv fx s -> closed s = true -> step fx s a = Some s' -> sumf hmf (conns s') <= sumf hmf (conns s).
Proof.
  intros I Hc H.
  destruct a; cbn [step] in H; unfold give_up in H; step_cases H; inversion H; subst;
    cbn [conns set_conns set_senders set_stops set_table set_wg set_abandoned];
    try lia; try congruence;
    try (rewrite sumf_app; cbn; lia);
    try (rewrite sumf_close_listed by reflexivity; lia);
    try (eapply hmf_upd_le; [eassumption|]; unfold hmf, nmf; cbn;
         repeat match goal with E : hd _ = _ |- _ => rewrite E end;
         repeat match goal with E : setup _ = _ |- _ => rewrite E end;
         repeat match goal with E : neg _ = _ |- _ => rewrite E end;
         cbn; repeat match goal with |- context[if ?b then _ else _] => destruct b end; cbn; lia).
  (* ABegin on the code without the negotiating set: the callback is not recorded *)
  all: match goal with
       | Hk : nth_error (conns _) _ = Some ?k, Es : setup ?k = IAccept |- _ =>
           let Hn := fresh in
           assert (Hn : neg k = false)
             by (destruct (neg k) eqn:En; auto;
                 destruct (ci_nacc _ _ _ _ _ _ (inv_conn _ _ I _ _ Hk) En) as [E|E]; rewrite Es in E; discriminate);
           eapply hmf_upd_le; [eassumption|]; unfold hmf, nmf; cbn; rewrite Hn; cbn; lia
       end.
Qed.

(* a Send that fails leaves its connection closed on this side (TCPConn.Send since e91db58) *)
Theorem failed_send_closes fx s t p c r s' :
  nth_error (senders s) t = Some (NSend p c r) -> step fx s (ASendFail t) = Some s' ->
  exists k', nth_error (conns s') c = Some k' /\ lopen k' = false.
Proof.
  intros Ht H. cbn [step] in H. rewrite Ht in H.
  destruct (nth_error (conns s) c) as [k|] eqn:Ek; [|discriminate].
  destruct (lopen k && popen k); [discriminate|]. inversion H; subst; clear H. cbn.
  exists (close_conn k). split; [|reflexivity]. apply nth_error_upd_eq. eapply nth_error_lt; eauto.
Qed.
