(* C10 -- protocol starts racing with Overlay.Close: the instance table vs. the table of
   bound protocol instances.

   Go code mirrored (overlay.go, treenode.go), everything under instancesLock unless noted:
     newTreeNodeInstanceFromToken (CreateProtocol / StartProtocol / first message of a run):
         go dispatchMsgReader()      (outside the lock)
         Lock; if o.closed { stop that goroutine; not registered } else o.instances[tok] = tni
     protocol constructor runs WITHOUT the lock (it may take any time)
     RegisterProtocolInstance: Lock; if tok not in o.instances -> ErrWrongTreeNodeInstance
                               else bind, o.protocolInstances[tok] = pi
     Overlay.Close: Lock; o.closed = true; for every entry of o.instances: nodeDelete
                    (closeDispatch stops the reader, both tables lose the entry); Unlock
   One action = one critical section.  [bo] ("bound only") is the variant in which Close
   ranges over o.protocolInstances instead of o.instances. *)
From Coq Require Import List Arith Bool Lia.
Import ListNotations.
From Onet Require Import Net.RouterClose.

Inductive ppc :=
| PNew                 (* start called, nothing done yet *)
| PCtor                (* registered in o.instances, reader running, constructor not yet returned *)
| PGone                (* not (or no longer) registered: refused by a closed overlay, or deleted by Close *)
| PBound               (* bound: in both tables *)
| PErr.                (* the start returned ErrWrongTreeNodeInstance *)

Inductive ocpc := OIdle | OClosing | OClosed.

Record ostate := mkO {
  oclosed : bool;
  starts : list ppc;
  ocloser : ocpc;
  regs : nat;          (* entries of o.instances *)
  bounds : nat;        (* entries of o.protocolInstances *)
  readers : nat }.     (* dispatchMsgReader goroutines alive *)

Definition oinit : ostate := mkO false [] OIdle 0 0 0.

Inductive oaction :=
| PCall                (* a protocol start begins *)
| PReg (i : nat)       (* newTreeNodeInstanceFromToken *)
| PBind (i : nat)      (* the constructor has returned: RegisterProtocolInstance *)
| OCall                (* Overlay.Close takes the lock and sets closed *)
| ODelBound (i : nat)  (* nodeDelete of a bound instance *)
| ODelCtor (i : nat)   (* nodeDelete of an instance whose constructor is still running *)
| OFinish.             (* the loop is over: Unlock *)

Definition ointernal (a : oaction) : bool := match a with PCall | OCall => false | _ => true end.

Definition ounlocked (s : ostate) : bool := match ocloser s with OClosing => false | _ => true end.

Fixpoint count_pp (p : ppc -> bool) (l : list ppc) : nat :=
  match l with [] => 0 | x :: r => (if p x then 1 else 0) + count_pp p r end.
Definition is_ctor (p : ppc) : bool := match p with PCtor => true | _ => false end.
Definition is_bound (p : ppc) : bool := match p with PBound => true | _ => false end.

Definition ostep (bo : bool) (s : ostate) (a : oaction) : option ostate :=
  match a with
  | PCall => Some (mkO (oclosed s) (starts s ++ [PNew]) (ocloser s) (regs s) (bounds s) (readers s))
  | PReg i =>
      match nth_error (starts s) i with
      | Some PNew =>
          if ounlocked s then
            if oclosed s
            then Some (mkO (oclosed s) (upd (starts s) i PGone) (ocloser s) (regs s) (bounds s) (readers s))
            else Some (mkO (oclosed s) (upd (starts s) i PCtor) (ocloser s) (S (regs s)) (bounds s) (S (readers s)))
          else None
      | _ => None
      end
  | PBind i =>
      if ounlocked s then
        match nth_error (starts s) i with
        | Some PCtor => Some (mkO (oclosed s) (upd (starts s) i PBound) (ocloser s) (regs s) (S (bounds s)) (readers s))
        | Some PGone => Some (mkO (oclosed s) (upd (starts s) i PErr) (ocloser s) (regs s) (bounds s) (readers s))
        | _ => None
        end
      else None
  | OCall =>
      match ocloser s with
      | OIdle => Some (mkO true (starts s) OClosing (regs s) (bounds s) (readers s))
      | _ => None
      end
  | ODelBound i =>
      match ocloser s, nth_error (starts s) i with
      | OClosing, Some PBound =>
          Some (mkO (oclosed s) (upd (starts s) i PGone) (ocloser s) (pred (regs s)) (pred (bounds s)) (pred (readers s)))
      | _, _ => None
      end
  | ODelCtor i =>
      if bo then None else
      match ocloser s, nth_error (starts s) i with
      | OClosing, Some PCtor =>
          Some (mkO (oclosed s) (upd (starts s) i PGone) (ocloser s) (pred (regs s)) (bounds s) (pred (readers s)))
      | _, _ => None
      end
  | OFinish =>
      match ocloser s with
      | OClosing =>
          (* the range loop ends when the table it ranges over has been emptied *)
          if (if bo then count_pp is_bound (starts s) =? 0
              else (count_pp is_bound (starts s) =? 0) && (count_pp is_ctor (starts s) =? 0))
          then Some (mkO (oclosed s) (starts s) OClosed (regs s) (bounds s) (readers s))
          else None
      | _ => None
      end
  end.

Fixpoint orun (bo : bool) (s : ostate) (acts : list oaction) : option ostate :=
  match acts with
  | [] => Some s
  | a :: r => match ostep bo s a with None => None | Some s' => orun bo s' r end
  end.

(* the schedule of the harness class: the constructor of a start is still running when Close
   is called; Close runs to its end; the constructor returns *)
Definition ctor_held_schedule (code : bool) : list oaction :=
  [PCall; PReg 0; OCall] ++ (if code then [ODelCtor 0] else []) ++ [OFinish; PBind 0].

(* the schedule of the same class when the start completed before Close was called (the hold
   could not be established): the instance is bound, Close deletes it *)
Definition ctor_unheld_schedule : list oaction :=
  [PCall; PReg 0; PBind 0; OCall; ODelBound 0; OFinish].
