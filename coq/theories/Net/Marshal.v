(* C03 MODEL (2/2): the message envelope of network/encoding.go, TCPConn.Send /
   TCPConn.Receive (network/tcp.go:117-129, 190-203), the receive loop of
   Router.handleConn with its error classification (network/router.go:421-477),
   the identity exchange in front of it (router.go:208-243, 587-631) and the
   in-memory transport (network/local.go:143-153, 258-311).

   The protobuf codec (go.dedis.ch/protobuf, kyber point/scalar encodings) is
   NOT modelled: [enc]/[dec] are Section variables; the theorems of
   Net/WireProofs.v assume [enc v = Some b -> dec (type_of v) b = Some v].
   Executable Gallina only. *)
From Coq Require Import List NArith Bool.
From Coq Require Import Init.Byte.
From Onet Require Export Net.Frame.
Import ListNotations.
Local Open Scope N_scope.

Inductive uerr :=
| EShort          (* "buffer read": fewer than 16 bytes *)
| EUnknownType    (* "type ... not registered" *)
| EBody.          (* "decoding: ..." *)

Section Envelope.
  Variable V : Type.                       (* message values (Go structs) *)
  Variable T : Type.                       (* Go types (reflect.Type) *)
  Variable type_of : V -> T.
  Variable tid_of : T -> bytes.            (* computeMessageType: uuid.NewSHA1(namespace, type name), 16 bytes *)
  Variable registry : bytes -> option T.   (* registry.get *)
  Variable enc : V -> option bytes.        (* protobuf.Encode; None = error *)
  Variable dec : T -> bytes -> option V.   (* protobuf.DecodeWithConstructors into reflect.New(typ); None = error *)

  (* Marshal: MessageType(msg) == ErrorType when the type is not registered *)
  Definition marshal (v : V) : option bytes :=
    match registry (tid_of (type_of v)) with
    | None => None
    | Some _ =>
        match enc v with
        | None => None
        | Some b => Some (tid_of (type_of v) ++ b)
        end
    end.

  Inductive ures :=
  | UOk (id : bytes) (v : V)
  | UErr (why : uerr).

  (* Unmarshal: binary.Read of the 16-byte id, registry lookup, body decoding *)
  Definition unmarshal (buf : bytes) : ures :=
    if lenN buf <? 16 then UErr EShort else
    let id := takeN 16 buf in
    match registry id with
    | None => UErr EUnknownType
    | Some t =>
        match dec t (dropN 16 buf) with
        | None => UErr EBody
        | Some v => UOk id v
        end
    end.

  (* TCPConn.Send: Marshal, then sendRaw.  None = error returned, nothing written *)
  Definition conn_send (v : V) : option bytes :=
    match marshal v with
    | None => None
    | Some b => Some (send_raw b)
    end.

  (* TCPConn.Receive *)
  Inductive rcv :=
  | RcvMsg (id : bytes) (v : V) (size : N) (rest : list bytes)   (* envelope, nil error *)
  | RcvBad (why : uerr) (size : N) (rest : list bytes)           (* envelope with ErrorType and the Unmarshal error *)
  | RcvTooBig (total : N) (rest : list bytes)                    (* nil envelope, error outside the four classes *)
  | RcvEnd (partial : bool).                                     (* nil envelope, ErrEOF / ErrTimeout / ErrClosed *)

  Definition receive (limit : N) (segs : list bytes) : rcv :=
    match receive_raw limit segs with
    | RrEnd p => RcvEnd p
    | RrTooBig t rest => RcvTooBig t rest
    | RrFrame b rest =>
        match unmarshal b with
        | UOk id v => RcvMsg id v (lenN b) rest
        | UErr why => RcvBad why (lenN b) rest
        end
    end.

  (* Router.handleConn: the messages handed to Dispatch, in order, and how the
     loop ended.  A decoding error is "Temporary error, continue"; so is the
     too-big error in the code as it was at the pinned commit (fix_f04 = false;
     since repaired in /repo, the correspondence compares with fix_f04 = true). *)
  Fixpoint handle_conn (fix_f04 : bool) (limit : N) (fuel : nat) (segs : list bytes)
    : list (bytes * V) * fin :=
    match fuel with
    | O => ([], FinFuel)
    | S f =>
        match receive limit segs with
        | RcvEnd p => ([], FinEnd p)
        | RcvTooBig _ rest =>
            if fix_f04 then ([], FinClosed) else handle_conn fix_f04 limit f rest
        | RcvBad _ _ rest => handle_conn fix_f04 limit f rest
        | RcvMsg id v _ rest =>
            let (d, x) := handle_conn fix_f04 limit f rest in ((id, v) :: d, x)
        end
    end.

  Definition handle_all (fix_f04 : bool) (limit : N) (segs : list bytes) :=
    handle_conn fix_f04 limit (fuel_for segs) segs.

  (* what handleConn does with the events of the framing layer *)
  Definition deliveries (evs : list ev) : list (bytes * V) :=
    flat_map (fun e => match e with
                       | EvFrame b => match unmarshal b with UOk id v => [(id, v)] | UErr _ => [] end
                       | EvTooBig _ => []
                       end) evs.

  (* Router.Start's accept callback: the first message must be a ServerIdentity
     (any Receive error or another type closes the connection), then handleConn *)
  Variable is_identity : bytes -> bool.    (* nm.MsgType == ServerIdentityType *)

  Inductive accepted :=
  | AcRejected                                        (* connection closed during negotiation *)
  | AcEnded (partial : bool)                          (* the stream ended before a first message was complete *)
  | AcHandled (peer : V) (d : list (bytes * V)) (x : fin).

  Definition accept_conn (fix_f04 : bool) (limit : N) (segs : list bytes) : accepted :=
    match receive limit segs with
    | RcvMsg id v _ rest =>
        if is_identity id then
          let (d, x) := handle_conn fix_f04 limit (fuel_for rest) rest in AcHandled v d x
        else AcRejected
    | RcvEnd p => AcEnded p
    | _ => AcRejected
    end.

  (* ---- in-memory transport (LocalConn): a FIFO queue of marshalled buffers ---- *)

  (* LocalConn.Send: Marshal, then append to the peer's queue *)
  Definition local_send (q : list bytes) (v : V) : list bytes * bool :=
    match marshal v with
    | None => (q, false)
    | Some b => (q ++ [b], true)
    end.

  Definition local_send_all (vs : list V) : list bytes :=
    fold_left (fun q v => fst (local_send q v)) vs [].

  (* LocalConn.Receive + handleConn: pop in order; an Unmarshal error is skipped *)
  Definition local_handle (q : list bytes) : list (bytes * V) :=
    flat_map (fun b => match unmarshal b with UOk id v => [(id, v)] | UErr _ => [] end) q.

End Envelope.

Arguments UOk {V}.
Arguments UErr {V}.
Arguments RcvMsg {V}.
Arguments RcvBad {V}.
Arguments RcvTooBig {V}.
Arguments RcvEnd {V}.
Arguments AcRejected {V}.
Arguments AcEnded {V}.
Arguments AcHandled {V}.
Arguments marshal {V T}.
Arguments unmarshal {V T}.
Arguments conn_send {V T}.
Arguments receive {V T}.
Arguments handle_conn {V T}.
Arguments handle_all {V T}.
Arguments deliveries {V T}.
Arguments accept_conn {V T}.
Arguments local_send {V T}.
Arguments local_send_all {V T}.
Arguments local_handle {V T}.
