(* C17 PROOFS about the model of Net/Peers.v and the reference checker of
   Net/PeersSpec.v.  Everything is for all histories (lists of operations) and
   for every id-derivation function [idk]; nothing is bounded. *)
From Coq Require Import List Arith Bool Lia.
Import ListNotations.
From Onet Require Import Base.Corr Net.Peers Net.PeersSpec.

(* ------------------------------------------------------------------------ *)
(* basic facts                                                               *)

Lemma natlist_eqb_spec a b : natlist_eqb a b = true <-> a = b.
Proof.
  revert b; induction a as [|x a IH]; intros [|y b]; simpl; split; intros H;
    try reflexivity; try discriminate.
  - apply andb_true_iff in H as [H1 H2]. apply Nat.eqb_eq in H1. apply IH in H2. congruence.
  - injection H as -> ->. rewrite Nat.eqb_refl. simpl. now apply IH.
Qed.

Lemma sid_eqb_spec a b : sid_eqb a b = true <-> a = b.
Proof.
  destruct a as [x|s x], b as [y|t y]; simpl; split; intros H; try discriminate.
  - apply natlist_eqb_spec in H. congruence.
  - injection H as ->. now apply natlist_eqb_spec.
  - apply andb_true_iff in H as [H1 H2]. apply Nat.eqb_eq in H1.
    apply natlist_eqb_spec in H2. congruence.
  - injection H as -> ->. rewrite Nat.eqb_refl. simpl. now apply natlist_eqb_spec.
Qed.

Lemma sid_eqb_refl a : sid_eqb a a = true.
Proof. now apply sid_eqb_spec. Qed.

Lemma sid_eqb_neq a b : sid_eqb a b = false <-> a <> b.
Proof.
  split.
  - intros H E. apply sid_eqb_spec in E. congruence.
  - intros H. destruct (sid_eqb a b) eqn:E; [|reflexivity]. apply sid_eqb_spec in E. contradiction.
Qed.

Lemma sid_eqb_sym a b : sid_eqb a b = sid_eqb b a.
Proof.
  destruct (sid_eqb a b) eqn:E.
  - apply sid_eqb_spec in E. subst. now rewrite sid_eqb_refl.
  - symmetry. apply sid_eqb_neq. apply sid_eqb_neq in E. congruence.
Qed.

Lemma mem_In x l : mem x l = true <-> In x l.
Proof.
  unfold mem. rewrite existsb_exists. split.
  - intros [y [Hy E]]. apply Nat.eqb_eq in E. now subst.
  - intros H. exists x. split; [assumption|apply Nat.eqb_refl].
Qed.

Lemma mem_false x l : mem x l = false <-> ~ In x l.
Proof.
  split.
  - intros H HI. apply mem_In in HI. congruence.
  - intros H. destruct (mem x l) eqn:E; [|reflexivity]. apply mem_In in E. contradiction.
Qed.

Lemma mkset_In x l : In x (mkset l) <-> In x l.
Proof.
  induction l as [|y r IH]; simpl; [tauto|].
  destruct (mem y r) eqn:E.
  - rewrite IH. split; [tauto|]. intros [<-|H]; [now apply mem_In|assumption].
  - simpl. rewrite IH. tauto.
Qed.

Lemma mkset_NoDup l : NoDup (mkset l).
Proof.
  induction l as [|y r IH]; simpl; [constructor|].
  destruct (mem y r) eqn:E; [assumption|].
  constructor; [|assumption]. rewrite mkset_In. now apply mem_false.
Qed.

(* pad = truncate to n, then fill with zeros *)
Lemma pad_spec n l : pad n l = firstn n l ++ repeat 0 (n - length l).
Proof.
  revert l; induction n as [|n IH]; intros l; simpl; [now destruct l|].
  destruct l as [|x r]; simpl.
  - rewrite IH, firstn_nil. simpl. now rewrite Nat.sub_0_r.
  - now rewrite IH.
Qed.

Lemma pad_length n l : length (pad n l) = n.
Proof. revert l; induction n as [|n IH]; intros [|x r]; simpl; auto. Qed.

(* ------------------------------------------------------------------------ *)
(* set identifiers (context.go:327-337, router.go:73-79)                     *)

Lemma src_sid_raw_eq a b : src_sid (DRaw a) = src_sid (DRaw b) <-> pad 32 a = pad 32 b.
Proof. simpl. split; [now injection 1|now intros ->]. Qed.

Lemma src_sid_ctx_eq s a t b : src_sid (DCtx s a) = src_sid (DCtx t b) <-> s = t /\ a = b.
Proof. simpl. split; [injection 1; auto|now intros [-> ->]]. Qed.

Lemma src_sid_raw_ctx a s b : src_sid (DRaw a) <> src_sid (DCtx s b).
Proof. simpl. discriminate. Qed.

(* Context-derived ids, with the hash as an arbitrary function: service ids have a
   fixed length (16 bytes), so (service id, data) -> pre-image is injective -- every
   byte of the data and the whole service id enter the hash -- and two derivations
   give the same id only for the same (service, data) or by a collision of the
   (truncated) hash on two DIFFERENT pre-images.  This is what the injective
   constructor [SHash] of the model abbreviates. *)
Lemma ctx_preimage_injective s1 d1 s2 d2 :
  length s1 = length s2 -> ctx_preimage s1 d1 = ctx_preimage s2 d2 -> s1 = s2 /\ d1 = d2.
Proof.
  unfold ctx_preimage. revert s2. induction s1 as [|x s1 IH]; intros [|y s2] L E; simpl in *; try discriminate.
  - auto.
  - injection E as -> E. injection L as L. destruct (IH s2 L E) as [-> ->]. auto.
Qed.

Lemma ctx_id_eq_or_collision (H : list nat -> list nat) s1 d1 s2 d2 :
  length s1 = length s2 ->
  ctx_id H s1 d1 = ctx_id H s2 d2 ->
  (s1 = s2 /\ d1 = d2) \/
  (ctx_preimage s1 d1 <> ctx_preimage s2 d2 /\
   pad 32 (H (ctx_preimage s1 d1)) = pad 32 (H (ctx_preimage s2 d2))).
Proof.
  intros L E. destruct (list_eq_dec Nat.eq_dec (ctx_preimage s1 d1) (ctx_preimage s2 d2)) as [P|P].
  - left. now apply ctx_preimage_injective.
  - right. split; [assumption|exact E].
Qed.

(* e.g. two services with the same 32-byte data, and data sharing a 32-byte prefix,
   have different pre-images (so different ids unless the hash collides) *)
Example ctx_preimages_differ :
  let a := repeat 1 16 in let b := repeat 2 16 in
  ctx_preimage a (seq 1 32) <> ctx_preimage b (seq 1 32) /\
  ctx_preimage a (seq 1 32) <> ctx_preimage a (seq 1 33).
Proof. split; vm_compute; discriminate. Qed.

(* the derivation of raw ids is NOT injective: zero padding and truncation *)
Lemma raw_sid_collisions :
  src_sid (DRaw []) = src_sid (DRaw [0]) /\
  src_sid (DRaw [1]) = src_sid (DRaw [1; 0]) /\
  src_sid (DRaw (seq 1 32)) = src_sid (DRaw (seq 1 33)).
Proof. repeat split; vm_compute; reflexivity. Qed.

Section Proofs.
  Variable idk : nat -> nat.

  Notation fid := (fid idk).
  Notation vp_set := (vp_set idk).
  Notation vp_valid := (vp_valid idk).
  Notation step := (step idk).
  Notation exec := (exec idk).
  Notation run := (run idk).
  Notation outs := (outs idk).

  (* ---------------------------------------------------------------------- *)
  (* the map                                                                  *)

  Definition wf (m : vpmap) : Prop := NoDup (map fst m).

  Lemma lookup_upd_same m s v : lookup (upd m s v) s = Some v.
  Proof.
    induction m as [|[s' v'] r IH]; simpl.
    - now rewrite sid_eqb_refl.
    - destruct (sid_eqb s s') eqn:E; simpl.
      + now rewrite sid_eqb_refl.
      + now rewrite E.
  Qed.

  Lemma lookup_upd_other m s v s' : s' <> s -> lookup (upd m s v) s' = lookup m s'.
  Proof.
    intros N. induction m as [|[s0 v0] r IH]; simpl.
    - apply sid_eqb_neq in N. now rewrite N.
    - destruct (sid_eqb s s0) eqn:E; simpl.
      + apply sid_eqb_spec in E. subst s0. apply sid_eqb_neq in N. now rewrite N.
      + destruct (sid_eqb s' s0); [reflexivity|assumption].
  Qed.

  Lemma upd_keys m s v x : In x (map fst (upd m s v)) <-> x = s \/ In x (map fst m).
  Proof.
    induction m as [|[s0 v0] r IH]; simpl.
    - split; [intros [<-|[]]; auto|intros [->|[]]; auto].
    - destruct (sid_eqb s s0) eqn:E; simpl.
      + apply sid_eqb_spec in E. subst s0. split; [intros [<-|H]; auto|intros [->|[<-|H]]; auto].
      + rewrite IH. split; [intros [<-|[->|H]]; auto|intros [->|[<-|H]]; auto].
  Qed.

  Lemma upd_wf m s v : wf m -> wf (upd m s v).
  Proof.
    unfold wf. induction m as [|[s0 v0] r IH]; simpl; intros H.
    - constructor; [intros []|constructor].
    - inversion H as [|? ? Hn Hr]; subst. destruct (sid_eqb s s0) eqn:E; simpl.
      + apply sid_eqb_spec in E. subst s0. now constructor.
      + constructor; [|now apply IH]. rewrite upd_keys. intros [->|Hi]; [|contradiction].
        now rewrite sid_eqb_refl in E.
  Qed.

  Lemma lookup_In m s v : lookup m s = Some v -> In (s, v) m.
  Proof.
    induction m as [|[s0 v0] r IH]; simpl; [discriminate|].
    destruct (sid_eqb s s0) eqn:E.
    - apply sid_eqb_spec in E. subst. injection 1 as ->. now left.
    - intros H. right. now apply IH.
  Qed.

  Lemma In_lookup m s v : wf m -> In (s, v) m -> lookup m s = Some v.
  Proof.
    unfold wf. induction m as [|[s0 v0] r IH]; simpl; [intros _ []|].
    intros H [E|Hi].
    - injection E as -> ->. now rewrite sid_eqb_refl.
    - inversion H as [|? ? Hn Hr]; subst. destruct (sid_eqb s s0) eqn:E.
      + apply sid_eqb_spec in E. subst s0. exfalso. apply Hn.
        change s with (fst (s, v)). now apply in_map.
      + now apply IH.
  Qed.

  Lemma lookup_None_keys m s : lookup m s = None <-> ~ In s (map fst m).
  Proof.
    induction m as [|[s0 v0] r IH]; simpl; [tauto|].
    destruct (sid_eqb s s0) eqn:E.
    - apply sid_eqb_spec in E. subst. split; [discriminate|]. intros H. exfalso. auto.
    - apply sid_eqb_neq in E. rewrite IH. split; [intros H [X|X]; [congruence|auto]|tauto].
  Qed.

  (* ---------------------------------------------------------------------- *)
  (* T1: who is valid                                                          *)

  (* validity is membership of the id the filter consults in some current set
     (or no set at all); for the fixed variant that id is the key's *)
  Lemma valid_iff fx v i : (match v with Some m => wf m | None => True end) ->
    vp_valid fx v i = true <->
    v = None \/ exists s l, vp_get v s = Some l /\ In (fid fx i) l.
  Proof.
    intros W. destruct v as [m|]; simpl; [|tauto]. split.
    - intros H. right. apply existsb_exists in H as [[s l] [Hi Hm]]. simpl in Hm.
      exists s, l. rewrite (In_lookup _ _ _ W Hi). split; [reflexivity|now apply mem_In].
    - intros [H|[s [l [Hg Hi]]]]; [discriminate|].
      destruct (lookup m s) as [l'|] eqn:E.
      + injection Hg as ->. apply existsb_exists. exists (s, l). split; [now apply lookup_In|].
        simpl. now apply mem_In.
      + injection Hg as <-. destruct Hi.
  Qed.

  Corollary valid_iff_key v i : (match v with Some m => wf m | None => True end) ->
    vp_valid true v i = true <->
    v = None \/ exists s l, vp_get v s = Some l /\ In (idk (ikey i)) l.
  Proof. exact (valid_iff true v i). Qed.

  (* what the peer declares is irrelevant for the fixed variant *)
  Lemma valid_fixed_ignores_declared v k d d' :
    vp_valid true v (mkIdent k d) = vp_valid true v (mkIdent k d').
  Proof. reflexivity. Qed.

  (* ---------------------------------------------------------------------- *)
  (* T2: set is local                                                          *)

  Lemma set_get_same fx v s peers :
    exists l, vp_get (vp_set fx v s peers) s = Some l /\ NoDup l /\
              forall x, In x l <-> In x (map (fid fx) peers).
  Proof.
    exists (mkset (map (fid fx) peers)). unfold Peers.vp_set. simpl. rewrite lookup_upd_same.
    split; [reflexivity|]. split; [apply mkset_NoDup|]. intros x. apply mkset_In.
  Qed.

  Lemma set_get_other fx m s peers s' : s' <> s ->
    vp_get (vp_set fx (Some m) s peers) s' = vp_get (Some m) s'.
  Proof. intros N. unfold Peers.vp_set. simpl. now rewrite lookup_upd_other. Qed.

  (* the very first set turns "everyone" into "nobody" for every other identifier *)
  Lemma set_get_other_first fx s peers s' : s' <> s ->
    vp_get None s' = None /\ vp_get (vp_set fx None s peers) s' = Some [].
  Proof.
    intros N. split; [reflexivity|]. unfold Peers.vp_set. simpl.
    apply sid_eqb_neq in N. now rewrite N.
  Qed.

  Lemma set_wf fx v s peers : (match v with Some m => wf m | None => True end) ->
    match vp_set fx v s peers with Some m => wf m | None => True end.
  Proof.
    intros W. unfold Peers.vp_set. apply upd_wf. destruct v; [assumption|constructor].
  Qed.

  (* members of the other sets stay valid when one set is replaced *)
  Lemma set_keeps_other_members fx m s peers s' l i : wf m -> s' <> s ->
    vp_get (Some m) s' = Some l -> In (fid fx i) l ->
    vp_valid fx (vp_set fx (Some m) s peers) i = true.
  Proof.
    intros W N Hg Hi.
    apply (valid_iff fx (vp_set fx (Some m) s peers) i).
    - now apply (set_wf fx (Some m)).
    - right. exists s', l. split; [|assumption]. now rewrite set_get_other.
  Qed.

  (* and after a replacement a peer is valid exactly if it is in the new set or
     in one of the untouched ones *)
  Lemma set_valid_iff fx m s peers i : wf m ->
    vp_valid fx (vp_set fx (Some m) s peers) i = true <->
    In (fid fx i) (map (fid fx) peers) \/
    exists s' l, s' <> s /\ vp_get (Some m) s' = Some l /\ In (fid fx i) l.
  Proof.
    intros W. rewrite (valid_iff fx (vp_set fx (Some m) s peers) i) by now apply (set_wf fx (Some m)).
    split.
    - intros [H|[s' [l [Hg Hi]]]]; [discriminate|].
      destruct (sid_eqb s' s) eqn:E.
      + apply sid_eqb_spec in E. subst s'. left.
        destruct (set_get_same fx (Some m) s peers) as [l' [Hg' [_ Hl']]].
        rewrite Hg in Hg'. injection Hg' as <-. now apply Hl'.
      + apply sid_eqb_neq in E. right. exists s', l. rewrite set_get_other in Hg by assumption. auto.
    - intros [H|[s' [l [N [Hg Hi]]]]]; right.
      + destruct (set_get_same fx (Some m) s peers) as [l' [Hg' [_ Hl']]].
        exists s, l'. split; [assumption|now apply Hl'].
      + exists s', l. split; [now rewrite set_get_other|assumption].
  Qed.

  (* Set operations on DIFFERENT identifiers commute: whatever the order, every
     identifier reads the same and every identity is judged the same.  (The two
     maps may list their entries in a different order; nothing observable depends on
     it.)  Hence the outcome of a group of concurrent SetValidPeers calls on pairwise
     different identifiers is order-independent, and the correspondence compares
     such a group with the model run in index order. *)
  Lemma set_commute fx v s1 p1 s2 p2 :
    s1 <> s2 -> (match v with Some m => wf m | None => True end) ->
    (forall s, vp_get (vp_set fx (vp_set fx v s1 p1) s2 p2) s =
               vp_get (vp_set fx (vp_set fx v s2 p2) s1 p1) s) /\
    (forall i, vp_valid fx (vp_set fx (vp_set fx v s1 p1) s2 p2) i =
               vp_valid fx (vp_set fx (vp_set fx v s2 p2) s1 p1) i).
  Proof.
    intros N W.
    assert (G : forall s, vp_get (vp_set fx (vp_set fx v s1 p1) s2 p2) s =
                          vp_get (vp_set fx (vp_set fx v s2 p2) s1 p1) s).
    { intros s. unfold Peers.vp_set. simpl.
      destruct (sid_eqb s s1) eqn:E1; destruct (sid_eqb s s2) eqn:E2.
      - apply sid_eqb_spec in E1. apply sid_eqb_spec in E2. congruence.
      - apply sid_eqb_spec in E1. subst s. apply sid_eqb_neq in E2.
        now rewrite lookup_upd_other, !lookup_upd_same by assumption.
      - apply sid_eqb_spec in E2. subst s. apply sid_eqb_neq in E1.
        now rewrite lookup_upd_same, lookup_upd_other, lookup_upd_same by assumption.
      - apply sid_eqb_neq in E1. apply sid_eqb_neq in E2.
        now rewrite !lookup_upd_other by assumption. }
    split; [exact G|]. intros i. apply eq_true_iff_eq.
    assert (W1 : forall a pa b pb, match vp_set fx (vp_set fx v a pa) b pb with Some m => wf m | None => True end).
    { intros a pa b pb. apply set_wf. now apply set_wf. }
    rewrite (valid_iff fx (vp_set fx (vp_set fx v s1 p1) s2 p2) i (W1 s1 p1 s2 p2)),
            (valid_iff fx (vp_set fx (vp_set fx v s2 p2) s1 p1) i (W1 s2 p2 s1 p1)).
    split; (intros [H|[s [l [Hg Hi]]]]; [discriminate|right; exists s, l; split; [|assumption]]).
    - now rewrite <- G.
    - now rewrite G.
  Qed.

  Lemma set_local fx m s peers : wf m ->
    (exists l, vp_get (vp_set fx (Some m) s peers) s = Some l /\ NoDup l /\
               forall x, In x l <-> In x (map (fid fx) peers)) /\
    (forall s', s' <> s -> vp_get (vp_set fx (Some m) s peers) s' = vp_get (Some m) s') /\
    (forall i, vp_valid fx (vp_set fx (Some m) s peers) i = true <->
       In (fid fx i) (map (fid fx) peers) \/
       exists s' l, s' <> s /\ vp_get (Some m) s' = Some l /\ In (fid fx i) l).
  Proof.
    intros W. split; [|split].
    - exact (set_get_same fx (Some m) s peers).
    - intros s' N. exact (set_get_other fx m s peers s' N).
    - intros i. exact (set_valid_iff fx m s peers i W).
  Qed.

  (* ---------------------------------------------------------------------- *)
  (* histories                                                                 *)

  Lemma exec_app fx s a b :
    exec fx s (a ++ b) =
    (fst (exec fx (fst (exec fx s a)) b), snd (exec fx s a) ++ snd (exec fx (fst (exec fx s a)) b)).
  Proof.
    revert s; induction a as [|o a IH]; intros s; simpl.
    - now destruct (exec fx s b).
    - destruct (step fx s o) as [s1 x]. rewrite IH.
      destruct (exec fx s1 a) as [s2 xs]. simpl.
      now destruct (exec fx s2 b).
  Qed.

  Lemma run_snoc fx ops o : run fx (ops ++ [o]) = fst (step fx (run fx ops) o).
  Proof.
    unfold Peers.run. rewrite exec_app. simpl.
    now destruct (step fx (fst (exec fx (init) ops)) o).
  Qed.

  Lemma outs_snoc fx ops o : outs fx (ops ++ [o]) = outs fx ops ++ [snd (step fx (run fx ops) o)].
  Proof.
    unfold Peers.outs, Peers.run. rewrite exec_app. simpl.
    now destruct (step fx (fst (exec fx (init) ops)) o).
  Qed.

  Lemma step_n fx s o : st_n (fst (step fx s o)) = S (st_n s).
  Proof.
    destruct o; simpl; try reflexivity.
    - now destruct (vp_valid fx (st_vp s) i).
    - destruct (mem p (st_pconn s)); [reflexivity|].
      now destruct (vp_valid fx (st_vp s) (honest_ident idk p)).
  Qed.

  Lemma run_n fx ops : st_n (run fx ops) = length ops.
  Proof.
    induction ops as [|o ops IH] using rev_ind; [reflexivity|].
    rewrite run_snoc, step_n, IH, app_length. simpl. lia.
  Qed.

  Lemma outs_length fx ops : length (outs fx ops) = length ops.
  Proof.
    induction ops as [|o ops IH] using rev_ind; [reflexivity|].
    rewrite outs_snoc, !app_length, IH. reflexivity.
  Qed.

  (* the outcome of the n-th operation is the step from the state after the first n *)
  Lemma outs_nth fx ops n o : nth_error ops n = Some o ->
    nth_error (outs fx ops) n = Some (snd (step fx (run fx (firstn n ops)) o)).
  Proof.
    revert n o. induction ops as [|o' ops IH] using rev_ind; intros n o H.
    - now destruct n.
    - rewrite outs_snoc. destruct (Nat.lt_ge_cases n (length ops)) as [L|L].
      + rewrite nth_error_app1 in H by assumption.
        rewrite nth_error_app1 by now rewrite outs_length.
        rewrite firstn_app. replace (n - length ops) with 0 by lia. simpl. rewrite app_nil_r.
        now apply IH.
      + assert (n = length ops) as ->.
        { apply nth_error_Some_lt in H || (assert (n < length (ops ++ [o'])) by (apply nth_error_Some; congruence);
          rewrite app_length in *; simpl in *; lia). }
        rewrite nth_error_app2 in H by lia. rewrite Nat.sub_diag in H. simpl in H. injection H as ->.
        rewrite nth_error_app2 by (rewrite outs_length; lia). rewrite outs_length, Nat.sub_diag. simpl.
        rewrite firstn_app, Nat.sub_diag, firstn_all. simpl. now rewrite app_nil_r.
  Qed.

  Lemma find_conn_In l c i : find_conn l c = Some i -> In (c, i) l.
  Proof.
    induction l as [|[c' i'] r IH]; simpl; [discriminate|].
    destruct (c =? c') eqn:E.
    - apply Nat.eqb_eq in E. subst. injection 1 as ->. now left.
    - intros H. right. now apply IH.
  Qed.

  Lemma In_del_conn l c c' i : In (c', i) (del_conn l c) -> In (c', i) l.
  Proof. unfold del_conn. intros H. now apply filter_In in H as [H _]. Qed.

  Lemma In_del_peer l p q : In q (del_peer l p) -> In q l.
  Proof. unfold del_peer. intros H. now apply filter_In in H as [H _]. Qed.

  (* reachable maps are well formed *)
  Lemma run_wf fx ops : match st_vp (run fx ops) with Some m => wf m | None => True end.
  Proof.
    induction ops as [|o ops IH] using rev_ind; [exact I|].
    rewrite run_snoc. destruct o; simpl; try assumption.
    - now apply set_wf.
    - now destruct (vp_valid fx (st_vp (run fx ops)) i).
    - destruct (mem p (st_pconn (run fx ops))); [assumption|].
      now destruct (vp_valid fx (st_vp (run fx ops)) (honest_ident idk p)).
  Qed.

  (* ---------------------------------------------------------------------- *)
  (* T3: the invariant behind "refused is never dispatched"                    *)

  (* every registered connection was offered at its position by the identity it
     is attributed to, at a moment when the filter found that identity valid *)
  Definition conns_justified fx (ops : list op) (s : state) : Prop :=
    forall c i, In (c, i) (st_conns s) ->
      c < length ops /\ nth_error ops c = Some (OOffer i) /\
      vp_valid fx (st_vp (run fx (firstn c ops))) i = true.

  Definition pconn_justified fx (ops : list op) (s : state) : Prop :=
    forall p, In p (st_pconn s) ->
      exists c m, c < length ops /\ nth_error ops c = Some (OPeerSend p m) /\
        vp_valid fx (st_vp (run fx (firstn c ops))) (honest_ident idk p) = true.

  Lemma firstn_snoc_le {A} (l : list A) x c : c <= length l -> firstn c (l ++ [x]) = firstn c l.
  Proof.
    intros L. rewrite firstn_app. replace (c - length l) with 0 by lia. simpl. apply app_nil_r.
  Qed.

  Lemma invariant fx ops :
    conns_justified fx ops (run fx ops) /\ pconn_justified fx ops (run fx ops).
  Proof.
    induction ops as [|o ops [IC IP]] using rev_ind.
    - split; [intros c i H|intros p H]; destruct H.
    - assert (LIFTC : forall c i, In (c, i) (st_conns (run fx ops)) ->
               c < length (ops ++ [o]) /\ nth_error (ops ++ [o]) c = Some (OOffer i) /\
               vp_valid fx (st_vp (run fx (firstn c (ops ++ [o])))) i = true).
      { intros c i H. destruct (IC c i H) as [L [N V]].
        rewrite app_length, nth_error_app1, firstn_snoc_le by lia. simpl. repeat split; auto; lia. }
      assert (LIFTP : forall p, In p (st_pconn (run fx ops)) ->
               exists c m, c < length (ops ++ [o]) /\ nth_error (ops ++ [o]) c = Some (OPeerSend p m) /\
               vp_valid fx (st_vp (run fx (firstn c (ops ++ [o])))) (honest_ident idk p) = true).
      { intros p H. destruct (IP p H) as [c [m [L [N V]]]]. exists c, m.
        rewrite app_length, nth_error_app1, firstn_snoc_le by lia. simpl. repeat split; auto; lia. }
      pose proof (run_n fx ops) as HN.
      rewrite run_snoc. destruct o as [e d ps|e d|i| |c m|c|p m|p]; simpl.
      + split; [exact LIFTC|exact LIFTP].
      + split; [exact LIFTC|exact LIFTP].
      + destruct (vp_valid fx (st_vp (run fx ops)) i) eqn:V; simpl.
        * split; [|exact LIFTP]. intros c i' [E|H]; [|now apply LIFTC].
          injection E as <- <-. rewrite HN, app_length, nth_error_app2, Nat.sub_diag by lia. simpl.
          rewrite firstn_app, Nat.sub_diag, firstn_all. simpl. rewrite app_nil_r.
          repeat split; auto; lia.
        * split; [exact LIFTC|exact LIFTP].
      + split; [exact LIFTC|exact LIFTP].
      + split; [exact LIFTC|exact LIFTP].
      + split; [|exact LIFTP]. intros c' i H. apply In_del_conn in H. now apply LIFTC.
      + destruct (mem p (st_pconn (run fx ops))) eqn:M; simpl; [split; [exact LIFTC|exact LIFTP]|].
        destruct (vp_valid fx (st_vp (run fx ops)) (honest_ident idk p)) eqn:V; simpl.
        * split; [exact LIFTC|]. intros q [<-|H]; [|now apply LIFTP].
          exists (length ops), m. rewrite app_length, nth_error_app2, Nat.sub_diag by lia. simpl.
          rewrite firstn_app, Nat.sub_diag, firstn_all. simpl. rewrite app_nil_r.
          repeat split; auto; lia.
        * split; [exact LIFTC|exact LIFTP].
      + split; [exact LIFTC|]. intros q H. apply In_del_peer in H. now apply LIFTP.
  Qed.

  Lemma firstn_firstn_lt {A} (l : list A) c n : c <= n -> firstn c (firstn n l) = firstn c l.
  Proof. intros L. rewrite firstn_firstn. now rewrite Nat.min_l. Qed.

  Lemma nth_error_firstn_lt {A} (l : list A) c n : c < n -> nth_error (firstn n l) c = nth_error l c.
  Proof.
    revert c l; induction n as [|n IH]; intros c l L; [lia|].
    destruct l as [|x r]; [now destruct c|]. destruct c as [|c]; simpl; [reflexivity|]. apply IH. lia.
  Qed.

  (* A message is dispatched only if its connection was offered earlier, by the
     identity the message is attributed to, at a moment when the filter
     accepted that identity. *)
  Theorem dispatched_only_if_valid_at_offer fx ops n c m k d :
    nth_error ops n = Some (OMsg c m) ->
    nth_error (outs fx ops) n = Some (XDisp k d) ->
    exists i, c < n /\ nth_error ops c = Some (OOffer i) /\
              vp_valid fx (st_vp (run fx (firstn c ops))) i = true /\
              k = ikey i /\ d = idecl i.
  Proof.
    intros Hop Hout. rewrite (outs_nth fx ops n _ Hop) in Hout. simpl in Hout.
    destruct (find_conn (st_conns (run fx (firstn n ops))) c) as [i|] eqn:F; [|discriminate].
    injection Hout as <- <-. exists i.
    destruct (invariant fx (firstn n ops)) as [IC _].
    destruct (IC c i (find_conn_In _ _ _ F)) as [L [N V]].
    assert (n <= length ops) by (apply Nat.lt_le_incl, nth_error_Some; congruence).
    rewrite firstn_length_le in L by assumption.
    rewrite nth_error_firstn_lt in N by assumption.
    rewrite firstn_firstn_lt in V by lia. auto.
  Qed.

  (* same for the sends of a peer's own router: dispatched only if that router
     offered a connection, now or earlier, while the peer was valid *)
  Theorem peer_dispatched_only_if_valid_at_offer fx ops n p m k d :
    nth_error ops n = Some (OPeerSend p m) ->
    nth_error (outs fx ops) n = Some (XDisp k d) ->
    k = p /\ d = idk p /\
    exists c m', c <= n /\ nth_error ops c = Some (OPeerSend p m') /\
      vp_valid fx (st_vp (run fx (firstn c ops))) (honest_ident idk p) = true.
  Proof.
    intros Hop Hout. rewrite (outs_nth fx ops n _ Hop) in Hout. simpl in Hout.
    assert (LE : n <= length ops) by (apply Nat.lt_le_incl, nth_error_Some; congruence).
    destruct (mem p (st_pconn (run fx (firstn n ops)))) eqn:M; simpl in Hout.
    - injection Hout as <- <-. repeat split.
      destruct (invariant fx (firstn n ops)) as [_ IP].
      apply mem_In in M. destruct (IP p M) as [c [m' [L [N V]]]].
      rewrite firstn_length_le in L by assumption.
      rewrite nth_error_firstn_lt in N by assumption.
      rewrite firstn_firstn_lt in V by lia. exists c, m'. repeat split; auto; lia.
    - destruct (vp_valid fx (st_vp (run fx (firstn n ops))) (honest_ident idk p)) eqn:V;
        simpl in Hout; [|discriminate].
      injection Hout as <- <-. repeat split. exists n, m. auto.
  Qed.

  (* A connection offered by an identity the filter rejects is refused, and no
     message written on it is ever dispatched. *)
  Theorem refused_never_dispatched fx ops c i :
    nth_error ops c = Some (OOffer i) ->
    vp_valid fx (st_vp (run fx (firstn c ops))) i = false ->
    nth_error (outs fx ops) c = Some XRefuse /\
    forall n m, nth_error ops n = Some (OMsg c m) -> nth_error (outs fx ops) n = Some XNone.
  Proof.
    intros Hop V. split.
    - rewrite (outs_nth fx ops c _ Hop). simpl. now rewrite V.
    - intros n m Hm. pose proof (outs_nth fx ops n _ Hm) as E. simpl in E.
      destruct (find_conn (st_conns (run fx (firstn n ops))) c) as [i'|] eqn:F; [|assumption].
      exfalso. destruct (invariant fx (firstn n ops)) as [IC _].
      destruct (IC c i' (find_conn_In _ _ _ F)) as [L [N V']].
      assert (n <= length ops) by (apply Nat.lt_le_incl, nth_error_Some; congruence).
      rewrite firstn_length_le in L by assumption.
      rewrite nth_error_firstn_lt in N by assumption.
      rewrite firstn_firstn_lt in V' by lia. congruence.
  Qed.

  Theorem junk_never_dispatched fx ops c :
    nth_error ops c = Some OOfferJunk ->
    nth_error (outs fx ops) c = Some XRefuse /\
    forall n m, nth_error ops n = Some (OMsg c m) -> nth_error (outs fx ops) n = Some XNone.
  Proof.
    intros Hop. split.
    - now rewrite (outs_nth fx ops c _ Hop).
    - intros n m Hm. pose proof (outs_nth fx ops n _ Hm) as E. simpl in E.
      destruct (find_conn (st_conns (run fx (firstn n ops))) c) as [i'|] eqn:F; [|assumption].
      exfalso. destruct (invariant fx (firstn n ops)) as [IC _].
      destruct (IC c i' (find_conn_In _ _ _ F)) as [L [N V']].
      assert (n <= length ops) by (apply Nat.lt_le_incl, nth_error_Some; congruence).
      rewrite firstn_length_le in L by assumption.
      rewrite nth_error_firstn_lt in N by assumption. congruence.
  Qed.

  (* ---------------------------------------------------------------------- *)
  (* T4: valid peers are served                                                *)

  Definition not_close (c : nat) (o : op) : Prop := o <> OClose c.

  Lemma find_conn_del_other l c c' i : c <> c' -> find_conn l c = Some i ->
    find_conn (del_conn l c') c = Some i.
  Proof.
    intros N. induction l as [|[c0 i0] r IH]; simpl; [discriminate|].
    destruct (c =? c0) eqn:E.
    - apply Nat.eqb_eq in E. subst c0. injection 1 as ->.
      destruct (c =? c') eqn:E'; [apply Nat.eqb_eq in E'; contradiction|]. simpl.
      now rewrite Nat.eqb_refl.
    - intros H. destruct (negb (c0 =? c')); simpl; [rewrite E|]; now apply IH.
  Qed.

  Lemma conn_persists fx c i mid : forall s,
    find_conn (st_conns s) c = Some i -> c < st_n s ->
    Forall (not_close c) mid ->
    find_conn (st_conns (fst (exec fx s mid))) c = Some i.
  Proof.
    induction mid as [|o mid IH]; intros s F L NC; [assumption|].
    inversion NC as [|? ? No Nr]; subst. simpl.
    destruct (step fx s o) as [s1 x] eqn:S.
    specialize (IH s1). destruct (exec fx s1 mid) as [s2 xs] eqn:E. simpl. simpl in IH.
    assert (s1 = fst (step fx s o)) as E1 by now rewrite S.
    apply IH; [| rewrite E1, step_n; lia | assumption].
    rewrite E1. clear IH E S E1 Nr NC.
    destruct o as [e d ps|e d|i'| |c' m|c'|p m|p]; simpl; try assumption.
    - destruct (vp_valid fx (st_vp s) i'); simpl; [|assumption].
      destruct (c =? st_n s) eqn:E; [apply Nat.eqb_eq in E; lia|assumption].
    - apply find_conn_del_other; [|assumption]. intros ->. now apply No.
    - destruct (mem p (st_pconn s)); [assumption|].
      now destruct (vp_valid fx (st_vp s) (honest_ident idk p)).
  Qed.

  (* A peer the filter finds valid when it offers a connection is accepted, and
     every message it then writes on that connection is dispatched, attributed
     to it, until the peer closes the connection -- whatever happens to the
     sets in between. *)
  Theorem valid_offer_served fx pre i mid m post :
    vp_valid fx (st_vp (run fx pre)) i = true ->
    Forall (not_close (length pre)) mid ->
    let ops := pre ++ OOffer i :: mid ++ OMsg (length pre) m :: post in
    nth_error (outs fx ops) (length pre) = Some XAccept /\
    nth_error (outs fx ops) (length pre + 1 + length mid) = Some (XDisp (ikey i) (idecl i)).
  Proof.
    intros V NC ops. split.
    - rewrite (outs_nth fx ops (length pre) (OOffer i)).
      + unfold ops. rewrite firstn_app, Nat.sub_diag, firstn_all. simpl. rewrite app_nil_r. now rewrite V.
      + unfold ops. rewrite nth_error_app2, Nat.sub_diag by lia. reflexivity.
    - rewrite (outs_nth fx ops _ (OMsg (length pre) m)).
      + replace (firstn (length pre + 1 + length mid) ops) with ((pre ++ [OOffer i]) ++ mid).
        2:{ unfold ops. replace (pre ++ OOffer i :: mid ++ OMsg (length pre) m :: post)
              with (((pre ++ [OOffer i]) ++ mid) ++ OMsg (length pre) m :: post)
              by (rewrite <- !app_assoc; reflexivity).
            rewrite firstn_app. replace (length pre + 1 + length mid) with (length ((pre ++ [OOffer i]) ++ mid))
              by (rewrite !app_length; simpl; lia).
            rewrite firstn_all, Nat.sub_diag. simpl. now rewrite app_nil_r. }
        unfold Peers.run. rewrite exec_app. simpl fst.
        fold (run fx (pre ++ [OOffer i])). simpl.
        rewrite (conn_persists fx (length pre) i mid); [reflexivity| | |assumption].
        * rewrite run_snoc. simpl. rewrite V. simpl. now rewrite run_n, Nat.eqb_refl.
        * rewrite run_n, app_length. simpl. lia.
      + unfold ops. rewrite nth_error_app2 by lia.
        replace (length pre + 1 + length mid - length pre) with (S (length mid)) by lia. simpl.
        rewrite nth_error_app2, Nat.sub_diag by lia. reflexivity.
  Qed.

  (* ---------------------------------------------------------------------- *)
  (* T5: before any set was given everybody is accepted                        *)

  Definition is_set (o : op) : bool := match o with OSet _ _ _ => true | _ => false end.

  Lemma no_set_vp_none fx ops : forallb (fun o => negb (is_set o)) ops = true ->
    st_vp (run fx ops) = None.
  Proof.
    induction ops as [|o ops IH] using rev_ind; intros H; [reflexivity|].
    rewrite forallb_app in H. apply andb_true_iff in H as [H1 H2]. simpl in H2.
    rewrite run_snoc. specialize (IH H1).
    destruct o; simpl in *; try assumption; try discriminate.
    - now destruct (vp_valid fx (st_vp (run fx ops)) i).
    - destruct (mem p (st_pconn (run fx ops))); [assumption|].
      now destruct (vp_valid fx (st_vp (run fx ops)) (honest_ident idk p)).
  Qed.

  Theorem before_any_set_everyone_accepted fx pre i post :
    forallb (fun o => negb (is_set o)) pre = true ->
    nth_error (outs fx (pre ++ OOffer i :: post)) (length pre) = Some XAccept.
  Proof.
    intros H. rewrite (outs_nth fx _ (length pre) (OOffer i)).
    - rewrite firstn_app, Nat.sub_diag, firstn_all. simpl. rewrite app_nil_r.
      now rewrite (no_set_vp_none fx pre H).
    - rewrite nth_error_app2, Nat.sub_diag by lia. reflexivity.
  Qed.

  (* once a set was given the map is never nil again *)
  Lemma set_given_vp_some fx ops : existsb is_set ops = true -> st_vp (run fx ops) <> None.
  Proof.
    induction ops as [|o ops IH] using rev_ind; intros H; [discriminate|].
    rewrite existsb_app in H. rewrite run_snoc.
    destruct o; simpl in *; try discriminate;
      try (rewrite orb_false_r in H; specialize (IH H)); try assumption.
    - now destruct (vp_valid fx (st_vp (run fx ops)) i).
    - destruct (mem p (st_pconn (run fx ops))); [assumption|].
      now destruct (vp_valid fx (st_vp (run fx ops)) (honest_ident idk p)).
  Qed.

  (* ---------------------------------------------------------------------- *)
  (* wrappers (context.go:311-325): the entry point is irrelevant              *)

  Lemma wrappers_are_the_routers fx s e e' d peers :
    step fx s (OSet e d peers) = step fx s (OSet e' d peers) /\
    step fx s (OGet e d) = step fx s (OGet e' d).
  Proof. split; reflexivity. Qed.

  (* ---------------------------------------------------------------------- *)
  (* honest histories: the pre-repair and the fixed variant coincide           *)

  Definition honest_b (i : ident) : bool := idecl i =? idk (ikey i).

  Definition op_honest (o : op) : bool :=
    match o with
    | OSet _ _ peers => forallb honest_b peers
    | OOffer i => honest_b i
    | _ => true
    end.

  Lemma fid_honest i : honest_b i = true -> fid false i = fid true i.
  Proof. unfold honest_b, Peers.fid. intros H. now apply Nat.eqb_eq in H. Qed.

  Lemma valid_honest v i : honest_b i = true -> vp_valid false v i = vp_valid true v i.
  Proof.
    intros H. destruct v as [m|]; simpl; [|reflexivity].
    pose proof (fid_honest i H) as E. unfold Peers.fid in E.
    induction m as [|e r IH]; simpl; [reflexivity|]. unfold Peers.fid. now rewrite IH, E.
  Qed.

  Lemma step_honest s o : op_honest o = true -> step false s o = step true s o.
  Proof.
    intros H. destruct o as [e d ps|e d|i| |c m|c|p m|p]; simpl in *; try reflexivity.
    - unfold Peers.vp_set. replace (map (fid false) ps) with (map (fid true) ps); [reflexivity|].
      apply map_ext_in. intros i Hi. symmetry. apply fid_honest.
      rewrite forallb_forall in H. now apply H.
    - now rewrite (valid_honest _ i H).
  Qed.

  Theorem honest_histories_fix_irrelevant ops : forallb op_honest ops = true ->
    forall s, exec false s ops = exec true s ops.
  Proof.
    induction ops as [|o ops IH]; intros H s; [reflexivity|].
    simpl in H. apply andb_true_iff in H as [H1 H2]. simpl.
    rewrite (step_honest s o H1). destruct (step true s o) as [s1 x]. now rewrite (IH H2).
  Qed.

  (* ---------------------------------------------------------------------- *)
  (* T6: the fixed model satisfies the property checker on EVERY history       *)

  Notation latest := PeersSpec.latest.
  Notation spec_valid := (PeersSpec.spec_valid idk).
  Notation cstep := (PeersSpec.cstep idk).
  Notation cwalk := (PeersSpec.cwalk idk).

  (* "last write wins" characterisation of the reference *)
  Lemma latest_spec l s v :
    latest l s = Some v <->
    exists pre post, l = pre ++ (s, v) :: post /\ ~ In s (map fst pre).
  Proof.
    induction l as [|[s0 v0] r IH]; simpl.
    - split; [discriminate|]. intros [pre [post [E _]]]. now destruct pre.
    - destruct (sid_eqb s s0) eqn:E.
      + apply sid_eqb_spec in E. subst s0. split.
        * injection 1 as ->. exists [], r. split; [reflexivity|intros []].
        * intros [pre [post [Eq N]]]. destruct pre as [|[s1 v1] pre]; simpl in Eq.
          -- now injection Eq as ->.
          -- injection Eq as -> -> _. exfalso. apply N. now left.
      + apply sid_eqb_neq in E. rewrite IH. split.
        * intros [pre [post [-> N]]]. exists ((s0, v0) :: pre), post. split; [reflexivity|].
          simpl. intros [X|X]; [congruence|contradiction].
        * intros [pre [post [Eq N]]]. destruct pre as [|[s1 v1] pre]; simpl in Eq.
          -- injection Eq as -> ->. contradiction.
          -- injection Eq as -> -> ->. exists pre, post. split; [reflexivity|]. intros X. apply N. now right.
  Qed.

  Lemma latest_keys l s : latest l s = None <-> ~ In s (map fst l).
  Proof.
    induction l as [|[s0 v0] r IH]; simpl; [tauto|].
    destruct (sid_eqb s s0) eqn:E.
    - apply sid_eqb_spec in E. subst. split; [discriminate|]. intros H. exfalso. auto.
    - apply sid_eqb_neq in E. rewrite IH. split; [intros H [X|X]; [congruence|auto]|tauto].
  Qed.

  Definition same_members (a b : list nat) : Prop := (forall x, In x a <-> In x b) /\ NoDup a.

  (* model map vs reference log *)
  Definition maps_agree (v : vp) (l : slog) : Prop :=
    match v with
    | None => l = []
    | Some m => l <> [] /\ wf m /\
                forall s, match lookup m s, latest l s with
                          | Some a, Some b => same_members a b
                          | None, None => True
                          | _, _ => False
                          end
    end.

  Lemma valid_agree v l k d : maps_agree v l ->
    vp_valid true v (mkIdent k d) = spec_valid l k.
  Proof.
    unfold PeersSpec.spec_valid. destruct v as [m|]; simpl.
    - intros [NE [W A]].
      assert (no_set_given l = false) as -> by (destruct l; [congruence|reflexivity]).
      rewrite orb_false_l. apply eq_true_iff_eq. unfold in_some_set.
      rewrite !existsb_exists. split.
      + intros [[s a] [Hi Hm]]. simpl in Hm. apply mem_In in Hm.
        pose proof (In_lookup _ _ _ W Hi) as Lk. specialize (A s). rewrite Lk in A.
        destruct (latest l s) as [b|] eqn:Lt; [|contradiction].
        destruct (proj1 (latest_spec l s b) Lt) as [pre [post [El _]]].
        exists (s, b). split; [rewrite El; apply in_or_app; right; now left|].
        simpl. rewrite Lt. apply mem_In. now apply A.
      + intros [[s b0] [Hi Hm]]. simpl in Hm.
        destruct (latest l s) as [b|] eqn:Lt; [|discriminate]. apply mem_In in Hm.
        specialize (A s). rewrite Lt in A. destruct (lookup m s) as [a|] eqn:Lk; [|contradiction].
        exists (s, a). split; [now apply lookup_In|]. simpl. apply mem_In. now apply A.
    - intros ->. reflexivity.
  Qed.

  Lemma nodupb_ok a : NoDup a -> nodupb a = true.
  Proof.
    induction 1 as [|x r Hn Hr IH]; [reflexivity|]. simpl. rewrite IH.
    apply mem_false in Hn. now rewrite Hn.
  Qed.

  Lemma same_set_ok a b : same_members a b -> same_set b a = true.
  Proof.
    intros [E N]. unfold same_set, subset.
    apply andb_true_iff. split; [apply andb_true_iff; split|].
    - apply forallb_forall. intros x Hx. apply mem_In. now apply E.
    - apply forallb_forall. intros x Hx. apply mem_In. now apply E.
    - now apply nodupb_ok.
  Qed.

  (* simulation relation between model state and checker state *)
  Record sim (s : state) (c : cstate) : Prop := mkSim {
    sim_n : st_n s = c_n c;
    sim_vp : maps_agree (st_vp s) (c_log c);
    sim_conn : forall x, match find_c (c_conns c) x with
                         | Some (k, (true, h)) => exists i, find_conn (st_conns s) x = Some i /\ ikey i = k
                         | Some (_, (false, _)) => find_conn (st_conns s) x = None
                         | None => find_conn (st_conns s) x = None
                         end;
    sim_lt : forall x, find_conn (st_conns s) x <> None -> x < st_n s;
    sim_p : st_pconn s = c_pconn c
  }.

  Lemma tag_nil t h : tag t h [] = [].
  Proof. reflexivity. Qed.

  Lemma find_conn_del_same l c : find_conn (del_conn l c) c = None.
  Proof.
    induction l as [|[c0 i0] r IH]; simpl; [reflexivity|].
    destruct (c0 =? c) eqn:E; simpl; [assumption|].
    rewrite Nat.eqb_sym, E. assumption.
  Qed.

  Lemma find_conn_del_neq l c x : x <> c -> find_conn (del_conn l c) x = find_conn l x.
  Proof.
    intros N. induction l as [|[c0 i0] r IH]; simpl; [reflexivity|].
    destruct (c0 =? c) eqn:E; simpl.
    - apply Nat.eqb_eq in E. subst c0. destruct (x =? c) eqn:E'; [apply Nat.eqb_eq in E'; contradiction|assumption].
    - now rewrite IH.
  Qed.

  Lemma find_c_del_same l c : find_c (filter (fun e : nat * (nat * (bool * bool)) => negb (fst e =? c)) l) c = None.
  Proof.
    induction l as [|[c0 i0] r IH]; simpl; [reflexivity|].
    destruct (c0 =? c) eqn:E; simpl; [assumption|].
    rewrite Nat.eqb_sym, E. assumption.
  Qed.

  Lemma find_c_del_neq l c x : x <> c ->
    find_c (filter (fun e : nat * (nat * (bool * bool)) => negb (fst e =? c)) l) x = find_c l x.
  Proof.
    intros N. induction l as [|[c0 i0] r IH]; simpl; [reflexivity|].
    destruct (c0 =? c) eqn:E; simpl.
    - apply Nat.eqb_eq in E. subst c0. destruct (x =? c) eqn:E'; [apply Nat.eqb_eq in E'; contradiction|assumption].
    - now rewrite IH.
  Qed.

  Lemma maps_agree_set v l s peers : maps_agree v l ->
    maps_agree (vp_set true v s peers) ((s, map (fun i => idk (ikey i)) peers) :: l).
  Proof.
    intros A. unfold Peers.vp_set. simpl. split; [discriminate|]. split.
    - apply upd_wf. destruct v as [m|]; [apply A|constructor].
    - intros s'. destruct (sid_eqb s' s) eqn:E.
      + apply sid_eqb_spec in E. subst s'. rewrite lookup_upd_same. split.
        * intros x. rewrite mkset_In. reflexivity.
        * apply mkset_NoDup.
      + apply sid_eqb_neq in E. rewrite lookup_upd_other by assumption.
        destruct v as [m|]; simpl.
        * apply A.
        * simpl in A. subst l. reflexivity.
  Qed.

  Ltac keep Hn Hc Hl Hp :=
    simpl;
    first [ congruence
          | exact Hc
          | exact Hp
          | (let y := fresh "y" in let H := fresh "H" in
             intros y H; specialize (Hl y H); lia) ].

  Lemma serve_clause_ok l : clause (serve_clause l) true = [].
  Proof. reflexivity. Qed.

  Lemma sim_step s c o : sim s c ->
    let (s1, x) := step true s o in
    let (c1, cl) := cstep c (o, x) in
    sim s1 c1 /\ cl = [].
  Proof.
    intros [Hn Hv Hc Hl Hp].
    destruct o as [e d ps|e d|i| |x m|x|p m|p]; simpl.
    - (* set *) split; [|reflexivity].
      constructor; [keep Hn Hc Hl Hp|simpl; now apply maps_agree_set|keep Hn Hc Hl Hp..].
    - (* get *) split; [constructor; [keep Hn Hc Hl Hp|exact Hv|keep Hn Hc Hl Hp..]|].
      unfold PeersSpec.spec_members. destruct (st_vp s) as [mm|] eqn:V; simpl in *.
      + destruct Hv as [NE [W A]]. specialize (A (src_sid d)).
        destruct (lookup mm (src_sid d)) as [a|], (latest (c_log c) (src_sid d)) as [b|]; try contradiction.
        * now rewrite (same_set_ok a b A).
        * reflexivity.
      + rewrite Hv. reflexivity.
    - (* offer *)
      destruct i as [k dd]. rewrite (valid_agree (st_vp s) (c_log c) k dd Hv). simpl.
      destruct (spec_valid (c_log c) k) eqn:V; simpl.
      + split.
        * constructor; [keep Hn Hc Hl Hp|exact Hv| | |exact Hp].
          -- intros x. simpl. rewrite <- Hn. destruct (x =? st_n s) eqn:E.
             ++ exists (mkIdent k dd). auto.
             ++ apply Hc.
          -- intros x. simpl. destruct (x =? st_n s) eqn:E; [apply Nat.eqb_eq in E; lia|].
             intros H. specialize (Hl x H). lia.
        * first [reflexivity | now rewrite serve_clause_ok | (unfold PeersSpec.serve_clause; now destruct (no_set_given (c_log c)))].
      + split; [|reflexivity].
        constructor; [keep Hn Hc Hl Hp|exact Hv| |keep Hn Hc Hl Hp|exact Hp].
        intros x. simpl. rewrite <- Hn. destruct (x =? st_n s) eqn:E; [|apply Hc].
        apply Nat.eqb_eq in E. subst x.
        destruct (find_conn (st_conns s) (st_n s)) eqn:F; [|reflexivity].
        exfalso. assert (st_n s < st_n s); [apply Hl; congruence|lia].
    - (* junk *) split; [|reflexivity].
      constructor; [keep Hn Hc Hl Hp|exact Hv|keep Hn Hc Hl Hp..].
    - (* msg *) split; [constructor; [keep Hn Hc Hl Hp|exact Hv|keep Hn Hc Hl Hp..]|].
      specialize (Hc x). destruct (find_c (c_conns c) x) as [[k [[|] h]]|].
      + destruct Hc as [i [F K]]. rewrite F. simpl.
        destruct (spec_valid (c_log c) k); [|reflexivity].
        first [reflexivity | now rewrite serve_clause_ok | (unfold PeersSpec.serve_clause; now destruct (no_set_given (c_log c)))].
      + rewrite Hc. reflexivity.
      + rewrite Hc. now destruct (mem x (c_junk c)).
    - (* close *) split; [|reflexivity].
      constructor; [keep Hn Hc Hl Hp|exact Hv| | |exact Hp].
      + intros y. simpl. destruct (Nat.eq_dec y x) as [->|N].
        * now rewrite find_c_del_same, find_conn_del_same.
        * rewrite find_c_del_neq, find_conn_del_neq by assumption. apply Hc.
      + intros y. simpl. intros H. destruct (Nat.eq_dec y x) as [->|N].
        * now rewrite find_conn_del_same in H.
        * rewrite find_conn_del_neq in H by assumption. specialize (Hl y H). lia.
    - (* peer send *)
      rewrite <- Hp. unfold Peers.honest_ident.
      rewrite (valid_agree (st_vp s) (c_log c) p (idk p) Hv).
      destruct (mem p (st_pconn s)) eqn:M; simpl.
      + split; [constructor; [keep Hn Hc Hl Hp|exact Hv|keep Hn Hc Hl Hp..]|].
        destruct (spec_valid (c_log c) p); [|reflexivity].
        first [reflexivity | now rewrite serve_clause_ok | (unfold PeersSpec.serve_clause; now destruct (no_set_given (c_log c)))].
      + destruct (spec_valid (c_log c) p) eqn:V; simpl.
        * split; [constructor; [keep Hn Hc Hl Hp|exact Hv|keep Hn Hc Hl Hp|keep Hn Hc Hl Hp|simpl; now rewrite Hp]|].
          first [reflexivity | now rewrite serve_clause_ok | (unfold PeersSpec.serve_clause; now destruct (no_set_given (c_log c)))].
        * split; [constructor; [keep Hn Hc Hl Hp|exact Hv|keep Hn Hc Hl Hp..]|reflexivity].
    - (* peer drop *) split; [|reflexivity].
      constructor; [keep Hn Hc Hl Hp|exact Hv|keep Hn Hc Hl Hp|keep Hn Hc Hl Hp|].
      simpl. unfold del_peer. now rewrite Hp.
  Qed.

  Lemma sim_init : sim (init) (cinit).
  Proof. constructor; simpl; auto. intros x H. congruence. Qed.

  Lemma exec_cons fx s o ops :
    exec fx s (o :: ops) =
    let (s1, x) := step fx s o in let (s2, xs) := exec fx s1 ops in (s2, x :: xs).
  Proof. reflexivity. Qed.

  Lemma cwalk_cons c ox h :
    cwalk c (ox :: h) = let (c1, cl) := cstep c ox in cl ++ cwalk c1 h.
  Proof. reflexivity. Qed.

  Lemma sim_walk ops : forall s c, sim s c ->
    cwalk c (combine ops (snd (exec true s ops))) = [].
  Proof.
    induction ops as [|o ops IH]; intros s c S; [reflexivity|].
    pose proof (sim_step s c o S) as H. rewrite exec_cons.
    destruct (step true s o) as [s1 x]. destruct (exec true s1 ops) as [s2 xs] eqn:E.
    cbn [snd combine]. rewrite cwalk_cons.
    destruct (cstep c (o, x)) as [c1 cl]. destruct H as [S1 ->]. cbn [app].
    specialize (IH s1 c1 S1). rewrite E in IH. exact IH.
  Qed.

  (* REFINEMENT: on every history, what the fixed model does satisfies every
     clause of the property, as judged by the reference map-of-sets checker. *)
  Theorem fixed_model_satisfies_property ops :
    check_hist idk (combine ops (outs true ops)) = [].
  Proof. unfold check_hist, Peers.outs. apply sim_walk. exact sim_init. Qed.

  (* ... and so does the pre-repair variant on every history in which nobody lies
     about the ID field (neither a dialling peer nor the caller of set) *)
  Theorem pinned_model_satisfies_property_when_honest ops :
    forallb op_honest ops = true ->
    check_hist idk (combine ops (outs false ops)) = [].
  Proof.
    intros H. unfold Peers.outs. rewrite (honest_histories_fix_irrelevant ops H).
    apply fixed_model_satisfies_property.
  Qed.

  Theorem pinned_when_honest ops : forallb op_honest ops = true ->
    check_hist idk (combine ops (outs false ops)) = [] /\
    forall s, exec false s ops = exec true s ops.
  Proof.
    intros H. exact (conj (pinned_model_satisfies_property_when_honest ops H)
                          (honest_histories_fix_irrelevant ops H)).
  Qed.
End Proofs.

(* -------------------------------------------------------------------------- *)
(* F25: the pre-repair variant ([fix_f25 = false]) is refuted                  *)

Definition f25_witness : list op :=
  [ OSet ERouter (DRaw []) [mkIdent 0 1];   (* the only valid peer: key 0 (id 1) *)
    OOffer (mkIdent 1 2);                   (* key 1, honest: refused *)
    OOffer (mkIdent 1 1);                   (* key 1 declaring key 0's id: accepted *)
    OMsg 2 7 ].                             (* ... and its message is dispatched *)

Lemma f25_refuted :
  exists ops, outs S false ops = [XUnit; XRefuse; XAccept; XDisp 1 1] /\
              check_hist S (combine ops (outs S false ops)) = [11; 12] /\
              (* the peer holding key 1 is in no set: *)
              vp_valid S true (st_vp (run S false (firstn 2 ops))) (mkIdent 1 1) = false /\
              (* and the fixed variant refuses it *)
              outs S true ops = [XUnit; XRefuse; XRefuse; XNone].
Proof. exists f25_witness. repeat split; vm_compute; reflexivity. Qed.

(* setter side of the same defect: a member handed to set with a stale ID field
   is locked out, and the read-back is not the member's id *)
Definition f25_stale_witness : list op :=
  [ OSet ERouter (DRaw []) [mkIdent 0 0]; OOffer (mkIdent 0 1); OGet ERouter (DRaw []) ].

Lemma f25_stale_refuted :
  outs S false f25_stale_witness = [XUnit; XRefuse; XGot (Some [0])] /\
  check_hist S (combine f25_stale_witness (outs S false f25_stale_witness)) = [23; 25] /\
  outs S true f25_stale_witness = [XUnit; XAccept; XGot (Some [1])].
Proof. repeat split; vm_compute; reflexivity. Qed.

(* satisfiability of the hypotheses used above *)
Example honest_history_example :
  forallb (op_honest S)
    [OSet (EContext 0) (DCtx 0 [1]) [mkIdent 0 1; mkIdent 2 3]; OOffer (mkIdent 2 3); OMsg 1 5; OPeerSend 1 9] = true /\
  outs S false [OSet (EContext 0) (DCtx 0 [1]) [mkIdent 0 1; mkIdent 2 3]; OOffer (mkIdent 2 3); OMsg 1 5; OPeerSend 1 9]
    = [XUnit; XAccept; XDisp 2 3; XNone].
Proof. split; vm_compute; reflexivity. Qed.

Example served_example :
  let pre := [OSet ERouter (DRaw [1]) [mkIdent 4 5]] in
  vp_valid S true (st_vp (run S true pre)) (mkIdent 4 77) = true /\
  Forall (not_close (length pre)) [OSet ERouter (DRaw [1]) []; OClose 7].
Proof. split; [vm_compute; reflexivity|repeat constructor; discriminate]. Qed.
