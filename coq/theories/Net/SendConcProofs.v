(* C03 PROOFS about Net/SendConc.v: goroutines sending on one connection. *)
From Coq Require Import List NArith Bool Arith Lia Permutation.
From Coq Require Import Init.Byte.
From Onet Require Import Net.Frame Net.Marshal Net.WireProofs Net.SendConc.
Import ListNotations.
Local Open Scope N_scope.

(* ---- byte-list facts ----------------------------------------------------- *)

Lemma takeN_add {A} (a n : N) (l : list A) :
  takeN a l ++ takeN n (dropN a l) = takeN (a + n) l.
Proof.
  revert a; induction l as [|x r IH]; intros a; cbn [takeN dropN]; [reflexivity|].
  destruct (a =? 0) eqn:E.
  - apply N.eqb_eq in E. subst. cbn [app N.add]. reflexivity.
  - apply N.eqb_neq in E. assert (a + n =? 0 = false) as -> by (apply N.eqb_neq; lia).
    cbn [app]. rewrite IH. do 2 f_equal. lia.
Qed.

Lemma lenN_header b : lenN (header b) = 4.
Proof. reflexivity. Qed.

Lemma takeN_header_app k b : takeN (4 + k) (header b ++ b) = header b ++ takeN k b.
Proof.
  rewrite takeN_app_ge by (rewrite lenN_header; lia). rewrite lenN_header.
  do 2 f_equal. lia.
Qed.

Definition sumN (l : list N) : N := fold_right N.add 0 l.

Lemma sumN_app a b : sumN (a ++ b) = sumN a + sumN b.
Proof.
  unfold sumN. induction a as [|x a IH]; cbn [app fold_right]; [reflexivity|]. rewrite IH. lia.
Qed.

(* the Send calls of goroutine i, in order, among tagged calls *)
Definition proj {V} (i : nat) (l : list (nat * V)) : list V :=
  map snd (filter (fun x => Nat.eqb (fst x) i) l).

Lemma proj_app {V} i (a b : list (nat * V)) : proj i (a ++ b) = proj i a ++ proj i b.
Proof. unfold proj. now rewrite filter_app, map_app. Qed.

Lemma seq_split i k : (i < k)%nat -> seq 0 k = seq 0 i ++ i :: seq (S i) (k - S i).
Proof.
  intros H. replace k with (i + S (k - S i))%nat at 1 by lia.
  rewrite seq_app. cbn [seq Nat.add]. reflexivity.
Qed.

(* tagged calls are a permutation of the per-goroutine sequences put end to end *)
Lemma perm_buckets {V} k : forall (l : list (nat * V)),
  (forall x, In x l -> (fst x < k)%nat) ->
  Permutation (map snd l) (concat (map (fun i => proj i l) (seq 0 k))).
Proof.
  induction l as [|[i v] r IH]; intros Hk.
  - cbn [map]. replace (concat (map (fun i => @proj V i []) (seq 0 k))) with (@nil V); [constructor|].
    induction (seq 0 k) as [|a s IHs]; [reflexivity|]. cbn [map concat]. now rewrite <- IHs.
  - assert (i < k)%nat as Hi by (apply (Hk (i, v)); now left).
    specialize (IH (fun x Hx => Hk x (or_intror Hx))).
    rewrite (seq_split i k Hi) in *. rewrite map_app, concat_app in *. cbn [map concat] in *.
    assert (forall j, j <> i -> proj j ((i, v) :: r) = proj j r) as Hne.
    { intros j Hj. unfold proj. cbn [filter fst]. destruct (Nat.eqb i j) eqn:E; [|reflexivity].
      apply Nat.eqb_eq in E. congruence. }
    assert (proj i ((i, v) :: r) = v :: proj i r) as Heq.
    { unfold proj. cbn [filter fst]. now rewrite Nat.eqb_refl. }
    rewrite Heq.
    rewrite (map_ext_in (fun j => proj j ((i, v) :: r)) (fun j => proj j r) (seq 0 i)).
    2:{ intros j Hj. apply in_seq in Hj. apply Hne. lia. }
    rewrite (map_ext_in (fun j => proj j ((i, v) :: r)) (fun j => proj j r) (seq (S i) (k - S i))).
    2:{ intros j Hj. apply in_seq in Hj. apply Hne. lia. }
    cbn [map snd app]. apply Permutation_cons_app. exact IH.
Qed.

(* ======================================================================== *)

Section ConcProofs.
  Variable V : Type.
  Variable msh : V -> option bytes.
  Variable fx : bool.                         (* fix_n1: with or without proposed_fixes/C03-N1.diff *)

  Local Notation state := (state V).
  Local Notation stepm := (step msh).
  Local Notation runm := (run msh).

  (* what a finished (or returning) Send call must look like *)
  Definition call_ok (v : V) (w : bytes) (n : N) (ok : bool) : Prop :=
    if ok then
      exists b sent, msh v = Some b /\ w = header b ++ takeN sent b /\
                     size_of b <= sent /\ sent <= lenN b /\ n = 4 + sent
    else
      (msh v = None /\ w = [] /\ n = 0) \/
      (exists b m, msh v = Some b /\ w = takeN m (header b ++ b) /\ m < 4 + lenN b /\ n <= m).

  Definition pc_ok (p : pc V) : Prop :=
    match p with
    | PIdle | PLocked _ => True
    | PHeader v b => msh v = Some b
    | PBody v b sent w => msh v = Some b /\ w = header b ++ takeN sent b /\ sent <= lenN b
    | PRet v w n ok => call_ok v w n ok
    end.

  Definition cur_w (p : pc V) : bytes :=
    match p with PBody _ _ _ w => w | PRet _ w _ _ => w | _ => [] end.
  Definition cur_call (i : nat) (p : pc V) : list (nat * V) :=
    match p with
    | PIdle => []
    | PLocked v | PHeader v _ | PBody v _ _ _ | PRet v _ _ _ => [(i, v)]
    end.
  Definition cur_tx (p : pc V) : N := match p with PRet _ _ n _ => n | _ => 0 end.

  Definition held {X} (s : state) (f : nat -> pc V -> X) (d : X) : X :=
    match holder s with Some i => f i (at_ (thr s i)) | None => d end.

  Definition key (c : call V) : nat * V := (c_who c, c_val c).

  (* the invariant of the system WITH the mutex *)
  Record Inv (s : state) : Prop := {
    inv_idle : forall j, holder s <> Some j -> at_ (thr s j) = PIdle;
    inv_cur : forall i, holder s = Some i -> at_ (thr s i) <> PIdle /\ pc_ok (at_ (thr s i));
    inv_wire : wire s = concat (map c_bytes (done s)) ++ held s (fun _ p => cur_w p) [];
    inv_acq : acq s = map key (done s) ++ held s cur_call [];
    inv_tx : tx s = sumN (map c_ret (done s)) + held s (fun _ p => cur_tx p) 0;
    inv_done : Forall (fun c => call_ok (c_val c) (c_bytes c) (c_ret c) (c_ok c)) (done s)
  }.

  Lemma inv_init progs : Inv (init progs).
  Proof.
    split; cbn.
    - reflexivity.
    - intros j H; discriminate H.
    - reflexivity.
    - reflexivity.
    - reflexivity.
    - constructor.
  Qed.

  Lemma busy_is_holder s i : Inv s -> at_ (thr s i) <> PIdle -> holder s = Some i.
  Proof.
    intros I H. destruct (holder s) as [h|] eqn:E.
    - destruct (Nat.eq_dec h i) as [->|Hne]; [reflexivity|].
      exfalso. apply H. apply (inv_idle s I). rewrite E. congruence.
    - exfalso. apply H. apply (inv_idle s I). rewrite E. discriminate.
  Qed.

  Lemma at_set_pc (s : state) i p : at_ (set_pc V s i p i) = p.
  Proof. unfold set_pc, upd. now rewrite Nat.eqb_refl. Qed.

  Lemma set_pc_other (s : state) i p j : j <> i -> set_pc V s i p j = thr s j.
  Proof. intros H. unfold set_pc, upd. apply Nat.eqb_neq in H. now rewrite H. Qed.

  Lemma todo_set_pc (s : state) i p j : todo (set_pc V s i p j) = todo (thr s j).
  Proof.
    unfold set_pc, upd. destruct (Nat.eqb j i) eqn:E; [|reflexivity].
    apply Nat.eqb_eq in E. now subst.
  Qed.

  (* a step of the lock holder that stays inside the critical section *)
  Lemma inv_local (s : state) i p p' chunk dt w' t' br :
    Inv s -> holder s = Some i -> at_ (thr s i) = p ->
    w' = wire s ++ chunk -> t' = tx s + dt ->
    p' <> PIdle -> pc_ok p' ->
    cur_w p' = cur_w p ++ chunk -> cur_call i p' = cur_call i p -> cur_tx p' = cur_tx p + dt ->
    Inv {| thr := set_pc V s i p'; holder := holder s; wire := w'; tx := t'; broken := br;
           acq := acq s; done := done s |}.
  Proof.
    intros I Hh Hp -> -> Hne Hok Hw Hc Ht.
    split; cbn [thr holder wire tx acq done]; unfold held; cbn [holder thr].
    - intros j Hj. rewrite set_pc_other by congruence. now apply (inv_idle s I).
    - intros i' Hi'. rewrite Hh in Hi'. injection Hi' as <-. rewrite at_set_pc. now split.
    - rewrite Hh, at_set_pc, Hw, (inv_wire s I). unfold held. rewrite Hh, Hp. now rewrite app_assoc.
    - rewrite Hh, at_set_pc, Hc, (inv_acq s I). unfold held. now rewrite Hh, Hp.
    - rewrite Hh, at_set_pc, Ht, (inv_tx s I). unfold held. rewrite Hh, Hp. lia.
    - exact (inv_done s I).
  Qed.

  Local Opaque N.add.

  Theorem step_inv s ia s' : Inv s -> stepm true fx s ia = Some s' -> Inv s'.
  Proof.
    intros I H. destruct ia as [i a]. unfold step in H.
    destruct a as [| | |k|k|k| |]; destruct (at_ (thr s i)) as [|v|v b|v b sent w|v w n ok] eqn:Ep; try discriminate.
    - (* ALock *)
      destruct (todo (thr s i)) as [|v r] eqn:Et; [discriminate|].
      destruct (holder s) as [h|] eqn:Eh; cbn [andb] in H; [discriminate|].
      injection H as <-.
      assert (forall j, at_ (thr s j) = PIdle) as Hall.
      { intros j. apply (inv_idle s I). rewrite Eh. discriminate. }
      split; cbn [thr holder wire tx acq done]; unfold held; cbn [holder thr]; unfold upd.
      + intros j Hj. destruct (Nat.eqb j i) eqn:E; [apply Nat.eqb_eq in E; congruence|apply Hall].
      + intros i' [= <-]. rewrite Nat.eqb_refl. cbn. split; [discriminate|constructor].
      + rewrite Nat.eqb_refl. cbn [at_ cur_w]. rewrite (inv_wire s I). unfold held. now rewrite Eh.
      + rewrite Nat.eqb_refl. cbn [at_ cur_call]. rewrite (inv_acq s I). unfold held. rewrite Eh.
        now rewrite app_nil_r.
      + rewrite Nat.eqb_refl. cbn [at_ cur_tx]. rewrite (inv_tx s I). unfold held. now rewrite Eh.
      + exact (inv_done s I).
    - (* AMarshal *)
      assert (holder s = Some i) as Hh by (apply busy_is_holder; [exact I|rewrite Ep; discriminate]).
      injection H as <-.
      eapply (inv_local s i (PLocked v) _ [] 0); [exact I|exact Hh|exact Ep|symmetry; apply app_nil_r|lia| | | | |].
      + destruct (msh v); discriminate.
      + destruct (msh v) as [b|] eqn:Em; cbn; [exact Em|]. left. auto.
      + destruct (msh v); reflexivity.
      + destruct (msh v); reflexivity.
      + destruct (msh v); reflexivity.
    - (* AHeader *)
      assert (holder s = Some i) as Hh by (apply busy_is_holder; [exact I|rewrite Ep; discriminate]).
      destruct (fx && broken s); [discriminate|].
      injection H as <-.
      pose proof (proj2 (inv_cur s I i Hh)) as Hok. rewrite Ep in Hok. unfold pc_ok in Hok.
      eapply (inv_local s i (PHeader v b) _ (header b) 0);
        [exact I|exact Hh|exact Ep|reflexivity|lia|discriminate| |reflexivity|reflexivity|reflexivity].
      unfold pc_ok. rewrite takeN_0, app_nil_r. repeat split; [exact Hok|lia].
    - (* AHeaderFail *)
      assert (holder s = Some i) as Hh by (apply busy_is_holder; [exact I|rewrite Ep; discriminate]).
      destruct ((k <? 4) && (negb (fx && broken s) || (k =? 0))) eqn:En; [|discriminate].
      apply andb_true_iff in En as [En _]. apply N.ltb_lt in En. injection H as <-.
      pose proof (proj2 (inv_cur s I i Hh)) as Hok. rewrite Ep in Hok. unfold pc_ok in Hok.
      eapply (inv_local s i (PHeader v b) _ (takeN k (header b)) 0);
        [exact I|exact Hh|exact Ep|reflexivity|lia|discriminate| |reflexivity|reflexivity|reflexivity].
      unfold pc_ok, call_ok. right. exists b, k. split; [exact Hok|]. split; [|lia].
      rewrite takeN_app_lt by (rewrite lenN_header; lia). reflexivity.
    - (* AWrite *)
      assert (holder s = Some i) as Hh by (apply busy_is_holder; [exact I|rewrite Ep; discriminate]).
      destruct ((sent <? size_of b) && (1 <=? k) && (k <=? lenN (dropN sent b)) && negb (fx && broken s)) eqn:Eg; [|discriminate].
      apply andb_true_iff in Eg as [Eg _].
      apply andb_true_iff in Eg as [Eg E3]. apply andb_true_iff in Eg as [E1 E2].
      apply N.leb_le in E3. rewrite lenN_dropN in E3.
      injection H as <-.
      pose proof (proj2 (inv_cur s I i Hh)) as Hok. rewrite Ep in Hok. unfold pc_ok in Hok.
      destruct Hok as [Hm [Hw Hs]].
      eapply (inv_local s i (PBody v b sent w) _ (takeN k (dropN sent b)) 0);
        [exact I|exact Hh|exact Ep|reflexivity|lia|discriminate| |reflexivity|reflexivity|reflexivity].
      unfold pc_ok. split; [exact Hm|]. split; [|lia]. subst w. now rewrite <- app_assoc, takeN_add.
    - (* AWriteFail *)
      assert (holder s = Some i) as Hh by (apply busy_is_holder; [exact I|rewrite Ep; discriminate]).
      destruct ((sent <? size_of b) && (k <? lenN (dropN sent b)) && (negb (fx && broken s) || (k =? 0))) eqn:Eg; [|discriminate].
      apply andb_true_iff in Eg as [Eg _].
      apply andb_true_iff in Eg as [E1 E2]. apply N.ltb_lt in E2. rewrite lenN_dropN in E2.
      injection H as <-.
      pose proof (proj2 (inv_cur s I i Hh)) as Hok. rewrite Ep in Hok. unfold pc_ok in Hok.
      destruct Hok as [Hm [Hw Hs]].
      eapply (inv_local s i (PBody v b sent w) _ (takeN k (dropN sent b)) (4 + sent));
        [exact I|exact Hh|exact Ep|reflexivity|reflexivity|discriminate| |reflexivity|reflexivity|cbn [cur_tx]; lia].
      unfold pc_ok, call_ok. right. exists b, (4 + (sent + k)). split; [exact Hm|]. split; [|lia].
      subst w. now rewrite <- app_assoc, takeN_add, takeN_header_app.
    - (* AFinish *)
      assert (holder s = Some i) as Hh by (apply busy_is_holder; [exact I|rewrite Ep; discriminate]).
      destruct (sent <? size_of b) eqn:E1; [discriminate|]. apply N.ltb_ge in E1.
      injection H as <-.
      pose proof (proj2 (inv_cur s I i Hh)) as Hok. rewrite Ep in Hok. unfold pc_ok in Hok.
      destruct Hok as [Hm [Hw Hs]].
      eapply (inv_local s i (PBody v b sent w) _ [] (4 + sent));
        [exact I|exact Hh|exact Ep|symmetry; apply app_nil_r|reflexivity|discriminate| |cbn [cur_w]; now rewrite app_nil_r|reflexivity|cbn [cur_tx]; lia].
      unfold pc_ok, call_ok. exists b, sent. repeat split; assumption.
    - (* AUnlock *)
      assert (holder s = Some i) as Hh by (apply busy_is_holder; [exact I|rewrite Ep; discriminate]).
      injection H as <-.
      pose proof (proj2 (inv_cur s I i Hh)) as Hok. rewrite Ep in Hok. unfold pc_ok in Hok.
      split; cbn [thr holder wire tx acq done]; unfold held; cbn [holder thr].
      + intros j _. destruct (Nat.eq_dec j i) as [->|Hne]; [now rewrite at_set_pc|].
        rewrite set_pc_other by exact Hne. apply (inv_idle s I). rewrite Hh. congruence.
      + intros i' Hi'. discriminate.
      + rewrite (inv_wire s I). unfold held. rewrite Hh, Ep. cbn [cur_w].
        rewrite map_app, concat_app. cbn. now rewrite !app_nil_r.
      + rewrite (inv_acq s I). unfold held. rewrite Hh, Ep. cbn [cur_call].
        rewrite map_app. cbn. now rewrite app_nil_r.
      + rewrite (inv_tx s I). unfold held. rewrite Hh, Ep. cbn [cur_tx].
        rewrite map_app, sumN_app. cbn. lia.
      + apply Forall_app. split; [exact (inv_done s I)|]. constructor; [exact Hok|constructor].
  Qed.

  Theorem run_inv : forall sched s s', Inv s -> runm true fx sched s = Some s' -> Inv s'.
  Proof.
    induction sched as [|ia r IH]; intros s s' I H; cbn [run] in H.
    - now injection H as <-.
    - destruct (stepm true fx s ia) as [s1|] eqn:E; [|discriminate].
      apply (IH s1 s'); [now apply (step_inv s ia)|exact H].
  Qed.

  (* ---- program order: holds with and without the mutex -------------------- *)

  Definition ProgInv (progs : nat -> list V) (s : state) : Prop :=
    forall i, proj i (acq s) ++ todo (thr s i) = progs i.

  Lemma step_prog mx progs s ia s' : ProgInv progs s -> stepm mx fx s ia = Some s' -> ProgInv progs s'.
  Proof.
    intros P H. destruct ia as [i a]. unfold step in H.
    destruct a as [| | |k|k|k| |]; destruct (at_ (thr s i)) as [|v|v b|v b sent w|v w n ok] eqn:Ep; try discriminate;
      try (match type of H with (if ?c then _ else _) = _ => destruct c; [|discriminate] end);
      try (match type of H with (if ?c then _ else _) = _ => destruct c; [discriminate|] end).
    1:{ (* ALock *)
      destruct (todo (thr s i)) as [|v r] eqn:Et; [discriminate|].
      destruct (mx && match holder s with Some _ => true | None => false end); [discriminate|].
      injection H as <-. intros j. cbn [acq thr]. rewrite proj_app. unfold upd.
      destruct (Nat.eqb j i) eqn:E.
      - apply Nat.eqb_eq in E. subst j. cbn [todo]. unfold proj at 2. cbn [filter fst].
        rewrite Nat.eqb_refl. cbn [map snd]. rewrite <- app_assoc. cbn [app]. rewrite <- Et. apply P.
      - unfold proj at 2. cbn [filter fst]. rewrite Nat.eqb_sym, E. cbn [map]. rewrite app_nil_r. apply P. }
    all: injection H as <-; intros j; cbn [acq thr]; rewrite todo_set_pc; apply P.
  Qed.

  Lemma run_prog mx progs : forall sched s s',
    ProgInv progs s -> runm mx fx sched s = Some s' -> ProgInv progs s'.
  Proof.
    induction sched as [|ia r IH]; intros s s' P H; cbn [run] in H.
    - now injection H as <-.
    - destruct (stepm mx fx s ia) as [s1|] eqn:E; [|discriminate].
      apply (IH s1 s'); [now apply (step_prog mx progs s ia)|exact H].
  Qed.

  Lemma prog_init progs : ProgInv progs (init progs).
  Proof. intros i. reflexivity. Qed.

  (* ---- no failure injected and Marshal total: every call returns nil ------- *)

  Definition is_fail (a : act) : bool :=
    match a with AHeaderFail _ | AWriteFail _ => true | _ => false end.

  (* [good]: the values the goroutines are given to send *)
  Variable good : V -> Prop.

  Definition AllOk (s : state) : Prop :=
    (forall c, In c (done s) -> c_ok c = true) /\
    (forall i v w n ok, at_ (thr s i) = PRet v w n ok -> ok = true) /\
    (forall i v, In v (todo (thr s i)) -> good v) /\
    (forall i v, at_ (thr s i) = PLocked v -> good v).

  Lemma step_allok mx s ia s' :
    (forall v, good v -> msh v <> None) -> is_fail (snd ia) = false ->
    AllOk s -> stepm mx fx s ia = Some s' -> AllOk s'.
  Proof.
    intros Hm Hf [A1 [A2 [A3 A4]]] H. destruct ia as [i a]. cbn [snd] in Hf. unfold step in H.
    assert (forall p, p <> PIdle -> (forall v, p <> PLocked v) ->
            (forall v w n ok, p = PRet v w n ok -> ok = true) ->
            AllOk {| thr := set_pc V s i p; holder := holder s; wire := wire s; tx := tx s;
                     broken := broken s; acq := acq s; done := done s |} ) as Hloc.
    { intros p _ Hnl Hret. repeat split; cbn [done thr].
      - exact A1.
      - intros j v' w' n' ok'. destruct (Nat.eq_dec j i) as [->|Hne];
          [rewrite at_set_pc; apply Hret|rewrite set_pc_other by exact Hne; apply A2].
      - intros j v'. rewrite todo_set_pc. apply A3.
      - intros j v'. destruct (Nat.eq_dec j i) as [->|Hne];
          [rewrite at_set_pc; intros E; now apply Hnl in E|rewrite set_pc_other by exact Hne; apply A4]. }
    assert (forall p w' t' br, AllOk {| thr := set_pc V s i p; holder := holder s; wire := wire s; tx := tx s;
                                      broken := broken s; acq := acq s; done := done s |} ->
            AllOk {| thr := set_pc V s i p; holder := holder s; wire := w'; tx := t'; broken := br;
                     acq := acq s; done := done s |}) as Hwt.
    { intros p w' t' br A. exact A. }
    destruct a as [| | |k|k|k| |]; try discriminate Hf;
      destruct (at_ (thr s i)) as [|v|v b|v b sent w|v w n ok] eqn:Ep; try discriminate;
      try (match type of H with (if ?c then _ else _) = _ => destruct c eqn:Ec; [|discriminate] end);
      try (match type of H with (if ?c then _ else _) = _ => destruct c eqn:Ec; [discriminate|] end).
    - (* ALock *)
      destruct (todo (thr s i)) as [|v r] eqn:Et; [discriminate|].
      destruct (mx && match holder s with Some _ => true | None => false end); [discriminate|].
      injection H as <-. repeat split; cbn [done thr]; unfold upd.
      + exact A1.
      + intros j v' w n ok. destruct (Nat.eqb j i); [cbn; discriminate|apply A2].
      + intros j v'. destruct (Nat.eqb j i) eqn:E; [|apply A3].
        apply Nat.eqb_eq in E. subst j. cbn [todo]. intros Hin. apply (A3 i). rewrite Et. now right.
      + intros j v'. destruct (Nat.eqb j i) eqn:E; [|apply A4].
        cbn [at_]. intros [= <-]. apply (A3 i). rewrite Et. now left.
    - (* AMarshal *)
      injection H as <-. apply Hloc.
      + destruct (msh v); discriminate.
      + intros v'. destruct (msh v); discriminate.
      + intros v' w n ok. destruct (msh v) eqn:E; [discriminate|].
        exfalso. apply (Hm v); [now apply (A4 i)|exact E].
    - (* AHeader *)
      injection H as <-. apply Hwt, Hloc; discriminate.
    - (* AWrite *)
      injection H as <-. apply Hwt, Hloc; discriminate.
    - (* AFinish *)
      injection H as <-. apply Hwt, Hloc; try discriminate. now intros v' w' n ok [= _ _ _ <-].
    - (* AUnlock *)
      injection H as <-. repeat split; cbn [done thr].
      + intros c Hc. apply in_app_or in Hc as [Hc|[<-|[]]]; [now apply A1|]. cbn. now apply (A2 i v w n ok).
      + intros j v' w' n' ok'. destruct (Nat.eq_dec j i) as [->|Hne];
          [rewrite at_set_pc; discriminate|rewrite set_pc_other by exact Hne; apply A2].
      + intros j v'. rewrite todo_set_pc. apply A3.
      + intros j v'. destruct (Nat.eq_dec j i) as [->|Hne];
          [rewrite at_set_pc; discriminate|rewrite set_pc_other by exact Hne; apply A4].
  Qed.

  Lemma run_allok mx : forall sched s s',
    (forall v, good v -> msh v <> None) -> forallb (fun ia => negb (is_fail (snd ia))) sched = true ->
    AllOk s -> runm mx fx sched s = Some s' -> AllOk s'.
  Proof.
    induction sched as [|ia r IH]; intros s s' Hm Hf A H; cbn [run] in H.
    - now injection H as <-.
    - cbn [forallb] in Hf. apply andb_true_iff in Hf as [Hf1 Hf2]. apply negb_true_iff in Hf1.
      destruct (stepm mx fx s ia) as [s1|] eqn:E; [|discriminate].
      apply (IH s1 s' Hm Hf2); [now apply (step_allok mx s ia)|exact H].
  Qed.

  Lemma allok_init progs : (forall i v, In v (progs i) -> good v) -> AllOk (init progs).
  Proof.
    intros Hg. repeat split.
    - intros c [].
    - intros i v w n ok H; discriminate H.
    - exact Hg.
    - intros i v H; discriminate H.
  Qed.

  (* ---- (1) with the mutex the wire is whole frames ------------------------- *)

  Definition small_bufs : Prop := forall v b, msh v = Some b -> lenN b < 4294967296.

  Lemma call_ok_whole v w n :
    small_bufs -> call_ok v w n true ->
    exists b, msh v = Some b /\ w = send_raw b /\ n = 4 + lenN b.
  Proof.
    intros Hs [b [sent [Hm [Hw [H1 [H2 Hn]]]]]]. exists b. split; [exact Hm|].
    pose proof (Hs v b Hm) as Hb.
    assert (size_of b = lenN b) as Hsz by (unfold size_of; now apply N.mod_small).
    assert (sent = lenN b) as -> by lia.
    rewrite takeN_all in Hw by lia. split; [|exact Hn].
    rewrite send_raw_small by exact Hb. subst w. unfold header. now rewrite Hsz.
  Qed.

  (* the general form: at every reachable state the wire is the bytes of the
     finished calls in the order they held the lock, then the bytes of the
     call in progress; a call that returned nil wrote one whole frame, a call
     that returned an error wrote a strict prefix of its frame (possibly nothing) *)
  Theorem mutex_pieces progs sched s :
    runm true fx sched (init progs) = Some s ->
    wire s = concat (map c_bytes (done s)) ++ held s (fun _ p => cur_w p) [] /\
    acq s = map key (done s) ++ held s cur_call [] /\
    tx s = sumN (map c_ret (done s)) + held s (fun _ p => cur_tx p) 0 /\
    Forall (fun c => call_ok (c_val c) (c_bytes c) (c_ret c) (c_ok c)) (done s) /\
    (forall i, proj i (acq s) ++ todo (thr s i) = progs i).
  Proof.
    intros H. pose proof (run_inv sched _ s (inv_init progs) H) as I.
    pose proof (run_prog true progs sched _ s (prog_init progs) H) as P.
    repeat split; try apply I. exact P.
  Qed.

  Lemma whole_frames (cs : list (call V)) :
    small_bufs ->
    Forall (fun c => call_ok (c_val c) (c_bytes c) (c_ret c) (c_ok c)) cs ->
    (forall c, In c cs -> c_ok c = true) ->
    exists bs, Forall2 (fun kv b => msh (snd kv) = Some b) (map key cs) bs /\
               concat (map c_bytes cs) = stream bs /\
               sumN (map c_ret cs) = sumN (map (fun b => 4 + lenN b) bs).
  Proof.
    intros Hs HF Hok. induction cs as [|c cs IH].
    - exists []. repeat split; constructor.
    - inversion HF as [|? ? Hc HF']; subst.
      destruct IH as [bs [F2 [Hw Ht]]]; [exact HF'|intros c' Hc'; apply Hok; now right|].
      rewrite (Hok c (or_introl eq_refl)) in Hc.
      destruct (call_ok_whole _ _ _ Hs Hc) as [b [Hm [Hb Hn]]].
      exists (b :: bs). split; [constructor; [exact Hm|exact F2]|].
      unfold stream in *. cbn [map concat]. rewrite Hb, Hw. split; [reflexivity|].
      change (sumN (c_ret c :: map c_ret cs)) with (c_ret c + sumN (map c_ret cs)).
      change (sumN (4 + lenN b :: map (fun b0 => 4 + lenN b0) bs))
        with ((4 + lenN b) + sumN (map (fun b0 => 4 + lenN b0) bs)).
      now rewrite Ht, Hn.
  Qed.

  (* (1) every k, every program, every interleaving, every chunking of the
     Write calls: when nobody is inside Send, the bytes on the wire are whole
     frames, one per Send call, in the order in which the calls acquired the
     lock; each goroutine's calls appear in its program order; Tx = sum of the
     frame sizes *)
  Theorem mutex_stream progs sched s :
    small_bufs -> (forall i v, In v (progs i) -> good v) -> (forall v, good v -> msh v <> None) ->
    forallb (fun ia => negb (is_fail (snd ia))) sched = true ->
    runm true fx sched (init progs) = Some s -> holder s = None ->
    exists bs,
      Forall2 (fun kv b => msh (snd kv) = Some b) (acq s) bs /\
      wire s = stream bs /\
      tx s = sumN (map (fun b => 4 + lenN b) bs) /\
      (forall i, proj i (acq s) ++ todo (thr s i) = progs i).
  Proof.
    intros Hs Hg Hm Hf H Hh.
    destruct (mutex_pieces progs sched s H) as [Hw [Ha [Ht [HF P]]]].
    pose proof (run_allok true sched _ s Hm Hf (allok_init progs Hg) H) as [A1 _].
    unfold held in *. rewrite Hh in *. rewrite app_nil_r in Hw, Ha. rewrite N.add_0_r in Ht.
    destruct (whole_frames (done s) Hs HF A1) as [bs [F2 [Hb Hx]]].
    exists bs. rewrite Ha, Hw, Ht. repeat split; try assumption.
    intros i. rewrite <- Ha. apply P.
  Qed.

  (* when every goroutine has run its program to the end, the calls on the
     wire are exactly the programs: each goroutine's in its order, and all
     together a permutation of everything that was to be sent *)
  Theorem finished_is_merge progs sched mx s k :
    (forall i, (k <= i)%nat -> progs i = []) ->
    runm mx fx sched (init progs) = Some s -> (forall i, todo (thr s i) = []) ->
    (forall i, proj i (acq s) = progs i) /\
    Permutation (map snd (acq s)) (concat (map progs (seq 0 k))).
  Proof.
    intros Hk H Hd.
    pose proof (run_prog mx progs sched _ s (prog_init progs) H) as P.
    assert (forall i, proj i (acq s) = progs i) as Hp.
    { intros i. rewrite <- (P i), Hd. now rewrite app_nil_r. }
    split; [exact Hp|].
    rewrite (map_ext progs (fun i => proj i (acq s))) by (intros i; now rewrite Hp).
    apply perm_buckets. intros [i v] Hin. cbn [fst].
    destruct (Nat.lt_ge_cases i k) as [Hlt|Hge]; [exact Hlt|]. exfalso.
    pose proof (Hp i) as Hpi. rewrite (Hk i Hge) in Hpi.
    assert (In v (proj i (acq s))) as Hv.
    { unfold proj. apply in_map_iff. exists (i, v). split; [reflexivity|].
      apply filter_In. split; [exact Hin|]. cbn. apply Nat.eqb_refl. }
    rewrite Hpi in Hv. exact Hv.
  Qed.

End ConcProofs.

Arguments proj {V}.

Arguments call_ok {V}.
Arguments small_bufs {V}.
Arguments is_fail a : simpl never.

Definition no_fail (sched : list (nat * act)) : bool :=
  forallb (fun ia => negb (is_fail (snd ia))) sched.

(* ======================================================================== *)
(* (4) a Write fails in the middle of a frame                                *)
(* ======================================================================== *)

(* a strict prefix of a frame, alone at the end of the stream: the receiver
   delivers nothing from it and ends inside a header or a body *)
Lemma parse_all_truncated fix_f04 limit b m :
  limit < 4294967296 -> fits limit b -> m < 4 + lenN b ->
  parse_all fix_f04 limit (takeN m (header b ++ b)) = ([], FinEnd (negb (m =? 0))).
Proof.
  unfold fits. intros HL Hb Hm. unfold parse_all. cbn [parse_loop]. unfold parse1.
  assert (lenN (takeN m (header b ++ b)) = m) as Hlen.
  { rewrite lenN_takeN, lenN_app, lenN_header. lia. }
  rewrite Hlen. destruct (m <? 4) eqn:E4.
  - apply N.ltb_lt in E4. destruct (m =? 0) eqn:E0.
    + apply N.eqb_eq in E0. subst m. now rewrite takeN_0.
    + apply N.eqb_neq in E0. destruct (takeN m (header b ++ b)) eqn:Et; [|reflexivity].
      rewrite lenN_nil in Hlen. lia.
  - apply N.ltb_ge in E4. replace m with (4 + (m - 4)) by lia. rewrite takeN_header_app.
    assert (forall X, takeN 4 (header b ++ X) = header b) as HT
      by (intros X; change 4 with (lenN (header b)); apply takeN_app_exact).
    assert (forall X, dropN 4 (header b ++ X) = X) as HD
      by (intros X; change 4 with (lenN (header b)); apply dropN_app_exact).
    rewrite HT, HD. unfold header.
    assert (size_of b = lenN b) as Hsz by (unfold size_of; apply N.mod_small; lia).
    rewrite Hsz, de32_be32 by lia.
    assert (limit <? lenN b = false) as -> by (apply N.ltb_ge; lia).
    assert (lenN (takeN (m - 4) b) <? lenN b = true) as ->.
    { apply N.ltb_lt. rewrite lenN_takeN. lia. }
    assert (4 + (m - 4) =? 0 = false) as -> by (apply N.eqb_neq; lia). reflexivity.
Qed.

Section ConcDelivery.
  Variables (V T : Type) (type_of : V -> T) (tid_of : T -> bytes)
            (registry : bytes -> option T)
            (enc : V -> option bytes) (dec : T -> bytes -> option V).
  Variable fx : bool.                         (* fix_n1 *)

  Local Notation msh := (marshal type_of tid_of registry enc).

  (* the values the goroutines send: registered types that marshal to buffers within the limit *)
  Definition sendable (limit : N) (v : V) : Prop :=
    registered V T type_of tid_of registry v /\
    exists b, msh v = Some b /\ lenN b <= limit.

  Lemma whole_frames_fit limit (cs : list (call V)) :
    Forall (fun c => call_ok msh (c_val c) (c_bytes c) (c_ret c) (c_ok c)) cs ->
    (forall c, In c cs -> c_ok c = true) ->
    (forall v, In v (map snd (map (key V) cs)) -> sendable limit v) ->
    limit < 4294967296 ->
    exists bs, Forall2 (fun v b => msh v = Some b) (map snd (map (key V) cs)) bs /\
               concat (map c_bytes cs) = stream bs /\
               sumN (map c_ret cs) = sumN (map (fun b => 4 + lenN b) bs) /\
               Forall (fits limit) bs.
  Proof.
    intros HF A1 Hacq HL. induction cs as [|c cs IH].
    - exists []. repeat split; constructor.
    - inversion HF as [|? ? Hc HF']; subst.
      destruct IH as [bs [F2 [Hw [Ht Hf]]]]; [exact HF'|intros c' Hc'; apply A1; now right| |].
      { intros v Hv. apply Hacq. cbn [map]. now right. }
      rewrite (A1 c (or_introl eq_refl)) in Hc.
      destruct (Hacq (c_val c)) as [_ [b0 [Hb0 Hl0]]]; [cbn; now left|].
      destruct Hc as [b [sent [Hm [Hcw [H1 [H2 Hn]]]]]].
      assert (b = b0) as -> by congruence.
      assert (size_of b0 = lenN b0) as Hsz by (unfold size_of; apply N.mod_small; lia).
      assert (sent = lenN b0) as -> by lia.
      rewrite takeN_all in Hcw by lia.
      exists (b0 :: bs). cbn [map key snd]. split; [constructor; [exact Hm|exact F2]|].
      unfold stream in *. cbn [map concat]. rewrite Hw, Hcw.
      rewrite send_raw_small by lia. unfold header. rewrite Hsz.
      split; [reflexivity|]. split; [|constructor; [exact Hl0|exact Hf]].
      change (sumN (c_ret c :: map c_ret cs)) with (c_ret c + sumN (map c_ret cs)).
      change (sumN (4 + lenN b0 :: map (fun b => 4 + lenN b) bs))
        with ((4 + lenN b0) + sumN (map (fun b => 4 + lenN b) bs)).
      now rewrite Ht, Hn.
  Qed.

  (* (2) with the mutex, for every number of goroutines, every program, every
     interleaving and chunking of the Write calls and every segmentation on
     the way: the receiver dispatches exactly the values of the Send calls in
     the order in which they acquired the lock -- each goroutine's values in
     its program order, all together a permutation of everything sent, each
     once -- and the connection's Tx counter is the sum of the frame sizes *)
  Theorem mutex_delivery progs k sched s fix_f04 limit segs :
    tid_16 T tid_of -> codec_roundtrip V T type_of enc dec ->
    limit < 4294967296 ->
    (forall i, (k <= i)%nat -> progs i = []) ->
    (forall i v, In v (progs i) -> sendable limit v) ->
    no_fail sched = true ->
    run msh true fx sched (init progs) = Some s ->
    (forall i, todo (thr s i) = []) -> holder s = None ->
    concat segs = wire s ->
    handle_all registry dec fix_f04 limit segs =
      (map (envelope_of V T type_of tid_of) (map snd (acq s)), FinEnd false) /\
    (forall i, proj i (acq s) = progs i) /\
    Permutation (map snd (acq s)) (concat (map progs (seq 0 k))) /\
    exists bs, Forall2 (fun v b => msh v = Some b) (map snd (acq s)) bs /\
               tx s = sumN (map (fun b => 4 + lenN b) bs).
  Proof.
    intros H16 Hrt HL Hk Hsend Hnf Hrun Hdone Hh Hsegs.
    destruct (finished_is_merge V msh fx progs sched true s k Hk Hrun Hdone) as [Hp Hperm].
    assert (forall v, In v (map snd (acq s)) -> sendable limit v) as Hacq.
    { intros v Hv. apply in_map_iff in Hv as [[i v'] [<- Hin]]. cbn [snd].
      apply (Hsend i). rewrite <- Hp. unfold proj. apply in_map_iff. exists (i, v'). split; [reflexivity|].
      apply filter_In. split; [exact Hin|]. cbn. apply Nat.eqb_refl. }
    destruct (mutex_pieces V msh fx progs sched s Hrun) as [Hw [Ha [Ht [HF _]]]].
    pose proof (run_allok V msh fx (sendable limit) true sched (init progs) s) as Hall.
    destruct Hall as [A1 _].
    { intros v [_ [b [Hb _]]] E. congruence. }
    { exact Hnf. }
    { apply allok_init. exact Hsend. }
    { exact Hrun. }
    unfold held in *. rewrite Hh in *. rewrite app_nil_r in Hw, Ha. rewrite N.add_0_r in Ht.
    (* every finished call wrote one whole frame *)
    assert (exists bs, Forall2 (fun v b => msh v = Some b) (map snd (acq s)) bs /\
                       wire s = stream bs /\ tx s = sumN (map (fun b => 4 + lenN b) bs) /\
                       Forall (fits limit) bs) as [bs [F2 [Hst [Htx Hfit]]]].
    { rewrite Ha, Hw, Ht. rewrite Ha in Hacq. apply whole_frames_fit; assumption. }
    split; [|split; [exact Hp|split; [exact Hperm|exists bs; split; assumption]]].
    apply (delivery V T type_of tid_of registry enc dec fix_f04 limit (map snd (acq s)) bs segs);
      try assumption.
    - apply Forall_forall. intros v Hv. now apply Hacq.
    - now rewrite Hsegs.
  Qed.

  Lemma whole_frames_lim limit (cs : list (call V)) :
    Forall (fun c => call_ok msh (c_val c) (c_bytes c) (c_ret c) (c_ok c)) cs ->
    (forall c, In c cs -> c_ok c = true) ->
    (forall c b, In c cs -> msh (c_val c) = Some b -> lenN b <= limit) ->
    limit < 4294967296 ->
    exists bs, Forall2 (fun kv b => msh (snd kv) = Some b) (map (key V) cs) bs /\
               concat (map c_bytes cs) = stream bs /\ Forall (fits limit) bs.
  Proof.
    intros HF A1 Hlim HL. induction cs as [|c cs IH].
    - exists []. repeat split; constructor.
    - inversion HF as [|? ? Hc HF']; subst.
      destruct IH as [bs [F2 [Hw Hf]]]; [exact HF'|intros c' Hc'; apply A1; now right| |].
      { intros c' b' Hc'. apply Hlim. now right. }
      rewrite (A1 c (or_introl eq_refl)) in Hc.
      destruct Hc as [b [sent [Hm [Hcw [H1 [H2 Hn]]]]]].
      pose proof (Hlim c b (or_introl eq_refl) Hm) as Hl0.
      assert (size_of b = lenN b) as Hsz by (unfold size_of; apply N.mod_small; lia).
      assert (sent = lenN b) as -> by lia.
      rewrite takeN_all in Hcw by lia.
      exists (b :: bs). cbn [map key snd]. split; [constructor; [exact Hm|exact F2]|].
      unfold stream in *. cbn [map concat]. rewrite Hw, Hcw.
      rewrite send_raw_small by lia. unfold header. rewrite Hsz.
      split; [reflexivity|]. constructor; [exact Hl0|exact Hf].
  Qed.

  (* (4) a Write (or the header write) of ONE call fails part-way and nothing
     is sent on the connection afterwards: the receiver dispatches the calls
     that returned nil in front of it, nothing from the broken frame, and ends
     inside a header or a body (EOF / read deadline) -- no mis-delivery *)
  Theorem mutex_failure_last progs sched s fix_f04 limit segs cs c b :
    limit < 4294967296 ->
    run msh true fx sched (init progs) = Some s -> holder s = None ->
    done s = cs ++ [c] -> (forall c', In c' cs -> c_ok c' = true) -> c_ok c = false ->
    (forall c' b', In c' (cs ++ [c]) -> msh (c_val c') = Some b' -> lenN b' <= limit) ->
    msh (c_val c) = Some b ->
    concat segs = wire s ->
    exists bs m,
      Forall2 (fun kv b => msh (snd kv) = Some b) (map (key V) cs) bs /\
      c_bytes c = takeN m (header b ++ b) /\ m < 4 + lenN b /\ c_ret c <= m /\
      handle_all registry dec fix_f04 limit segs =
        (local_handle registry dec bs, FinEnd (negb (m =? 0))).
  Proof.
    intros HL Hrun Hh Hd Hok Hc Hfit Hb Hsegs.
    destruct (mutex_pieces V msh fx progs sched s Hrun) as [Hw [_ [_ [HF _]]]].
    unfold held in Hw. rewrite Hh, app_nil_r, Hd in Hw. rewrite Hd in HF.
    apply Forall_app in HF as [HFcs HFc]. inversion HFc as [|? ? Hcc _]; subst.
    destruct (whole_frames_lim limit cs HFcs Hok) as [bs [F2 [Hst Hfits]]]; [|exact HL|].
    { intros c' b' Hc'. apply Hfit. apply in_or_app. now left. }
    rewrite Hc in Hcc. destruct Hcc as [[Hn _]|[b' [m [Hb' [Hcw [Hm Hr]]]]]]; [congruence|].
    assert (b' = b) as -> by congruence.
    exists bs, m. repeat split; try assumption.
    rewrite handle_all_deliveries, Hsegs, Hw, map_app, concat_app, Hst. cbn [map concat].
    rewrite app_nil_r, Hcw.
    rewrite parse_all_frames_then by assumption.
    rewrite parse_all_truncated; [|exact HL| |exact Hm].
    2:{ unfold fits. apply (Hfit c b); [apply in_or_app; right; now left|exact Hb]. }
    cbn [fst snd]. now rewrite app_nil_r, deliveries_frames.
  Qed.

End ConcDelivery.

(* ======================================================================== *)
(* C03-N1 repaired (fix_n1 = true): a connection on which a Write failed is    *)
(* dead -- not a byte more goes out, every later Send returns an error         *)
(* ======================================================================== *)

Section Dead.
  Variable V : Type.
  Variable msh : V -> option bytes.

  Definition AllDead (s : state V) : Prop :=
    broken s = true /\
    forall i, match at_ (thr s i) with
              | PBody _ _ _ _ => False
              | PRet _ _ _ true => False
              | _ => True
              end.

  Lemma dead_step mx s ia s' :
    AllDead s -> step msh mx true s ia = Some s' ->
    AllDead s' /\ wire s' = wire s /\ tx s' = tx s /\
    (done s' = done s \/ exists c, done s' = done s ++ [c] /\ c_ok c = false).
  Proof.
    intros [Hb Hd] H. destruct ia as [i a]. unfold step in H. rewrite Hb in H. cbn [andb negb orb] in H.
    pose proof (Hd i) as Hi.
    assert (forall p, match p with PBody _ _ _ _ => False | PRet _ _ _ true => False | _ => True end ->
            forall j, match at_ (set_pc V s i p j) with
                      | PBody _ _ _ _ => False | PRet _ _ _ true => False | _ => True end) as Hset.
    { intros p Hp j. unfold set_pc, upd. destruct (Nat.eqb j i); [exact Hp|apply Hd]. }
    destruct a as [| | |k|k|k| |]; destruct (at_ (thr s i)) as [|v|v b|v b sent w|v w n ok] eqn:Ep;
      try discriminate; try contradiction.
    - (* ALock *)
      destruct (todo (thr s i)) as [|v r]; [discriminate|].
      destruct (mx && match holder s with Some _ => true | None => false end); [discriminate|].
      injection H as <-. unfold AllDead; cbn [broken wire tx done thr]. repeat split; auto.
      intros j. cbn [thr]. unfold upd. destruct (Nat.eqb j i); [cbn; exact Logic.I|apply Hd].
    - (* AMarshal *)
      injection H as <-. unfold AllDead; cbn [broken wire tx done thr]. repeat split; auto.
      apply Hset. destruct (msh v); exact I.
    - (* AHeaderFail *)
      destruct ((k <? 4) && (k =? 0)) eqn:E; [|discriminate].
      apply andb_true_iff in E as [_ E]. apply N.eqb_eq in E. subst k.
      injection H as <-. unfold AllDead; cbn [broken wire tx done thr]. rewrite app_nil_r.
      repeat split; auto. apply Hset. exact I.
    - (* AUnlock *)
      destruct ok; [contradiction|].
      injection H as <-. unfold AllDead; cbn [broken wire tx done thr]. repeat split; auto.
      + apply Hset. exact I.
      + right. eexists. split; reflexivity.
  Qed.

  Lemma dead_run mx : forall sched s s',
    AllDead s -> run msh mx true sched s = Some s' ->
    AllDead s' /\ wire s' = wire s /\ tx s' = tx s /\
    exists extra, done s' = done s ++ extra /\ forall c, In c extra -> c_ok c = false.
  Proof.
    induction sched as [|ia r IH]; intros s s' D H; cbn [run] in H.
    - injection H as <-. split; [exact D|]. split; [reflexivity|]. split; [reflexivity|].
      exists []. split; [now rewrite app_nil_r|intros c []].
    - destruct (step msh mx true s ia) as [s1|] eqn:E; [|discriminate].
      destruct (dead_step mx s ia s1 D E) as [D1 [W1 [T1 Hd1]]].
      destruct (IH s1 s' D1 H) as [D2 [W2 [T2 [extra [Hd2 Hx]]]]].
      split; [exact D2|]. split; [congruence|]. split; [congruence|].
      destruct Hd1 as [Hd1|[c [Hd1 Hc]]].
      + exists extra. split; [congruence|exact Hx].
      + exists (c :: extra). split; [rewrite Hd2, Hd1, <- app_assoc; reflexivity|].
        intros c' [<-|Hc']; [exact Hc|now apply Hx].
  Qed.

  (* a failing Write closes the connection; without a failing Write it stays open *)
  Lemma failure_breaks mx s i n s' :
    (step msh mx true s (i, AWriteFail n) = Some s' \/ step msh mx true s (i, AHeaderFail n) = Some s') ->
    broken s' = true.
  Proof.
    intros [H|H]; unfold step in H; destruct (at_ (thr s i)); try discriminate;
      match type of H with (if ?c then _ else _) = _ => destruct c; [|discriminate] end;
      injection H as <-; reflexivity.
  Qed.

  Lemma unbroken mx fx : forall sched s s',
    no_fail sched = true -> run msh mx fx sched s = Some s' -> broken s' = broken s.
  Proof.
    induction sched as [|[i a] r IH]; intros s s' Hf H; cbn [run] in H.
    - now injection H as <-.
    - unfold no_fail in Hf. cbn [forallb snd] in Hf. apply andb_true_iff in Hf as [Hf1 Hf2].
      destruct (step msh mx fx s (i, a)) as [s1|] eqn:E; [|discriminate].
      rewrite (IH s1 s' Hf2 H). clear IH H. unfold step in E.
      destruct a; try discriminate Hf1; destruct (at_ (thr s i)); try discriminate;
        try (match type of E with (if ?c then _ else _) = _ => destruct c; [|discriminate] end);
        try (match type of E with (if ?c then _ else _) = _ => destruct c; [discriminate|] end);
        try (destruct (todo (thr s i)); [discriminate|]);
        try (match type of E with (if ?c then _ else _) = _ => destruct c; [discriminate|] end);
        injection E as <-; reflexivity.
  Qed.

  (* the repaired code, with the mutex: once a Send has failed in a Write and
     nobody is inside Send, whatever is tried on that connection afterwards --
     any goroutines, any schedule -- puts no byte on the wire, leaves Tx alone,
     and every call returns an error: no Send reports success for a message that
     cannot arrive *)
  Theorem n1_fixed_dead progs sched1 s1 sched2 s2 :
    run msh true true sched1 (init progs) = Some s1 -> holder s1 = None -> broken s1 = true ->
    run msh true true sched2 s1 = Some s2 ->
    wire s2 = wire s1 /\ tx s2 = tx s1 /\
    exists extra, done s2 = done s1 ++ extra /\ forall c, In c extra -> c_ok c = false.
  Proof.
    intros H1 Hh Hb H2.
    pose proof (run_inv V msh true sched1 _ s1 (inv_init V msh progs) H1) as I.
    assert (AllDead s1) as D.
    { split; [exact Hb|]. intros i. rewrite (inv_idle V msh s1 I i); [exact Logic.I|]. rewrite Hh. discriminate. }
    destruct (dead_run true sched2 s1 s2 D H2) as [_ R]. exact R.
  Qed.

End Dead.

(* ======================================================================== *)
(* (3), (4): what goes wrong -- concrete schedules                           *)
(* ======================================================================== *)

Import Witness.

Module ConcWitness.
  (* two goroutines, one message each, the witness codec of Net/WireProofs.v:
     values are byte strings, a buffer is 16 x 0x01 ++ value *)
  Definition progs2 (i : nat) : list bytes :=
    match i with O => [[x41]] | S O => [[x42]] | _ => [] end.

  (* without the mutex: both write their size, then both write their body *)
  Definition sched_nomutex : list (nat * act) :=
    [(0%nat, ALock); (0%nat, AMarshal); (1%nat, ALock); (1%nat, AMarshal);
     (0%nat, AHeader); (1%nat, AHeader);
     (0%nat, AWrite 17); (1%nat, AWrite 17);
     (0%nat, AFinish); (1%nat, AFinish); (0%nat, AUnlock); (1%nat, AUnlock)].

  (* with the mutex: goroutine 0's Write fails after 5 of 17 bytes (write
     deadline), goroutine 1 then sends on the same connection *)
  Definition sched_failure : list (nat * act) :=
    [(0%nat, ALock); (0%nat, AMarshal); (0%nat, AHeader); (0%nat, AWriteFail 5); (0%nat, AUnlock)] ++
    whole_send 1 17.

  (* the same failure with proposed_fixes/C03-N1.diff: the connection is closed,
     goroutine 1's header write fails without a byte *)
  Definition sched_failure_fixed : list (nat * act) :=
    [(0%nat, ALock); (0%nat, AMarshal); (0%nat, AHeader); (0%nat, AWriteFail 5); (0%nat, AUnlock);
     (1%nat, ALock); (1%nat, AMarshal); (1%nat, AHeaderFail 0); (1%nat, AUnlock)].

  Definition final (mx fx : bool) (sched : list (nat * act)) : option (state bytes) :=
    run w_marshal mx fx sched (init progs2).
End ConcWitness.

Import ConcWitness.

(* (3) the code with the two sendMutex lines deleted: both Send calls return
   nil, the receiver dispatches NEITHER message, refuses frames and ends out of
   step -- for either variant of the receive loop *)
Theorem nomutex_refuted :
  exists s,
    final false false sched_nomutex = Some s /\
    (forall i, todo (thr s i) = []) /\ (forall c, In c (done s) -> c_ok c = true) /\
    tx s = 42 /\
    w_handle false limit [wire s] = ([], FinEnd true) /\
    fst (recv_all false limit [wire s]) <> map EvFrame [m x41; m x42] /\
    fst (recv_all false limit [wire s]) <> map EvFrame [m x42; m x41] /\
    w_handle true limit [wire s] = ([], FinClosed).
Proof.
  destruct (final false false sched_nomutex) as [s|] eqn:E; [|vm_compute in E; discriminate E].
  exists s. vm_compute in E. injection E as <-.
  split; [reflexivity|]. split; [intros [|[|i]]; reflexivity|]. split.
  { intros c [<-|[<-|[]]]; reflexivity. }
  split; [reflexivity|]. split; [vm_compute; reflexivity|].
  split; [vm_compute; discriminate|]. split; [vm_compute; discriminate|].
  vm_compute; reflexivity.
Qed.

(* the same two goroutines WITH the mutex, every interleaving: instance of
   mutex_stream; here one schedule, evaluated *)
Example mutex_same_schedule_blocked :
  final true false sched_nomutex = None /\
  exists s, final true false (whole_send 1 17 ++ whole_send 0 17) = Some s /\
            w_handle false limit [wire s] = ([(id0, [x42]); (id0, [x41])], FinEnd false).
Proof.
  split; [vm_compute; reflexivity|].
  destruct (final true false (whole_send 1 17 ++ whole_send 0 17)) as [s|] eqn:E; [|vm_compute in E; discriminate E].
  exists s. vm_compute in E. injection E as <-. split; [reflexivity|vm_compute; reflexivity].
Qed.

(* ... and with the repair the same history: goroutine 1's whole Send is not
   executable any more, its header write fails without a byte, it gets an error *)
Example failure_then_send_fixed :
  final true true sched_failure = None /\
  exists s c0 c1,
    final true true sched_failure_fixed = Some s /\ done s = [c0; c1] /\
    c_ok c0 = false /\ c_ok c1 = false /\ c_bytes c1 = [] /\ broken s = true /\
    w_handle false limit [wire s] = ([], FinEnd true).
Proof.
  split; [vm_compute; reflexivity|].
  destruct (final true true sched_failure_fixed) as [s|] eqn:E; [|vm_compute in E; discriminate E].
  vm_compute in E. injection E as <-.
  eexists. eexists. eexists. split; [reflexivity|]. split; [reflexivity|].
  repeat split; vm_compute; reflexivity.
Qed.

(* (4) with the mutex: a Write that fails part-way does not make the connection
   unusable (Send neither closes nor marks it; Router.Send retries on a NEW
   connection and leaves this one first in line for everybody else).  The next
   Send on it returns nil, and its message is never dispatched: the receiver
   takes the head of the new frame for the rest of the broken one *)
Theorem failure_then_send_refuted :
  exists s c0 c1,
    final true false sched_failure = Some s /\ done s = [c0; c1] /\
    c_who c0 = 0%nat /\ c_ok c0 = false /\ c_ret c0 = 4 /\
    c_who c1 = 1%nat /\ c_ok c1 = true /\ c_bytes c1 = send_raw (m x42) /\
    w_handle false limit [wire s] = ([], FinEnd true) /\
    w_handle true limit [wire s] = ([], FinClosed).
Proof.
  destruct (final true false sched_failure) as [s|] eqn:E; [|vm_compute in E; discriminate E].
  vm_compute in E. injection E as <-.
  eexists. eexists. eexists. split; [reflexivity|]. split; [reflexivity|].
  repeat split; vm_compute; reflexivity.
Qed.

(* the hypotheses of mutex_failure_last are satisfiable: the failure history cut
   after goroutine 0's failed Send *)
Example failure_last_hypotheses :
  exists s c,
    final true false (firstn 5 sched_failure) = Some s /\ holder s = None /\
    done s = [] ++ [c] /\ c_ok c = false /\ w_marshal (c_val c) = Some (m x41) /\
    (forall c' b', In c' ([] ++ [c]) -> w_marshal (c_val c') = Some b' -> lenN b' <= limit) /\
    limit < 4294967296.
Proof.
  destruct (final true false (firstn 5 sched_failure)) as [s|] eqn:E; [|vm_compute in E; discriminate E].
  vm_compute in E. injection E as <-. eexists. eexists.
  split; [reflexivity|]. split; [reflexivity|]. split; [reflexivity|]. split; [reflexivity|].
  split; [reflexivity|]. split; [|reflexivity].
  intros c' b' [<-|[]] H. vm_compute in H. injection H as <-. vm_compute. discriminate.
Qed.
