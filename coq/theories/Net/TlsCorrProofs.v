(* C08 -- what an empty [mism] / [viol] printed by a cases file means, and what
   the variant of the model selected by Corr/C08.v (the code as it is) guarantees. *)
From Coq Require Import List Bool Arith ZArith.
Import ListNotations.
From Onet Require Import Base.Corr Net.Tls Net.TlsProofs Corr.C08.

(* the property of one recorded run *)
Definition case_property (c : case) : Prop :=
  match c with
  | Case lv r s holds _ t h id _ (Obs hs disp stamp crash _ resumed) =>
      link_property lv r s holds (effective resumed t h) id hs disp stamp crash
  | CaseConc s holds e _ h _ (Obs hs disp stamp crash _ _) _ =>
      link_property LTls (RDial e) s holds h IdMatch hs disp stamp crash
  end.

(* the model's prediction of one recorded run: Corr.C08.model_of *)
Definition case_model (c : case) : outcome * bool := model_of c.

Definition case_observed (c : case) : outcome * bool :=
  match obs_of c with Obs hs disp stamp crash _ resumed => (mkout hs disp stamp crash, resumed) end.

Definition case_honest_proof (c : case) : bool :=
  match obs_of c with Obs _ _ _ _ hp _ => hp end.

Lemma keys_eqb_eq a b : keys_eqb a b = true <-> a = b.
Proof.
  revert b; induction a as [|x a IH]; intros [|y b]; simpl; split; intros H;
    try reflexivity; try discriminate.
  - apply andb_true_iff in H as [H1 H2]. apply Nat.eqb_eq in H1. apply IH in H2. now subst.
  - injection H as -> ->. apply andb_true_iff. split; [apply Nat.eqb_refl|now apply IH].
Qed.

(* viol = []  <->  every recorded run satisfies the property *)
Theorem violations_nil_iff (l : list case) :
  violations l = [] <-> forall c, In c l -> case_property c.
Proof.
  unfold violations, viols. rewrite viol_idx_nil. split; intros H c Hc; specialize (H c Hc);
    destruct c as [lv r s holds prior t h id msgs [hs disp stamp crash hp rs]
                  |s holds e other h msgs [hs disp stamp crash hp rs] up]; simpl in *;
    now apply prop_check_sound.
Qed.

Lemma obs_agrees_iff m rs hs disp stamp crash hp resumed :
  obs_agrees m rs (Obs hs disp stamp crash hp resumed) = true <->
  (m, rs) = (mkout hs disp stamp crash, resumed) /\ hp = true.
Proof.
  unfold obs_agrees. destruct m as [a b c d]. simpl. split.
  - intros H. repeat (apply andb_true_iff in H as [H ?]).
    apply eqb_prop in H.
    repeat match goal with X : Bool.eqb _ _ = true |- _ => apply eqb_prop in X end.
    match goal with X : (_ =? _) = true |- _ => apply Nat.eqb_eq in X end.
    match goal with X : keys_eqb _ _ = true |- _ => apply keys_eqb_eq in X end.
    subst. auto.
  - intros [H ->]. injection H as -> -> -> -> ->. rewrite !eqb_reflx, Nat.eqb_refl. simpl.
    rewrite !andb_true_r. now apply keys_eqb_eq.
Qed.

(* mism = []  <->  the model predicts every recorded run exactly (and, in the
   two-dials scenario, the honest second link as well) *)
Theorem mismatches_nil_iff (l : list case) :
  mismatches l = [] <->
  forall c, In c l -> case_model c = case_observed c /\ case_honest_proof c = true /\ extra_ok c = true.
Proof.
  unfold mismatches. rewrite mism_idx_nil.
  assert (E : forall c, agree c = true <->
            case_model c = case_observed c /\ case_honest_proof c = true /\ extra_ok c = true).
  { intros c. unfold agree, case_model, case_observed, case_honest_proof.
    destruct (model_of c) as [m rs]. destruct (obs_of c) as [hs disp stamp crash hp resumed].
    rewrite andb_true_iff, obs_agrees_iff. tauto. }
  split; intros H c Hc; apply E; auto.
Qed.

(* ------------------------------------------------------------------------- *)
(* the code as it is                                                          *)

(* Which variant /repo is.  This is the one statement that has to be edited (with
   the conf text) when a flag of Corr/C08.v is flipped: F09, F29 and C08-N1 (no
   TLS session resumption) are repaired in /repo; the relay (F28, wire format)
   is the only open item. *)
Example current_code_variant : code_fx = mkfixes true false true true.
Proof. reflexivity. Qed.

(* no connection of the code's variant is a resumed session, whatever is offered *)
Theorem current_code_resumption_closed lv r s t h id msgs :
  link_r code_fx lv r s t h id msgs = (link code_fx lv r s h id msgs, false).
Proof. apply no_resumption_when_repaired. reflexivity. Qed.

(* What the code's variant guarantees, for every peer bound by unforgeability,
   whatever ticket it offers, every chain, identity message, role, suite: no
   crash; an accepted link names a key that the peer holds -- or whose holder's
   proof it RELAYS (F28, the one exception) --, proved over this handshake's
   nonce and within validity, equal to the dialled key, equal to the key of
   every dispatched message and to the declared one; nothing is dispatched on a
   refused link.  ([guarantee] with resumed = false: its freshness conjunct is
   unconditional and the relayed proof is one for the CURRENT nonce.) *)
Theorem current_code_guarantee holds own_tls htls r s t h id msgs :
  (forall k, ~ In k holds -> own_tls (htls k) = false) ->
  presentable code_fx holds own_tls htls h ->
  link_r code_fx LTls r s t h id msgs = (link code_fx LTls r s h id msgs, false) /\
  guarantee holds r s id false h (link code_fx LTls r s h id msgs).
Proof.
  intros Hh Hp. split; [apply current_code_resumption_closed|].
  assert (Ht : ticket_ok holds s None) by (intros c0 b H; discriminate).
  pose proof (partly_repaired_guarantee code_fx holds own_tls htls r s None h id msgs
                eq_refl eq_refl Hh Hp Ht) as G.
  rewrite (current_code_resumption_closed LTls r s None h id msgs) in G. exact G.
Qed.

(* the exception is real for the code's variant as long as its flag is off *)
Theorem current_code_relay_open holds own_tls htls s now n k tk :
  fix_bind code_fx = false -> ~ In k holds -> own_tls tk = true ->
  let c := mkcert (pub_to_cn k) [URI true true (pub_to_cn k)] (Some (SigBy k n (pub_to_cn k) None))
                  tk SgSelf (now - 300) (now + 7200) true false in
  presentable code_fx holds own_tls htls (Hello [RawOne c] tk) /\
  tls_handshake code_fx s now n (Some k) (Hello [RawOne c] tk) = Accept /\
  tls_handshake code_fx s now n None (Hello [RawOne c] tk) = Accept.
Proof. intros Hb. now apply relay_presentable. Qed.

(* against peers that do not relay, the code's variant satisfies the property
   itself, tickets or not *)
Theorem current_code_satisfies_property_without_relay holds r s t h id msgs :
  signs_only_with_own_keys holds h ->
  let '(o, resumed) := link_r code_fx LTls r s t h id msgs in
  link_property LTls r s holds (effective resumed t h) id (out_hs o) (out_disp o) (out_stamp o) (out_crash o).
Proof.
  intros Hown. rewrite current_code_resumption_closed. simpl effective.
  exact (f09_repaired_link_satisfies_property_without_relay holds r s h id msgs Hown).
Qed.
