(* C08 -- what an empty [mism] / [viol] printed by a cases file means. *)
From Coq Require Import List Bool Arith.
Import ListNotations.
From Onet Require Import Base.Corr Net.Tls Net.TlsProofs Corr.C08.

(* the property of one recorded run *)
Definition case_property (c : case) : Prop :=
  match c with
  | Case lv r s holds h id _ (Obs hs disp stamp crash _) =>
      link_property lv r s holds h id hs disp stamp crash
  end.

(* the model's prediction of one recorded run *)
Definition case_model (c : case) : outcome :=
  match c with Case lv r s _ h id msgs _ => link code_fx lv r s h id msgs end.

Definition case_observed (c : case) : outcome :=
  match c with Case _ _ _ _ _ _ _ (Obs hs disp stamp crash _) => mkout hs disp stamp crash end.

Definition case_honest_proof (c : case) : bool :=
  match c with Case _ _ _ _ _ _ _ (Obs _ _ _ _ hp) => hp end.

Lemma keys_eqb_eq a b : keys_eqb a b = true <-> a = b.
Proof.
  revert b; induction a as [|x a IH]; intros [|y b]; simpl; split; intros H;
    try reflexivity; try discriminate.
  - apply andb_true_iff in H as [H1 H2]. apply Nat.eqb_eq in H1. apply IH in H2. now subst.
  - injection H as -> ->. apply andb_true_iff. split; [apply Nat.eqb_refl|now apply IH].
Qed.

(* viol = []  <->  every recorded run satisfies the property *)
Theorem violations_nil_iff (l : list case) :
  violations l = [] <-> forall c, In c l -> case_property c.
Proof.
  unfold violations, viols. rewrite viol_idx_nil. split; intros H c Hc; specialize (H c Hc);
    destruct c as [lv r s holds h id msgs [hs disp stamp crash hp]]; simpl in *.
  - now apply prop_check_sound.
  - now apply prop_check_sound.
Qed.

(* mism = []  <->  the model predicts every recorded run exactly *)
Theorem mismatches_nil_iff (l : list case) :
  mismatches l = [] <->
  forall c, In c l -> case_model c = case_observed c /\ case_honest_proof c = true.
Proof.
  unfold mismatches. rewrite mism_idx_nil. split; intros H c Hc; specialize (H c Hc);
    destruct c as [lv r s holds h id msgs [hs disp stamp crash hp]]; simpl in *.
  - repeat (apply andb_true_iff in H as [H ?]). split; [|assumption].
    apply eqb_prop in H. match goal with X : Bool.eqb (out_hs _) _ = true |- _ => apply eqb_prop in X end.
    match goal with X : (_ =? _) = true |- _ => apply Nat.eqb_eq in X end.
    match goal with X : keys_eqb _ _ = true |- _ => apply keys_eqb_eq in X end.
    destruct (link code_fx lv r s h id msgs) as [a b c d]. simpl in *. now subst.
  - destruct H as [H ->]. rewrite H. simpl. rewrite !eqb_reflx, Nat.eqb_refl. simpl.
    rewrite andb_true_r. now apply keys_eqb_eq.
Qed.
