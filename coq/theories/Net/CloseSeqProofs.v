(* C10 -- Server.Close after Router.Stop: invariants, the deadlock of the earlier
   treeStorage.Close (fx_ts = false; "pinned" below = before the repairs F41 / F42, both
   landed), termination of the present one (fx_ts = true), instances created after
   Overlay.Close. *)
From Coq Require Import List Arith Bool Lia.
Import ListNotations.
From Onet Require Import Net.CloseSeq.

Lemma cupd_length {A} (l : list A) i x : length (cupd l i x) = length l.
Proof. revert i; induction l as [|y r IH]; intros [|i]; cbn; auto. Qed.

Lemma nth_cupd_eq {A} (l : list A) i x : i < length l -> nth_error (cupd l i x) i = Some x.
Proof. revert i; induction l as [|y r IH]; intros [|i] H; cbn in *; try lia; auto. apply IH; lia. Qed.

Lemma nth_lt {A} (l : list A) i x : nth_error l i = Some x -> i < length l.
Proof. intros H. apply nth_error_Some. congruence. Qed.

Fixpoint tsum (f : timer -> nat) (l : list timer) : nat :=
  match l with [] => 0 | t :: r => f t + tsum f r end.

Lemma tsum_cupd f l j t t' : nth_error l j = Some t -> tsum f (cupd l j t') + f t = tsum f l + f t'.
Proof.
  revert j; induction l as [|y r IH]; intros [|j] H; cbn in *; try discriminate.
  - inversion H; subst. lia.
  - specialize (IH _ H). lia.
Qed.

Lemma tsum_app f l t : tsum f (l ++ [t]) = tsum f l + f t.
Proof. induction l as [|y r IH]; cbn; lia. Qed.

Lemma tsum_pos f l j t : nth_error l j = Some t -> f t <= tsum f l.
Proof.
  revert j; induction l as [|y r IH]; intros [|j] H; cbn in *; try discriminate.
  - inversion H; subst. lia.
  - specialize (IH _ H). lia.
Qed.

Lemma tsum_nonzero_ex f l : tsum f l <> 0 -> exists j t, nth_error l j = Some t /\ f t <> 0.
Proof.
  induction l as [|y r IH]; cbn; [congruence|]. intros H. destruct (f y) eqn:E.
  - destruct IH as (j & t & Hj & Ht); [lia|]. exists (S j), t. auto.
  - exists 0, y. cbn. split; auto. lia.
Qed.

Lemma tsum_cancel_all f idx i l : (forall t, f (set_cancel t) = f t) -> tsum f (cancel_all idx i l) = tsum f l.
Proof.
  intros Hf. revert i; induction l as [|t r IH]; intros i; cbn; auto.
  rewrite IH. destruct (cmem i idx); [rewrite Hf|]; reflexivity.
Qed.

Definition livet (t : timer) : nat := if timer_live t then 1 else 0.

Record CSInv (fx_ts fx_ov : bool) (s : cstate) : Prop := {
  cs_wg : twg s = tsum livet (timers s);
  cs_crash : tcrashed s = false;
  cs_lock : ts_lock s = true -> cpc s = KTsWait /\ fx_ts = false;
  cs_closed : ts_closed s = true <-> (cpc s = KTsWait \/ cpc s = KDb \/ cpc s = KReturned);
  cs_empty : cpc s = KTsWait -> instances s = [];
  cs_ov : fx_ov = true -> leaked s = 0 /\ (ov_closed s = true -> instances s = []) }.

Lemma CSInv_init fx_ts fx_ov insts : CSInv fx_ts fx_ov (cinit insts).
Proof.
  constructor; cbn; auto; try discriminate.
  - split; [discriminate|]. intros [H|[H|H]]; discriminate.
  - intros _. split; [reflexivity|discriminate].
Qed.

Lemma livet_cancel t : livet (set_cancel t) = livet t.
Proof. reflexivity. Qed.

Lemma cancel_deletion_inv fx_ts fx_ov s tree :
  CSInv fx_ts fx_ov s -> CSInv fx_ts fx_ov (cancel_deletion s tree).
Proof.
  intros [W C L K E O]. unfold cancel_deletion. destruct (pending_of (pending s) tree) as [j|]; [|constructor; auto].
  constructor; cbn; auto.
  destruct (nth_error (timers s) j) as [t|] eqn:Et; auto.
  pose proof (tsum_cupd livet _ _ _ (set_cancel t) Et) as Q. rewrite livet_cancel in Q. lia.
Qed.

Lemma cancel_deletion_same s tree :
  cpc (cancel_deletion s tree) = cpc s /\ instances (cancel_deletion s tree) = instances s /\
  leaked (cancel_deletion s tree) = leaked s /\ ts_lock (cancel_deletion s tree) = ts_lock s /\
  ts_closed (cancel_deletion s tree) = ts_closed s.
Proof. unfold cancel_deletion. destruct (pending_of (pending s) tree); cbn; auto. Qed.

Lemma node_delete_inv fx_ts fx_ov s j s' :
  CSInv fx_ts fx_ov s -> node_delete s j = Some s' ->
  (ov_closed s = true -> fx_ov = true -> False) \/ True ->
  cpc s' = cpc s /\ leaked s' = leaked s /\ ts_lock s' = ts_lock s /\ ts_closed s' = ts_closed s /\
  twg s' = tsum livet (timers s') /\ tcrashed s' = false /\
  instances s' = remove_at (instances s) j.
Proof.
  intros [W C L K E O] H _. unfold node_delete in H.
  destruct (nth_error (instances s) j) as [tree|]; [|discriminate].
  destruct (cmem tree (remove_at (instances s) j)).
  - inversion H; subst; cbn. auto 10.
  - destruct (ts_lock s) eqn:El; [discriminate|]. inversion H; subst; clear H. unfold ts_remove.
    destruct (ts_closed s); cbn; [auto 10|].
    destruct (pending_of (pending s) tree); cbn; [auto 10|].
    rewrite tsum_app. cbn. repeat split; auto. lia.
Qed.

Lemma timer_exit_inv fx_ts fx_ov s j t p :
  CSInv fx_ts fx_ov s -> nth_error (timers s) j = Some t -> timer_live t = true ->
  CSInv fx_ts fx_ov (timer_exit s j t p).
Proof.
  intros [W C L K E O] Ht Hl. unfold timer_exit.
  pose proof (tsum_cupd livet _ _ _ (set_tst t TExited) Ht) as Q.
  pose proof (tsum_pos livet _ _ _ Ht) as P.
  assert (L1 : livet t = 1) by (unfold livet; now rewrite Hl).
  assert (L0 : livet (set_tst t TExited) = 0) by reflexivity.
  rewrite L1 in Q, P. rewrite L0 in Q.
  destruct (twg s) as [|n] eqn:Ew; [lia|].
  constructor; cbn; auto. lia.
Qed.

Lemma cstep_inv fx_ts fx_ov s a s' :
  CSInv fx_ts fx_ov s -> cstep fx_ts fx_ov s a = Some s' -> CSInv fx_ts fx_ov s'.
Proof.
  intros I H. pose proof I as [W C L K E O].
  destruct a as [| |j| | | |j|j|j|j|tree|tree]; cbn [cstep] in H.
  - destruct (cpc s) eqn:Ek; try discriminate. inversion H; subst; clear H.
    constructor; cbn; auto; try discriminate.
    + intros Hl. destruct (L Hl). congruence.
    + rewrite K. split; intros [X|[X|X]]; congruence.
    + intros Hf. destruct (O Hf) as [O1 O2]. split; auto. discriminate.
  - destruct (cpc s) eqn:Ek; try discriminate. inversion H; subst; clear H.
    constructor; cbn; auto; try discriminate.
    + intros Hl. destruct (L Hl). congruence.
    + rewrite K. split; intros [X|[X|X]]; congruence.
    + intros Hf. destruct (O Hf) as [O1 O2]. split; auto. discriminate.
  - destruct (cpc s) eqn:Ek; try discriminate.
    destruct (node_delete_inv _ _ _ _ _ I H) as (A1 & A2 & A3 & A4 & A5 & A6 & A7); auto.
    constructor; auto.
    + rewrite A1, A3. apply (cs_lock _ _ _ I).
    + rewrite A1, A4. apply (cs_closed _ _ _ I).
    + rewrite A1, Ek. discriminate.
    + intros Hf. rewrite A2. destruct (O Hf) as [O1 O2]. split; auto.
      unfold ov_closed. rewrite A1, Ek. discriminate.
  - destruct (cpc s) eqn:Ek; try discriminate. destruct (instances s) eqn:Ei; try discriminate.
    destruct (ts_lock s) eqn:El; [discriminate|]. inversion H; subst; clear H.
    constructor; cbn; auto.
    + rewrite tsum_cancel_all; auto.
    + intros Hn. split; auto. destruct fx_ts; auto; discriminate.
    + tauto.
    + intros Hf. destruct (O Hf). split; auto.
  - destruct (cpc s) eqn:Ek; try discriminate. destruct (twg s =? 0); [|discriminate].
    inversion H; subst; clear H. constructor; cbn; auto; try discriminate.
    + rewrite K. split; intros; auto.
    + intros Hf. destruct (O Hf). split; auto.
  - destruct (cpc s) eqn:Ek; try discriminate. inversion H; subst; clear H.
    constructor; cbn; auto; try discriminate.
    + intros Hl. destruct (L Hl). congruence.
    + rewrite K. split; intros; auto.
    + intros Hf. destruct (O Hf) as [O1 O2]. split; auto. intros _. apply O2. unfold ov_closed. now rewrite Ek.
  - destruct (nth_error (timers s) j) as [t|] eqn:Et; [|discriminate].
    destruct (tst t) eqn:Es; try discriminate. inversion H; subst; clear H.
    constructor; cbn; auto.
    pose proof (tsum_cupd livet _ _ _ (set_tst t TFired) Et) as Q.
    assert (L1 : livet t = 1) by (unfold livet, timer_live; now rewrite Es).
    assert (L2 : livet (set_tst t TFired) = 1) by reflexivity. lia.
  - destruct (nth_error (timers s) j) as [t|] eqn:Et; [|discriminate].
    destruct (tst t) eqn:Es; try discriminate. destruct (tcancel t); [|discriminate].
    inversion H; subst; clear H. eapply timer_exit_inv; eauto. unfold timer_live. now rewrite Es.
  - destruct (nth_error (timers s) j) as [t|] eqn:Et; [|discriminate].
    destruct (tst t) eqn:Es; try discriminate. destruct (ts_lock s); [discriminate|].
    inversion H; subst; clear H. eapply timer_exit_inv; eauto. unfold timer_live. now rewrite Es.
  - destruct (ov_locked s) eqn:Eo; [discriminate|].
    destruct (node_delete_inv _ _ _ _ _ I H) as (A1 & A2 & A3 & A4 & A5 & A6 & A7); auto.
    constructor; auto.
    + rewrite A1, A3. apply (cs_lock _ _ _ I).
    + rewrite A1, A4. apply (cs_closed _ _ _ I).
    + rewrite A1. intros X. unfold ov_locked in Eo. rewrite X in Eo. discriminate.
    + intros Hf. rewrite A2. destruct (O Hf) as [O1 O2]. split; auto.
      unfold ov_closed. rewrite A1. intros X. rewrite A7. unfold ov_closed in O2. rewrite (O2 X). destruct j; reflexivity.
  - destruct (ov_locked s || ts_lock s) eqn:Eo; [discriminate|]. apply orb_false_iff in Eo as [Eo El].
    destruct (fx_ov && ov_closed s) eqn:Ef; [inversion H; subst; auto|].
    inversion H; subst; clear H.
    pose proof (cancel_deletion_inv _ _ s tree I) as [W1 C1 L1 K1 E1 O1].
    destruct (cancel_deletion_same s tree) as (B1 & B2 & B3 & B4 & B5).
    constructor; cbn; auto.
    + rewrite B1. intros X. unfold ov_locked in Eo. rewrite X in Eo. discriminate.
    + intros Hf. rewrite Hf in Ef. cbn in Ef. rewrite Ef. rewrite B3. destruct (O Hf) as [O2 O3]. split; auto.
      unfold ov_closed in *. cbn. rewrite B1. intros X. congruence.
  - destruct (ts_lock s); [discriminate|]. inversion H; subst. now apply cancel_deletion_inv.
Qed.

Lemma crun_inv fx_ts fx_ov acts : forall s s',
  CSInv fx_ts fx_ov s -> crun fx_ts fx_ov s acts = Some s' -> CSInv fx_ts fx_ov s'.
Proof.
  induction acts as [|a r IH]; intros s s' I H; cbn in H.
  - inversion H; subst; auto.
  - destruct (cstep fx_ts fx_ov s a) as [s1|] eqn:E; [|discriminate].
    apply (IH s1 s'); auto. eapply cstep_inv; eauto.
Qed.

Theorem close_reachable_inv fx_ts fx_ov insts acts s :
  crun fx_ts fx_ov (cinit insts) acts = Some s -> CSInv fx_ts fx_ov s.
Proof. apply crun_inv. apply CSInv_init. Qed.

(* ---- the pinned treeStorage.Close deadlocks -------------------------------- *)

(* one instance on tree 0 finishes (its removal timer is armed), the timer fires and
   its goroutine is about to take the store's lock (schedule point
   treestorage.timerFired); Server.Close runs: Router.Stop, WebSocket.stop,
   Overlay.Close, treeStorage.Close takes the lock and waits for the timer goroutine *)
Definition hang_witness : list caction :=
  [AInstDone 0; ATimerFire 0; AKRouter; AKWebsocket; AKTsClose].

Theorem close_hang_refuted :
  exists s, crun false false (cinit [0]) hang_witness = Some s /\
            cpc s = KTsWait /\ tcrashed s = false /\
            forall fx_ov a, cstep false fx_ov s a = None.
Proof.
  eexists. split; [vm_compute; reflexivity|]. split; [reflexivity|]. split; [reflexivity|].
  intros fx_ov a. destruct a as [| |j| | | |j|j|j|j|tree|tree]; try reflexivity.
  - destruct j as [|[|j]]; reflexivity.
  - destruct j as [|[|j]]; reflexivity.
  - destruct j as [|[|j]]; reflexivity.
Qed.

(* the same schedule with the repair: Close goes on and returns *)
Theorem hang_witness_fixed :
  exists s, crun true false (cinit [0]) (hang_witness ++ [ATimerDelete 0; AKTsWait; AKDb]) = Some s /\
            cpc s = KReturned /\ twg s = 0.
Proof. eexists. split; [vm_compute; reflexivity|]. split; reflexivity. Qed.

(* ---- the repaired Close always returns ------------------------------------- *)

Definition timer_action (a : caction) : Prop :=
  match a with ATimerFire _ | ATimerCancelled _ | ATimerDelete _ => True | _ => False end.

Definition close_action (a : caction) : Prop :=
  match a with
  | AKRouter | AKWebsocket | AKDelete _ | AKTsClose | AKTsWait | AKDb => True
  | _ => timer_action a
  end.

Definition tm (t : timer) : nat := match tst t with TArmed => 2 | TFired => 1 | TExited => 0 end.

Lemma timer_progress fx_ov s j t :
  CSInv true fx_ov s -> nth_error (timers s) j = Some t -> timer_live t = true ->
  exists a s', timer_action a /\ cstep true fx_ov s a = Some s' /\
               tsum tm (timers s') < tsum tm (timers s) /\ cpc s' = cpc s /\ instances s' = instances s.
Proof.
  intros I Ht Hl. pose proof I as [W C L K E O].
  assert (Lk : ts_lock s = false).
  { destruct (ts_lock s) eqn:El; auto. destruct (L eq_refl). discriminate. }
  unfold timer_live in Hl. destruct (tst t) eqn:Es; try discriminate.
  - exists (ATimerFire j). eexists. split; [exact Logic.I|]. cbn. rewrite Ht, Es. split; [reflexivity|]. cbn.
    pose proof (tsum_cupd tm _ _ _ (set_tst t TFired) Ht) as Q.
    assert (M1 : tm t = 2) by (unfold tm; now rewrite Es).
    assert (M2 : tm (set_tst t TFired) = 1) by reflexivity.
    repeat split; auto. lia.
  - pose proof (tsum_pos livet _ _ _ Ht) as P.
    assert (L1 : livet t = 1) by (unfold livet, timer_live; now rewrite Es). rewrite L1 in P.
    rewrite <- W in P. destruct (twg s) as [|n] eqn:Ew; [lia|].
    exists (ATimerDelete j). eexists. split; [exact Logic.I|]. cbn. rewrite Ht, Es, Lk. split; [reflexivity|].
    unfold timer_exit. rewrite Ew. cbn.
    pose proof (tsum_cupd tm _ _ _ (set_tst t TExited) Ht) as Q.
    assert (M1 : tm t = 1) by (unfold tm; now rewrite Es).
    assert (M2 : tm (set_tst t TExited) = 0) by reflexivity.
    repeat split; auto. lia.
Qed.

(* the timer goroutines, by their own steps alone, bring the store's wait group to zero *)
Lemma timers_drain fx_ov s :
  CSInv true fx_ov s ->
  exists tacts s', Forall close_action tacts /\ crun true fx_ov s tacts = Some s' /\
                   twg s' = 0 /\ cpc s' = cpc s /\ instances s' = instances s /\ CSInv true fx_ov s'.
Proof.
  remember (tsum tm (timers s)) as n eqn:En. revert s En.
  induction n as [n IH] using lt_wf_ind. intros s En I.
  destruct (Nat.eq_dec (tsum livet (timers s)) 0) as [Z|NZ].
  - exists [], s. cbn. split; [constructor|]. split; [reflexivity|]. split; [now rewrite (cs_wg _ _ _ I)|]. auto.
  - destruct (tsum_nonzero_ex _ _ NZ) as (j & t & Hj & Hl).
    assert (L : timer_live t = true) by (unfold livet in Hl; destruct (timer_live t); auto; congruence).
    destruct (timer_progress _ _ _ _ I Hj L) as (a & s1 & Ha & Hs & Hm & Hk & Hi).
    pose proof (cstep_inv _ _ _ _ _ I Hs) as I1.
    destruct (IH (tsum tm (timers s1))) with (s := s1) as (tacts & s2 & F & R & W2 & K2 & I2 & J2); auto.
    { lia. }
    exists (a :: tacts), s2. split.
    { constructor; auto. destruct a; cbn in *; auto. }
    split; [cbn; now rewrite Hs|]. split; [auto|]. split; [congruence|]. split; [congruence|]. exact J2.
Qed.

Lemma delete_all fx_ov : forall n s,
  length (instances s) = n -> CSInv true fx_ov s -> cpc s = KOverlay ->
  exists acts s', Forall close_action acts /\ crun true fx_ov s acts = Some s' /\
                  cpc s' = KOverlay /\ instances s' = [] /\ CSInv true fx_ov s'.
Proof.
  induction n as [|n IH]; intros s Hn I Hk.
  - exists [], s. cbn. split; [constructor|]. split; [reflexivity|]. split; [auto|]. split; [|auto].
    destruct (instances s); [reflexivity|discriminate].
  - destruct (instances s) as [|tree rest] eqn:Ei; [discriminate|].
    assert (Lk : ts_lock s = false).
    { destruct (ts_lock s) eqn:El; auto. destruct (cs_lock _ _ _ I El). congruence. }
    assert (exists s1, cstep true fx_ov s (AKDelete 0) = Some s1) as [s1 Hs].
    { cbn. rewrite Hk. unfold node_delete. rewrite Ei. cbn. destruct (cmem tree rest); [eauto|]. rewrite Lk. eauto. }
    pose proof (cstep_inv _ _ _ _ _ I Hs) as I1.
    assert (Hs' := Hs). cbn in Hs'. rewrite Hk in Hs'.
    destruct (node_delete_inv _ _ _ _ _ I Hs') as (A1 & A2 & A3 & A4 & A5 & A6 & A7); auto.
    destruct (IH s1) as (acts & s2 & F & R & K2 & E2 & I2); auto.
    { rewrite A7, Ei. cbn. cbn in Hn. lia. }
    { congruence. }
    exists (AKDelete 0 :: acts), s2. split; [constructor; [exact Logic.I|auto]|].
    split; [cbn [crun]; now rewrite Hs|]. auto.
Qed.

Lemma crun_app fx_ts fx_ov a b s s1 s2 :
  crun fx_ts fx_ov s a = Some s1 -> crun fx_ts fx_ov s1 b = Some s2 -> crun fx_ts fx_ov s (a ++ b) = Some s2.
Proof.
  revert s; induction a as [|x r IH]; intros s H1 H2; cbn in *.
  - inversion H1; subst; auto.
  - destruct (cstep fx_ts fx_ov s x); [|discriminate]. eauto.
Qed.

(* With the store's lock released before wg.Wait(), Server.Close returns from every
   reachable state by steps of Close and of the timer goroutines alone, whatever
   instances, timers and pending removals exist. *)
Theorem close_returns fx_ov insts acts s :
  crun true fx_ov (cinit insts) acts = Some s ->
  exists acts' s', Forall close_action acts' /\ crun true fx_ov s acts' = Some s' /\ cpc s' = KReturned.
Proof.
  intros R. pose proof (close_reachable_inv _ _ _ _ _ R) as I. clear R.
  (* from KDb *)
  assert (FDb : forall s, cpc s = KDb ->
            exists acts' s', Forall close_action acts' /\ crun true fx_ov s acts' = Some s' /\ cpc s' = KReturned).
  { intros s0 Hk. exists [AKDb]. eexists. split; [repeat constructor|]. cbn. rewrite Hk. split; reflexivity. }
  (* from KTsWait *)
  assert (FWait : forall s, CSInv true fx_ov s -> cpc s = KTsWait ->
            exists acts' s', Forall close_action acts' /\ crun true fx_ov s acts' = Some s' /\ cpc s' = KReturned).
  { intros s0 I0 Hk. destruct (timers_drain _ _ I0) as (ta & s1 & F & R1 & W & K1 & _ & I1).
    assert (exists s2, cstep true fx_ov s1 AKTsWait = Some s2 /\ cpc s2 = KDb) as (s2 & Hs2 & K2).
    { cbn. rewrite K1, Hk, W. cbn. eexists. split; reflexivity. }
    destruct (FDb s2 K2) as (a3 & s3 & F3 & R3 & K3).
    exists (ta ++ AKTsWait :: a3), s3. split; [apply Forall_app; split; auto; constructor; [exact Logic.I|auto]|].
    split; auto. eapply crun_app; eauto. cbn [crun]. now rewrite Hs2. }
  (* from KOverlay *)
  assert (FOv : forall s, CSInv true fx_ov s -> cpc s = KOverlay ->
            exists acts' s', Forall close_action acts' /\ crun true fx_ov s acts' = Some s' /\ cpc s' = KReturned).
  { intros s0 I0 Hk. destruct (delete_all fx_ov _ s0 eq_refl I0 Hk) as (da & s1 & F & R1 & K1 & E1 & I1).
    assert (Lk : ts_lock s1 = false).
    { destruct (ts_lock s1) eqn:El; auto. destruct (cs_lock _ _ _ I1 El). congruence. }
    assert (exists s2, cstep true fx_ov s1 AKTsClose = Some s2 /\ cpc s2 = KTsWait) as (s2 & Hs2 & K2).
    { cbn. rewrite K1, E1, Lk. eexists. split; reflexivity. }
    pose proof (cstep_inv _ _ _ _ _ I1 Hs2) as I2.
    destruct (FWait s2 I2 K2) as (a3 & s3 & F3 & R3 & K3).
    exists (da ++ AKTsClose :: a3), s3. split; [apply Forall_app; split; auto; constructor; [exact Logic.I|auto]|].
    split; auto. eapply crun_app; eauto. cbn [crun]. now rewrite Hs2. }
  destruct (cpc s) eqn:Ek.
  - assert (exists s1, cstep true fx_ov s AKRouter = Some s1 /\ cpc s1 = KWebsocket) as (s1 & H1 & K1).
    { cbn. rewrite Ek. eexists. split; reflexivity. }
    pose proof (cstep_inv _ _ _ _ _ I H1) as I1.
    assert (exists s2, cstep true fx_ov s1 AKWebsocket = Some s2 /\ cpc s2 = KOverlay) as (s2 & H2 & K2).
    { cbn. rewrite K1. eexists. split; reflexivity. }
    pose proof (cstep_inv _ _ _ _ _ I1 H2) as I2.
    destruct (FOv s2 I2 K2) as (a3 & s3 & F3 & R3 & K3).
    exists (AKRouter :: AKWebsocket :: a3), s3. split; [repeat (constructor; [exact Logic.I|]); auto|].
    split; auto. cbn [crun]. rewrite H1. cbn [crun]. now rewrite H2.
  - assert (exists s2, cstep true fx_ov s AKWebsocket = Some s2 /\ cpc s2 = KOverlay) as (s2 & H2 & K2).
    { cbn. rewrite Ek. eexists. split; reflexivity. }
    pose proof (cstep_inv _ _ _ _ _ I H2) as I2.
    destruct (FOv s2 I2 K2) as (a3 & s3 & F3 & R3 & K3).
    exists (AKWebsocket :: a3), s3. split; [constructor; [exact Logic.I|auto]|].
    split; auto. cbn [crun]. now rewrite H2.
  - apply FOv; auto.
  - apply FWait; auto.
  - apply FDb; auto.
  - exists [], s. split; [constructor|]. split; [reflexivity|auto].
Qed.

(* ---- nothing panics; instances created after Overlay.Close ----------------- *)

Theorem close_no_crash fx_ts fx_ov insts acts s :
  crun fx_ts fx_ov (cinit insts) acts = Some s -> tcrashed s = false.
Proof. intros R. apply (cs_crash _ _ _ (close_reachable_inv _ _ _ _ _ R)). Qed.

(* the pinned overlay has no closed flag: a protocol start that comes after
   Overlay.Close (during closeDatabase or after Close returned) is registered, its
   dispatch goroutine runs, and nothing will ever stop it *)
Theorem instance_after_close_refuted :
  exists s, crun false false (cinit []) [AKRouter; AKWebsocket; AKTsClose; AKTsWait; AKDb; ANewInstance 5] = Some s /\
            cpc s = KReturned /\ instances s = [5] /\ leaked s = 1.
Proof. eexists. split; [vm_compute; reflexivity|]. repeat split. Qed.

Theorem no_instance_after_close fx_ts insts acts s :
  crun fx_ts true (cinit insts) acts = Some s ->
  leaked s = 0 /\ (cpc s = KReturned -> instances s = []).
Proof.
  intros R. destruct (cs_ov _ _ _ (close_reachable_inv _ _ _ _ _ R) eq_refl) as [A B]. split; auto.
  intros Hk. apply B. unfold ov_closed. now rewrite Hk.
Qed.

Example close_example :
  exists s, crun true true (cinit [0; 0; 1]) [AKRouter; AKWebsocket; AKDelete 0; AKDelete 0; AKDelete 0;
                                              AKTsClose; ATimerCancelled 0; ATimerCancelled 1; AKTsWait; AKDb;
                                              ANewInstance 3] = Some s /\
            cpc s = KReturned /\ instances s = [] /\ twg s = 0.
Proof. eexists. split; [vm_compute; reflexivity|]. repeat split. Qed.
