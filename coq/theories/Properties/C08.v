(* C08 -- TLS links exist only between peers that proved the keys they claim.
   Only statements; every proof is [exact] of a lemma of Net/TlsProofs.v.
   Model: Net/Tls.v ([verify] = makeVerifier, [tls_handshake] = crypto/tls
   around it, [router_accepts] = receiveServerIdentity, [link] = which identity
   the router stamps on dispatched messages).  [pinned] is the rule of the
   pinned tree; [fix_f09], [fix_bind], [fix_nokey], [fix_resume] are the four
   repairs.  Which of them /repo carries is [Corr.C08.code_fx]; the theorems
   c08_current_code_* at the end are about exactly that variant
   (currently: all repairs but fix_bind). *)
From Coq Require Import List Arith ZArith Bool.
Import ListNotations.
From Onet Require Import Base.Corr Net.Tls Net.TlsProofs Corr.C08 Net.TlsCorrProofs.

(* --- the verifier, clause by clause --------------------------------------- *)

(* accepted <-> exactly one certificate and every clause holds *)
Theorem c08_verify_characterised : forall fx s now n them raws,
  verify fx s now n them raws = Accept <->
  exists c, raws = [RawOne c] /\
    x509_ok now c = true /\ expected_ok fx s them c = true /\
    exists k sg, c_sig c = Some sg /\ key_of_cn s (c_cn c) = Some k /\ sig_ok fx k n c sg = true.
Proof. exact verify_accept_iff. Qed.
Print Assumptions c08_verify_characterised.

(* a certificate failing any single clause is refused whatever the others say *)
Theorem c08_each_check_necessary : forall fx s now n them c i,
  nth_error (clause_list fx s now n them c) i = Some false ->
  verify fx s now n them [RawOne c] <> Accept.
Proof. exact each_check_necessary. Qed.
Print Assumptions c08_each_check_necessary.

(* and no clause is implied by the others: for each of the 11 clauses a
   certificate passing all others and failing exactly that one (refused) *)
Theorem c08_each_check_independent : forall i c,
  nth_error independence_witnesses i = Some c ->
  fails_only i (clause_list pinned Ed25519 0 0 (Some 2) c) = true /\
  verify pinned Ed25519 0 0 (Some 2) [RawOne c] <> Accept.
Proof. exact each_check_independent. Qed.
Print Assumptions c08_each_check_independent.

Example c08_each_check_independent_nonvacuous : length independence_witnesses = 11 /\
  verify pinned Ed25519 0 0 (Some 2) [RawOne (honest_cert 2 0)] = Accept.
Proof. exact each_check_independent_nonvacuous. Qed.
Print Assumptions c08_each_check_independent_nonvacuous.

(* the "self-signed" of the comment in tls.go is not a clause of the code:
   the verdict does not depend on who signed the certificate *)
Theorem c08_certificate_signer_not_checked : forall fx s now n them c g,
  verify fx s now n them [RawOne (with_signer c g)] = verify fx s now n them [RawOne c].
Proof. exact certificate_signer_not_checked. Qed.
Print Assumptions c08_certificate_signer_not_checked.

(* --- proof of possession ---------------------------------------------------- *)

(* syntactic: an accepted certificate is valid now, names a key k in its CN and
   carries a signature by k over THIS handshake's nonce and that CN *)
Theorem c08_proof_of_possession : forall fx s now n them raws,
  verify fx s now n them raws = Accept ->
  exists c k tk, raws = [RawOne c] /\ key_of_cn s (c_cn c) = Some k /\
    c_sig c = Some (SigBy k n (c_cn c) tk) /\ (c_nb c <= now <= c_na c)%Z /\
    tk = (if fix_bind fx then Some (c_tlskey c) else None).
Proof. exact proof_of_possession. Qed.
Print Assumptions c08_proof_of_possession.

Example c08_proof_of_possession_nonvacuous :
  verify pinned Bn256G2 0 0 None [RawOne (honest_cert 2 0)] = Accept.
Proof. exact proof_of_possession_nonvacuous. Qed.
Print Assumptions c08_proof_of_possession_nonvacuous.

(* symbolic: a peer bound by unforgeability (it can only present signatures made
   with private keys it holds, or the proofs honest holders hand out for any
   nonce they are asked to sign) that gets a handshake accepted either holds
   the named key -- or relays the honest holder's proof for this very nonce *)
Theorem c08_possession_or_relay : forall fx holds own_tls htls,
  (forall k, ~ In k holds -> own_tls (htls k) = false) ->
  forall s now n them h,
  presentable fx holds own_tls htls h -> tls_handshake fx s now n them h = Accept ->
  exists c k, leaf h = Some c /\ key_of_cn s (c_cn c) = Some k /\
    (In k holds \/
     (fix_bind fx = false /\ ~ In k holds /\ c_cn c = pub_to_cn k /\
      c_sig c = Some (SigBy k n (pub_to_cn k) None))).
Proof. exact possession_or_relay. Qed.
Print Assumptions c08_possession_or_relay.

(* the second disjunct is real for the pinned rule: a peer holding no private
   key but its own presents an accepted certificate naming an honest server *)
Theorem c08_possession_refuted :
  exists holds own_tls htls h s,
    (forall k, ~ In k holds -> own_tls (htls k) = false) /\
    presentable pinned holds own_tls htls h /\
    tls_handshake pinned s 0 0 None h = Accept /\
    exists k, proven_key s h = Some k /\ ~ In k holds.
Proof. exact possession_refuted. Qed.
Print Assumptions c08_possession_refuted.

(* ... for EVERY honest key, nonce, suite and both roles *)
Theorem c08_relay_always_possible : forall fx holds own_tls htls s now n k t,
  fix_bind fx = false -> ~ In k holds -> own_tls t = true ->
  let c := mkcert (pub_to_cn k) [URI true true (pub_to_cn k)] (Some (SigBy k n (pub_to_cn k) None))
                  t SgSelf (now - 300) (now + 7200) true false in
  presentable fx holds own_tls htls (Hello [RawOne c] t) /\
  tls_handshake fx s now n (Some k) (Hello [RawOne c] t) = Accept /\
  tls_handshake fx s now n None (Hello [RawOne c] t) = Accept.
Proof. exact relay_presentable. Qed.
Print Assumptions c08_relay_always_possible.

(* once the signed bytes cover the certificate's TLS key: accepted => held *)
Theorem c08_possession_bound : forall fx holds own_tls htls,
  (forall k, ~ In k holds -> own_tls (htls k) = false) ->
  forall s now n them h,
  fix_bind fx = true ->
  presentable fx holds own_tls htls h -> tls_handshake fx s now n them h = Accept ->
  exists c k, leaf h = Some c /\ key_of_cn s (c_cn c) = Some k /\ In k holds.
Proof. exact possession_bound. Qed.
Print Assumptions c08_possession_bound.

(* freshness, over all event traces with fresh challenges: an accepted proof
   naming an honest key was signed by its holder after the verifier drew the
   nonce of this handshake (no stale or foreign proof is ever accepted) *)
Theorem c08_proof_is_fresh : forall fx s holds t2 t1 n c k,
  wf_trace fx s holds (t2 ++ EAccepted n c :: t1) ->
  key_of_cn s (c_cn c) = Some k -> ~ In k holds ->
  exists ta tb, t1 = ta ++ EOracle k n :: tb /\ In (EChallenge n) tb.
Proof. exact proof_is_fresh. Qed.
Print Assumptions c08_proof_is_fresh.

Example c08_proof_is_fresh_nonvacuous :
  wf_trace pinned Ed25519 [2]
    [EAccepted 7 (mkcert (pub_to_cn 1) [] (Some (SigBy 1 7 (pub_to_cn 1) None)) 0 SgSelf (-300) 7200 true false);
     EOracle 1 7; EChallenge 7].
Proof. exact proof_is_fresh_nonvacuous. Qed.
Print Assumptions c08_proof_is_fresh_nonvacuous.

(* --- the dialler reaches the key it dialled -------------------------------- *)

(* F09: false for the pinned rule *)
Theorem c08_uri_cn_split_refuted :
  exists s now n e c,
    verify pinned s now n (Some e) [RawOne c] = Accept /\ key_of_cn s (c_cn c) <> Some e.
Proof. exact dial_reaches_expected_refuted. Qed.
Print Assumptions c08_uri_cn_split_refuted.

(* true for the repaired rule: the accepted signature is by the dialled key *)
Theorem c08_dial_reaches_expected : forall fx s now n e raws,
  fix_f09 fx = true ->
  verify fx s now n (Some e) raws = Accept ->
  exists c tk, raws = [RawOne c] /\ key_of_cn s (c_cn c) = Some e /\
               c_sig c = Some (SigBy e n (c_cn c) tk).
Proof. exact dial_reaches_expected_fixed. Qed.
Print Assumptions c08_dial_reaches_expected.

Example c08_dial_reaches_expected_nonvacuous :
  verify (mkfixes true true true true) Ed25519 0 0 (Some 2)
         [RawOne (mkcert (pub_to_cn 2) [URI true true (pub_to_cn 2)] (Some (SigBy 2 0 (pub_to_cn 2) (Some 5)))
                         5 SgSelf (-300) 7200 true false)] = Accept.
Proof. exact dial_reaches_expected_fixed_nonvacuous. Qed.
Print Assumptions c08_dial_reaches_expected_nonvacuous.

(* and for the pinned rule outside the defect: certificates whose URIs name the
   key of the CN (all honest ones), in particular old-style ones without URI *)
Theorem c08_dial_reaches_expected_pinned_consistent : forall fx s now n e c,
  uris_consistent s c ->
  verify fx s now n (Some e) [RawOne c] = Accept -> key_of_cn s (c_cn c) = Some e.
Proof. exact dial_reaches_expected_pinned_consistent. Qed.
Print Assumptions c08_dial_reaches_expected_pinned_consistent.

(* --- identity after the handshake ------------------------------------------ *)

Theorem c08_identity_matches : forall s c id,
  router_accepts s c id = true ->
  exists k, key_of_cn s (c_cn c) = Some k /\ declared s c id = Some k.
Proof. exact identity_matches. Qed.
Print Assumptions c08_identity_matches.

(* a peer whose declared identity differs from the proven key (or whose first
   message is not an identity) is dropped before anything is dispatched *)
Theorem c08_identity_mismatch_dropped : forall fx s h id msgs c,
  leaf h = Some c -> router_accepts s c id = false ->
  out_disp (link fx LTls RAccept s h id msgs) = 0 /\ out_stamp (link fx LTls RAccept s h id msgs) = [].
Proof. exact identity_mismatch_dropped. Qed.
Print Assumptions c08_identity_mismatch_dropped.

(* accepting side: every dispatched message is stamped with the proven key *)
Theorem c08_stamped_identity_is_proven_accept : forall fx s h id msgs k,
  In k (out_stamp (link fx LTls RAccept s h id msgs)) ->
  exists c tk, h = Hello [RawOne c] (c_tlskey c) /\ key_of_cn s (c_cn c) = Some k /\
    c_sig c = Some (SigBy k 0 (c_cn c) tk) /\ declared s c id = Some k.
Proof. exact stamped_identity_is_proven_accept. Qed.
Print Assumptions c08_stamped_identity_is_proven_accept.

(* dialling side: stamped = dialled; = proven only with the F09 repair *)
Theorem c08_stamped_identity_is_proven_dial : forall fx s h id msgs e k,
  fix_f09 fx = true ->
  In k (out_stamp (link fx LTls (RDial e) s h id msgs)) -> k = e /\ proven_key s h = Some e.
Proof. exact stamped_identity_is_proven_dial. Qed.
Print Assumptions c08_stamped_identity_is_proven_dial.

Theorem c08_stamped_identity_dial_refuted :
  exists h msgs k, In k (out_stamp (link pinned LTls (RDial 1) Ed25519 h IdMatch msgs)) /\
                   proven_key Ed25519 h <> Some k.
Proof. exact stamped_identity_dial_refuted. Qed.
Print Assumptions c08_stamped_identity_dial_refuted.

Theorem c08_no_dispatch_without_handshake : forall fx lv r s h id msgs,
  out_hs (link fx lv r s h id msgs) = false -> out_disp (link fx lv r s h id msgs) = 0.
Proof. exact no_dispatch_without_handshake. Qed.
Print Assumptions c08_no_dispatch_without_handshake.

(* --- the honest process survives ------------------------------------------- *)

(* F29: in the pinned code a peer that proves its own key and then sends an
   identity message without the public-key field kills the process *)
Theorem c08_identity_without_key_crash_refuted :
  exists h msgs, out_crash (link pinned LTls RAccept Ed25519 h IdNoKey msgs) = true /\
                 tls_handshake pinned Ed25519 0 0 None h = Accept.
Proof. exact crash_refuted. Qed.
Print Assumptions c08_identity_without_key_crash_refuted.

(* that is the only crashing input of the model ... *)
Theorem c08_crash_only_without_key : forall fx lv r s h id msgs,
  out_crash (link fx lv r s h id msgs) = true -> id = IdNoKey /\ r = RAccept /\ fix_nokey fx = false.
Proof. exact crash_only_without_key. Qed.
Print Assumptions c08_crash_only_without_key.

(* ... and it is gone once such an identity is refused *)
Theorem c08_no_crash_fixed : forall fx lv r s h id msgs,
  fix_nokey fx = true -> out_crash (link fx lv r s h id msgs) = false.
Proof. exact no_crash_fixed. Qed.
Print Assumptions c08_no_crash_fixed.

(* --- the property itself ----------------------------------------------------- *)

(* the boolean checker evaluated on every observation = the property *)
Theorem c08_checker_is_the_property : forall lv r s holds h id o_hs o_disp o_stamp o_crash,
  prop_check lv r s holds h id o_hs o_disp o_stamp o_crash = [] <->
  link_property lv r s holds h id o_hs o_disp o_stamp o_crash.
Proof. exact prop_check_sound. Qed.
Print Assumptions c08_checker_is_the_property.

(* the pinned model violates it (the two refutation witnesses of the corpus) *)
Theorem c08_pinned_violates_property_f09 :
  let h := Hello [RawOne f09_witness] 0 in
  let o := link pinned LTls (RDial 1) Ed25519 h IdMatch 2 in
  prop_check LTls (RDial 1) Ed25519 [2; 3] h IdMatch (out_hs o) (out_disp o) (out_stamp o) (out_crash o) = [3; 4].
Proof. exact pinned_link_violates_property_f09. Qed.
Print Assumptions c08_pinned_violates_property_f09.

Theorem c08_pinned_violates_property_relay :
  let h := Hello [RawOne relay_witness] 0 in
  (let o := link pinned LTls (RDial 1) Ed25519 h IdMatch 2 in
   prop_check LTls (RDial 1) Ed25519 [2; 3] h IdMatch (out_hs o) (out_disp o) (out_stamp o) (out_crash o) = [1; 4]) /\
  (let o := link pinned LTls RAccept Ed25519 h IdMatch 2 in
   prop_check LTls RAccept Ed25519 [2; 3] h IdMatch (out_hs o) (out_disp o) (out_stamp o) (out_crash o) = [1; 4]).
Proof. exact pinned_link_violates_property_relay. Qed.
Print Assumptions c08_pinned_violates_property_relay.

Theorem c08_pinned_violates_property_nokey :
  let h := Hello [RawOne (honest_cert 2 0)] 0 in
  let o := link pinned LTls RAccept Ed25519 h IdNoKey 2 in
  prop_check LTls RAccept Ed25519 [2; 3] h IdNoKey (out_hs o) (out_disp o) (out_stamp o) (out_crash o) = [6].
Proof. exact pinned_link_violates_property_nokey. Qed.
Print Assumptions c08_pinned_violates_property_nokey.

(* the model with the first three repairs satisfies it (full handshakes; tickets: c08_repaired_link_r_...) for every peer bound by
   unforgeability, every chain, identity message, role, suite, message count *)
Theorem c08_repaired_link_satisfies_property : forall holds own_tls htls r s h id msgs,
  (forall k, ~ In k holds -> own_tls (htls k) = false) ->
  let fx := mkfixes true true true true in
  presentable fx holds own_tls htls h ->
  let o := link fx LTls r s h id msgs in
  link_property LTls r s holds h id (out_hs o) (out_disp o) (out_stamp o) (out_crash o).
Proof. exact repaired_link_satisfies_property. Qed.
Print Assumptions c08_repaired_link_satisfies_property.

Example c08_repaired_link_nonvacuous :
  let fx := mkfixes true true true true in
  let c := mkcert (pub_to_cn 2) [URI true true (pub_to_cn 2)] (Some (SigBy 2 0 (pub_to_cn 2) (Some 0)))
                  0 SgSelf (-300) 7200 true false in
  presentable fx [2; 3] (fun t => t <? 2) (fun _ => 9) (Hello [RawOne c] 0) /\
  link fx LTls (RDial 2) Ed25519 (Hello [RawOne c] 0) IdMatch 2 = mkout true 2 [2; 2] false /\
  link fx LTls RAccept Ed25519 (Hello [RawOne c] 0) IdMatch 2 = mkout true 2 [2; 2] false.
Proof. exact repaired_link_nonvacuous. Qed.
Print Assumptions c08_repaired_link_nonvacuous.

(* the variant /repo carries (all repairs but the relay's, F28): the property
   holds against every peer that does not relay an honest holder's proof
   (full handshakes; with tickets: c08_current_code_satisfies_property_without_relay) *)
Theorem c08_f09_repaired_satisfies_property_without_relay : forall holds r s h id msgs,
  let fx := mkfixes true false true true in
  signs_only_with_own_keys holds h ->
  let o := link fx LTls r s h id msgs in
  link_property LTls r s holds h id (out_hs o) (out_disp o) (out_stamp o) (out_crash o).
Proof. exact f09_repaired_link_satisfies_property_without_relay. Qed.
Print Assumptions c08_f09_repaired_satisfies_property_without_relay.

(* --- what the correspondence step establishes -------------------------------- *)

(* an empty [viol] of a cases file = every recorded run of the implementation
   satisfies the property *)
Theorem c08_violations_nil_iff : forall l : list case,
  violations l = [] <-> forall c, In c l -> case_property c.
Proof. exact violations_nil_iff. Qed.
Print Assumptions c08_violations_nil_iff.

(* an empty [mism] = the model predicted handshake verdict, dispatch count,
   stamped keys and crash of every recorded run *)
Theorem c08_mismatches_nil_iff : forall l : list case,
  mismatches l = [] <->
  forall c, In c l -> case_model c = case_observed c /\ case_honest_proof c = true /\ extra_ok c = true.
Proof. exact mismatches_nil_iff. Qed.
Print Assumptions c08_mismatches_nil_iff.

(* --- TLS session resumption --------------------------------------------------- *)

(* unrepaired: a peer that once completed an honest handshake reconnects with its
   session ticket alone -- no certificate, nothing signed over the new nonce --
   and is served: freshness (clause 2) fails, the identity clauses hold *)
Theorem c08_resumption_refuted :
  let t := Some (earlier_cert 2 0, true) in
  let h := Hello [] 0 in
  let '(o, resumed) := link_r pinned LTls RAccept Ed25519 t h IdMatch 2 in
  resumed = true /\ o = mkout true 2 [2; 2] false /\
  prop_check LTls RAccept Ed25519 [2; 3] (effective resumed t h) IdMatch
             (out_hs o) (out_disp o) (out_stamp o) (out_crash o) = [2].
Proof. exact resumption_refuted. Qed.
Print Assumptions c08_resumption_refuted.

Theorem c08_resumption_only_same_incarnation : forall fx lv r s t h id msgs,
  snd (link_r fx lv r s t h id msgs) = true ->
  lv = LTls /\ r = RAccept /\ fix_resume fx = false /\ exists c0, t = Some (c0, true).
Proof. exact resumption_only_same_incarnation. Qed.
Print Assumptions c08_resumption_only_same_incarnation.

Theorem c08_resumed_identity_is_ticket_key : forall fx s c0 id msgs k,
  In k (out_stamp (accepted_conn fx s c0 id msgs)) ->
  key_of_cn s (c_cn c0) = Some k /\ declared s c0 id = Some k.
Proof. exact resumed_identity_is_ticket_key. Qed.
Print Assumptions c08_resumed_identity_is_ticket_key.

Theorem c08_no_resumption_when_repaired : forall fx lv r s t h id msgs,
  fix_resume fx = true -> link_r fx lv r s t h id msgs = (link fx lv r s h id msgs, false).
Proof. exact no_resumption_when_repaired. Qed.
Print Assumptions c08_no_resumption_when_repaired.

(* all four repairs: the property, also against peers offering tickets *)
Theorem c08_repaired_link_r_satisfies_property : forall holds own_tls htls r s t h id msgs,
  (forall k, ~ In k holds -> own_tls (htls k) = false) ->
  let fx := mkfixes true true true true in
  presentable fx holds own_tls htls h ->
  let '(o, resumed) := link_r fx LTls r s t h id msgs in
  link_property LTls r s holds (effective resumed t h) id (out_hs o) (out_disp o) (out_stamp o) (out_crash o).
Proof. exact repaired_link_r_satisfies_property. Qed.
Print Assumptions c08_repaired_link_r_satisfies_property.

(* --- the code as it is (Corr.C08.code_fx) ------------------------------------ *)

(* which variant /repo is: F09, F29, C08-N1 repaired, the relay (F28) open;
   edit together with the conf text when a flag flips *)
Example c08_current_code_variant : code_fx = mkfixes true false true true.
Proof. exact current_code_variant. Qed.
Print Assumptions c08_current_code_variant.

(* no connection is a resumed session, whatever ticket is offered *)
Theorem c08_current_code_resumption_closed : forall lv r s t h id msgs,
  link_r code_fx lv r s t h id msgs = (link code_fx lv r s h id msgs, false).
Proof. exact current_code_resumption_closed. Qed.
Print Assumptions c08_current_code_resumption_closed.

(* the guarantee of the code's variant; its one exception, spelled out in
   [guarantee]: possession up to RELAY (F28).  Freshness and validity are
   unconditional ([guarantee] at resumed = false). *)
Theorem c08_current_code_guarantee : forall holds own_tls htls r s t h id msgs,
  (forall k, ~ In k holds -> own_tls (htls k) = false) ->
  presentable code_fx holds own_tls htls h ->
  link_r code_fx LTls r s t h id msgs = (link code_fx LTls r s h id msgs, false) /\
  guarantee holds r s id false h (link code_fx LTls r s h id msgs).
Proof. exact current_code_guarantee. Qed.
Print Assumptions c08_current_code_guarantee.

Theorem c08_current_code_relay_open : forall holds own_tls htls s now n k tk,
  fix_bind code_fx = false -> ~ In k holds -> own_tls tk = true ->
  let c := mkcert (pub_to_cn k) [URI true true (pub_to_cn k)] (Some (SigBy k n (pub_to_cn k) None))
                  tk SgSelf (now - 300) (now + 7200) true false in
  presentable code_fx holds own_tls htls (Hello [RawOne c] tk) /\
  tls_handshake code_fx s now n (Some k) (Hello [RawOne c] tk) = Accept /\
  tls_handshake code_fx s now n None (Hello [RawOne c] tk) = Accept.
Proof. exact current_code_relay_open. Qed.
Print Assumptions c08_current_code_relay_open.

(* against peers that do not relay the code's variant satisfies the property itself *)
Theorem c08_current_code_satisfies_property_without_relay : forall holds r s t h id msgs,
  signs_only_with_own_keys holds h ->
  let '(o, resumed) := link_r code_fx LTls r s t h id msgs in
  link_property LTls r s holds (effective resumed t h) id (out_hs o) (out_disp o) (out_stamp o) (out_crash o).
Proof. exact current_code_satisfies_property_without_relay. Qed.
Print Assumptions c08_current_code_satisfies_property_without_relay.

(* the variant /repo carried BEFORE the C08-N1 repair (tickets on): a ticket alone
   was served -- regression witness of that repair *)
Theorem c08_previous_variant_resumption_refuted :
  let fx := mkfixes true false true false in
  let t := Some (earlier_cert 2 0, true) in
  let h := Hello [] 0 in
  let '(o, resumed) := link_r fx LTls RAccept Ed25519 t h IdMatch 2 in
  resumed = true /\ o = mkout true 2 [2; 2] false /\
  prop_check LTls RAccept Ed25519 [2; 3] (effective resumed t h) IdMatch
             (out_hs o) (out_disp o) (out_stamp o) (out_crash o) = [2].
Proof. exact previous_variant_resumption_refuted. Qed.
Print Assumptions c08_previous_variant_resumption_refuted.

(* independence of the verifier's clauses for the rule /repo carries (F09
   repaired): on the dialling side "CN decodes" (6) is now implied by the
   expected-key clause (4); all others remain independent, on both sides *)
Theorem c08_each_check_independent_f09_repaired :
  let fx := mkfixes true false true true in
  forall i c, nth_error independence_witnesses i = Some c ->
    (i <> 4 -> fails_only i (clause_list fx Ed25519 0 0 None c) = true) /\
    (i <> 6 -> fails_only i (clause_list fx Ed25519 0 0 (Some 2) c) = true) /\
    (i = 6 -> clause_list fx Ed25519 0 0 (Some 2) c =
              [true; true; true; true; false; true; false; true; true; true; true]) /\
    (i = 4 \/ verify fx Ed25519 0 0 None [RawOne c] <> Accept) /\
    verify fx Ed25519 0 0 (Some 2) [RawOne c] <> Accept.
Proof. exact each_check_independent_f09_repaired. Qed.
Print Assumptions c08_each_check_independent_f09_repaired.

(* --- several outgoing dials of one host ------------------------------------------ *)

(* whatever other dials the host starts, and whatever arrives on them, between the
   start of dial [id] and the arrival of its server certificate: that certificate is
   judged with the expected key and the nonce of dial [id] *)
Theorem c08_dial_verifier_private : forall fx s st id e n evs h,
  dial_lookup id (h_dials st) = Some (e, n) ->
  (forall ev, In ev evs -> ~ restarts id ev) ->
  snd (host_step false fx s (host_run false fx s st evs) (HCert id h)) =
  Some (tls_handshake fx s 0 n (Some e) h).
Proof. exact dial_verifier_private. Qed.
Print Assumptions c08_dial_verifier_private.

(* a dial accepts only a certificate proving ITS intended key over ITS nonce *)
Theorem c08_dial_accepts_only_own_proof : forall fx s st id e n evs h,
  fix_f09 fx = true ->
  dial_lookup id (h_dials st) = Some (e, n) ->
  (forall ev, In ev evs -> ~ restarts id ev) ->
  snd (host_step false fx s (host_run false fx s st evs) (HCert id h)) = Some Accept ->
  exists c tk, h = Hello [RawOne c] (c_tlskey c) /\ key_of_cn s (c_cn c) = Some e /\
               c_sig c = Some (SigBy e n (c_cn c) tk).
Proof. exact dial_accepts_only_own_proof. Qed.
Print Assumptions c08_dial_accepts_only_own_proof.

Example c08_dial_accepts_only_own_proof_nonvacuous :
  snd (host_step false (mkfixes true false true true) Ed25519
         (host_run false (mkfixes true false true true) Ed25519 host0
                   [HStart 0 1 0; HStart 1 2 4; HCert 1 (Hello [] 0)])
         (HCert 0 (Hello [RawOne (mkcert (pub_to_cn 1) [URI true true (pub_to_cn 1)]
                                        (Some (SigBy 1 0 (pub_to_cn 1) None)) 0 SgSelf (-300) 7200 true false)] 0)))
  = Some Accept.
Proof. exact dial_accepts_only_own_proof_nonvacuous. Qed.
Print Assumptions c08_dial_accepts_only_own_proof_nonvacuous.

(* the scenario the harness forces (second dial between ClientHello and server
   certificate of the first): no influence on the observed dial; the honest
   second link comes up *)
Theorem c08_conc_dial_private : forall fx s e other h msgs,
  conc_dial false fx s e other h msgs = link fx LTls (RDial e) s h IdMatch msgs.
Proof. exact conc_dial_private. Qed.
Print Assumptions c08_conc_dial_private.

Theorem c08_conc_other_up_private : forall fx s e other tk, conc_other_up false fx s e other tk = true.
Proof. exact conc_other_up_private. Qed.
Print Assumptions c08_conc_other_up_private.

(* NOT /repo (Corr.C08.code_dials_share_verifier = false): with one verifier slot
   per host the peer on the first link is accepted with a proof made for the
   second dial -- clauses 2, 3, 4 *)
Theorem c08_shared_verifier_refuted :
  let fx := mkfixes true false true true in
  let c := mkcert (pub_to_cn 2) [URI true true (pub_to_cn 2)] (Some (SigBy 2 conc_nonce (pub_to_cn 2) None))
                  0 SgSelf (-300) 7200 true false in
  let h := Hello [RawOne c] 0 in
  conc_dial false fx Ed25519 1 2 h 2 = mkout false 0 [] false /\
  (let o := conc_dial true fx Ed25519 1 2 h 2 in
   o = mkout true 2 [1; 1] false /\
   prop_check LTls (RDial 1) Ed25519 [2; 3] h IdMatch (out_hs o) (out_disp o) (out_stamp o) (out_crash o)
   = [2; 3; 4]).
Proof. exact shared_verifier_refuted. Qed.
Print Assumptions c08_shared_verifier_refuted.

Example c08_current_code_dials_private : code_dials_share_verifier = false.
Proof. exact eq_refl. Qed.
Print Assumptions c08_current_code_dials_private.

(* --- earlier connections -------------------------------------------------------- *)

(* the identity check of a connection depends only on that connection's proven key
   and announced identity, never on who connected to the router before *)
Theorem c08_router_history_irrelevant : forall prior s c id,
  router_accepts_h false prior s c id = router_accepts s c id.
Proof. exact router_history_irrelevant. Qed.
Print Assumptions c08_router_history_irrelevant.

Theorem c08_router_history_irrelevant_proven : forall prior s c id,
  router_accepts_h false prior s c id = true ->
  exists k, key_of_cn s (c_cn c) = Some k /\ declared s c id = Some k.
Proof. exact router_history_irrelevant_proven. Qed.
Print Assumptions c08_router_history_irrelevant_proven.

(* NOT /repo: a cache of decoded keys per announced identity *)
Theorem c08_key_cache_refuted :
  let c := honest_cert 2 0 in
  router_accepts_h true [1] Ed25519 c (IdKey 1) = true /\
  router_accepts_h false [1] Ed25519 c (IdKey 1) = false /\
  key_of_cn Ed25519 (c_cn c) = Some 2.
Proof. exact key_cache_refuted. Qed.
Print Assumptions c08_key_cache_refuted.
