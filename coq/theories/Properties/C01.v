(* C01 -- Protocol messages reach exactly the addressed instance, exactly once.
   Statements only; proofs in Overlay/DeliveryProofs.v. [run rc init acts] ranges
   over every interleaving of connection goroutines, flush goroutines, tree
   requests/responses, local tree registrations and done-declarations on a
   receiving server, for any number of messages, runs (tokens) and trees.
   [rc] = the re-check after parking (repair of F01) is in place. *)
From Coq Require Import List Arith.
Import ListNotations.
From Onet Require Import Overlay.Delivery Overlay.DeliveryProofs Node.SendApi Node.SendApiProofs.

(* every message ever sent to the server is in exactly one place: in transit, held
   by one goroutine, parked, handed to its instance, or dropped (instance done) *)
Theorem c01_conservation : forall rc acts s,
  run rc init acts = Some s ->
  forall m, cnt m (places s) = cnt m (sent s) /\ cnt m (sent s) <= 1.
Proof. exact conservation. Qed.
Print Assumptions c01_conservation.

(* never handed over twice, never something that was not sent; the instance is the one
   named by the message's own token. In the model [delivered] is one list of message ids: which
   instance a message is handed to (look-up by [mtok], creation) is not modelled and is checked on
   the implementation by the harness (per-token instance counts, wrong-instance counter) *)
Theorem c01_safety : forall rc acts s m,
  run rc init acts = Some s ->
  cnt m (delivered s) + cnt m (dropped s) <= 1 /\ (In m (delivered s) -> In m (sent s)).
Proof. exact safety. Qed.
Print Assumptions c01_safety.

(* completeness: once nothing is left to do, nothing is parked and every sent message
   was handed over exactly once, or dropped because its instance had finished *)
Theorem c01_complete : forall acts s m,
  run true init acts = Some s -> quiescent s = true -> In m (sent s) ->
  parked s = [] /\
  ((cnt m (delivered s) = 1 /\ cnt m (dropped s) = 0) \/
   (cnt m (delivered s) = 0 /\ cnt m (dropped s) = 1 /\ In (mtok m) (finished s))).
Proof. exact complete. Qed.
Print Assumptions c01_complete.

Theorem c01_complete_unfinished : forall acts s m,
  run true init acts = Some s -> quiescent s = true -> In m (sent s) -> ~ In (mtok m) (finished s) ->
  cnt m (delivered s) = 1.
Proof. exact complete_unfinished. Qed.
Print Assumptions c01_complete_unfinished.

(* F01 (pinned code, no re-check): a quiescent state with a parked message whose tree is known *)
Theorem c01_stranded_refuted :
  exists s, run false init stranding_schedule = Some s /\ quiescent s = true /\
            parked s = [w1] /\ trees s (mtree w1) = TPresent /\ delivered s = [w2] /\
            ~ In (mtok w1) (finished s).
Proof. exact stranded_refuted. Qed.
Print Assumptions c01_stranded_refuted.

Theorem c01_stranded_repaired :
  exists s, run true init (stranding_schedule ++ [Step 0; Step 0; Step 0; Step 0; Step 0]) = Some s /\
            quiescent s = true /\ parked s = [] /\ delivered s = [w2; w1].
Proof. exact stranded_repaired. Qed.
Print Assumptions c01_stranded_repaired.

Example c01_complete_example :
  exists s, run true init (stranding_schedule ++ [Step 0; Step 0; Step 0; Step 0; Step 0]) = Some s /\
            quiescent s = true /\ In w1 (sent s) /\ ~ In (mtok w1) (finished s).
Proof. exact complete_example. Qed.
Print Assumptions c01_complete_example.

(* the group send calls (treenode.go Broadcast / SendToChildren / SendToParent; Multicast sends to
   the listed nodes): who the message is for, as a function of the caller's position in the
   generated N-ary tree. Broadcast: every node of the tree except the caller, each once. *)
Theorem c01_broadcast_reaches_all_but_caller : forall N n me k,
  In k (dests N n me HBroadcast) <-> k < n /\ k <> me.
Proof. exact broadcast_spec. Qed.
Print Assumptions c01_broadcast_reaches_all_but_caller.

Theorem c01_broadcast_each_once : forall N n me,
  NoDup (dests N n me HBroadcast) /\ (me < n -> length (dests N n me HBroadcast) = n - 1).
Proof. intros N n me; split; [apply broadcast_nodup | apply broadcast_length]. Qed.
Print Assumptions c01_broadcast_each_once.

(* SendToChildren: exactly the nodes whose parent is the caller *)
Theorem c01_children_are_those_with_this_parent : forall N n k c, 1 <= N ->
  In c (children_of N n k) <-> c < n /\ parent_of N c = Some k.
Proof. exact children_spec. Qed.
Print Assumptions c01_children_are_those_with_this_parent.

Theorem c01_send_api_example :
  dests 2 5 1 HBroadcast = [0; 2; 3; 4] /\ dests 2 5 1 HChildren = [3; 4] /\
  dests 2 5 1 HParent = [0] /\ dests 2 5 2 HChildren = [] /\ dests 2 5 0 HParent = [].
Proof. exact dests_example. Qed.
Print Assumptions c01_send_api_example.
