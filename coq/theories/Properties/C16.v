(* C16 -- Service storage returns what was saved, per service, across restarts.
   Only statements; every proof is [exact] of a lemma of Api/StorageProofs.v.

   Names, keys, values, bucket names are byte strings.  [dec] is the set of
   stored byte strings that network.Unmarshal accepts (uninterpreted: every
   theorem holds for every such set).  [houts dec names hs] are the answers,
   position by position, of the history [hs] run on a server that carries the
   services [names], starting from an empty data directory; [HRestart] closes
   and re-opens the server on the same directory. *)
From Coq Require Import List Arith Bool ZArith NArith.
Import ListNotations.
From Onet Require Import Api.Storage Api.StorageSpec Api.StorageProofs Api.StorageSpecProofs.

(* Under the side condition of the property (no name is another name plus
   "version" or plus "_"...), no bucket name of one service is a bucket name of
   another: data bucket, version bucket and every additional bucket. *)
Theorem c16_buckets_disjoint : forall a b ba bb,
  compatible a b = true -> is_bucket_of a ba -> is_bucket_of b bb -> ba <> bb.
Proof. exact buckets_disjoint. Qed.
Print Assumptions c16_buckets_disjoint.

Theorem c16_side_condition_meaning : forall a b,
  (compatible a b = true <-> a <> b /\ extends a b = false /\ extends b a = false) /\
  (extends a b = true <-> b = a ++ sfx_version \/ exists x, b = a ++ sfx_us ++ x).
Proof. exact (fun a b => conj (compatible_spec a b) (extends_spec a b)). Qed.
Print Assumptions c16_side_condition_meaning.

(* the buckets of one service never coincide with each other either *)
Theorem c16_own_buckets_distinct : forall n x y,
  data_bucket n <> ver_bucket n /\ data_bucket n <> add_bucket n x /\
  ver_bucket n <> add_bucket n x /\ (add_bucket n x = add_bucket n y -> x = y).
Proof. exact own_buckets_distinct. Qed.
Print Assumptions c16_own_buckets_distinct.

(* REFINEMENT: for every history over any number of services whose names
   satisfy the side condition, the answers service number [a] gets are exactly
   the answers of a PRIVATE database to its own operations (and the restarts)
   alone: keys, version and additional buckets of the others are invisible to
   it and it is unaffected by them. *)
Theorem c16_refines_private_maps : forall dec names a n,
  names_ok names = true -> nth_error names a = Some n ->
  forall hs, sel a hs (houts dec names hs) = houts dec [n] (proj a hs).
Proof. exact refines_private. Qed.
Print Assumptions c16_refines_private_maps.

Example c16_refines_private_maps_hypotheses :
  names_ok [[65; 108]; [65; 108; 112; 104; 97]; [65; 108; 112; 104; 97; 66]]%N = true /\
  nth_error [[65; 108]; [65; 108; 112; 104; 97]; [65; 108; 112; 104; 97; 66]]%N 1 = Some [65; 108; 112; 104; 97]%N.
Proof. exact refines_private_hypotheses. Qed.
Print Assumptions c16_refines_private_maps_hypotheses.

(* ... and the same statement for the executed checker that the correspondence
   applies to the implementation's observations: on every history the model's
   answers violate no clause (each service judged by a private database). *)
Theorem c16_model_satisfies_property : forall dec names,
  names_ok names = true ->
  forall hs, Forall (in_range names) hs ->
  pwalk dec names (pinit names) (combine hs (houts dec names hs)) = [].
Proof. exact model_satisfies_property. Qed.
Print Assumptions c16_model_satisfies_property.

(* The private database is a map that survives restarts: a (raw) load answers
   with the value of the latest successful save of that key, "nothing" if there
   was none -- whatever happened in between to other keys, the version, the
   additional buckets, and however often the server was restarted.  Load gives
   the same value whenever the stored bytes decode. *)
Theorem c16_load_is_last_save : forall dec n k hs,
  last (houts dec [n] (hs ++ [HOp 0 (OLoadRaw k)])) RCrash =
    match last_saved k hs None with Some v => RBytes v | None => RNone end /\
  last (houts dec [n] (hs ++ [HOp 0 (OLoad k)])) RCrash =
    match last_saved k hs None with
    | Some v => if memb v dec then RBytes v else RErr
    | None => RNone
    end.
Proof. exact private_load_is_last_save. Qed.
Print Assumptions c16_load_is_last_save.

(* CONCURRENT SAVERS.  bbolt serialises Update transactions and a Save returns after
   its commit, so an execution is a linearisation: an interleaving [l] of the threads'
   operation lists keeping each thread's own order (assumption, bbolt's).  For any
   number of threads and every interleaving, the value of a key after quiescence is
   the last save of the linearisation, which is the LAST save of that key by SOME
   thread -- never one its own writer overwrote -- and nothing iff no thread saved it. *)
Theorem c16_concurrent_savers_quiescent_load : forall dec n k threads l,
  interleaving threads l ->
  match last (houts dec [n] (l ++ [HOp 0 (OLoadRaw k)])) RCrash with
  | RBytes v => exists t, In t threads /\ last_saved k t None = Some v
  | RNone => forall t, In t threads -> last_saved k t None = None
  | _ => False
  end.
Proof. exact concurrent_savers_quiescent_load. Qed.
Print Assumptions c16_concurrent_savers_quiescent_load.

Example c16_interleaving_example : interleaving [[1; 2]; [3]] [1; 3; 2].
Proof. exact interleaving_example. Qed.
Print Assumptions c16_interleaving_example.

(* the database version: the one saved last, as an int32; 0 if none *)
Theorem c16_version_is_last_saved : forall dec n hs,
  last (houts dec [n] (hs ++ [HOp 0 OLoadVer])) RCrash =
    RVer (match last_ver hs None with Some z => wrap32 z | None => 0%Z end).
Proof. exact private_version_is_last_saved. Qed.
Print Assumptions c16_version_is_last_saved.

Theorem c16_int32_versions_exact : forall z,
  (-2147483648 <= z < 2147483648)%Z -> wrap32 z = z.
Proof. exact wrap32_id. Qed.
Print Assumptions c16_int32_versions_exact.

(* no operation of a registered service ever meets a missing bucket *)
Theorem c16_no_nil_bucket : forall dec names hs,
  Forall (in_range names) hs -> ~ In RCrash (houts dec names hs).
Proof. exact no_crash. Qed.
Print Assumptions c16_no_nil_bucket.

(* The side condition is needed: with services "foo" and "fooversion", the
   version "foo" saves appears as four undecodable bytes under a key
   "fooversion" never saved, and a value "fooversion" saves there changes the
   version "foo" reads. *)
Theorem c16_name_clash_example :
  let names := [foo; foo ++ sfx_version] in
  let v := [9; 9; 9; 9; 9; 9; 9; 9; 9; 9; 9; 9; 9; 9; 9; 9; 10; 1; 1]%N in
  houts [v] names
    [ HOp 1 (OLoadRaw key_dbversion); HOp 0 (OSaveVer 7);
      HOp 1 (OLoadRaw key_dbversion); HOp 1 (OLoad key_dbversion);
      HOp 1 (OSave key_dbversion v); HOp 0 OLoadVer ]
  = [ RNone; ROk; RBytes [7; 0; 0; 0]%N; RErr; ROk; RVer 151587081 ] /\
  names_ok names = false.
Proof. exact name_clash_example. Qed.
Print Assumptions c16_name_clash_example.

Theorem c16_clash_bucket_names :
  ver_bucket foo = data_bucket (foo ++ sfx_version) /\
  add_bucket foo [120]%N = data_bucket (foo ++ sfx_us ++ [120]%N) /\
  compatible foo (foo ++ sfx_version) = false /\
  compatible foo (foo ++ sfx_us ++ [120]%N) = false.
Proof. exact clash_bucket_names. Qed.
Print Assumptions c16_clash_bucket_names.
