(* C03 -- Wire integrity: values, framing and order survive any segmentation.
   Only statements; every proof is [exact] of a lemma of Net/WireProofs.v or
   Net/WireCheck.v.

   Reading guide.  [segs : list bytes] is ANY way of cutting the byte stream
   into the pieces successive Read calls return.  [stream ps] is what sendRaw
   writes for the buffers [ps].  [limit] is MaxPacketSize (a uint32).  The
   boolean first argument of recv_all / handle_all is fix_f04: false = the
   code as it was at the pinned commit, true = the code with the F04 repair,
   which has landed in /repo (Corr.C03.code_fixed_F04 = true; theorems named
   *_pinned / *_refuted about fix_f04 = false are about the old code).  The protobuf
   codec is not modelled: theorems about values carry the hypotheses
   codec_roundtrip / tid_16 / registered explicitly. *)
From Coq Require Import List NArith.
From Coq Require Import Init.Byte.
Import ListNotations.
From Coq Require Import Permutation.
From Onet Require Import Net.Frame Net.Marshal Net.WireProofs Corr.C03 Net.WireCheck.
From Onet Require Import Net.SendConc Net.SendConcProofs Net.LocalPipe Net.LocalPipeProofs.
Local Open Scope N_scope.

(* -- framing: any segmentation, order, no loss, no duplication --------------- *)

Theorem c03_segmentation : forall fix_f04 limit ps segs,
  limit < 4294967296 -> Forall (fits limit) ps ->
  concat segs = stream ps ->
  recv_all fix_f04 limit segs = (map EvFrame ps, FinEnd false).
Proof. exact segmentation. Qed.
Print Assumptions c03_segmentation.

(* any two segmentations of the same bytes -- valid frames, refused frames,
   garbage; either variant -- are received identically, at the framing layer
   and at the level of what handleConn dispatches *)
Theorem c03_segmentation_any_bytes : forall fix_f04 limit segs1 segs2,
  concat segs1 = concat segs2 ->
  recv_all fix_f04 limit segs1 = recv_all fix_f04 limit segs2.
Proof. exact recv_segmentation_invariant. Qed.
Print Assumptions c03_segmentation_any_bytes.

Theorem c03_dispatch_any_bytes :
  forall (V T : Type) (registry : bytes -> option T) (dec : T -> bytes -> option V)
         fix_f04 limit segs1 segs2,
  concat segs1 = concat segs2 ->
  handle_all registry dec fix_f04 limit segs1 = handle_all registry dec fix_f04 limit segs2.
Proof. exact handle_segmentation_invariant. Qed.
Print Assumptions c03_dispatch_any_bytes.

(* the framing is injective on sequences of buffers within the limit *)
Theorem c03_stream_injective : forall limit ps1 ps2,
  limit < 4294967296 -> Forall (fits limit) ps1 -> Forall (fits limit) ps2 ->
  stream ps1 = stream ps2 -> ps1 = ps2.
Proof. exact stream_injective. Qed.
Print Assumptions c03_stream_injective.

(* the hypothesis "buffers shorter than 2^32 bytes" is necessary: the uint32
   size header of a longer buffer announces only len mod 2^32 bytes *)
Theorem c03_size_wrap : forall limit b rest k,
  lenN b = 4294967296 + k -> 0 < k -> k <= limit -> limit < 4294967296 ->
  parse1 limit (send_raw b ++ rest) = PFrame (takeN k b) (dropN k b ++ rest).
Proof. exact size_wrap. Qed.
Print Assumptions c03_size_wrap.

(* -- values ------------------------------------------------------------------------- *)

Theorem c03_roundtrip :
  forall (V T : Type) (type_of : V -> T) (tid_of : T -> bytes) (registry : bytes -> option T)
         (enc : V -> option bytes) (dec : T -> bytes -> option V) v buf,
  tid_16 T tid_of -> codec_roundtrip V T type_of enc dec ->
  registered V T type_of tid_of registry v ->
  marshal type_of tid_of registry enc v = Some buf ->
  unmarshal registry dec buf = UOk (tid_of (type_of v)) v.
Proof. exact unmarshal_marshal. Qed.
Print Assumptions c03_roundtrip.

Theorem c03_marshal_injective :
  forall (V T : Type) (type_of : V -> T) (tid_of : T -> bytes) (registry : bytes -> option T)
         (enc : V -> option bytes) (dec : T -> bytes -> option V) v1 v2 buf,
  tid_16 T tid_of -> codec_roundtrip V T type_of enc dec ->
  registered V T type_of tid_of registry v1 -> registered V T type_of tid_of registry v2 ->
  marshal type_of tid_of registry enc v1 = Some buf ->
  marshal type_of tid_of registry enc v2 = Some buf -> v1 = v2.
Proof. exact marshal_injective. Qed.
Print Assumptions c03_marshal_injective.

(* type ids (computeMessageType = uuid, a hash H, of the PACKAGE-QUALIFIED type
   name): ids identify types as far as qualified names do and H does not
   collide; a registry table over types with such ids satisfies the hypothesis
   [registered] of the value theorems, so every registered type arrives as
   itself; a name function that identifies two types (bare names of namesakes
   in different packages) gives them one id.  The harness registers two types
   that differ in the package only and the checker demands distinct ids
   (clause 10) and that each arrives as itself. *)
Theorem c03_type_ids_injective : forall (T Name : Type) (qname : T -> Name) (H : Name -> bytes),
  (forall t1 t2, qname t1 = qname t2 -> t1 = t2) ->
  (forall n1 n2, H n1 = H n2 -> n1 = n2) ->
  forall t1 t2, H (qname t1) = H (qname t2) -> t1 = t2.
Proof. exact type_ids_injective. Qed.
Print Assumptions c03_type_ids_injective.

Theorem c03_type_ids_registered : forall (T : Type) (types : list T) (tid : T -> bytes),
  (forall t1 t2, In t1 types -> In t2 types -> tid t1 = tid t2 -> t1 = t2) ->
  forall t, In t types -> registry_of types tid (tid t) = Some t.
Proof. exact (@registry_of_registered). Qed.
Print Assumptions c03_type_ids_registered.

Theorem c03_type_ids_bare_name_collide : forall (T Name : Type) (bare : T -> Name) (H : Name -> bytes) t1 t2,
  bare t1 = bare t2 -> H (bare t1) = H (bare t2).
Proof. exact type_ids_collide. Qed.
Print Assumptions c03_type_ids_bare_name_collide.

(* sent values arrive as equal values with their type id, in sending order,
   once each, whatever the segmentation *)
Theorem c03_delivery :
  forall (V T : Type) (type_of : V -> T) (tid_of : T -> bytes) (registry : bytes -> option T)
         (enc : V -> option bytes) (dec : T -> bytes -> option V) fix_f04 limit vs ps segs,
  tid_16 T tid_of -> codec_roundtrip V T type_of enc dec ->
  Forall (registered V T type_of tid_of registry) vs ->
  Forall2 (fun v p => marshal type_of tid_of registry enc v = Some p) vs ps ->
  limit < 4294967296 -> Forall (fits limit) ps -> concat segs = stream ps ->
  handle_all registry dec fix_f04 limit segs =
  (map (envelope_of V T type_of tid_of) vs, FinEnd false).
Proof. exact delivery. Qed.
Print Assumptions c03_delivery.

(* -- invalid bytes: an error, never another outcome -------------------------------------
   What is proved: the characterisation of WHEN the model's unmarshal returns a
   value, and that the receive loops are given enough fuel.  That there is no
   crash is true by construction (total Gallina functions, no Crash outcome,
   because the Go code has no panic site in these layers); panics of the real
   code are looked for by the harness (clause 5), not excluded by a theorem. *)

Theorem c03_unmarshal_total :
  forall (V T : Type) (registry : bytes -> option T) (dec : T -> bytes -> option V) buf,
  (exists id v, unmarshal registry dec buf = UOk id v /\ valid_message V T registry dec buf id v) \/
  (exists why, unmarshal registry dec buf = UErr why /\
               forall id v, ~ valid_message V T registry dec buf id v).
Proof. exact unmarshal_total. Qed.
Print Assumptions c03_unmarshal_total.

(* the receive loops always terminate with a proper outcome (the fuel they are
   given suffices) on arbitrary bytes *)
Theorem c03_receive_total :
  forall (V T : Type) (registry : bytes -> option T) (dec : T -> bytes -> option V)
         fix_f04 limit segs,
  snd (recv_all fix_f04 limit segs) <> FinFuel /\
  snd (handle_all registry dec fix_f04 limit segs) <> FinFuel.
Proof. exact receive_total. Qed.
Print Assumptions c03_receive_total.

(* -- refused frames ------------------------------------------------------------------------ *)

(* frames of ARBITRARY content within the limit (unknown type, undecodable
   body, too short, empty): exactly the valid ones are dispatched, in order, and
   the stream stays in step -- both variants *)
Theorem c03_refusal_isolated :
  forall (V T : Type) (registry : bytes -> option T) (dec : T -> bytes -> option V)
         fix_f04 limit ps segs,
  limit < 4294967296 -> Forall (fits limit) ps -> concat segs = stream ps ->
  handle_all registry dec fix_f04 limit segs = (local_handle registry dec ps, FinEnd false).
Proof. exact refusal_isolated. Qed.
Print Assumptions c03_refusal_isolated.

(* valid frames in front of ANY bytes are received as if the rest were not there *)
Theorem c03_frames_prefix_code : forall fix_f04 limit ps rest,
  limit < 4294967296 -> Forall (fits limit) ps ->
  parse_all fix_f04 limit (stream ps ++ rest) =
  (map EvFrame ps ++ fst (parse_all fix_f04 limit rest), snd (parse_all fix_f04 limit rest)).
Proof. exact parse_all_frames_then. Qed.
Print Assumptions c03_frames_prefix_code.

(* fixed variant: an over-limit frame followed by ANYTHING: everything in
   front is dispatched, nothing behind it is ever parsed, the connection is dropped *)
Theorem c03_oversize_closes :
  forall (V T : Type) (registry : bytes -> option T) (dec : T -> bytes -> option V)
         limit pre big post segs,
  limit < 4294967296 -> Forall (fits limit) pre ->
  limit < lenN big -> lenN big < 4294967296 ->
  concat segs = stream pre ++ send_raw big ++ post ->
  handle_all registry dec true limit segs = (local_handle registry dec pre, FinClosed).
Proof. exact oversize_closes. Qed.
Print Assumptions c03_oversize_closes.

(* fixed variant, ALL sequences of frames (any mixture of valid, refused and
   over-limit ones), all segmentations: the property holds *)
Theorem c03_wire_ok_fixed :
  forall (V T : Type) (registry : bytes -> option T) (dec : T -> bytes -> option V)
         limit ps segs,
  limit < 4294967296 -> Forall (fun p => lenN p < 4294967296) ps ->
  concat segs = stream ps ->
  wire_ok (local_handle registry dec (filter (fitsb limit) ps))
          (fst (handle_all registry dec true limit segs))
          (snd (handle_all registry dec true limit segs)).
Proof. exact wire_ok_fixed. Qed.
Print Assumptions c03_wire_ok_fixed.

(* pinned variant: what really happens behind an over-limit frame -- the body
   is parsed as frames *)
Theorem c03_oversize_desync_pinned :
  forall (V T : Type) (registry : bytes -> option T) (dec : T -> bytes -> option V)
         limit pre big post segs,
  limit < 4294967296 -> Forall (fits limit) pre ->
  limit < lenN big -> lenN big < 4294967296 ->
  concat segs = stream pre ++ send_raw big ++ post ->
  handle_all registry dec false limit segs =
  (local_handle registry dec pre ++ fst (handle_all registry dec false limit [big ++ post]),
   snd (handle_all registry dec false limit [big ++ post])).
Proof. exact oversize_desync. Qed.
Print Assumptions c03_oversize_desync_pinned.

(* F04: the pinned variant violates the property (five legitimate messages, the
   second over the limit: the third is lost, the connection stays up) ... *)
Theorem c03_oversize_desync_refuted :
  exists (limit : N) (ps : list bytes),
    limit < 4294967296 /\ Forall (fun p => lenN p < 4294967296) ps /\
    (forall p, In p ps -> exists v, Witness.w_marshal v = Some p) /\
    Witness.w_handle false limit [stream ps] =
      ([(Witness.id0, [x41]); (Witness.id0, [x44]); (Witness.id0, [x45])], FinEnd false) /\
    Witness.w_expected limit ps =
      [(Witness.id0, [x41]); (Witness.id0, [x43]); (Witness.id0, [x44]); (Witness.id0, [x45])] /\
    ~ wire_ok (Witness.w_expected limit ps) (fst (Witness.w_handle false limit [stream ps]))
              (snd (Witness.w_handle false limit [stream ps])).
Proof. exact desync_refuted. Qed.
Print Assumptions c03_oversize_desync_refuted.

(* ... and dispatches a message nobody sent *)
Theorem c03_oversize_smuggle_refuted :
  exists (limit : N) (ps : list bytes) (stranger : bytes * bytes),
    limit < 4294967296 /\ Forall (fun p => lenN p < 4294967296) ps /\
    (forall p, In p ps -> exists v, Witness.w_marshal v = Some p) /\
    In stranger (fst (Witness.w_handle false limit [stream ps])) /\
    ~ In stranger (local_handle Witness.w_registry Witness.w_dec ps) /\
    snd (Witness.w_handle false limit [stream ps]) <> FinClosed /\
    ~ wire_ok (Witness.w_expected limit ps) (fst (Witness.w_handle false limit [stream ps]))
              (snd (Witness.w_handle false limit [stream ps])).
Proof. exact smuggle_refuted. Qed.
Print Assumptions c03_oversize_smuggle_refuted.

(* -- identity exchange, in-memory transport --------------------------------------------------- *)

Theorem c03_accept_then_handle :
  forall (V T : Type) (type_of : V -> T) (tid_of : T -> bytes) (registry : bytes -> option T)
         (enc : V -> option bytes) (dec : T -> bytes -> option V) (is_identity : bytes -> bool)
         fix_f04 limit idv idp ps segs,
  tid_16 T tid_of -> codec_roundtrip V T type_of enc dec ->
  registered V T type_of tid_of registry idv ->
  marshal type_of tid_of registry enc idv = Some idp ->
  is_identity (tid_of (type_of idv)) = true ->
  limit < 4294967296 -> fits limit idp -> Forall (fits limit) ps ->
  concat segs = send_raw idp ++ stream ps ->
  accept_conn registry dec is_identity fix_f04 limit segs =
  AcHandled idv (local_handle registry dec ps) (FinEnd false).
Proof. exact accept_then_handle. Qed.
Print Assumptions c03_accept_then_handle.

(* the model of the in-memory transport IS a list used as a queue; the content of
   this theorem is the envelope round trip per element, the FIFO order is by
   construction and checked against LocalRouter pairs by the harness *)
Theorem c03_local_fifo :
  forall (V T : Type) (type_of : V -> T) (tid_of : T -> bytes) (registry : bytes -> option T)
         (enc : V -> option bytes) (dec : T -> bytes -> option V) vs ps,
  tid_16 T tid_of -> codec_roundtrip V T type_of enc dec ->
  Forall (registered V T type_of tid_of registry) vs ->
  Forall2 (fun v p => marshal type_of tid_of registry enc v = Some p) vs ps ->
  local_handle registry dec (local_send_all type_of tid_of registry enc vs) =
  map (envelope_of V T type_of tid_of) vs.
Proof. exact local_fifo. Qed.
Print Assumptions c03_local_fifo.

(* -- goroutines sending concurrently on one connection (Net/SendConc.v) ---------------------------
   A small-step system: one action = Lock, Marshal, the header Write, ONE Write
   call of the body loop taking any number of bytes the schedule chooses, the
   counter update, Unlock.  [run msh true fx sched (init progs) = Some s]: the
   schedule [sched] (any interleaving, any chunking) is executable with the
   mutex from the state in which goroutine i still has to send [progs i].
   [fx] = fix_n1: false is the code as it is (a failed Write leaves the
   connection usable: finding C03-N1), true the code with
   proposed_fixes/C03-N1.diff (Send closes the connection when sendRaw fails).
   Theorems quantified over [fx] hold for both. *)

(* (1) general form, every reachable state, failures included: the wire is the
   bytes of the finished calls in the order in which they held the lock, then
   the bytes of the call in progress; a call that returned nil wrote exactly
   one frame, a call that returned an error a strict prefix of its frame;
   Tx is the sum of what the calls returned; program order per goroutine *)
Theorem c03_concurrent_senders_wire :
  forall (V : Type) (msh : V -> option bytes) fx progs sched (s : state V),
  run msh true fx sched (init progs) = Some s ->
  wire s = concat (map c_bytes (done s)) ++ held V s (fun _ p => cur_w V p) [] /\
  acq s = map (key V) (done s) ++ held V s (cur_call V) [] /\
  tx s = sumN (map c_ret (done s)) + held V s (fun _ p => cur_tx V p) 0 /\
  Forall (fun c => call_ok msh (c_val c) (c_bytes c) (c_ret c) (c_ok c)) (done s) /\
  (forall i, proj i (acq s) ++ todo (thr s i) = progs i).
Proof. exact mutex_pieces. Qed.
Print Assumptions c03_concurrent_senders_wire.

(* (1) no Write fails, nobody is inside Send: the wire is whole frames, one per
   call, in lock-acquisition order; Tx = sum of the frame sizes *)
Theorem c03_concurrent_senders_stream :
  forall (V : Type) (msh : V -> option bytes) fx (good : V -> Prop) progs sched (s : state V),
  small_bufs msh -> (forall i v, In v (progs i) -> good v) -> (forall v, good v -> msh v <> None) ->
  forallb (fun ia => negb (is_fail (snd ia))) sched = true ->
  run msh true fx sched (init progs) = Some s -> holder s = None ->
  exists bs,
    Forall2 (fun kv b => msh (snd kv) = Some b) (acq s) bs /\
    wire s = stream bs /\
    tx s = sumN (map (fun b => 4 + lenN b) bs) /\
    (forall i, proj i (acq s) ++ todo (thr s i) = progs i).
Proof. exact mutex_stream. Qed.
Print Assumptions c03_concurrent_senders_stream.

(* program order and multiset, with or without the mutex: when every goroutine
   is through, the calls are each goroutine's program in its order and together
   a permutation of everything there was to send *)
Theorem c03_concurrent_senders_merge :
  forall (V : Type) (msh : V -> option bytes) fx progs sched mx (s : state V) k,
  (forall i, (k <= i)%nat -> progs i = []) ->
  run msh mx fx sched (init progs) = Some s -> (forall i, todo (thr s i) = []) ->
  (forall i, proj i (acq s) = progs i) /\
  Permutation (map snd (acq s)) (concat (map progs (seq 0 k))).
Proof. exact finished_is_merge. Qed.
Print Assumptions c03_concurrent_senders_merge.

(* (2) with the mutex: k goroutines, any programs, any interleaving and
   chunking, any segmentation in transit: the receiver dispatches exactly the
   values sent, each once, in lock order, each goroutine's in its order *)
Theorem c03_concurrent_senders_delivery :
  forall (V T : Type) (type_of : V -> T) (tid_of : T -> bytes) (registry : bytes -> option T)
         (enc : V -> option bytes) (dec : T -> bytes -> option V) fx
         progs k sched (s : state V) fix_f04 limit segs,
  tid_16 T tid_of -> codec_roundtrip V T type_of enc dec ->
  limit < 4294967296 ->
  (forall i, (k <= i)%nat -> progs i = []) ->
  (forall i v, In v (progs i) -> sendable V T type_of tid_of registry enc limit v) ->
  no_fail sched = true ->
  run (marshal type_of tid_of registry enc) true fx sched (init progs) = Some s ->
  (forall i, todo (thr s i) = []) -> holder s = None ->
  concat segs = wire s ->
  handle_all registry dec fix_f04 limit segs =
    (map (envelope_of V T type_of tid_of) (map snd (acq s)), FinEnd false) /\
  (forall i, proj i (acq s) = progs i) /\
  Permutation (map snd (acq s)) (concat (map progs (seq 0 k))) /\
  exists bs, Forall2 (fun v b => marshal type_of tid_of registry enc v = Some b) (map snd (acq s)) bs /\
             tx s = sumN (map (fun b => 4 + lenN b) bs).
Proof. exact mutex_delivery. Qed.
Print Assumptions c03_concurrent_senders_delivery.

(* (3) the code without the two sendMutex lines: a two-goroutine schedule in
   which both Send calls return nil and the receiver dispatches neither message *)
Theorem c03_concurrent_senders_nomutex_refuted :
  exists s,
    ConcWitness.final false false ConcWitness.sched_nomutex = Some s /\
    (forall i, todo (thr s i) = []) /\ (forall c, In c (done s) -> c_ok c = true) /\
    tx s = 42 /\
    Witness.w_handle false Witness.limit [wire s] = ([], FinEnd true) /\
    fst (recv_all false Witness.limit [wire s]) <> map EvFrame [Witness.m x41; Witness.m x42] /\
    fst (recv_all false Witness.limit [wire s]) <> map EvFrame [Witness.m x42; Witness.m x41] /\
    Witness.w_handle true Witness.limit [wire s] = ([], FinClosed).
Proof. exact nomutex_refuted. Qed.
Print Assumptions c03_concurrent_senders_nomutex_refuted.

(* (4) a Write fails part-way in one call and nothing follows on the connection:
   the calls in front are dispatched, nothing of the broken frame is, the
   receiver ends inside a header / body (EOF or read deadline) *)
Theorem c03_concurrent_senders_failure_last :
  forall (V T : Type) (type_of : V -> T) (tid_of : T -> bytes) (registry : bytes -> option T)
         (enc : V -> option bytes) (dec : T -> bytes -> option V) fx
         progs sched (s : state V) fix_f04 limit segs cs c b,
  limit < 4294967296 ->
  run (marshal type_of tid_of registry enc) true fx sched (init progs) = Some s -> holder s = None ->
  done s = cs ++ [c] -> (forall c', In c' cs -> c_ok c' = true) -> c_ok c = false ->
  (forall c' b', In c' (cs ++ [c]) -> marshal type_of tid_of registry enc (c_val c') = Some b' -> lenN b' <= limit) ->
  marshal type_of tid_of registry enc (c_val c) = Some b ->
  concat segs = wire s ->
  exists bs m,
    Forall2 (fun kv b => marshal type_of tid_of registry enc (snd kv) = Some b) (map (key V) cs) bs /\
    c_bytes c = takeN m (header b ++ b) /\ m < 4 + lenN b /\ c_ret c <= m /\
    handle_all registry dec fix_f04 limit segs =
      (local_handle registry dec bs, FinEnd (negb (m =? 0))).
Proof. exact mutex_failure_last. Qed.
Print Assumptions c03_concurrent_senders_failure_last.

(* (4) FINDING C03-N1, the code as it is (fx = false): Send leaves the
   connection usable after the failure: the next Send on it returns nil and its
   message is never dispatched ("silently lost while sends keep reporting
   success").  Reproduced on the real TCPConn by the harness classes
   *-write-fails-then-send; findings/C03.jsonl, proposed_fixes/C03-N1.diff. *)
Theorem c03_concurrent_senders_failure_refuted :
  exists s c0 c1,
    ConcWitness.final true false ConcWitness.sched_failure = Some s /\ done s = [c0; c1] /\
    c_who c0 = 0%nat /\ c_ok c0 = false /\ c_ret c0 = 4 /\
    c_who c1 = 1%nat /\ c_ok c1 = true /\ c_bytes c1 = send_raw (Witness.m x42) /\
    Witness.w_handle false Witness.limit [wire s] = ([], FinEnd true) /\
    Witness.w_handle true Witness.limit [wire s] = ([], FinClosed).
Proof. exact failure_then_send_refuted. Qed.
Print Assumptions c03_concurrent_senders_failure_refuted.

(* C03-N1 REPAIRED (fx = true), every schedule: once a Send has failed in a
   Write (the connection is closed by it) and nobody is inside Send, whatever
   any goroutines try on that connection afterwards puts no byte on the wire,
   leaves Tx alone, and every call returns an error.  With
   c03_concurrent_senders_failure_last (what the receiver makes of the stream
   that ends in the broken frame) no Send reports success for a message that is
   not dispatched. *)
Theorem c03_concurrent_senders_failure_fixed :
  forall (V : Type) (msh : V -> option bytes) progs sched1 (s1 : state V) sched2 s2,
  run msh true true sched1 (init progs) = Some s1 -> holder s1 = None -> broken s1 = true ->
  run msh true true sched2 s1 = Some s2 ->
  wire s2 = wire s1 /\ tx s2 = tx s1 /\
  exists extra, done s2 = done s1 ++ extra /\ forall c, In c extra -> c_ok c = false.
Proof. exact n1_fixed_dead. Qed.
Print Assumptions c03_concurrent_senders_failure_fixed.

(* the connection is closed exactly by a failing Write: *)
Theorem c03_concurrent_senders_broken_iff_failed :
  forall (V : Type) (msh : V -> option bytes),
  (forall mx s i n s',
     (step msh mx true s (i, AWriteFail n) = Some s' \/ step msh mx true s (i, AHeaderFail n) = Some s') ->
     broken s' = true) /\
  (forall mx fx sched (s s' : state V),
     no_fail sched = true -> run msh mx fx sched s = Some s' -> broken s' = broken s).
Proof. intros V msh. split; [exact (failure_breaks V msh)|exact (unbroken V msh)]. Qed.
Print Assumptions c03_concurrent_senders_broken_iff_failed.

(* the failure history of c03_concurrent_senders_failure_refuted with the
   repair: goroutine 1 gets an error, nothing is lost silently; and an instance
   of the hypotheses of c03_concurrent_senders_failure_last *)
Example c03_concurrent_senders_failure_fixed_example :
  ConcWitness.final true true ConcWitness.sched_failure = None /\
  exists s c0 c1,
    ConcWitness.final true true ConcWitness.sched_failure_fixed = Some s /\ done s = [c0; c1] /\
    c_ok c0 = false /\ c_ok c1 = false /\ c_bytes c1 = [] /\ broken s = true /\
    Witness.w_handle false Witness.limit [wire s] = ([], FinEnd true).
Proof. exact failure_then_send_fixed. Qed.
Print Assumptions c03_concurrent_senders_failure_fixed_example.

Example c03_concurrent_senders_failure_last_example :
  exists s c,
    ConcWitness.final true false (firstn 5 ConcWitness.sched_failure) = Some s /\ holder s = None /\
    done s = [] ++ [c] /\ c_ok c = false /\ Witness.w_marshal (c_val c) = Some (Witness.m x41) /\
    (forall c' b', In c' ([] ++ [c]) -> Witness.w_marshal (c_val c') = Some b' -> lenN b' <= Witness.limit) /\
    Witness.limit < 4294967296.
Proof. exact failure_last_hypotheses. Qed.
Print Assumptions c03_concurrent_senders_failure_last_example.

Example c03_concurrent_senders_example :
  ConcWitness.final true false ConcWitness.sched_nomutex = None /\
  exists s, ConcWitness.final true false (whole_send 1 17 ++ whole_send 0 17) = Some s /\
            Witness.w_handle false Witness.limit [wire s] =
              ([(Witness.id0, [x42]); (Witness.id0, [x41])], FinEnd false).
Proof. exact mutex_same_schedule_blocked. Qed.
Print Assumptions c03_concurrent_senders_example.

(* -- the bounded in-memory connection (Net/LocalPipe.v): two queues of capacity
   [cap] and a pump between them; the sender waits while the first queue is full.
   Any capacity, any interleaving of sender / pump / receiver: the messages are,
   in sending order, received ++ outgoing queue ++ incoming queue ++ not yet
   sent; once everything has drained, exactly the messages sent, in order. *)
Theorem c03_local_pipe_fifo : forall (A : Type) cap (msgs : list A) acts (s : pst A),
  prun cap false acts (pinit msgs) = Some s ->
  p_got s ++ p_out s ++ p_in s ++ p_todo s = msgs /\
  (p_out s = [] -> p_in s = [] -> p_todo s = [] -> p_got s = msgs).
Proof. exact pipe_fifo. Qed.
Print Assumptions c03_local_pipe_fifo.

(* a send that does not wait for room but parks the message in a goroutine of
   its own (NOT the code as it is) loses the order: capacity 1, three messages *)
Theorem c03_local_pipe_nonblocking_refuted :
  exists s, prun 1 true park_witness (pinit [1; 2; 3]%nat) = Some s /\
            p_todo s = [] /\ p_parked s = [] /\ p_in s = [] /\ p_out s = [] /\
            p_got s = [1; 3; 2]%nat.
Proof. exact pipe_nonblocking_refuted. Qed.
Print Assumptions c03_local_pipe_nonblocking_refuted.

Example c03_local_pipe_example :
  prun 1 false park_witness (pinit [1; 2; 3]%nat) = None /\
  exists s, prun 1 false [PSend; PPump; PSend; PRecv; PPump; PSend; PRecv; PPump; PRecv] (pinit [1; 2; 3]%nat) = Some s /\
            p_got s = [1; 2; 3]%nat.
Proof. exact pipe_blocking_example. Qed.
Print Assumptions c03_local_pipe_example.

(* -- bool/Prop reflection of the stream part of the checker: [stream_clauses]
   returns no clause number exactly when [stream_prop] -- a propositional
   restatement of the same clauses -- holds.  This does not tie the checker to the
   model or to the property text.
   -- the checker run on every observation ---------------------------------- *)

Theorem c03_checker_sound : forall cl d closed,
  stream_clauses cl d closed = [] <-> stream_prop cl d closed.
Proof. exact stream_clauses_sound. Qed.
Print Assumptions c03_checker_sound.

(* -- the hypotheses of the theorems above are satisfiable ------------------------------------------ *)

Example c03_hypotheses_satisfiable :
  tid_16 unit Witness.w_tid_of /\
  codec_roundtrip bytes unit Witness.w_type_of Witness.w_enc Witness.w_dec /\
  (forall v, registered bytes unit Witness.w_type_of Witness.w_tid_of Witness.w_registry v) /\
  Witness.limit < 4294967296 /\
  Forall2 (fun v p => Witness.w_marshal v = Some p) [[x41]; [x43]] [Witness.m x41; Witness.m x43] /\
  Forall (fits Witness.limit) [Witness.m x41; Witness.m x43] /\
  Witness.limit < lenN Witness.big_swallow /\ lenN Witness.big_swallow < 4294967296.
Proof. exact hypotheses_satisfiable. Qed.
Print Assumptions c03_hypotheses_satisfiable.

Example c03_witnesses_fixed :
  Witness.w_handle true Witness.limit [stream Witness.ps_swallow] = ([(Witness.id0, [x41])], FinClosed) /\
  Witness.w_handle true Witness.limit [stream Witness.ps_smuggle] = ([(Witness.id0, [x41])], FinClosed).
Proof. exact witnesses_fixed. Qed.
Print Assumptions c03_witnesses_fixed.
