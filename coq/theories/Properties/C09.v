(* C09 -- Peer failures are contained, reported to senders, and recoverable.
   Statements only; proofs are in Net/C09RouterProofs.v. [run (init fix_f11 tcp nh) acts] ranges over every
   interleaving of Send threads (one atomic step = one critical section or one connection operation),
   receive loops, handler calls, deferred exits, accepted connections, router close, and peer
   crashes / restarts, of one surviving router with nh registered error handlers; fix_f11 selects the code variant in which a
   connection whose set-up is refused is closed (landed fix) or dropped open (pinned). *)
From Coq Require Import List Arith Bool.
Import ListNotations.
From Onet Require Import Net.C09Router Net.C09RouterProofs.

(* ---- containment ------------------------------------------------------------------------------------
   In the transition system every operation on a peer (dial, write) is a step that RETURNS (success or
   failure): time-outs are not modelled. c09_send_returns / c09_send_never_blocks therefore say that the
   control flow of Router.Send has no unbounded loop and no state from which it cannot go on (one
   reconnect per message, 12+6n steps) -- not that the operating system returns in time; that part is
   observed under deadlines (clause 5). What CAN make a router wait for ever inside this code is its own
   mutex and, on the in-memory transport, the manager's lock: these are modelled separately
   (c09_mutex_never_stuck / c09_handlers_under_mutex_refuted, c09_local_close_completes / ..._refuted). *)

Theorem c09_send_returns : forall f b n acts s p msgs o,
  run (init f b n) acts = Some s -> exists r, snd (send_call s p msgs o) = Some r.
Proof. exact send_call_returns. Qed.
Print Assumptions c09_send_returns.

Theorem c09_send_never_blocks : forall s t th o,
  Inv s -> threads s t = Some th -> is_done (tpc th) = false -> exists s', thread_step s t o = Some s'.
Proof. exact send_never_blocks. Qed.
Print Assumptions c09_send_never_blocks.

(* the invariant used above holds in every reachable state *)
Theorem c09_invariant : forall f b n acts s, run (init f b n) acts = Some s -> Inv s.
Proof. exact reachable_inv. Qed.
Print Assumptions c09_invariant.

(* ASSUMPTION made explicit, not a discovery: the environment action "peer p crashes" is DEFINED to touch
   only p's listener and the far ends of p's connections. The statement records that frame so that the
   other theorems can rely on it; that a real crash does no more to a survivor (no panic, no blocking,
   canary runs go on) is what clause 5 checks on the observations of the real / cluster cases.
   The modelled code paths contain no index or nil dereference, so the model has no Crash outcome. *)
Theorem c09_crash_footprint : forall s p s',
  step s (ACrash p) = Some s' ->
  table s' = table s /\ threads s' = threads s /\ closed s' = closed s /\ calls s' = calls s /\
  delivered s' = delivered s /\ dispatched s' = dispatched s /\
  (forall q, q <> p -> listening s' q = listening s q) /\ incn s' = incn s /\
  (forall c x, conns s c = Some x -> cpeer x <> p -> conns s' c = Some x).
Proof. exact crash_footprint. Qed.
Print Assumptions c09_crash_footprint.

(* the router's own mutex: with the pinned lock discipline (nothing but Stop's closing of connections is
   called with the mutex held; handlers are called without it) no thread ever waits for ever, whatever
   the error handlers do with their router *)
Theorem c09_mutex_never_stuck : forall ps ts s,
  Forall (wfp false) ps -> mrun (mkM None ps) ts = Some s ->
  (forall h, mtx s = Some h -> exists s', mstep s h = Some s') /\
  (mtx s = None -> forall t p, nth_error (progs s) t = Some p -> p <> [] -> exists s', mstep s t = Some s').
Proof. exact mutex_never_stuck. Qed.
Print Assumptions c09_mutex_never_stuck.

Theorem c09_router_programs_well_bracketed : forall hs,
  wfp false (loop_exit_prog false hs) /\ wfp false send_prog /\ wfp false stop_prog.
Proof. exact router_programs_well_bracketed. Qed.
Print Assumptions c09_router_programs_well_bracketed.

(* the variant that calls the handlers with the mutex held (seeded change C09-A): one re-entrant handler
   and one Send are enough for a state in which nobody can move *)
Theorem c09_handlers_under_mutex_refuted :
  exists s, mrun (mkM None [loop_exit_prog true [true]; send_prog]) [0; 0; 0; 0; 0] = Some s /\
            mstep s 0 = None /\ mstep s 1 = None /\
            nth_error (progs s) 0 <> Some [] /\ nth_error (progs s) 1 <> Some [].
Proof. exact handlers_under_mutex_refuted. Qed.
Print Assumptions c09_handlers_under_mutex_refuted.

(* ---- errors are reported -------------------------------------------------------------------------- *)

Theorem c09_router_send_fails : forall f b n acts s p msgs o,
  run (init f b n) acts = Some s -> listening s p = false ->
  (forall c x, In c (table s p) -> conns s c = Some x -> sink x = false) ->
  (table s p = [] \/ tcp s = false \/ o = false) ->
  exists s', send_call s p msgs o = (s', Some RErr) /\ delivered s' = delivered s.
Proof. exact send_fails_when_nothing_listens. Qed.
Print Assumptions c09_router_send_fails.

(* every send entry point over the REAL router state: each SendTo of a multi-destination entry point is a
   Router.Send ([send_call]) in the state its predecessors left behind. If p is a destination, nothing
   listens at p and no connection to p is registered, then SendToChildren fails (at p or before),
   Multicast / Broadcast / SendToChildrenInParallel report p, and the single-destination entry points fail.
   (That the Go wrappers are these folds is tied to the code by the CEntry correspondence cases.) *)
Theorem c09_errors_propagate : forall msgs o p s dests self,
  dead p s -> In p dests ->
  snd (send_to_children state (rsend msgs o) s dests) = RErr /\
  In p (snd (multicast state (rsend msgs o) s dests)) /\
  (p <> self -> In p (snd (broadcast state (rsend msgs o) s self dests))) /\
  snd (send_to_parent state (rsend msgs o) s (Some p)) = RErr /\
  tn_send_to false false (snd (rsend msgs o s p)) = RErr /\
  send_to_tree_node (snd (rsend msgs o s p)) = RErr /\
  send_raw true (snd (rsend msgs o s p)) = RErr.
Proof. exact errors_propagate_all. Qed.
Print Assumptions c09_errors_propagate.

Example c09_dead_example : dead 0 (st_of (run (init true false 0) [ACrash 0])).
Proof. exact dead_example. Qed.
Print Assumptions c09_dead_example.

(* the multi-destination entry points report exactly the destinations whose send failed /
   SendToChildren fails iff some child before (and including) the first failure failed *)
Theorem c09_multicast_reports : forall St snd_ s dests k d,
  nth_error dests k = Some d -> snd (snd_ (state_before St snd_ s dests k) d) = RErr ->
  In d (snd (multicast St snd_ s dests)).
Proof. exact multicast_reports. Qed.
Print Assumptions c09_multicast_reports.

Theorem c09_multicast_only_failures : forall St snd_ s dests d,
  In d (snd (multicast St snd_ s dests)) ->
  exists k, nth_error dests k = Some d /\ snd (snd_ (state_before St snd_ s dests k) d) = RErr.
Proof. exact multicast_only_failures. Qed.
Print Assumptions c09_multicast_only_failures.

Theorem c09_send_to_children_reports : forall St snd_ s dests k d,
  nth_error dests k = Some d -> snd (snd_ (state_before St snd_ s dests k) d) = RErr ->
  (forall j d', j < k -> nth_error dests j = Some d' -> snd (snd_ (state_before St snd_ s dests j) d') = ROk) ->
  snd (send_to_children St snd_ s dests) = RErr.
Proof. exact send_to_children_reports. Qed.
Print Assumptions c09_send_to_children_reports.

(* F10: the pinned Context.SendRaw returns nil where the router returned the error *)
Theorem c09_sendraw_refuted :
  exists s r, run (init false false 0) [ACrash 0] = Some s /\ listening s 0 = false /\ table s 0 = [] /\
              snd (send_call s 0 [1] false) = Some r /\ r = RErr /\ send_raw false r = ROk.
Proof. exact sendraw_refuted. Qed.
Print Assumptions c09_sendraw_refuted.

(* ---- the table is clean, handlers are told ---------------------------------------------------------- *)

Theorem c09_table_clean : forall f b n acts s c x err,
  run (init f b n) acts = Some s -> conns s c = Some x -> loop x = LExited err ->
  ~ In c (table s (cpeer x)) /\ lclosed x = true /\
  calls_of c (calls s) = (if err then map (fun k => (k, cpeer x, c)) (seq 0 (nh s)) else []).
Proof. exact table_clean. Qed.
Print Assumptions c09_table_clean.

Theorem c09_handlers_exactly_once : forall f b n acts s c x h,
  run (init f b n) acts = Some s -> conns s c = Some x -> loop x = LExited true -> h < nh s ->
  filter (fun y => fst (fst y) =? h) (calls_of c (calls s)) = [(h, cpeer x, c)].
Proof. exact handlers_exactly_once. Qed.
Print Assumptions c09_handlers_exactly_once.

Theorem c09_calls_name_the_peer : forall f b n acts s h p c,
  run (init f b n) acts = Some s -> In (h, p, c) (calls s) ->
  exists x, conns s c = Some x /\ cpeer x = p /\ h < nh s.
Proof. exact calls_name_the_peer. Qed.
Print Assumptions c09_calls_name_the_peer.

Theorem c09_table_live : forall f b n acts s p c,
  run (init f b n) acts = Some s -> In c (table s p) ->
  exists x, conns s c = Some x /\ cpeer x = p /\ forall e, loop x <> LExited e.
Proof. exact table_live. Qed.
Print Assumptions c09_table_live.

(* a stale entry leaves by the steps of its own receive loop alone, other peers' entries untouched *)
Theorem c09_stale_entry_can_leave : forall f b n acts s p c x,
  run (init f b n) acts = Some s -> In c (table s p) -> conns s c = Some x -> loop x = LRun ->
  exists s',
    run s (ARecvErr c EClosed :: repeat (ATrigger c) (if closed s then 0 else nh s) ++ [AExit c]) = Some s' /\
    ~ In c (table s' p) /\ (forall q, q <> p -> table s' q = table s q) /\
    listening s' = listening s /\ closed s' = closed s.
Proof. exact stale_entry_can_leave. Qed.
Print Assumptions c09_stale_entry_can_leave.

(* ---- recoverable ------------------------------------------------------------------------------------ *)

Theorem c09_resend_after_restart : forall f b n acts s p msgs o,
  run (init f b n) acts = Some s ->
  closed s = false -> listening s p = true ->
  (forall c x, In c (table s p) -> conns s c = Some x -> sink x = false) ->
  (tcp s = false \/ o = false) -> msgs <> [] ->
  exists s' D, send_call s p msgs o = (s', Some ROk) /\
    delivered s' = delivered s ++ D /\ map fst D = msgs /\
    Forall (fun mc => exists x, conns s' (snd mc) = Some x /\ cpeer x = p /\ cinc x = incn s' p /\ sink x = false) D.
Proof. exact resend_after_restart. Qed.
Print Assumptions c09_resend_after_restart.

(* the same with the 'no abandoned connection' hypothesis discharged: when the peers run the repaired code
   (they close a connection whose registration they refuse: no [AAcceptClosing false] in the history),
   no connection is ever a sink. Remaining hypotheses: router not closed, peer listening, and the
   transport does not swallow writes to dead peers (in-memory, or no kernel buffering: o = false). *)
Theorem c09_resend_after_restart_closing_peers : forall f b n acts s p msgs o,
  run (init f b n) acts = Some s -> Forall peer_closes acts ->
  closed s = false -> listening s p = true -> (tcp s = false \/ o = false) -> msgs <> [] ->
  exists s' D, send_call s p msgs o = (s', Some ROk) /\
    delivered s' = delivered s ++ D /\ map fst D = msgs /\
    Forall (fun mc => exists x, conns s' (snd mc) = Some x /\ cpeer x = p /\ cinc x = incn s' p /\ sink x = false) D.
Proof. exact resend_after_restart_closing_peers. Qed.
Print Assumptions c09_resend_after_restart_closing_peers.

(* F11 seen from the survivor: with a connection abandoned unclosed by the stopping peer the
   Send after the restart returns nil and delivers nothing *)
Theorem c09_resend_abandoned_refuted :
  exists s s', run (init false false 1) abandoned_history = Some s /\
    closed s = false /\ listening s 0 = true /\ table s 0 = [1] /\
    send_call s 0 [2] false = (s', Some ROk) /\ delivered s' = delivered s.
Proof. exact resend_abandoned_refuted. Qed.
Print Assumptions c09_resend_abandoned_refuted.

(* the configuration set with SetConfig (C09-N1, beside the property, NOT part of the checker). The tree
   runs the pinned SendTo (Corr.C09.code_fixed_N1 = false): one failed send loses the configuration
   (c09_config_lost_refuted, compared with the code by the CConfig cases). The statement about the
   proposed repair is a one-line computation and is kept only to document the intended behaviour. *)
Theorem c09_config_reaches_fixed : forall earlier,
  Forall (fun r => r = RErr) earlier -> carries_config true earlier = true.
Proof. exact config_reaches_fixed. Qed.
Print Assumptions c09_config_reaches_fixed.

Theorem c09_config_lost_refuted : carries_config false [RErr] = false.
Proof. exact config_lost_refuted. Qed.
Print Assumptions c09_config_lost_refuted.

(* ---- the in-memory transport under back-pressure (C09-N3) ------------------------------------------- *)

(* pinned network/local.go: a close that waits for its confirmation with the manager's lock while the
   forwarding goroutine sits on a full queue nobody reads: no action of the whole manager is enabled *)
Theorem c09_local_close_deadlock_refuted :
  exists s, lrun false (linit 1) close_deadlock_history = Some s /\ closer s = CWait /\ lstuck false s.
Proof. exact local_close_deadlock_refuted. Qed.
Print Assumptions c09_local_close_deadlock_refuted.

Theorem c09_local_send_deadlock_refuted :
  exists s, lrun false (linit 1) send_deadlock_history = Some s /\ lock_s s = true /\ closer s = CIdle /\ lstuck false s.
Proof. exact local_send_deadlock_refuted. Qed.
Print Assumptions c09_local_send_deadlock_refuted.

(* repaired: for every queue size and every history, no Send holds the manager's lock while it waits,
   and a waiting close can always be confirmed at once and returns with the manager free *)
Theorem c09_local_close_completes : forall cap acts s,
  lrun true (linit cap) acts = Some s ->
  lock_s s = false /\
  (closer s = CWait ->
   exists s', (lrun true s [LFwdClose; LCloseEnd] = Some s' \/ lrun true s [LCloseEnd] = Some s') /\
              closer s' = CDone /\ lock_free s' = true).
Proof. exact local_close_completes. Qed.
Print Assumptions c09_local_close_completes.

Theorem c09_flood_outcome_repaired : forall k, In k [50; 150; 250; 300; 380; 430; 450; 500] ->
  flood_outcome true 200 k = (true, true, true, true).
Proof. exact flood_outcome_repaired. Qed.
Print Assumptions c09_flood_outcome_repaired.

Theorem c09_flood_outcome_pinned :
  flood_outcome false 200 150 = (true, true, true, true) /\
  flood_outcome false 200 300 = (false, true, false, false) /\
  flood_outcome false 200 450 = (false, false, false, false).
Proof. exact flood_outcome_pinned. Qed.
Print Assumptions c09_flood_outcome_pinned.

(* ---- a silently dead peer (no FIN, no RST) is noticed by the read deadline --------------------------------- *)

Theorem c09_silent_peer_detected : forall now timeout leftover,
  exists t, receive_silent true now timeout leftover = Some t /\ t <= now + timeout /\ classify ETimeout = Drop.
Proof. exact silent_peer_detected. Qed.
Print Assumptions c09_silent_peer_detected.

(* the variant that arms the deadline only before body reads (seeded change C09-F): covered by the left-over
   deadline on a connection that has received a frame, never on a fresh one *)
Theorem c09_leftover_deadline_covers : forall now timeout t0,
  t0 <= now ->
  exists t, receive_silent false now timeout (after_body t0 timeout) = Some t /\ t <= now + timeout.
Proof. exact leftover_deadline_covers. Qed.
Print Assumptions c09_leftover_deadline_covers.

Theorem c09_silent_peer_undetected_refuted : forall now timeout, receive_silent false now timeout None = None.
Proof. exact silent_peer_undetected_refuted. Qed.
Print Assumptions c09_silent_peer_undetected_refuted.

(* ---- the listening table of the in-memory transport (seeded change C09-G) -------------------------------- *)

Theorem c09_stale_stop_harmless : forall tb l, ll_on l = false -> ll_stop false tb l = (tb, l).
Proof. exact stale_stop_harmless. Qed.
Print Assumptions c09_stale_stop_harmless.

Theorem c09_restart_survives_old_stop : forall addr, restart_then_stop_old false addr = Some 2.
Proof. exact restart_survives_old_stop. Qed.
Print Assumptions c09_restart_survives_old_stop.

Theorem c09_old_stop_unregisters_successor_refuted : forall addr, restart_then_stop_old true addr = None.
Proof. exact old_stop_unregisters_successor_refuted. Qed.
Print Assumptions c09_old_stop_unregisters_successor_refuted.

(* ---- TCPConn.Send's mutex (seeded change C09-H) -------------------------------------------------------------- *)

Theorem c09_conn_send_well_bracketed : forall ok, wfp false (conn_send_prog ok false).
Proof. exact conn_send_well_bracketed. Qed.
Print Assumptions c09_conn_send_well_bracketed.

Theorem c09_send_mutex_leak_refuted :
  exists s, mrun (mkM None [conn_send_prog false true; conn_send_prog true true]) [0; 0] = Some s /\
            nth_error (progs s) 0 = Some [] /\ mtx s = Some 0 /\
            mstep s 1 = None /\ nth_error (progs s) 1 <> Some [].
Proof. exact send_mutex_leak_refuted. Qed.
Print Assumptions c09_send_mutex_leak_refuted.

(* ---- classifier ---------------------------------------------------------------------------------------- *)

Theorem c09_classifier_total : forall c,
  (classify c = Drop <-> c = ETimeout \/ c = EClosed \/ c = EEOF \/ c = EUnknown \/ c = ETooBig) /\
  (classify c = Continue <-> c = ECanceled \/ c = EOther) /\
  (classify c = Drop \/ classify c = Continue).
Proof. exact classifier_total_all. Qed.
Print Assumptions c09_classifier_total.

Theorem c09_raw_recoverable_iff : forall e,
  (handle_error e <> EOther /\ handle_error e <> ETooBig) /\
  (classify (handle_error e) = Continue <->
   has_use_of_closed e = false /\ has_broken_pipe e = false /\ has_canceled e = true).
Proof. exact raw_recoverable_iff. Qed.
Print Assumptions c09_raw_recoverable_iff.

(* ---- the hypotheses above are satisfiable ------------------------------------------------------------- *)

Example c09_resend_hypotheses_example :
  exists s, run (init true false 1) repaired_history = Some s /\ closed s = false /\ listening s 0 = true /\
            (forall c x, In c (table s 0) -> conns s c = Some x -> sink x = false) /\ tcp s = false.
Proof. exact resend_hypotheses_example. Qed.
Print Assumptions c09_resend_hypotheses_example.

Example c09_table_clean_example :
  exists s x, run (init true false 1) repaired_history = Some s /\ conns s 0 = Some x /\ loop x = LExited true /\ nh s = 1.
Proof. exact table_clean_example. Qed.
Print Assumptions c09_table_clean_example.

Example c09_send_fails_hypotheses_example :
  exists s, run (init true false 1) crashed_history = Some s /\
            listening s 0 = false /\ table s 0 = [0] /\ tcp s = false /\
            (forall c x, In c (table s 0) -> conns s c = Some x -> sink x = false).
Proof. exact send_fails_hypotheses_example. Qed.
Print Assumptions c09_send_fails_hypotheses_example.

Example c09_stale_entry_example :
  exists s x, run (init true true 2) stale_history = Some s /\
              In 0 (table s 3) /\ conns s 0 = Some x /\ loop x = LRun /\ alive x = false.
Proof. exact stale_entry_example. Qed.
Print Assumptions c09_stale_entry_example.
