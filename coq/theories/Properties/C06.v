(* C06 -- A tree learnt from a peer or rebuilt from its serialised form is the same tree.
   Statements only; proofs in Tree/TreeMarshalProofs.v, Tree/C06CheckProofs.v and
   Overlay/TreeCtlProofs.v.

   G is the type of keys / aggregate keys with its addition gadd (nothing is assumed
   about it unless stated).  Fix flags: f06/fix_f06 = MakeTree checks for a root element,
   n2/fix_n2 = MakeTree refuses a nil roster, fix_n1 = a tree response or bare description is
   accepted only while its id is requested and missing, pending descriptions are used once
   and never replace a present tree, fix_f07/fix_f08 = repairs of C07 on the roster path.
   [run gadd fx init ops] ranges over EVERY history of local operations (register a tree,
   create / finish an instance, protocol message for a known or unknown tree, release of an
   unused tree) and peer messages (tree request v0/v1, tree response, bare description,
   roster request, roster). *)
From Coq Require Import List Arith Bool ZArith Permutation.
Import ListNotations.
From Onet Require Import Tree.TreeMarshal Tree.TreeMarshalProofs Overlay.TreeCtl Overlay.TreeCtlProofs
     Corr.C06 Tree.C06CheckProofs.
From Onet Require Import Overlay.C06HistCheckProofs Overlay.TreeCtlRace Overlay.TreeCtlRaceProofs.
From Onet Require Import Tree.TreeGenNary Tree.TreeGenNaryProofs.
From Onet Require Overlay.Done Overlay.C06DoneProofs.

(* ---- Part A: flatten to ids, rebuild against the roster ------------------------------------- *)

(* Roster ids pairwise distinct, every node on the roster member recorded in it, these
   members have a public key (s_nokey = false; NewTree cannot build a tree otherwise): the
   rebuild returns the same tree id, roster, node ids, structure, child order, servers and
   roster positions, with the aggregate of every subtree recomputed and stored; if the
   sender's aggregates were the computed ones (NewTree, MakeTree), exactly the sender's tree.
   Holds for the code as it is (any f06, n2). *)
Theorem c06_roundtrip : forall G gadd f06 n2 (t : stree G) ro,
  t_ro t = Some ro ->
  NoDup (map s_id (r_list ro)) ->
  (forall x, In x (flat (t_root t)) -> nth_error (r_list ro) (n_ridx x) = Some (n_srv x)) ->
  (forall x, In x (flat (t_root t)) -> s_nokey (n_srv x) = false) ->
  make_tree gadd f06 n2 (to_marshal t) (Some ro) =
    Ok (mkTree (t_id t) (Some ro) (with_aggs gadd (t_root t))) /\
  (aggs_computed G gadd (t_root t) -> make_tree gadd f06 n2 (to_marshal t) (Some ro) = Ok t) /\
  (forall x, In x (flat (with_aggs gadd (t_root t))) -> n_agg x = Some (agg_of gadd x)).
Proof. exact roundtrip. Qed.
Print Assumptions c06_roundtrip.

Example c06_roundtrip_example :
  NoDup (map s_id (r_list ex_ro)) /\
  (forall x, In x (flat (t_root ex_tree)) -> nth_error (r_list ex_ro) (n_ridx x) = Some (n_srv x)) /\
  (forall x, In x (flat (t_root ex_tree)) -> s_nokey (n_srv x) = false) /\
  aggs_computed nat Nat.add (t_root ex_tree) /\
  make_tree Nat.add false false (to_marshal ex_tree) (Some ex_ro) = Ok ex_tree.
Proof. exact roundtrip_example. Qed.
Print Assumptions c06_roundtrip_example.

(* Whatever the roster (ids may repeat): every node of a rebuilt tree sits on the FIRST
   member carrying the described server id, and the rebuilt tree has exactly the described
   node ids, server ids, shape and child order. *)
Theorem c06_rebuild_first_match : forall G (l : list (server G)) m n,
  rebuild l m = Some n -> placed G l n /\ copy_tree n = norm m.
Proof. exact rebuild_sound. Qed.
Print Assumptions c06_rebuild_first_match.

(* ... so with repeated roster ids a node recorded on the second member comes back on the
   first (other index, other key, other aggregate): the round trip needs distinct ids. *)
Theorem c06_repeated_ids_refuted :
  (forall x, In x (flat (t_root rep_tree)) -> nth_error (r_list rep_ro) (n_ridx x) = Some (n_srv x)) /\
  aggs_computed nat Nat.add (t_root rep_tree) /\
  make_tree Nat.add false false (to_marshal rep_tree) (Some rep_ro) =
    Ok (mkTree 9 (Some rep_ro) (Node 100 sB 1 (Some 30) [Node 101 sA 0 (Some 10) []])) /\
  make_tree Nat.add false false (to_marshal rep_tree) (Some rep_ro) <> Ok rep_tree.
Proof. exact repeated_ids_first_match. Qed.
Print Assumptions c06_repeated_ids_refuted.

(* What was learnt can be passed on: re-serialising a rebuilt tree and rebuilding it again
   gives the same tree (a server that learnt the tree serves it to the next one). *)
Theorem c06_relearn_same : forall G gadd f06 n2 (t t' : stree G) ro,
  t_ro t = Some ro ->
  make_tree gadd f06 n2 (to_marshal t) (Some ro) = Ok t' ->
  make_tree gadd f06 n2 (to_marshal t') (Some ro) = Ok t'.
Proof. exact relearn_same. Qed.
Print Assumptions c06_relearn_same.

(* Through bytes, for ANY codec whose decoder inverts its encoder (hypothesis on
   network.Marshal / Unmarshal, i.e. protobuf; see C03): Marshal ; NewTreeFromMarshal ...
   (Corollaries of c06_roundtrip: the codec's inverse IS the hypothesis, so these two add only
   that the wrappers NewTreeFromMarshal / BinaryUnmarshaler do nothing else to the tree.) *)
Theorem c06_bytes_roundtrip : forall G gadd B (enc : tmarshal -> B) (dec : B -> option tmarshal),
  (forall m, dec (enc m) = Some m) ->
  forall f06 n2 (t : stree G) ro,
  t_ro t = Some ro -> NoDup (map s_id (r_list ro)) ->
  (forall x, In x (flat (t_root t)) -> nth_error (r_list ro) (n_ridx x) = Some (n_srv x)) ->
  (forall x, In x (flat (t_root t)) -> s_nokey (n_srv x) = false) ->
  aggs_computed G gadd (t_root t) ->
  from_bytes gadd f06 n2 (dec (enc (to_marshal t))) (Some ro) = Ok t.
Proof. exact bytes_roundtrip. Qed.
Print Assumptions c06_bytes_roundtrip.

(* ... and BinaryMarshaler ; BinaryUnmarshaler, where the roster travels with the bytes *)
Theorem c06_binary_roundtrip : forall G gadd B (enc : tmarshal -> B) (dec : B -> option tmarshal),
  (forall m, dec (enc m) = Some m) ->
  forall (enc_outer : B * option (roster G) -> B) (dec_outer : B -> option (B * option (roster G))),
  (forall x, dec_outer (enc_outer x) = Some x) ->
  forall f06 n2 (t : stree G) ro,
  t_ro t = Some ro -> NoDup (map s_id (r_list ro)) ->
  (forall x, In x (flat (t_root t)) -> nth_error (r_list ro) (n_ridx x) = Some (n_srv x)) ->
  (forall x, In x (flat (t_root t)) -> s_nokey (n_srv x) = false) ->
  aggs_computed G gadd (t_root t) ->
  binary_unmarshal gadd f06 n2
    (option_map (fun p => (dec (fst p), snd p)) (dec_outer (enc_outer (enc (to_marshal t), t_ro t)))) = Ok t.
Proof. exact binary_roundtrip. Qed.
Print Assumptions c06_binary_roundtrip.

(* Aggregates: over any monoid the stored aggregate of a node is the sum of the keys of
   its subtree; over a commutative one it does not depend on the order of the children. *)
Theorem c06_aggregate_is_subtree_sum : forall G gadd (gzero : G),
  (forall a b c, gadd a (gadd b c) = gadd (gadd a b) c) ->
  (forall a, gadd a gzero = a) -> (forall a, gadd gzero a = a) ->
  forall n : tnode G, agg_of gadd n = gsum G gadd gzero (map (fun x => s_key (n_srv x)) (flat n)).
Proof. exact agg_of_sum. Qed.
Print Assumptions c06_aggregate_is_subtree_sum.

Theorem c06_aggregate_order_independent : forall G gadd (gzero : G),
  (forall a b c, gadd a (gadd b c) = gadd (gadd a b) c) ->
  (forall a, gadd a gzero = a) -> (forall a, gadd gzero a = a) ->
  (forall a b, gadd a b = gadd b a) ->
  forall id srv i g (ch ch' : list (tnode G)),
  Permutation ch ch' -> agg_of gadd (Node id srv i g ch) = agg_of gadd (Node id srv i g ch').
Proof. exact agg_of_children_perm. Qed.
Print Assumptions c06_aggregate_order_independent.

(* Malformed or mismatching descriptions.  With the length check (F06) MakeTree is total:
   [malformed m ro] = the roster id differs, or there is no root element, or for some node
   the roster search finds no member or finds a member WITHOUT PUBLIC KEY (the key is
   optional on the wire; /repo 548f825).  Exactly these descriptions are refused with an
   error; any other yields a tree under the described id over the given roster; it never
   panics. *)
Theorem c06_reject_malformed : forall G gadd n2 m (ro : roster G),
  (TreeMarshalProofs.malformed G m ro = true -> make_tree gadd true n2 m (Some ro) = Err) /\
  (TreeMarshalProofs.malformed G m ro = false -> exists t, make_tree gadd true n2 m (Some ro) = Ok t /\
                                          t_id t = tm_tid m /\ t_ro t = Some ro).
Proof. exact make_tree_fixed_total. Qed.
Print Assumptions c06_reject_malformed.

(* a member without key: refused when a node is placed on it, harmless otherwise *)
Theorem c06_keyless_member_refused :
  TreeMarshalProofs.malformed nat (TM 0 9 0 7 [TM 100 0 1 0 [TM 101 0 3 0 []]]) nokey_ro = true /\
  make_tree Nat.add false false (TM 0 9 0 7 [TM 100 0 1 0 [TM 101 0 3 0 []]]) (Some nokey_ro) = Err /\
  exists t, make_tree Nat.add false false (TM 0 9 0 7 [TM 100 0 1 0 [TM 101 0 2 0 []]]) (Some nokey_ro) = Ok t.
Proof. exact keyless_member_refused. Qed.
Print Assumptions c06_keyless_member_refused.

(* The code as it is behaves identically on every description that has a root element and
   panics on the others when the roster id matches (F06) ... *)
Theorem c06_reject_malformed_pinned : forall G gadd n2 m (ro : roster G),
  (tm_children m <> [] -> make_tree gadd false n2 m (Some ro) = make_tree gadd true n2 m (Some ro)) /\
  (tm_children m = [] -> r_id ro = tm_rid m -> make_tree gadd false n2 m (Some ro) = Crash).
Proof. exact make_tree_pinned. Qed.
Print Assumptions c06_reject_malformed_pinned.

Theorem c06_reject_malformed_refuted :
  make_tree Nat.add false false (TM 0 9 0 7 []) (Some ex_ro) = Crash /\
  make_tree Nat.add true false (TM 0 9 0 7 []) (Some ex_ro) = Err.
Proof. exact empty_description_crashes. Qed.
Print Assumptions c06_reject_malformed_refuted.

(* ... and a serialised form that lacks its roster is dereferenced instead of refused (N2) *)
Theorem c06_missing_roster_refuted :
  binary_unmarshal Nat.add false false (Some (Some (to_marshal ex_tree), None)) = Crash /\
  binary_unmarshal Nat.add false true (Some (Some (to_marshal ex_tree), None)) = Err.
Proof. exact nil_roster_crashes. Qed.
Print Assumptions c06_missing_roster_refuted.

(* Model-passes-checker, for ONE case kind (CMake: a description rebuilt against a roster;
   clauses 2, 3, 10): the boolean checker that ./check evaluates on the implementation's
   observations accepts whatever the repaired model answers, for every description and roster;
   the pinned model fails it exactly on root-less descriptions naming the right roster, with
   clause 2.  This is not a proof that the checker expresses the property text: [malformed]
   and [describes] are the checker's own reading of "malformed" and "the same tree". *)
Theorem c06_checker_accepts_repaired_model : forall n2 m ro goeq,
  check (CMake m (Some ro) (obs_of (make_tree Z.add true n2 m (Some ro)) goeq)) = [].
Proof. exact repaired_model_passes_checker. Qed.
Print Assumptions c06_checker_accepts_repaired_model.

Theorem c06_checker_on_pinned_model : forall n2 m ro goeq,
  check (CMake m (Some ro) (obs_of (make_tree Z.add false n2 m (Some ro)) goeq)) =
  if (r_id ro =? tm_rid m) && match tm_children m with [] => true | _ => false end then [2] else [].
Proof. exact pinned_model_checker. Qed.
Print Assumptions c06_checker_on_pinned_model.

(* ---- Part B: histories of control messages ------------------------------------------------------ *)

(* For every history and every variant of the code: a tree id is in the store (requested or
   present), or has a description waiting for its roster, only if this server registered
   that tree itself or SENT a request for it earlier in the history ([asked] does not count
   a message whose tree request could not be sent: after a failed send the server is asking
   nobody, and the id is not left marked as requested).
   NOTE the reach of this statement: [asked ops] ranges over the WHOLE past. It excludes trees
   nobody here ever asked for; it does not exclude that a tree asked for once is stored again
   after it was answered and released (known finding C06-N3) -- that is what the per-step
   theorems c06_peer_never_replaces / c06_two_sections_never_replace and clauses 5, 8, 9 of
   the checker are about. *)
Theorem c06_only_solicited : forall G gadd fx ops (s : cst G) oc,
  run gadd fx init ops = (s, oc) ->
  (forall tid, tree_state s tid <> Absent -> In tid (asked ops)) /\
  (forall rid l m, lookup (c_pend s) rid = Some l -> In m l -> In (tm_tid m) (asked ops)).
Proof. exact only_solicited. Qed.
Print Assumptions c06_only_solicited.

Theorem c06_unsolicited_ignored : forall G gadd fx ops (s : cst G) oc tid,
  run gadd fx init ops = (s, oc) -> ~ In tid (asked ops) -> tree_state s tid = Absent.
Proof. exact unsolicited_ignored. Qed.
Print Assumptions c06_unsolicited_ignored.

(* Strong form, with repair N1, for every state and every peer message: a tree that is
   present is never replaced, and -- the deprecated roster message apart -- the stored value
   of an id changes only if that id was requested and not yet received. *)
Theorem c06_peer_never_replaces : forall G gadd fx (s : cst G) (o : op G) s' outs oc tid,
  fix_n1 fx = true -> is_peer o = true ->
  step gadd fx s o = (s', outs, oc) ->
  lookup (c_store s') tid <> lookup (c_store s) tid ->
  tree_state s tid <> Present /\
  ((forall ro, o <> PRoster ro) -> tree_state s tid = Requested).
Proof. exact peer_never_replaces. Qed.
Print Assumptions c06_peer_never_replaces.

(* Model-passes-checker for clause 5 only ("a peer message never replaces a present tree"):
   snapshots taken from the repaired model before and after ANY peer message, for any set U of
   watched tree ids, satisfy [clause5_ok]; [check_step] reports clause 5 exactly when
   [clause5_ok] fails on a peer's step (c06_checker_clause5_is_clause5_ok), so the repaired
   model is never reported with clause 5; the pinned model's overwrite witness is.
   The repaired model does NOT pass the whole history checker: on the late-roster history it
   is itself reported with clause 8 (c06_checker_reports_residual_on_repaired_model = N3). *)
Theorem c06_checker_clause5_on_repaired_model : forall fx U (s : cst Z) (o : op Z) s' outs oc outs0 oc0,
  fix_n1 fx = true -> is_peer o = true ->
  step Z.add fx s o = (s', outs, oc) ->
  clause5_ok (Some (snap_of U s outs0 oc0)) (snap_of U s' outs oc) = true.
Proof. exact repaired_model_never_replaces_checked. Qed.
Print Assumptions c06_checker_clause5_on_repaired_model.

Theorem c06_checker_clause5_is_clause5_ok : forall aw p o n,
  In 5 (check_step aw p o n) <-> is_peer o = true /\ clause5_ok p n = false.
Proof. exact check_step_clause5. Qed.
Print Assumptions c06_checker_clause5_is_clause5_ok.

Theorem c06_checker_never_reports_clause5_on_repaired_model :
  forall fx U (s : cst Z) (o : op Z) s' outs oc outs0 oc0 aw,
  fix_n1 fx = true ->
  step Z.add fx s o = (s', outs, oc) ->
  ~ In 5 (check_step aw (Some (snap_of U s outs0 oc0)) o (snap_of U s' outs oc)).
Proof. exact repaired_model_never_reports_clause5. Qed.
Print Assumptions c06_checker_never_reports_clause5_on_repaired_model.

Theorem c06_checker_reports_residual_on_repaired_model :
  check (CHist z_late_roster_ops (model_snaps [9] repaired init z_late_roster_ops)) = [8].
Proof. exact repaired_model_fails_clause8_on_late_roster. Qed.
Print Assumptions c06_checker_reports_residual_on_repaired_model.

Theorem c06_checker_clause5_on_pinned_model :
  let s := fst (run Z.add pinned init [LRegister z_t]) in
  let '(s', outs, oc) := step Z.add pinned s (PResponseTree (Some (to_marshal z_b)) (Some z_ro)) in
  check_step [] (Some (snap_of [9] s [] Fine)) (PResponseTree (Some (to_marshal z_b)) (Some z_ro)) (snap_of [9] s' outs oc) = [5].
Proof. exact pinned_model_fails_clause5. Qed.
Print Assumptions c06_checker_clause5_on_pinned_model.

(* What repair N1 leaves open (it keeps the existing white-box test of the pending list
   passing): a bare description accepted while the id was awaited stays pending when the tree
   then arrives by a full response; after that tree's release the late roster message stores
   it again. Recorded as a separate known finding. *)
Theorem c06_late_roster_residual_refuted :
  exists s1 s2, run Nat.add repaired init (firstn 4 late_roster_ops) = (s1, Fine) /\
                run Nat.add repaired init late_roster_ops = (s2, Fine) /\
                tree_state s1 9 = Absent /\ get_tree s2 9 = Some w_t.
Proof. exact late_roster_residual. Qed.
Print Assumptions c06_late_roster_residual_refuted.

(* The code as it is: (i) a tree this server registered itself is replaced by what a peer
   sends, unasked, under its id; (ii) a description stays pending for ever, so a roster
   message arriving after the tree was released stores it again although nobody asked again. *)
Theorem c06_overwrite_refuted :
  exists ops s, run Nat.add pinned init ops = (s, Fine) /\
    ops = [LRegister w_t; PResponseTree (Some (to_marshal w_b)) (Some w_ro)] /\
    get_tree s 9 = Some w_b /\ w_b <> w_t.
Proof. exact overwrite_refuted. Qed.
Print Assumptions c06_overwrite_refuted.

Theorem c06_stale_refuted :
  exists s1 s2, run Nat.add pinned init (firstn 4 stale_ops) = (s1, Fine) /\
                run Nat.add pinned init stale_ops = (s2, Fine) /\
                tree_state s1 9 = Absent /\ get_tree s2 9 = Some w_t.
Proof. exact stale_refuted. Qed.
Print Assumptions c06_stale_refuted.

Theorem c06_witnesses_repaired :
  fst (run Nat.add repaired init [LRegister w_t; PResponseTree (Some (to_marshal w_b)) (Some w_ro)]) =
  fst (run Nat.add repaired init [LRegister w_t]) /\
  exists s2, run Nat.add repaired init stale_ops = (s2, Fine) /\ tree_state s2 9 = Absent.
Proof. exact (conj overwrite_repaired stale_repaired). Qed.
Print Assumptions c06_witnesses_repaired.

(* (The next statement, c06_incomplete_response_ignored and c06_unsolicited_arrival_ignored
   are direct unfoldings of the model -- remarks recorded because the property text names
   these cases, not results.)
   A response touches nothing but the id its description names: a request for X answered
   with a description of Y leaves X requested (and stores Y only if Y is itself awaited).
   NOT checked by the code, and not by the model: that the content matches the id -- the id
   is a field of the message; a peer that answers with another tree under the requested id
   is believed (outside "equal to the sender's": it is what that sender sent). *)
Theorem c06_response_touches_named_id_only : forall G gadd fx (s : cst G) m oro s' outs oc tid,
  step gadd fx s (PResponseTree (Some m) oro) = (s', outs, oc) ->
  tid <> tm_tid m -> lookup (c_store s') tid = lookup (c_store s) tid.
Proof. exact response_touches_named_id_only. Qed.
Print Assumptions c06_response_touches_named_id_only.

(* With the length check: a description that does not fit the roster it comes with leaves
   the server exactly as it was, and no tree response makes the handler panic. *)
Theorem c06_malformed_response_ignored : forall G gadd fx (s : cst G) m ro,
  fix_f06 fx = true -> TreeMarshalProofs.malformed G m ro = true ->
  step gadd fx s (PResponseTree (Some m) (Some ro)) = (s, [], Fine).
Proof. exact malformed_response_ignored. Qed.
Print Assumptions c06_malformed_response_ignored.

Theorem c06_incomplete_response_ignored : forall G gadd fx (s : cst G) otm oro,
  (otm = None \/ oro = None \/ exists m, otm = Some m /\ tm_tid m = 0) ->
  step gadd fx s (PResponseTree otm oro) = (s, [], Fine).
Proof. exact incomplete_response_ignored. Qed.
Print Assumptions c06_incomplete_response_ignored.

Theorem c06_response_never_crashes : forall G gadd fx (s : cst G) otm oro s' outs oc,
  fix_f06 fx = true -> step gadd fx s (PResponseTree otm oro) = (s', outs, oc) -> oc = Fine.
Proof. exact response_never_crashes. Qed.
Print Assumptions c06_response_never_crashes.

Theorem c06_malformed_response_refuted :
  snd (run Nat.add pinned init [LMsg 9 555 true; PResponseTree (Some (TM 0 9 0 7 [])) (Some w_ro)]) = Crashed /\
  run Nat.add repaired init [LMsg 9 555 true; PResponseTree (Some (TM 0 9 0 7 [])) (Some w_ro)] =
  run Nat.add repaired init [LMsg 9 555 true].
Proof. exact empty_description_crashes_handler. Qed.
Print Assumptions c06_malformed_response_refuted.

(* Learning from the holder, any variant of the code: the holder of a well-formed tree
   answers a version-1 request with description and roster, and the asking server, for which
   the id is requested and missing, ends up with an equal tree and nothing else changed. *)
Theorem c06_learnt_equals_sender : forall G gadd fx (holder asker : cst G) (t : stree G) ro,
  wf_tree G gadd t ro -> t_id t <> 0 ->
  get_tree holder (t_id t) = Some t ->
  tree_state asker (t_id t) = Requested ->
  exists m asker',
    step gadd fx holder (PRequestTree (t_id t) 1) = (holder, [OResponseTree m (Some ro)], Fine) /\
    step gadd fx asker (PResponseTree (Some m) (Some ro)) = (asker', [], Fine) /\
    get_tree asker' (t_id t) = Some t /\
    (forall tid, tid <> t_id t -> lookup (c_store asker') tid = lookup (c_store asker) tid).
Proof. exact learnt_equals_sender. Qed.
Print Assumptions c06_learnt_equals_sender.

(* The deprecated roster-then-tree form: bare description (a roster request goes out), then
   the roster. *)
Theorem c06_learnt_equals_sender_deprecated : forall G gadd fx (asker : cst G) (t : stree G) ro pick,
  wf_tree G gadd t ro -> t_id t <> 0 -> r_id ro <> 0 ->
  tree_state asker (t_id t) = Requested ->
  c_plock asker = false ->
  inst_roster asker (c_insts asker) (r_id ro) pick = Ok None ->
  lookup (c_pend asker) (r_id ro) = None ->
  exists a1 a2,
    step gadd fx asker (PTreeMarshal (to_marshal t) pick) = (a1, [ORequestRoster (r_id ro)], Fine) /\
    step gadd fx a1 (PRoster ro) = (a2, [], Fine) /\
    get_tree a2 (t_id t) = Some t.
Proof. exact learnt_equals_sender_deprecated. Qed.
Print Assumptions c06_learnt_equals_sender_deprecated.

Example c06_learnt_example :
  wf_tree nat Nat.add w_t w_ro /\
  exists holder asker oc1 oc2,
    run Nat.add pinned init [LRegister w_t] = (holder, oc1) /\
    run Nat.add pinned init [LMsg 9 101 true] = (asker, oc2) /\
    get_tree holder 9 = Some w_t /\ tree_state asker 9 = Requested.
Proof. exact learnt_example. Qed.
Print Assumptions c06_learnt_example.

(* The store is keyed by the trees' own ids, in every reachable state. *)
Theorem c06_store_keyed_by_tree_id : forall G gadd fx ops (s : cst G) oc,
  run gadd fx init ops = (s, oc) ->
  forall tid t, lookup (c_store s) tid = Some (Some t) -> t_id t = tid.
Proof. exact keyed_from_init. Qed.
Print Assumptions c06_store_keyed_by_tree_id.

(* The same "only solicited" rule over the concurrent transition system of C11
   (Overlay/Done.v: message threads, local runs, done-declarations, timer goroutines; its
   TreeArrive action merges the test and the store of handleSendTree, see Part C for the two
   sections apart), for every interleaving and every variant: an id is
   requested or present only if a local registration or a tree request for it came earlier,
   and a tree response for an absent id is ignored. *)
Theorem c06_only_solicited_interleaved : forall fx acts s i,
  Done.run fx Done.init acts = Some s -> Done.trees s i <> Done.TAbsent ->
  In i (C06DoneProofs.dasked acts).
Proof. exact C06DoneProofs.done_only_solicited. Qed.
Print Assumptions c06_only_solicited_interleaved.

Theorem c06_unsolicited_arrival_ignored : forall fx s i,
  Done.trees s i = Done.TAbsent -> Done.step fx s (Done.TreeArrive i) = Some s.
Proof. exact C06DoneProofs.done_unsolicited_arrival_ignored. Qed.
Print Assumptions c06_unsolicited_arrival_ignored.

(* ---- Part C: the response handler's two critical sections ---------------------------------------

   Part B runs every handler to completion. handleSendTree takes the tree store's lock twice
   (IsRequested; later RegisterTree -> Set) with MakeTree in between and no lock held, and
   handlers of different connections are different goroutines. Overlay/TreeCtlRace.v adds that
   interleaving: RTest = the handler up to and including MakeTree, RSet k = the k-th such
   handler stores, RSeq o = any operation of Part B in between. n4 = repair C06-N4 (test and
   store in one critical section). *)

(* the two sections back to back are the handler of Part B *)
Theorem c06_test_then_set_is_handler : forall G gadd fx n4 (r : rst G) otm oro,
  n4 = false \/ fix_n1 fx = true ->
  let '(r1, _, oc1) := rstep gadd fx n4 r (RTest otm oro) in
  let '(s', oc) := handle_send_tree gadd fx (r_base r) otm oro in
  oc1 = oc /\
  match oc with
  | Fine => r_base (fst (fst (rstep gadd fx n4 r1 (RSet (length (r_fly r)))))) = s'
  | _ => r_base r1 = s'
  end.
Proof. exact test_then_set_is_handler. Qed.
Print Assumptions c06_test_then_set_is_handler.

(* for EVERY interleaving and every variant: stored, requested, or made-and-not-yet-stored
   only if this server registered the tree itself or sent a request for it *)
Theorem c06_only_solicited_two_sections : forall G gadd fx n4 acts (r : rst G) oc,
  rrun gadd fx n4 rinit acts = (r, oc) ->
  (forall tid, tree_state (r_base r) tid <> Absent -> In tid (rasked acts)) /\
  (forall t, In t (r_fly r) -> In (t_id t) (rasked acts)).
Proof. exact race_only_solicited. Qed.
Print Assumptions c06_only_solicited_two_sections.

(* "never replaces a present tree" does NOT survive the window on the code as it is, even
   with repair N1: two responses that both passed the test are both stored, the second
   replaces the first; a response that passed the test replaces a tree registered locally
   in the window. Both responses carry the requested id; when they describe the same tree
   the second store changes nothing (next theorem); when they differ (a second, unsolicited
   sender) the server ends with a tree other than the one its request was answered with.
   Known finding C06-N4. *)
Theorem c06_two_sections_replace_refuted :
  (exists r4 r5, rrun Nat.add repaired false rinit (firstn 4 race_ops) = (r4, Fine) /\
                 rrun Nat.add repaired false rinit race_ops = (r5, Fine) /\
                 get_tree (r_base r4) 9 = Some w_t /\ get_tree (r_base r5) 9 = Some w_b /\ w_b <> w_t) /\
  (exists r, rrun Nat.add repaired false rinit race_local_ops = (r, Fine) /\ get_tree (r_base r) 9 = Some w_b).
Proof. exact (conj race_replaces_refuted race_replaces_local_refuted). Qed.
Print Assumptions c06_two_sections_replace_refuted.

(* same-content responses: storing the tree that is already stored changes no stored value;
   and a store touches no other id *)
Theorem c06_two_sections_same_content : forall G n4 (s : cst G) (t : stree G) tid,
  lookup (c_store s) (t_id t) = Some (Some t) ->
  lookup (c_store (arrival_set n4 s t)) tid = lookup (c_store s) tid.
Proof. exact set_same_content_harmless. Qed.
Print Assumptions c06_two_sections_same_content.

Theorem c06_two_sections_own_id_only : forall G n4 (s : cst G) (t : stree G) tid,
  tid <> t_id t -> lookup (c_store (arrival_set n4 s t)) tid = lookup (c_store s) tid.
Proof. exact set_touches_own_id_only. Qed.
Print Assumptions c06_two_sections_own_id_only.

(* with N4 (and N1): whatever runs in the window, no action a peer causes replaces a
   present tree; the witnesses above end with the first tree *)
Theorem c06_two_sections_never_replace : forall G gadd fx (r : rst G) (a : ract G) r' outs oc tid,
  fix_n1 fx = true -> rpeer a = true ->
  rstep gadd fx true r a = (r', outs, oc) ->
  lookup (c_store (r_base r')) tid <> lookup (c_store (r_base r)) tid ->
  tree_state (r_base r) tid <> Present.
Proof. exact race_never_replaces. Qed.
Print Assumptions c06_two_sections_never_replace.

Theorem c06_two_sections_repaired :
  (exists r, rrun Nat.add repaired true rinit race_ops = (r, Fine) /\ get_tree (r_base r) 9 = Some w_t) /\
  (exists r, rrun Nat.add repaired true rinit race_local_ops = (r, Fine) /\ get_tree (r_base r) 9 = Some w_t).
Proof. exact race_repaired. Qed.
Print Assumptions c06_two_sections_repaired.

(* ---- Part D: what the roster's n-ary generator hands to the sender --------------------------------

   Tree/TreeGenNary.v gives the tree of GenerateNaryTreeWithRoot(N, member root) -- hence of
   GenerateNaryTree / Binary / Star (root 0) -- as a value of the tree type: node k on member
   (k + root) mod n WITH THAT POSITION RECORDED, children N*k+1 .. N*k+N. The correspondence
   compares it (up to the hashed ids) with the tree the Go generator returns, for every root. *)

(* every node of a generated tree records the roster position of its own server ... *)
Theorem c06_generated_positions : forall G (idf : server G -> nat) f l N root k t,
  nary_node idf f l N root k = Some t ->
  forall x, In x (flat t) -> nth_error l (n_ridx x) = Some (n_srv x).
Proof. exact nary_node_positions. Qed.
Print Assumptions c06_generated_positions.

(* ... hence for any branching factor and ANY root position a generated tree over pairwise
   distinct servers with keys comes back from flatten-and-rebuild exactly as it was sent *)
Theorem c06_generated_tree_roundtrips : forall G gadd (idf : server G -> nat) f06 n2 tid (ro : roster G) N root t,
  NoDup (map s_id (r_list ro)) ->
  (forall e, In e (r_list ro) -> s_nokey e = false) ->
  nary_tree gadd idf tid ro N root = Some t ->
  make_tree gadd f06 n2 (to_marshal t) (Some ro) = Ok t /\
  (forall x, In x (flat (t_root t)) -> nth_error (r_list ro) (n_ridx x) = Some (n_srv x)).
Proof. exact generated_tree_roundtrips. Qed.
Print Assumptions c06_generated_tree_roundtrips.

Example c06_generated_example :
  exists t, nary_tree Nat.add (fun s => 100 + s_id s) 9 g_ro 2 3 = Some t /\
            map (fun x => n_ridx x) (flat (t_root t)) = [3; 4; 1; 2; 0] /\
            make_tree Nat.add false false (to_marshal t) (Some g_ro) = Ok t.
Proof. exact generated_example. Qed.
Print Assumptions c06_generated_example.

(* a tree that records the loop counter instead of the position does not come back equal *)
Example c06_wrong_positions_do_not_roundtrip :
  let s := fun i k => mkSrv i k [] false in
  let t := mkTree 9 (Some g_ro)
             (with_aggs Nat.add (Node 104 (s 4 40) 3 None [Node 105 (s 5 50) 1 None []; Node 101 (s 1 10) 2 None []])) in
  exists t', make_tree Nat.add false false (to_marshal t) (Some g_ro) = Ok t' /\ t' <> t /\
             map (fun x => n_ridx x) (flat (t_root t')) = [3; 4; 0].
Proof. exact wrong_positions_do_not_roundtrip. Qed.
Print Assumptions c06_wrong_positions_do_not_roundtrip.

(* Trees extended by hand. NewTree stores at every node the aggregate of the node's CURRENT
   subtree, whatever was stored there before ... *)
Theorem c06_newtree_stores_current_aggregates : forall G gadd (n x : tnode G),
  In x (flat (with_aggs gadd n)) -> n_agg x = Some (agg_of gadd x).
Proof. exact with_aggs_all. Qed.
Print Assumptions c06_newtree_stores_current_aggregates.

(* ... so NewTree ; AddChild ; NewTree again on the same nodes gives the aggregates of the final
   tree (by induction: any number of AddChild, any number of intermediate NewTree): the sender's
   tree then satisfies [aggs_computed] and c06_roundtrip applies to it. The correspondence
   builds such senders (class sender-extended, propagation class extended) and compares their
   stored aggregates with [with_aggs]. *)
Theorem c06_newtree_after_extension : forall G gadd path (c n : tnode G),
  with_aggs gadd (add_child path c (with_aggs gadd n)) = with_aggs gadd (add_child path c n).
Proof. exact newtree_after_extension. Qed.
Print Assumptions c06_newtree_after_extension.

Example c06_extension_example :
  let s := fun i k => mkSrv i k [] false in
  let t1 := with_aggs Nat.add (Node 101 (s 1 10) 0 None [Node 102 (s 2 20) 1 None []]) in
  let t2 := with_aggs Nat.add (add_child [0] (Node 104 (s 4 40) 3 None [])
                                 (add_child [] (Node 103 (s 3 30) 2 None []) t1)) in
  map (fun x => n_agg x) (flat t1) = [Some 30; Some 20] /\
  map (fun x => n_agg x) (flat t2) = [Some 100; Some 60; Some 40; Some 30].
Proof. exact extension_example. Qed.
Print Assumptions c06_extension_example.
