(* C15 -- Streams deliver everything in order and end cleanly whoever leaves first.
   Statements only; proofs are in Api/StreamProofs.v. [run fx (init m0 n) acts]
   ranges over every interleaving of the client (further valid or undecodable
   messages, leaving), the service (emitting on / closing its n channels), the
   reader goroutine, the write loop, the adapter, the stoppers and the forwarders
   of one streaming session whose first message is m0; [srun] over several
   sessions on one server. [fixed] is the code of /repo as it is now (the repairs of F18,
   F19 and C15-N1 are fix: commits there; Corr/C15.v compares with this variant),
   [pinned] the code before those commits, kept so that the refutations stay in
   the development. [quiescent fx s]: no goroutine of the
   session can move (it waits for the client or the service). *)
From Coq Require Import List Arith.
Import ListNotations.
From Onet Require Import Api.Stream Api.StreamProofs Api.StreamStop Api.StreamStopProofs Corr.C15 Api.StreamCheckProofs.

(* ---- the server does not crash -------------------------------------------- *)

(* no send on a closed channel, no second close, in any interleaving *)
Theorem c15_no_crash : forall m0 n acts s,
  run fixed (init m0 n) acts = Some s -> crashed s = false.
Proof. exact no_crash. Qed.
Print Assumptions c15_no_crash.

(* F19 (repaired in /repo): pinned code, a follow-up message races with the end of the stream *)
Theorem c15_send_on_closed_refuted :
  exists acts s, run pinned (init (MReq 0) 1) acts = Some s /\ crashed s = true.
Proof. exact send_on_closed_refuted. Qed.
Print Assumptions c15_send_on_closed_refuted.

(* F18 (repaired in /repo): pinned code, one undecodable follow-up message, then the service ends ... *)
Theorem c15_double_close_refuted :
  exists acts s, run pinned (init (MReq 0) 1) acts = Some s /\ crashed s = true.
Proof. exact double_close_refuted. Qed.
Print Assumptions c15_double_close_refuted.

(* ... or emits one more value *)
Theorem c15_send_on_closed_out_refuted :
  exists acts s, run pinned (init (MReq 0) 1) acts = Some s /\ crashed s = true.
Proof. exact send_on_closed_out_refuted. Qed.
Print Assumptions c15_send_on_closed_out_refuted.

(* C15-N1 (repaired in /repo): pinned code, two requests on two service channels, the first one ends *)
Theorem c15_first_end_refuted :
  exists acts s, run pinned (init (MReq 0) 2) acts = Some s /\ crashed s = true.
Proof. exact first_end_refuted. Qed.
Print Assumptions c15_first_end_refuted.

(* the pinned code away from its defects: a client that never sends a further
   message (it reads, closes or drops) cannot crash the server *)
Theorem c15_pinned_no_crash_without_followups : forall m0 n acts s,
  Forall no_send acts -> run pinned (init m0 n) acts = Some s -> crashed s = false.
Proof. exact pinned_no_crash_without_followups. Qed.
Print Assumptions c15_pinned_no_crash_without_followups.

Example c15_pinned_no_followups_example :
  exists acts s, Forall no_send acts /\ run pinned (init (MReq 0) 1) acts = Some s /\ census s = 0.
Proof. exact pinned_no_followups_example. Qed.
Print Assumptions c15_pinned_no_followups_example.

(* ---- every message, in order, then the normal close ------------------------ *)

(* both variants, every reachable state: on a service channel that one request
   answers on, written ++ dropped ++ in outChan ++ in the forwarder's hand ++ in
   the service channel = emitted (so: order, no duplicate, nothing invented) *)
Theorem c15_order_pipeline : forall fx m0 n acts s c ch,
  run fx (init m0 n) acts = Some s ->
  nth_error (svc s) c = Some ch -> count_rc c (reqs (pc s)) <= 1 ->
  on_chan c (wmsgs (wsout (nt s)) ++ dropped (nt s) ++ out (pc s)) ++
  held c (reqs (pc s)) ++ buf ch = emitted ch.
Proof. exact order_pipeline. Qed.
Print Assumptions c15_order_pipeline.

Theorem c15_order_prefix : forall fx m0 n acts s c ch,
  run fx (init m0 n) acts = Some s ->
  nth_error (svc s) c = Some ch -> count_rc c (reqs (pc s)) <= 1 ->
  prefix_of (on_chan c (wmsgs (wsout (nt s)))) (emitted ch).
Proof. exact order_prefix. Qed.
Print Assumptions c15_order_prefix.

(* the service ends first, the client stays: everything emitted, then CloseNormal *)
Theorem c15_order_complete : forall m0 n acts s,
  run fixed (init m0 n) acts = Some s -> quiescent fixed s ->
  cleft (nt s) = false ->
  (forall c ch, nth_error (svc s) c = Some ch -> sclosed ch = true) ->
  exists msgs,
    wsout (nt s) = map SMsg msgs ++ [SClose CNormal] /\
    forall c ch, nth_error (svc s) c = Some ch -> count_rc c (reqs (pc s)) = 1 ->
                 on_chan c msgs = emitted ch.
Proof. exact order_complete. Qed.
Print Assumptions c15_order_complete.

Example c15_order_complete_example :
  exists acts s, run fixed (init (MReq 0) 1) acts = Some s /\ quiescentb fixed s = true /\
    cleft (nt s) = false /\ forallb sclosed (svc s) = true /\
    wsout (nt s) = [SMsg (0, 1); SMsg (0, 2); SMsg (0, 3); SClose CNormal] /\ census s = 0.
Proof. exact order_complete_example. Qed.
Print Assumptions c15_order_complete_example.

(* C15-N2: several requests answered on one service channel: order is lost *)
Theorem c15_order_shared_refuted :
  exists acts s ch, run fixed (init (MReq 0) 1) acts = Some s /\
    nth_error (svc s) 0 = Some ch /\ emitted ch = [1; 2] /\
    on_chan 0 (wmsgs (wsout (nt s))) = [2; 1].
Proof. exact order_shared_refuted. Qed.
Print Assumptions c15_order_shared_refuted.

(* ---- the client leaves first: the service is told to stop ------------------ *)

Theorem c15_stop_signalled : forall m0 n acts s,
  run fixed (init m0 n) acts = Some s -> quiescent fixed s -> cleft (nt s) = true ->
  forall k r, nth_error (reqs (pc s)) k = Some r -> stp r = true.
Proof. exact stop_signalled. Qed.
Print Assumptions c15_stop_signalled.

Example c15_stop_signalled_example :
  exists acts s, run fixed (init (MReq 0) 1) acts = Some s /\ quiescentb fixed s = true /\
    cleft (nt s) = true /\ map stp (reqs (pc s)) = [true].
Proof. exact stop_signalled_example. Qed.
Print Assumptions c15_stop_signalled_example.

(* F18, second face: pinned code never tells the service after an undecodable follow-up *)
Theorem c15_stop_refuted :
  exists acts s, run pinned (init (MReq 0) 1) acts = Some s /\ quiescentb pinned s = true /\
    cleft (nt s) = true /\ crashed s = false /\ map stp (reqs (pc s)) = [false].
Proof. exact stop_refuted. Qed.
Print Assumptions c15_stop_refuted.

(* the stoppers in detail (Api/StreamStop.v: lock / test / close as separate steps):
   for any number of requests, any sharing of stop channels among them and any
   interleaving, no stop channel is closed twice *)
Theorem c15_stop_closed_once : forall chans acts s,
  srun1 true (sinit1 chans) acts = Some s -> scrash s = false /\ NoDup (closes s).
Proof. exact stop_closed_once. Qed.
Print Assumptions c15_stop_closed_once.

(* without the mutex around test-and-close two requests sharing a stop channel crash the server *)
Theorem c15_stop_closed_twice_refuted :
  exists acts s, srun1 false (sinit1 [0; 0]) acts = Some s /\ scrash s = true.
Proof. exact stop_closed_twice_refuted. Qed.
Print Assumptions c15_stop_closed_twice_refuted.

Example c15_stop_shared_example :
  exists acts s, srun1 true (sinit1 [0; 0]) acts = Some s /\ closes s = [0] /\
    map snd (stoppers s) = [PDone; PDone].
Proof. exact stop_shared_example. Qed.
Print Assumptions c15_stop_shared_example.

Theorem c15_quiescentb_sound : forall fx s, quiescentb fx s = true -> quiescent fx s.
Proof. exact quiescentb_sound. Qed.
Print Assumptions c15_quiescentb_sound.

(* ---- nothing stays blocked -------------------------------------------------- *)

Theorem c15_no_block : forall m0 n acts s,
  run fixed (init m0 n) acts = Some s -> quiescent fixed s ->
  (forall c ch, nth_error (svc s) c = Some ch -> sclosed ch = true) ->
  length (out (pc s)) < out_cap ->
  rd (wk s) = RExit /\ wr (wk s) = WExit /\ ad (pc s) = AExit /\
  (forall k r, nth_error (reqs (pc s)) k = Some r -> fw r = FExit /\ stp r = true) /\
  census s = 0.
Proof. exact no_block. Qed.
Print Assumptions c15_no_block.

(* the write loop, whichever way it leaves (also "the service ended the stream"),
   closes [done]; a reader parked with a follow-up in its hand because nobody takes
   from the full clientInputs any more then leaves and closes clientInputs *)
Theorem c15_writer_gone_releases_reader : forall m0 n acts s,
  run fixed (init m0 n) acts = Some s -> wr (wk s) <> WLoop ->
  done (wk s) = true /\
  (forall m, rd (wk s) = RHave m ->
     exists s1 s2, step fixed s RdDone = Some s1 /\ step fixed s1 RdFinish = Some s2 /\
                   rd (wk s2) = RExit /\ cin_closed (wk s2) = true).
Proof. exact writer_gone_releases_reader. Qed.
Print Assumptions c15_writer_gone_releases_reader.

Example c15_writer_gone_releases_reader_example :
  exists acts s m, run fixed (init (MReq 0) 1) acts = Some s /\ wr (wk s) <> WLoop /\
    rd (wk s) = RHave m /\ length (cin (wk s)) = cin_cap /\ ad (pc s) = AExit.
Proof. exact writer_gone_releases_reader_example. Qed.
Print Assumptions c15_writer_gone_releases_reader_example.

(* ---- other clients are unaffected ------------------------------------------- *)

Theorem c15_sys_no_crash : forall l acts s,
  srun fixed (sinit l) acts = Some s -> sys_crashed s = false.
Proof. exact sys_no_crash. Qed.
Print Assumptions c15_sys_no_crash.

Theorem c15_streams_footprint : forall fx s i a s' j,
  sstep fx s (i, a) = Some s' -> i <> j -> nth_error s' j = nth_error s j.
Proof. exact sstep_other. Qed.
Print Assumptions c15_streams_footprint.

Theorem c15_streams_independent : forall l acts s j c racts c',
  srun fixed (sinit l) acts = Some s -> nth_error s j = Some c ->
  run fixed c racts = Some c' ->
  exists s', srun fixed s (map (pair j) racts) = Some s' /\ nth_error s' j = Some c' /\
             forall i, i <> j -> nth_error s' i = nth_error s i.
Proof. exact sessions_independent. Qed.
Print Assumptions c15_streams_independent.

(* pinned code: a bystander's ready message is never delivered *)
Theorem c15_bystander_refuted :
  exists acts s c1 c1', srun pinned (sinit [(MReq 0, 1); (MReq 0, 1)]) acts = Some s /\
    nth_error s 1 = Some c1 /\ step pinned c1 WrFwd = Some c1' /\
    sstep pinned s (1, WrFwd) = None.
Proof. exact bystander_refuted. Qed.
Print Assumptions c15_bystander_refuted.

(* ---- the trace validator used by the correspondence -------------------------- *)

(* every state the validator holds after a list of observed events is reachable in
   the transition system: an observation it accepts is something the model can do *)
Theorem c15_explain_reachable : forall fx m0 n evs res,
  explain fx m0 n evs = Some res -> forall s, In s res -> exists acts, run fx (init m0 n) acts = Some s.
Proof. exact explain_reachable. Qed.
Print Assumptions c15_explain_reachable.

Theorem c15_explain_fixed_never_crashed : forall m0 n evs res,
  explain fixed m0 n evs = Some res -> forall s, In s res -> crashed s = false.
Proof. exact explain_fixed_never_crashed. Qed.
Print Assumptions c15_explain_fixed_never_crashed.

(* ---- the property checker run on the implementation's observations ----------- *)

(* check (clause numbers violated by an observed scenario) is empty exactly when the
   observation satisfies the property as stated on events: no crash; per session
   order / no invention, completeness + normal close when the service ended and the
   client stayed, stop for every request when the client left first, the first request of every session reaches the service; no
   goroutine left once everything is over *)
Theorem c15_check_spec : forall c, check c = [] <-> spec c.
Proof. exact check_spec. Qed.
Print Assumptions c15_check_spec.
