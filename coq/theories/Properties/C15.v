(* C15 -- Streams deliver everything in order and end cleanly whoever leaves first.
   Statements only; proofs are in Api/StreamProofs.v. [run fx (init m0 n) acts]
   ranges over every interleaving of the client (further valid or undecodable
   messages, leaving), the service (emitting on / closing its channels), the
   reader goroutine, the write loop, the adapter, the stoppers and the forwarders
   of one streaming session whose first message is m0; [fixed] is the code with
   proposed_fixes/C15-F18.diff and C15-F19.diff, [pinned] the code as it is. *)
From Coq Require Import List Arith.
Import ListNotations.
From Onet Require Import Api.Stream Api.StreamProofs.

(* no send on a closed channel, no second close, in any interleaving *)
Theorem c15_no_crash : forall m0 n acts s,
  run fixed (init m0 n) acts = Some s -> crashed s = false.
Proof. exact no_crash. Qed.
Print Assumptions c15_no_crash.

(* F19: pinned code, a follow-up message races with the end of the stream *)
Theorem c15_send_on_closed_refuted :
  exists acts s, run pinned (init (MReq 0) 1) acts = Some s /\ crashed s = true.
Proof. exact send_on_closed_refuted. Qed.
Print Assumptions c15_send_on_closed_refuted.

(* F18: pinned code, one undecodable follow-up message *)
Theorem c15_double_close_refuted :
  exists acts s, run pinned (init (MReq 0) 1) acts = Some s /\ crashed s = true.
Proof. exact double_close_refuted. Qed.
Print Assumptions c15_double_close_refuted.
